#!/usr/bin/env bash
# X05: discharge the inductive-invariant obligations of specs/apalache/*.tla with Apalache and
# cross-check the same invariants with TLC on small constants.
#
#   tools/run_apalache.sh [quick|thorough]
#
# One line per item on stdout:
#   PARAM      <module> <name> <value>
#   OBLIGATION <module> <name> OK|FAIL|TIMEOUT <seconds>     proof obligation (must hold)
#   CONTROL    <module> <name> OK|FAIL|TIMEOUT <seconds>     negative control: Apalache MUST report a
#                                                            violation (OK = it did): IndInit is
#                                                            satisfiable, every action is enabled in
#                                                            some IndInv state, a weak invariant is rejected
#   CROSSCHECK <module> <name> OK|FAIL|TIMEOUT <seconds> generated=<n> distinct=<n>   TLC, small constants
# Exit 0 iff every line is OK.  Every checker call runs under `timeout 900`.  All output goes to
# /verif/out/apalache (never /tmp).
#
# Not re-entrant: one invocation at a time (it recreates /verif/out/apalache/{runs,logs,res,gen,tlc}).
# Environment: X05_K     channel bound K of MC_PowerDistributorInd (default: 16 quick, 50 thorough)
#              X05_JOBS  checker processes run at a time (default 4; the machine is shared)
set -u

TIER="${1:-quick}"
VERIF="$(cd "$(dirname "${BASH_SOURCE[0]}")/.." && pwd)"
SPECS="$VERIF/specs/apalache"
OUT="$VERIF/out/apalache"
TMO=900
JOBS="${X05_JOBS:-4}"
case "$TIER" in
  quick) K_DEFAULT=16 ;;
  thorough) K_DEFAULT=50 ;;
  *) echo "usage: $0 [quick|thorough]" >&2; exit 2 ;;
esac
K="${X05_K:-$K_DEFAULT}"
TLA_JAR="/opt/veriftools/tla/tla2tools.jar:/opt/veriftools/tla/CommunityModules-deps.jar"

rm -rf "$OUT/runs" "$OUT/logs" "$OUT/res" "$OUT/gen" "$OUT/tlc"
mkdir -p "$OUT/runs" "$OUT/logs" "$OUT/res" "$OUT/gen" "$OUT/tlc"
export TMPDIR="$OUT/tmp"; mkdir -p "$TMPDIR"
export JAVA_TOOL_OPTIONS="-Djava.io.tmpdir=$TMPDIR"

# the PowerDistributor module with the requested channel bound (the committed file has K == 16)
PD="$OUT/gen/MC_PowerDistributorInd.tla"
sed -e "s/^K == [0-9][0-9]*\$/K == $K/" "$SPECS/MC_PowerDistributorInd.tla" > "$PD"
grep -q "^K == $K\$" "$PD" || { echo "cannot set K in $PD" >&2; exit 2; }
BL="$SPECS/MC_BlockingInd.tla"

N=0
throttle() { while [ "$(jobs -rp | wc -l)" -ge "$JOBS" ]; do wait -n; done; }

# apa <seq> <OBLIGATION|CONTROL> <module> <name> <file> <cinit> <init> <inv> <length>
apa() {
  local seq="$1" kind="$2" mod="$3" name="$4" file="$5" cinit="$6" init="$7" inv="$8" len="$9"
  local log="$OUT/logs/$mod.$name.log" t0 t1 rc st
  t0=$(date +%s.%N)
  echo "CMD: timeout $TMO apalache-mc check --out-dir=$OUT/runs/$mod.$name --cinit=$cinit --init=$init --inv=$inv --length=$len $file" > "$log"
  timeout -k 10 $TMO apalache-mc check --out-dir="$OUT/runs/$mod.$name" --cinit="$cinit" --init="$init" \
      --inv="$inv" --length="$len" "$file" >> "$log" 2>&1
  rc=$?
  t1=$(date +%s.%N)
  if [ $rc -eq 124 ] || [ $rc -eq 137 ]; then st=TIMEOUT
  elif [ "$kind" = OBLIGATION ]; then
    if [ $rc -eq 0 ] && grep -q "The outcome is: NoError" "$log" && grep -q "EXITCODE: OK" "$log"; then st=OK; else st=FAIL; fi
  else  # CONTROL: a counterexample is expected (exit code 12)
    if [ $rc -eq 12 ] && grep -q "The outcome is: Error" "$log"; then st=OK; else st=FAIL; fi
  fi
  printf '%s %s %s %s %.1f\n' "$kind" "$mod" "$name" "$st" "$(echo "$t1 - $t0" | bc)" > "$OUT/res/$seq.line"
}

# tlc <seq> <module> <name> <root module> <cfg file> [workers]
tlc() {
  local seq="$1" mod="$2" name="$3" root="$4" cfg="$5" workers="${6:-2}"
  local d="$OUT/tlc/$mod.$name" t0 t1 rc st gen dis
  mkdir -p "$d"
  printf -- '---- MODULE XC ----\nEXTENDS %s\n====\n' "$root" > "$d/XC.tla"
  cp "$cfg" "$d/XC.cfg"
  t0=$(date +%s.%N)
  ( cd "$d" && timeout -k 10 $TMO java -XX:+UseParallelGC -Xmx3g \
      "-DTLA-Library=$VERIF/specs:$SPECS:$SPECS/tlclib" -cp "$TLA_JAR" tlc2.TLC \
      -metadir "$d/meta" -noGenerateSpecTE -workers "$workers" -config XC.cfg XC.tla ) > "$d/XC.out" 2>&1
  rc=$?
  t1=$(date +%s.%N)
  rm -rf "$d/meta"
  gen=$(sed -n 's/^\([0-9][0-9]*\) states generated, \([0-9][0-9]*\) distinct states found, 0 states left on queue.*/\1/p' "$d/XC.out" | tail -1)
  dis=$(sed -n 's/^\([0-9][0-9]*\) states generated, \([0-9][0-9]*\) distinct states found, 0 states left on queue.*/\2/p' "$d/XC.out" | tail -1)
  if [ $rc -eq 124 ] || [ $rc -eq 137 ]; then st=TIMEOUT
  elif [ $rc -eq 0 ] && grep -q "Model checking completed. No error has been found." "$d/XC.out" && ! grep -q "Error:" "$d/XC.out"; then st=OK
  else st=FAIL; fi
  printf 'CROSSCHECK %s %s %s %.1f generated=%s distinct=%s\n' "$mod" "$name" "$st" "$(echo "$t1 - $t0" | bc)" "${gen:-0}" "${dis:-0}" > "$OUT/res/$seq.line"
}

next() { N=$((N + 1)); SEQ=$(printf '%03d' $N); }

echo "PARAM MC_PowerDistributorInd K $K"
echo "PARAM all apalache $(apalache-mc version 2>/dev/null | tail -1)"

M=MC_PowerDistributorInd
# the long one first
next; throttle; apa $SEQ OBLIGATION $M Consecution "$PD" CInit IndInit IndInv 1 &
next; throttle; apa $SEQ OBLIGATION $M Initiation "$PD" CInit Init IndInv 0 &
next; throttle; apa $SEQ OBLIGATION $M Safety "$PD" CInit IndInit Safety 0 &
next; throttle; apa $SEQ OBLIGATION $M StepSafety "$PD" CInit IndInit StepSafety 1 &
for c in CtlSend CtlRecv CtlEnter CtlResolve CtlExit CtlCallback; do
  next; throttle; apa $SEQ CONTROL $M $c "$PD" CInit IndInit $c 1 &
done
next; throttle; apa $SEQ CONTROL $M CtlRich "$PD" CInit IndInit CtlRich 0 &
next; throttle; apa $SEQ CONTROL $M WeakInvNotInductive "$PD" CInit WeakInit WeakInv 1 &

M=MC_BlockingInd
next; throttle; apa $SEQ OBLIGATION $M Initiation "$BL" CInit Init IndInv 0 &
next; throttle; apa $SEQ OBLIGATION $M Consecution "$BL" CInit IndInit IndInv 1 &
next; throttle; apa $SEQ OBLIGATION $M Safety "$BL" CInit IndInit Safety 0 &
next; throttle; apa $SEQ OBLIGATION $M StepSafety "$BL" CInit IndInit StepSafety 1 &
next; throttle; apa $SEQ OBLIGATION $M LinInitiation "$BL" CInitLin Init LinInv 0 &
next; throttle; apa $SEQ OBLIGATION $M LinConsecution "$BL" CInitLin LinInit LinInv 1 &
next; throttle; apa $SEQ OBLIGATION $M LinSafety "$BL" CInitLin LinInit LinSafety 0 &
for c in CtlTick CtlBlockFresh CtlBlockExpired CtlUnblock; do
  next; throttle; apa $SEQ CONTROL $M $c "$BL" CInit IndInit $c 1 &
done
next; throttle; apa $SEQ CONTROL $M CtlCapped "$BL" CInit IndInit CtlCapped 0 &
next; throttle; apa $SEQ CONTROL $M WeakInvNotInductive "$BL" CInit WeakInit WeakInv 1 &

# TLC cross-checks
M=MC_PowerDistributorInd
next; throttle; SEQ_T=$SEQ; tlc $SEQ $M TLC_IndInv_Typed MC_PowerDistributorInd "$SPECS/MC_PowerDistributorInd_TLC.cfg" 4 &
next; throttle; SEQ_E=$SEQ; tlc $SEQ $M TLC_Original_vs_Typed MC_PowerDistributorEquiv "$SPECS/MC_PowerDistributorEquiv.cfg" 4 &
M=MC_BlockingInd
for pair in 3:37 1:1 1:30 1:64 7:8 5:320; do
  mn=${pair%%:*}; mx=${pair##*:}
  sed -e "s/MinBlock = [0-9]*/MinBlock = $mn/; s/MaxBlock = [0-9]*/MaxBlock = $mx/" "$SPECS/MC_BlockingInd_TLC.cfg" > "$OUT/gen/MC_BlockingInd_TLC_${mn}_${mx}.cfg"
  next; throttle; tlc $SEQ $M TLC_IndInv_min${mn}_max${mx} MC_BlockingInd "$OUT/gen/MC_BlockingInd_TLC_${mn}_${mx}.cfg" 2 &
done
wait

# same state graph: refinement (checked inside TLC_Original_vs_Typed) + equal counts
next
a=$(sed -n 's/.* \(generated=[0-9]* distinct=[0-9]*\)$/\1/p' "$OUT/res/$SEQ_T.line")
b=$(sed -n 's/.* \(generated=[0-9]* distinct=[0-9]*\)$/\1/p' "$OUT/res/$SEQ_E.line")
if [ -n "$a" ] && [ "$a" = "$b" ] && [ "$a" != "generated=0 distinct=0" ] \
   && grep -q ' OK ' "$OUT/res/$SEQ_T.line" && grep -q ' OK ' "$OUT/res/$SEQ_E.line"; then st=OK; else st=FAIL; fi
echo "CROSSCHECK MC_PowerDistributorInd SameStateCounts_Original_Typed $st 0.0 ${a:-generated=0 distinct=0}" > "$OUT/res/$SEQ.line"

cat "$OUT"/res/*.line
bad=$(cat "$OUT"/res/*.line | grep -c -v -E '^(OBLIGATION|CONTROL|CROSSCHECK) [A-Za-z_0-9]+ [A-Za-z_0-9]+ OK ')
total=$(cat "$OUT"/res/*.line | wc -l)
rm -rf "$TMPDIR"
echo "SUMMARY items=$total not_ok=$bad tier=$TIER K=$K"
[ "$total" -eq "$N" ] && [ "$bad" -eq 0 ]
