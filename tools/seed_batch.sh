#!/bin/sh
# tools/seed_batch.sh <prop> <worktree> <id-infix>   e.g.  tools/seed_batch.sh C03 /tmp/wt2_C03 r2
# confirms mutants m1..m3 (and m4..m6 if present) of a worktree, removes the worktree, evaluates the confirmed ones
cd "$(dirname "$0")/.." || exit 2
p="$1"; wt="$2"; inf="$3"
for d in "$wt"/mutants/m*; do
  [ -d "$d" ] || continue
  k=$(basename "$d")
  python3 tools/seed.py confirm "$wt" "$d" "$p-$inf$k"
done > "out/confirm_${p}_${inf}.log" 2>&1
git -C /repo worktree remove --force "$wt"
for s in seeded/"$p"-"$inf"m*; do
  [ -d "$s" ] || continue
  python3 tools/seed.py eval "$(basename "$s")" quick
done > "out/seed_eval_${p}_${inf}.log" 2>&1
grep -E "^seed" "out/seed_eval_${p}_${inf}.log"
