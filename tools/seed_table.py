#!/usr/bin/env python3
"""Print a markdown table of all seeded changes and what the checks did with them."""
import json
from pathlib import Path

V = Path(__file__).resolve().parent.parent
rows = []
for d in sorted((V / "seeded").iterdir()):
    m = json.loads((d / "meta.json").read_text())
    ev = m.get("evaluations", [])
    last = ev[-1] if ev else {}
    first = ev[0] if ev else {}
    status = "detected" if last.get("detected") else ("MISSED" if ev else "not evaluated")
    ev = [e for e in ev if e.get("exit") in (0, 1)]  # runs killed by the OOM killer are not outcomes
    first = ev[0] if ev else {}
    if ev and first.get("exit") == 0 and last.get("detected"):
        status = "detected after strengthening (first run missed)"
    note = m.get("status_note", "")
    if note.startswith("OUT OF DOMAIN"):
        status = "out of the property's domain (see meta.json)"
    elif note.startswith("OBSOLETE"):
        status = "obsolete after a repair (see meta.json)"
    clauses = ", ".join(c.split(".", 1)[-1] for c in last.get("clauses", [])[:4])
    rows.append(f"| {d.name} | {m.get('summary', '')[:150].replace('|', '/')} | {m.get('needs', '')[:120].replace('|', '/')} | {status} | {clauses} |")
print("| Seed | Change | Needs | Result (quick tier) | Clauses that fired |")
print("|---|---|---|---|---|")
print("\n".join(rows))
