#!/usr/bin/env python3
"""Regenerate MANIFEST.json from the table below (kept valid at all times)."""
import json
import sys
from pathlib import Path

V = Path(__file__).resolve().parent.parent
ALL = [f"C{i:02d}" for i in range(1, 21)]

# property -> (spec files, design section, text, note, technique)
CLAIMED = {
    "C03": (
        "specs/Matryoshka.tla + MatryoshkaOps.tla + MatryoshkaTrace.tla",
        "DESIGN.md 5/C03",
        "TLC checks Envelope/MemoConsistent/ExpiredDoNotCount on every bucket x system-bounds state of a small grid and on every "
        "reachable state of the proposal/replace/expire/bounds-change state machine; every TLC-enumerated state (installed through "
        "three arrival orders incl. replaced and expired proposals) and every explored transition's history is replayed into the real "
        "Matryoshka class and the recorded targets are validated by TLC against the trace specification (target = function of live "
        "set and bounds; envelope on the code's value).",
        "small scope (2-4 actors, integer grid up to +-3 W); floats beyond exact small integers not decided; distinct priorities",
        "TLA+ spec model-checked with TLC; spec behaviours replayed into the real class; recorded traces validated by TLC trace spec",
    ),
    "C04": (
        "specs/Matryoshka.tla + MatryoshkaOps.tla + MatryoshkaTrace.tla",
        "DESIGN.md 5/C04",
        "TLC checks the transcribed sweep against an independently written declarative definition (closest admissible value, "
        "reported range honoured, adjust_to_bounds agreement, empty proposal = no proposal) over all states of a small grid; the same "
        "predicates are then evaluated by TLC on what the real class returned (targets, get_status bounds, adjust_to_bounds, and the "
        "target obtained when an actor prefers each grid value) for every enumerated state and replayed history.",
        "small scope; the C04 reading fixed in DESIGN 5/C04 (zero preference may stay zero inside the zone)",
        "TLA+ spec model-checked with TLC; spec behaviours replayed into the real class; recorded traces validated by TLC trace spec",
    ),
    "C14": (
        "specs/PowerDistributor.tla + PowerDistributorTrace.tla",
        "DESIGN.md 5/C14",
        "TLC checks NoOverlap, PendingIsLatest, QuiescentLatestApplied, EnteredIncreasing, DisjointIndependent and, under weak "
        "fairness, LastRequestApplied on the actor's state machine (send / receive / enter / resolve / exit / done-callback) for "
        "2-3 groups and up to 5 requests; TLC-generated behaviours (every transition of the generation model plus simulated long "
        "ones) are turned into injection schedules for the real PowerDistributingActor pumped one loop iteration at a time with a "
        "probe ComponentManager; each recorded execution is validated by TLC: observation-only clauses (no overlap, latest wins at "
        "every idle point and after the drain, also after a raising distribution) and existential conformance with the spec.",
        "single-threaded asyncio: loop-iteration granularity is the complete schedule space; the distribution itself is replaced by a probe",
        "TLA+ spec model-checked with TLC (safety + liveness); TLC behaviours drive the real actor; recorded traces validated by TLC trace spec",
    ),
}

NOT_YET = "check not built yet in this round (planned: see DESIGN.md section 5); not claimed until its specification is bound to the code"


def main() -> None:
    checks = []
    for pid, (spec, ref, text, note, tech) in CLAIMED.items():
        checks.append(
            dict(
                property_id=pid,
                quick_cmd=f"./check {pid} --tier quick",
                thorough_cmd=f"./check {pid} --tier thorough",
                evidence_file=f"/verif/evidence/{pid}.json",
                replay_cmd_template=f"./check {pid} --replay {{path}}",
                engine="tlc-conformance",
                level_claimed=dict(category="model_checking", text=text, design_ref=ref),
                level_note=note,
                technique=tech,
            )
        )
    extra = json.loads((V / "tools" / "manifest_extra.json").read_text()) if (V / "tools" / "manifest_extra.json").exists() else {}
    na = []
    for pid in ALL:
        if pid not in CLAIMED:
            na.append(dict(property_id=pid, reason=extra.get("not_applicable", {}).get(pid, NOT_YET)))
    man = dict(
        version=1,
        setup_cmd="./setup.sh",
        hooks=dict(
            guard="FREQUENZ_SDK_VERIF",
            enable="checks export FREQUENZ_SDK_VERIF=1 and import the working tree from $VERIF_REPO/src (default /repo/src); nothing is built or installed",
            baseline_off_cmd="cd /repo && env -u FREQUENZ_SDK_VERIF /venv/bin/python -m pytest -ra -q -p no:cacheprovider --timeout=900 --continue-on-collection-errors",
            source_commits=extra.get("source_commits", []),
            add_only=True,
        ),
        engines=[
            dict(
                name="tlc-conformance",
                path="/verif/check",
                serves_properties=sorted(CLAIMED),
                kind_free_text="TLA+ specifications (specs/*.tla) model-checked with TLC; TLC-generated behaviours replayed into the real "
                "Python classes (harness/), recorded implementation traces validated by TLC against *Trace.tla",
            )
        ],
        checks=checks,
        not_applicable=na,
        notes="All decisions are made by TLC on TLA+ specifications; Python drives the implementation and keeps books. See DESIGN.md.",
    )
    (V / "MANIFEST.json").write_text(json.dumps(man, indent=1) + "\n")
    try:
        import jsonschema

        jsonschema.validate(man, json.load(open("/root/.vp/MANIFEST.schema.json")))
        print("MANIFEST.json valid;", len(checks), "checks")
    except ImportError:
        print("MANIFEST.json written (jsonschema unavailable)")


if __name__ == "__main__":
    main()
