#!/usr/bin/env python3
"""Regenerate MANIFEST.json from the table below (kept valid at all times)."""
import json
import sys
from pathlib import Path

V = Path(__file__).resolve().parent.parent
ALL = [f"C{i:02d}" for i in range(1, 21)]

# property -> (spec files, design section, text, note, technique)
CLAIMED = {k: (v["spec"], v["design_ref"], v["text"], v["note"], v["technique"]) for k, v in json.loads((V / "tools" / "claims.json").read_text()).items()}

NOT_YET = "check not built yet in this round (planned: see DESIGN.md section 5); not claimed until its specification is bound to the code"


def main() -> None:
    checks = []
    for pid, (spec, ref, text, note, tech) in CLAIMED.items():
        checks.append(
            dict(
                property_id=pid,
                quick_cmd=f"./check {pid} --tier quick",
                thorough_cmd=f"./check {pid} --tier thorough",
                evidence_file=f"/verif/evidence/{pid}.json",
                replay_cmd_template=f"./check {pid} --replay {{path}}",
                engine="tlc-conformance",
                level_claimed=dict(category="model_checking", text=text, design_ref=ref),
                level_note=note,
                technique=tech,
            )
        )
    extra = json.loads((V / "tools" / "manifest_extra.json").read_text()) if (V / "tools" / "manifest_extra.json").exists() else {}
    na = []
    for pid in ALL:
        if pid not in CLAIMED:
            na.append(dict(property_id=pid, reason=extra.get("not_applicable", {}).get(pid, NOT_YET)))
    man = dict(
        version=1,
        setup_cmd="./setup.sh",
        hooks=dict(
            guard="FREQUENZ_SDK_VERIF",
            enable="checks export FREQUENZ_SDK_VERIF=1 and import the working tree from $VERIF_REPO/src (default /repo/src); nothing is built or installed",
            baseline_off_cmd="cd /repo && env -u FREQUENZ_SDK_VERIF /venv/bin/python -m pytest -ra -q -p no:cacheprovider --timeout=900 --continue-on-collection-errors",
            source_commits=extra.get("source_commits", []),
            add_only=True,
        ),
        engines=[
            dict(
                name="tlc-conformance",
                path="/verif/check",
                serves_properties=sorted(CLAIMED),
                kind_free_text="TLA+ specifications (specs/*.tla) model-checked with TLC; TLC-generated behaviours replayed into the real "
                "Python classes (harness/), recorded implementation traces validated by TLC against *Trace.tla",
            )
        ],
        checks=checks,
        not_applicable=na,
        notes="All decisions are made by TLC on TLA+ specifications; Python drives the implementation and keeps books. See DESIGN.md.",
    )
    (V / "MANIFEST.json").write_text(json.dumps(man, indent=1) + "\n")
    try:
        import jsonschema

        jsonschema.validate(man, json.load(open("/root/.vp/MANIFEST.schema.json")))
        print("MANIFEST.json valid;", len(checks), "checks")
    except ImportError:
        print("MANIFEST.json written (jsonschema unavailable)")


if __name__ == "__main__":
    main()
