#!/usr/bin/env python3
"""Seeded-change bookkeeping.

  tools/seed.py confirm <worktree> <mutant-dir> <seed-id>
      in the scratch worktree: demo passes on the clean tree, patch applies, demo fails with it,
      the full existing test suite passes with it; then copies patch/demo/meta to seeded/<seed-id>/
  tools/seed.py eval <seed-id> [tier]
      applies seeded/<seed-id>/patch.diff to a scratch copy of /repo/src (under /verif/out), runs the
      check of the property it breaks with VERIF_REPO pointing there, prints the outcome, removes it
  tools/seed.py eval-inplace <seed-id> [tier]
      the same through `git -C /repo apply` + `git -C /repo checkout -- .` (only when nothing else uses /repo)
"""
import json
import os
import shutil
import subprocess
import sys
from pathlib import Path

V = Path(__file__).resolve().parent.parent
PY = "/venv/bin/python"


def sh(cmd, cwd=None, env=None, timeout=3600):
    e = dict(os.environ)
    e.update(env or {})
    p = subprocess.run(cmd, cwd=cwd, env=e, shell=isinstance(cmd, str), capture_output=True, text=True, timeout=timeout)
    return p.returncode, (p.stdout + p.stderr)


def run_demo(wt: Path, demo: Path):
    env = {"PYTHONPATH": f"{wt}/src", "PYTHONHASHSEED": "0"}
    first = demo.read_text().splitlines()[0] if demo.exists() else ""
    if "pytest" in first or demo.name.startswith("test_") or "def test_" in demo.read_text():
        return sh([PY, "-m", "pytest", "-q", "-p", "no:cacheprovider", "--timeout=300", str(demo)], cwd=wt, env=env)
    return sh([PY, str(demo)], cwd=wt, env=env)


def confirm(wt: Path, mdir: Path, sid: str) -> int:
    patch, demo, meta = mdir / "patch.diff", mdir / "demo.py", mdir / "meta.json"
    sh("git checkout -- src tests", cwd=wt)
    rc0, out0 = run_demo(wt, demo)
    print(f"[clean] demo rc={rc0}")
    rc, out = sh(["git", "apply", "--check", str(patch)], cwd=wt)
    if rc:
        print("patch does not apply:", out[-500:])
        return 1
    sh(["git", "apply", str(patch)], cwd=wt)
    try:
        rc1, out1 = run_demo(wt, demo)
        print(f"[patched] demo rc={rc1}")
        rct, outt = sh(
            [PY, "-m", "pytest", "-q", "-p", "no:cacheprovider", "--timeout=900", "--continue-on-collection-errors", "-x", "tests"],
            cwd=wt, env={"PYTHONPATH": f"{wt}/src"},
        )
        import re

        m = re.findall(r"(\d+) passed[^\n]*", outt)
        tail = (m[-1] + " passed") if m else (outt.strip().splitlines()[-1] if outt.strip() else "")
        mm = re.search(r"=+ (.*passed.*) =+", outt)
        if mm:
            tail = mm.group(1)
        print(f"[patched] test suite rc={rct}: {tail}")
    finally:
        sh("git checkout -- src tests", cwd=wt)
    ok = rc0 == 0 and rc1 != 0 and rct == 0 and "332 passed" in tail and "failed" not in tail
    print("CONFIRMED" if ok else "NOT CONFIRMED")
    if ok:
        dst = V / "seeded" / sid
        dst.mkdir(parents=True, exist_ok=True)
        shutil.copy(patch, dst / "patch.diff")
        shutil.copy(demo, dst / "demo.py")
        m = json.loads(meta.read_text()) if meta.exists() else {}
        m["confirmed"] = dict(demo_clean_rc=rc0, demo_patched_rc=rc1, suite_with_patch=tail,
                              how="tools/seed.py confirm in a scratch git worktree of /repo (removed afterwards)")
        (dst / "meta.json").write_text(json.dumps(m, indent=1) + "\n")
    return 0 if ok else 1


def evaluate(sid: str, tier: str, inplace: bool) -> int:
    d = V / "seeded" / sid
    meta = json.loads((d / "meta.json").read_text())
    prop = meta["property"]
    if inplace:
        rc, out = sh(["git", "-C", "/repo", "apply", str(d / "patch.diff")])
        if rc:
            print(out)
            return 2
        try:
            rc, out = sh(["./check", prop, "--tier", tier], cwd=V, env={"VERIF_EVIDENCE_DIR": str(V / "out" / "seed_evidence")})
        finally:
            sh("git -C /repo checkout -- .")
    else:
        scratch = V / "out" / f"seedrepo_{sid}"
        shutil.rmtree(scratch, ignore_errors=True)
        scratch.mkdir(parents=True)
        sh(["rsync", "-a", "/repo/src", "/repo/tests", str(scratch) + "/"])
        pf = d / "patch_rebased.diff" if (d / "patch_rebased.diff").exists() else d / "patch.diff"  # re-based after repairs in /repo
        rc, out = sh(["patch", "-p1", "-i", str(pf)], cwd=scratch)
        if rc:
            print("patch failed", out[-400:])
            return 2
        try:
            rc, out = sh(["./check", prop, "--tier", tier], cwd=V,
                         env={"VERIF_REPO": str(scratch), "VERIF_EVIDENCE_DIR": str(V / "out" / "seed_evidence")})
        finally:
            shutil.rmtree(scratch, ignore_errors=True)
    lines = [x for x in out.splitlines() if x.startswith(("VIOLATION", "  clause", "KNOWN", prop, "MACHINERY", "  ("))]
    print("\n".join(lines[:8]))
    print(f"seed {sid}: check {prop} {tier} exit={rc} -> {'DETECTED' if rc == 1 else 'MISSED' if rc == 0 else 'ERROR'}")
    res = dict(check=f"./check {prop} --tier {tier}", exit=rc, detected=(rc == 1),
               clauses=sorted({x.split('clause=')[1].split()[0] for x in out.splitlines() if 'clause=' in x}))
    meta.setdefault("evaluations", []).append(res)
    (d / "meta.json").write_text(json.dumps(meta, indent=1) + "\n")
    return 0


if __name__ == "__main__":
    a = sys.argv[1:]
    if a[0] == "confirm":
        sys.exit(confirm(Path(a[1]), Path(a[2]), a[3]))
    if a[0] in ("eval", "eval-inplace"):
        sys.exit(evaluate(a[1], a[2] if len(a) > 2 else "quick", a[0] == "eval-inplace"))
    print(__doc__)
