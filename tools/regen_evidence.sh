#!/bin/sh
# Re-runs every registered quick check (and the extensions) on /repo, one after the other, so that
# every evidence/<id>.json comes from a run of the committed machinery against the current tree.
cd "$(dirname "$0")/.." || exit 2
rc=0
for p in $(python3 -c "import json;print(' '.join(c['property_id'] for c in json.load(open('MANIFEST.json'))['checks']))") $(sed -n 's/^ *"\(X[0-9][0-9]\)": .*/\1/p' harness/main.py); do
  s=$(date +%s)
  ./check "$p" --tier quick > "out/regen_$p.log" 2>&1
  e=$?
  echo "$p exit=$e $(( $(date +%s) - s ))s $(grep -c '^KNOWN-FINDING' out/regen_$p.log) known-finding lines; $(tail -1 out/regen_$p.log)"
  [ "$e" = 0 ] || rc=1
done
exit $rc
