#!/usr/bin/env python3
"""Print the per-property as-built table from evidence/*.json and tools/claims.json."""
import json
from pathlib import Path

V = Path(__file__).resolve().parent.parent
claims = json.loads((V / "tools" / "claims.json").read_text())
print("| Prop | Specification | TLC states / transitions (last quick run) | Impl. traces validated | Failing / known | Wall s |")
print("|---|---|---|---|---|---|")
for pid in sorted(claims):
    f = V / "evidence" / f"{pid}.json"
    if not f.exists():
        continue
    e = json.loads(f.read_text())
    c = e["coverage"]
    print(f"| {pid} | {claims[pid]['spec']} | {c.get('states')} / {c.get('transitions')} | {c.get('traces_validated_against_impl')} | "
          f"{c.get('failing_records', 0)} / {sum((c.get('known_findings_fired') or {}).values())} | {e.get('wall_s')} ({e.get('tier')}) |")
