#!/bin/sh
# Runs the extension checks (specification coverage beyond the 20 listed properties; DESIGN.md 13).
cd "$(dirname "$0")/.." || exit 2
tier="${1:-quick}"
rc=0
for x in $(sed -n 's/^ *"\(X[0-9][0-9]\)": .*/\1/p' harness/main.py); do
  ./check "$x" --tier "$tier" | tail -3 || rc=1
done
exit $rc
