"""X01: ResamplingActor.tla — the real ComponentMetricsResamplingActor (real ChannelRegistry, real
Resampler) under the virtual-time loop.  TLC model-checks the design and enumerates the environment's
event orders (requests incl. duplicates, a source that stops, a sink that fails, seconds passing); the
harness crosses them with injection offsets (loop iterations run before an event is injected: at asyncio
granularity that is the schedule space), plays the data-sourcing actor and the consumers, pumps the loop
one iteration at a time and records what became visible.  TLC validates every recorded execution against
ResamplingActorTrace.tla, which evaluates every X01 clause on what the code published."""

from __future__ import annotations

import json
import random
from datetime import timedelta
from pathlib import Path

from .common import SEED, Timer, scratch
from .pipeline import load_ndjson, replay_parallel, subsample, validate_shards
from .tlc import read_emitted, run_tlc
from .verdict import Report

NONE = -99
NS = "verif"
MAX_OFF = 10  # a tick's burst takes about ten loop iterations


# ---------------------------------------------------------------------------
class Exec:
    """One execution of the real actor under the manual loop."""

    def __init__(self, cfg: dict) -> None:
        import asyncio

        from frequenz.channels import Broadcast, Sender
        from frequenz.client.microgrid import ComponentMetricId
        from frequenz.quantities import Quantity

        from frequenz.sdk._internal._channels import ChannelRegistry
        from frequenz.sdk.microgrid._data_sourcing import ComponentMetricRequest
        from frequenz.sdk.microgrid._resampling import ComponentMetricsResamplingActor
        from frequenz.sdk.timeseries import ResamplerConfig, Sample
        from frequenz.sdk.timeseries._resampling import ResamplingError

        from .vloop import EPOCH, ManualLoop

        self.P: int = cfg["P"]
        self.c: int = cfg["c"]
        self.Sample, self.Quantity, self.EPOCH = Sample, Quantity, EPOCH
        self.MetricId = ComponentMetricId
        self.Request = ComponentMetricRequest
        self.obs: list[dict] = []
        self.lines: list[dict] = []
        self.taps: dict[int, object] = {}  # request id -> consumer receiver on the channel named by the request
        self.sources: dict[int, object] = {}  # request id -> (channel, sender) the data-sourcing side feeds
        self.stopped: set[int] = set()
        self.skipped = 0
        self.runs = 0
        self.probe = True
        ex = self

        self.loop = ManualLoop(start=float(self.c))
        self.loop.__enter__()
        self.registry = ChannelRegistry(name="x01")
        self.ds_ch = Broadcast(name="data-source-req")
        self.ds_rx = self.ds_ch.new_receiver(limit=500)
        self.rq_ch = Broadcast(name="resample-req")
        self.rq_tx = self.rq_ch.new_sender()

        def take_probe(r):
            ex.obs.append(ex.ob("take", r=ex.rid(r)))
            return r

        class ProbeSender(Sender):
            """The data-sourcing request sender handed to the actor: records the call, then really sends."""

            def __init__(self, inner) -> None:
                self._inner = inner

            async def send(self, message, /) -> None:
                r = ex.rid(message)
                ex.obs.append(ex.ob("fwd", r=r, ok=bool(message == ex.make_request(r, NS + ":Source"))))
                await self._inner.send(message)

            async def aclose(self) -> None:
                await self._inner.aclose()

        self.actor = ComponentMetricsResamplingActor(
            channel_registry=self.registry,
            data_sourcing_request_sender=ProbeSender(self.ds_ch.new_sender()),
            resampling_request_receiver=self.rq_ch.new_receiver(limit=500).map(take_probe),
            config=ResamplerConfig(resampling_period=timedelta(seconds=self.P)),
        )
        # enrichment probes on private attributes (skipped when they are renamed)
        try:
            res = self.actor._resampler  # pylint: disable=protected-access
            orig_resample = res.resample

            async def resample_probe(*a, **k):
                try:
                    await orig_resample(*a, **k)
                except ResamplingError as err:
                    ex.obs.append(ex.ob("rsend", err="ResamplingError", named=ex.named(err)))
                    raise
                except asyncio.CancelledError:
                    raise
                except BaseException as err:  # pylint: disable=broad-except
                    ex.obs.append(ex.ob("rsend", err=type(err).__name__))
                    raise
                ex.obs.append(ex.ob("rsend", err="returned"))

            res.resample = resample_probe
            orig_run = self.actor._run  # pylint: disable=protected-access

            async def run_probe():
                ex.runs += 1
                await orig_run()

            self.actor._run = run_probe  # pylint: disable=protected-access
        except AttributeError:
            self.probe = False
        self.actor.start()
        self.loop.run_until_idle()
        self.obs.clear()

    def close(self) -> None:
        self.loop.__exit__(None, None, None)

    # -- helpers -------------------------------------------------------------
    @staticmethod
    def ob(k, r=0, ts=0, val=0, ok=False, err="", named=()):
        return dict(k=k, r=r, ts=ts, val=val, ok=ok, err=err, named=list(named))

    def t(self) -> int:
        x = self.loop.time()
        return int(x) if float(x).is_integer() else NONE

    def ts_int(self, stamp) -> int:
        x = (stamp - self.EPOCH).total_seconds()
        return int(x) if float(x).is_integer() and abs(x) < 100000 else 999983

    def make_request(self, r: int, ns: str = NS):
        return self.Request(ns, r, self.MetricId.ACTIVE_POWER, None)

    def rid(self, req) -> int:
        return int(req.component_id)

    def id_of_name(self, name: str) -> int:
        for r in self.taps:
            if self.make_request(r).get_channel_name() == name:
                return r
        return 0

    def named(self, err) -> list[int]:
        out = []
        try:
            helpers = self.actor._resampler._resamplers  # pylint: disable=protected-access
            for src in err.exceptions:
                h = helpers.get(src)
                out.append(self.id_of_name(h._helper._name) if h is not None else 0)  # pylint: disable=protected-access
        except AttributeError:
            return [0]
        return sorted(out)

    def _sync(self, coro) -> None:
        try:
            coro.send(None)
        except StopIteration:
            return
        raise RuntimeError("channel operation suspended; cannot inject synchronously")

    # -- injections ----------------------------------------------------------
    def request(self, r: int) -> None:
        req = self.make_request(r)
        if r not in self.taps:
            # a consumer creates its receiver before it sends the request
            self.taps[r] = self.registry.get_or_create(self.Sample[self.Quantity], req.get_channel_name()).new_receiver(limit=500)
        self._sync(self.rq_tx.send(req))
        self.lines.append(dict(ev="req", r=r, t=self.t()))

    def stop(self, r: int) -> bool:
        """The data-sourcing side ends the stream of r (it can only end a stream it was asked for)."""
        if r not in self.sources or r in self.stopped:
            self.skipped += 1
            return False
        self.stopped.add(r)
        self._sync(self.sources[r][0].aclose())
        self.lines.append(dict(ev="stop", r=r, t=self.t()))
        return True

    def sinkfail(self, r: int) -> bool:
        """The channel named by request r is closed: the actor's sender.send raises from now on."""
        if r not in self.taps:
            self.skipped += 1
            return False
        ch = self.registry.get_or_create(self.Sample[self.Quantity], self.make_request(r).get_channel_name())
        self._sync(ch.aclose())
        self.lines.append(dict(ev="sinkfail", r=r, t=self.t()))
        return True

    def tick(self) -> None:
        """One second passes; the data-sourcing side sends one sample on every open stream."""
        self.run_idle()
        self.loop.jump_to(self.loop.time() + 1.0)
        now = self.loop.wall_now()
        for r, (_ch, tx) in self.sources.items():
            if r not in self.stopped:
                self._sync(tx.send(self.Sample(now, self.Quantity(float(100 * r + self.t() % 100)))))
        self.lines.append(dict(ev="pass", t=self.t()))

    # -- observation ---------------------------------------------------------
    def _drain(self) -> None:
        while len(self.ds_rx):
            fr = self.ds_rx.consume()
            r = self.rid(fr)
            if r not in self.sources:
                # the data-sourcing actor publishes on the channel named by the request it received
                ch = self.registry.get_or_create(self.Sample[self.Quantity], fr.get_channel_name())
                self.sources[r] = (ch, ch.new_sender())
        for r, rx in self.taps.items():
            while len(rx):
                s = rx.consume()
                v = s.value.base_value if s.value is not None else None
                iv = NONE
                if v is not None and v == v and abs(v) < 2**30:
                    iv = int(v)
                self.obs.append(self.ob("dlv", r=r, ts=self.ts_int(s.timestamp), val=iv))

    def _projection(self):
        try:
            res = self.actor._resampler  # pylint: disable=protected-access
            names = sorted(self.id_of_name(h._helper._name) for h in res._resamplers.values())  # pylint: disable=protected-access
            we = self.ts_int(res._window_end)  # pylint: disable=protected-access
        except AttributeError:
            names, we = [-1], -1
        return names, we

    def iter(self) -> None:
        self.loop.step()
        self._drain()
        names, we = self._projection()
        self.lines.append(dict(ev="iter", t=self.t(), obs=self.obs, names=names, we=we, alive=bool(self.actor.is_running),
                               runs=self.runs if self.probe else -1, idle=self.loop.idle()))
        self.obs = []

    def run_idle(self) -> None:
        n = 0
        while not self.loop.idle():
            self.iter()
            n += 1
            if n > 2000:
                raise RuntimeError("loop does not become idle")

    def final(self) -> None:
        self.run_idle()
        names, _we = self._projection()
        self.lines.append(dict(ev="final", t=self.t(), names=names, alive=bool(self.actor.is_running), runs=self.runs if self.probe else -1))


def execute(case: dict) -> dict:
    ex = Exec(case["cfg"])
    try:
        for e in case["ev"]:
            a = e["a"]
            if a == "pass":
                ex.tick()
                continue
            for _ in range(e.get("off", 0)):
                if ex.loop.idle():
                    break
                ex.iter()
            if a == "req":
                ex.request(e["r"])
            elif a == "stop":
                ex.stop(e["r"])
            elif a == "sinkfail":
                ex.sinkfail(e["r"])
            else:
                raise ValueError(a)
        ex.final()
        return dict(id=case["id"], stage=case.get("stage", ""), P=ex.P, c=ex.c, probe=ex.probe, skipped=ex.skipped, lines=ex.lines)
    finally:
        ex.close()


def _worker(chunk, out_path):
    import warnings

    from .common import use_repo

    use_repo()
    warnings.simplefilter("ignore")
    with open(out_path, "w") as f:
        for c in chunk:
            f.write(json.dumps(execute(c), separators=(",", ":")) + "\n")


# ---------------------------------------------------------------------------
MC_INV = ["TypeOK", "ServedExactlyOnce", "SurvivorsTimelineIntact", "FailedOnlyRemoved", "ActorAlive", "LateRequestServedFromNextTick"]
MC_PROPS = ["DuplicateNoEffect", "RoundUndisturbed"]
ACTIONS = ["ReqStep", "StopStep", "SinkFailStep", "PassStep", "TakeStep", "SendStep", "AddStep", "NoticeStep", "FireStep", "RoundStep",
           "HelperStep", "FinishStep", "RecoverStep"]
ENV_ACTIONS = ["ReqStep", "StopStep", "SinkFailStep", "PassStep"]
REQS = {1, 2, 3}

SCOPES = {
    "quick": [
        dict(name="P2", P=2, CreateSet={0, 1}, mc=dict(MaxReq=3, MaxFail=1, Horizon=6), env=dict(MaxReq=3, MaxFail=1, Horizon=5, MaxDepth=8),
             n_focal=44, n_random=400),
        dict(name="P3", P=3, CreateSet={1, 3}, mc=dict(MaxReq=3, MaxFail=1, Horizon=7), env=dict(MaxReq=3, MaxFail=1, Horizon=6, MaxDepth=8),
             n_focal=22, n_random=200),
    ],
    "thorough": [
        dict(name="P2", P=2, CreateSet={0, 1}, mc=dict(MaxReq=4, MaxFail=2, Horizon=7), env=dict(MaxReq=3, MaxFail=2, Horizon=6, MaxDepth=9),
             n_focal=600, n_random=12000),
        dict(name="P3", P=3, CreateSet={0, 1, 2}, mc=dict(MaxReq=3, MaxFail=2, Horizon=8), env=dict(MaxReq=3, MaxFail=2, Horizon=7, MaxDepth=9),
             n_focal=400, n_random=8000),
        dict(name="P4", P=4, CreateSet={0, 1, 3}, mc=dict(MaxReq=3, MaxFail=1, Horizon=10), env=dict(MaxReq=3, MaxFail=1, Horizon=8, MaxDepth=10),
             n_focal=300, n_random=6000),
    ],
}


def first_tick(c: int, P: int) -> int:
    """Input construction only: the instant of the resampler's first tick (to aim events at tick instants)."""
    return c + P if c % P == 0 else c + 2 * P - c % P


def _times(order: list, c: int) -> list[int]:
    t, out = c, []
    for e in order:
        if e["a"] == "pass":
            t += 1
        out.append(t)
    return out


def build_cases(orders: list, sc: dict, rnd: random.Random) -> tuple[list, dict]:
    """Cross TLC's event orders with injection offsets.

    focal: orders whose last event is injected at a tick instant - that event is tried at EVERY offset 0..MAX_OFF
           of the tick's burst (the others at offset 0);
    random: orders with an independent random offset for every event.
    Every case ends with enough seconds for a failure to be reported and the survivors to go on.
    """
    P = sc["P"]
    tail = [dict(a="pass", r=0)] * (2 * P + 2)
    usable = []
    for o in orders:
        c, ev = o[0]["r"], o[1:]
        if not any(e["a"] == "req" for e in ev):
            continue
        usable.append((c, ev))
    usable.sort(key=lambda x: json.dumps(x, sort_keys=True))
    rnd.shuffle(usable)
    strata: dict = {}
    for c, ev in usable:
        if ev[-1]["a"] == "pass":
            continue
        t_last = _times(ev, c)[-1]
        if t_last < first_tick(c, P) or t_last % P:
            continue
        seen = [e["r"] for e in ev[:-1] if e["a"] == "req"]
        kind = ev[-1]["a"] if ev[-1]["a"] != "req" else ("dup" if ev[-1]["r"] in seen else "new")
        broke = any(e["a"] in ("stop", "sinkfail") for e in ev[:-1])
        others = len(set(seen) - {ev[-1]["r"]})
        strata.setdefault((kind, broke, min(others, 2), c), []).append((c, ev))
    focal = []
    keys = sorted(strata)
    i = 0
    while len(focal) < sc["n_focal"] and any(strata[k] for k in keys):
        k = keys[i % len(keys)]
        i += 1
        if strata[k]:
            focal.append(strata[k].pop())
    cases = []
    for c, ev in focal:
        for off in range(MAX_OFF + 1):
            evs = [dict(e, off=0) for e in ev[:-1]] + [dict(ev[-1], off=off)] + tail
            cases.append(dict(stage="focal", cfg=dict(P=P, c=c), ev=evs))
    for c, ev in usable[: sc["n_random"]]:
        evs = [dict(e, off=(0 if e["a"] == "pass" else rnd.randint(0, MAX_OFF))) for e in ev] + tail
        cases.append(dict(stage="random", cfg=dict(P=P, c=c), ev=evs))
    info = dict(orders_emitted=len(orders), orders_usable=len(usable), focal_orders=len(focal), focal_strata=len(keys),
                offsets_per_focal_event=MAX_OFF + 1, random_orders=min(len(usable), sc["n_random"]), cases=len(cases))
    return cases, info


def _witness(recs: list) -> dict:
    """Count how often the situations the clauses talk about occurred in the recorded executions
    (book-keeping for the vacuity guards; no clause is decided here)."""
    w = dict(traces=0, iterations=0, requests_taken=0, duplicate_takes=0, duplicate_after_removal=0, samples=0, samples_with_value=0,
             source_stops=0, sink_failures=0, resampling_errors=0, removals_seen=0, survivors_served_in_failing_round=0,
             ticks_for_survivors_after_recovery=0, takes_during_a_round=0, late_take_served_next_tick=0,
             late_take_in_failing_round=0, takes_at_tick_before_round=0, breaks_during_a_round=0, events_dropped_by_harness=0)
    for r in recs:
        w["traces"] += 1
        w["events_dropped_by_harness"] += r["skipped"]
        taken: set = set()
        removed: set = set()
        prev_names: set = set()
        dlv_at: dict = {}  # tick instant -> series served so far
        first: dict = {}
        late: dict = {}
        errs_at: set = set()
        recovered = False
        for x in r["lines"]:
            ev = x["ev"]
            if ev == "stop":
                w["source_stops"] += 1
                w["breaks_during_a_round"] += bool(dlv_at.get(x["t"]))
            elif ev == "sinkfail":
                w["sink_failures"] += 1
                w["breaks_during_a_round"] += bool(dlv_at.get(x["t"]))
            elif ev == "iter":
                w["iterations"] += 1
                for o in x["obs"]:
                    if o["k"] == "take":
                        if o["r"] in taken:
                            w["duplicate_takes"] += 1
                            w["duplicate_after_removal"] += o["r"] in removed
                        else:
                            taken.add(o["r"])
                            w["requests_taken"] += 1
                            t = x["t"]
                            if dlv_at.get(t):
                                w["takes_during_a_round"] += 1
                                late[o["r"]] = t
                                w["late_take_in_failing_round"] += t in errs_at
                            elif t % r["P"] == 0 and t >= first_tick(r["c"], r["P"]):
                                w["takes_at_tick_before_round"] += 1
                    elif o["k"] == "dlv":
                        w["samples"] += 1
                        w["samples_with_value"] += o["val"] != NONE
                        dlv_at.setdefault(o["ts"], set()).add(o["r"])
                        if o["r"] not in first:
                            first[o["r"]] = o["ts"]
                            if o["r"] in late and o["ts"] == late[o["r"]] + r["P"]:
                                w["late_take_served_next_tick"] += 1
                        w["ticks_for_survivors_after_recovery"] += recovered
                    elif o["k"] == "rsend" and o["err"] == "ResamplingError":
                        w["resampling_errors"] += 1
                        errs_at.add(x["t"])
                        w["survivors_served_in_failing_round"] += bool(dlv_at.get(x["t"]))
                        if x["t"] in late.values():
                            w["late_take_in_failing_round"] += 1
                names = set(x["names"])
                if prev_names - names:
                    w["removals_seen"] += len(prev_names - names)
                    removed |= prev_names - names
                    recovered = True
                prev_names = names
    return w


NEEDS = ("duplicate_takes", "duplicate_after_removal", "samples_with_value", "source_stops", "sink_failures", "resampling_errors",
         "removals_seen", "survivors_served_in_failing_round", "ticks_for_survivors_after_recovery", "takes_during_a_round",
         "late_take_served_next_tick", "late_take_in_failing_round", "takes_at_tick_before_round", "breaks_during_a_round")


CORE_NEEDS = ("duplicate_takes", "samples_with_value", "source_stops", "sink_failures", "resampling_errors", "removals_seen",
              "survivors_served_in_failing_round", "ticks_for_survivors_after_recovery", "takes_during_a_round", "late_take_served_next_tick")


# what can be witnessed through the channel ends alone (when the private attributes the probes use are renamed)
PUBLIC_NEEDS = ("duplicate_takes", "samples_with_value", "source_stops", "sink_failures", "takes_during_a_round", "late_take_served_next_tick")


def _printable(consts: dict) -> dict:
    return {k: (sorted(x) if isinstance(x, (set, frozenset)) else x) for k, x in consts.items()}


def _stage(rep: Report, sc: dict, work: Path, tier: str) -> None:
    name = sc["name"]
    base = dict(P=sc["P"], CreateSet=sc["CreateSet"], Reqs=REQS)
    # MC: the design, every interleaving of the two tasks with the environment
    consts = dict(base, **sc["mc"], MaxDepth=0, Mode="mc")
    res = run_tlc("ResamplingActor", work / f"mc_{name}", constants=consts, view="View", invariants=MC_INV, properties=MC_PROPS,
                  coverage=True, timeout=3000)
    rep.add_mc(f"mc_{name}", res, _printable(consts), MC_INV + MC_PROPS, mode="exhaustive")
    if not res.ok:
        rep.fail("X01.MC." + "/".join(res.violated), dict(stage=f"mc_{name}", constants=_printable(consts)), res.counterexample[:3000])
        return
    for a in ACTIONS:
        if not res.coverage.get(a):
            raise RuntimeError(f"vacuity: action {a} never taken in mc_{name} ({res.coverage})")
    # GEN: the environment's event orders
    d = work / f"env_{name}"
    d.mkdir(parents=True, exist_ok=True)
    cases_file = d / "cases.ndjson"
    consts = dict(base, **sc["env"], Mode="env")
    res = run_tlc("ResamplingActor", d, constants=consts, invariants=[], env={"OUT_FILE": str(cases_file)}, coverage=True, timeout=3000)
    rep.add_mc(f"env_{name}", res, _printable(consts), [], mode="exhaustive+emit (event orders)")
    for a in ENV_ACTIONS:
        if not res.coverage.get(a):
            raise RuntimeError(f"vacuity: action {a} never taken in env_{name} ({res.coverage})")
    orders = read_emitted(cases_file)
    cases, info = build_cases(orders, sc, random.Random(SEED + 17 + sc["P"]))
    for i, c in enumerate(cases):
        c["id"] = i + 1
    # RUN
    t1 = Timer()
    b = work / f"bind_{name}"
    b.mkdir(parents=True, exist_ok=True)
    shards = replay_parallel(_worker, cases, b)
    run_s = t1.s()
    # VAL
    t2 = Timer()
    tconsts = dict(base, MaxReq=99, MaxFail=99, Horizon=9999, MaxDepth=0, Mode="trace")
    fails, done, st = validate_shards("ResamplingActorTrace", shards, b, constants=tconsts, invariants=["TraceInv"],
                                      unconsumed_clause="X01.TraceNotExplainedBySpec", dfs_queue=True)
    rep.validated += done
    recs = [r_ for p in shards for r_ in load_ndjson(p)]
    wit = _witness(recs)
    probed = all(r_["probe"] for r_ in recs)
    rep.extra["probes_available"] = rep.extra.get("probes_available", True) and probed
    if not fails:
        for k in CORE_NEEDS if probed else PUBLIC_NEEDS:
            if not wit.get(k):
                raise RuntimeError(f"vacuity: stage {name} never exercised '{k}' ({wit})")
    if not probed:
        rep.notes.append(f"stage {name}: Resampler probes unavailable (private attributes renamed); only channel observations were bound")
    rep.extra.setdefault("stages", []).append(dict(stage=name, **info, traces_validated=done, val_states=st["states"],
                                                   mc_s=rep.mc[-2]["wall_s"], gen_s=res.wall_s, run_s=run_s, val_s=t2.s()))
    agg = rep.extra.setdefault("clause_antecedents_exercised", {})
    for k, v in wit.items():
        agg[k] = agg.get(k, 0) + v
    if recs and len(rep.samples) < 3:
        focal = [r_ for r_ in recs if r_["stage"] == "focal"]
        rep.samples.append((focal or recs)[len(focal or recs) // 2])
    byid = {r_["id"]: r_ for r_ in recs} if fails else {}
    for v in fails:
        if v["clause"].startswith("X01."):
            rep.fail(v["clause"], dict(stage=name, constants=_printable(base), trace=byid.get(v["tid"]), step=v.get("l")), v.get("detail"),
                     deviations=v.get("deviations", []))
    if len(cases) < info["orders_usable"]:
        rep.exhaustive = False


def run(prop: str, tier: str) -> int:
    if prop != "X01":
        raise ValueError(prop)
    tm = Timer()
    rep = Report(prop, tier)
    work = scratch(f"{prop}_{tier}")
    rep.assumptions = [
        "asyncio is single-threaded: one loop iteration is the finest interleaving; requests, closed sources and closed output channels "
        "are injected between iterations, at every offset of a tick's burst for the focal event of an order",
        "time on a grid of whole seconds (periods 2-4 s, align_to = the default UNIX epoch); the loop always runs until idle before a second "
        "passes, so lateness and catch-up bursts (C07) are not repeated here",
        "the harness is the data-sourcing actor (it receives the forwarded requests, feeds one sample per second into the channel named by "
        "each and closes it to stop the source) and the consumers (a receiver on the channel named by the request, created before the "
        "request is sent; closing that channel makes the actor's sender.send raise = the sink fails)",
        "a source is stopped only after its request was forwarded; a stop before that is dropped by the harness and not recorded",
        "requests differ in component id only (what determines the channel name besides namespace / metric / start_time is C20's topic)",
        "Resampler.resample and _run are wrapped on the instance and _resamplers / _window_end are read as an enrichment (skipped when "
        "renamed); takes, forwarded requests and published samples are observed through public channel ends",
        "values are not decided (C08): a sample's value only tells from which source it was resampled",
    ]
    for sc in SCOPES[tier]:
        _stage(rep, sc, work, tier)
    if not rep.failures:
        agg = rep.extra.get("clause_antecedents_exercised", {})
        for k in NEEDS if rep.extra.get("probes_available") else PUBLIC_NEEDS:
            if not agg.get(k):
                raise RuntimeError(f"vacuity: no recorded execution exercised '{k}' ({agg})")
    rep.exhaustive = False  # offsets are crossed exhaustively for focal events only, orders are sub-sampled
    return rep.finish(tm.s())
