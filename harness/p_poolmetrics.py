"""C18: PoolMetrics.tla model checking, replay into the real calculators / fetcher / SendOnUpdate,
trace validation (PoolMetricsTrace.tla)."""

from __future__ import annotations

import json
import math
import os
import warnings
from datetime import datetime, timedelta, timezone
from fractions import Fraction
from pathlib import Path

from .common import NCPU, SEED, Timer, scratch
from .pipeline import load_ndjson, replay_parallel, validate_shards
from .tlc import MachineryError, Raw, read_emitted, run_tlc, tla_value
from .verdict import Report

NONE = -99
NAN = -98
NONGRID = 9999  # a value the real code holds that is not on the integer grid
U = 1000.0  # watt-hours per capacity unit of the specification
TOL = Fraction(1, 10**9)
FPMAX = 10**9  # keeps TLC's 32-bit products in range even for absurd values of a broken implementation
CAPFPMAX = 2 * 10**7
TS = datetime(2024, 1, 1, tzinfo=timezone.utc)
BATCH = 96000
IDS = [101, 102, 103, 104]  # battery b of the specification is component IDS[b - 1]
INV_IDS = [201, 202, 203, 204]

MC_INV = [
    "TypeOK", "Range", "NoneIffNoQualifier", "WeightedMean", "CapacityIsSum", "Monotone", "ScaleInvariant",
    "Excluded", "PublishedIsCurrent", "CacheNoNaN", "NoStaleData", "AggFollowsStore", "AggCacheNoNaN",
]

BASE = dict(NB=2, Caps={0, 1, 2}, Pct={0, 50, 100}, MaxMissing=4, Factors={2}, Mode="states", HMsgs=set(), MaxDepth=0, MaxTicks=0, MaxAge=2, Warm=2)


def _m(cap, soc, lo, hi):
    return dict(cap=cap, soc=soc, lo=lo, hi=hi)


# message alphabets of the exhaustive history exploration
H_QUICK = [
    _m(1, 0, 0, 100), _m(1, 100, 0, 100), _m(2, 50, 20, 80), _m(1, 50, 50, 50),
    _m(1, NAN, 0, 100), _m(NAN, 50, 0, 100), _m(1, 50, NAN, 100), _m(2, 100, 0, NAN),
]
H_THOROUGH = H_QUICK + [
    _m(0, 50, 0, 100), _m(2, 0, 20, 80), _m(2, 100, 20, 80), _m(1, 20, 20, 100), _m(NAN, NAN, NAN, NAN), _m(2, 80, 0, 100),
]

# message alphabet of the wrapper-layer ("pool") exploration
P_MSGS = [_m(1, 50, 0, 100), _m(2, 100, 20, 80), _m(NAN, 50, 0, 100)]

SCOPES = {
    "quick": dict(
        states=dict(NB=2, Caps={0, 1, 2}, Pct={0, 50, 100}, MaxMissing=1, Factors={2}),
        history=dict(NB=2, Caps={0, 1, 2}, Pct={0, 20, 50, 80, 100}, Factors={2}, MaxDepth=4, MaxTicks=2),
        history_msgs=H_QUICK,
        sim=dict(NB=3, Caps={0, 1, 2}, Pct={0, 20, 50, 80, 100}, Factors={2}, MaxDepth=10, MaxTicks=4),
        sim_num=1600,
        pool=dict(NB=2, Caps={0, 1, 2}, Pct={0, 20, 50, 80, 100}, Factors={2}, MaxDepth=6, MaxTicks=3),
        pool_msgs=P_MSGS[:2],
        poolsim=dict(NB=3, Caps={0, 1, 2}, Pct={0, 20, 50, 80, 100}, Factors={2}, MaxDepth=12, MaxTicks=6),
        poolsim_num=480,
    ),
    "thorough": dict(
        states=dict(NB=2, Caps={0, 1, 2}, Pct={0, 20, 50, 80, 100}, MaxMissing=1, Factors={2, 3}),
        states_mm=dict(NB=2, Caps={0, 1, 2}, Pct={0, 50, 100}, MaxMissing=4, Factors={2}),  # any subset of metrics missing
        states3=dict(NB=3, Caps={1, 2}, Pct={0, 50, 100}, MaxMissing=0, Factors={2}),
        history=dict(NB=2, Caps={0, 1, 2}, Pct={0, 20, 50, 80, 100}, Factors={2}, MaxDepth=6, MaxTicks=3),
        history_msgs=H_THOROUGH,
        sim=dict(NB=3, Caps={0, 1, 2}, Pct={0, 20, 50, 80, 100}, Factors={2, 3}, MaxDepth=12, MaxTicks=5),
        sim_num=32000,
        pool=dict(NB=2, Caps={0, 1, 2}, Pct={0, 20, 50, 80, 100}, Factors={2}, MaxDepth=7, MaxTicks=4),
        pool_msgs=P_MSGS,
        poolsim=dict(NB=3, Caps={0, 1, 2}, Pct={0, 20, 50, 80, 100}, Factors={2}, MaxDepth=14, MaxTicks=7),
        poolsim_num=16000,
    ),
}


# ---------------------------------------------------------------------------
# observations -> small integers
def _soc_obs(call, exp) -> dict:
    """Run the code, describe the Sample[Percentage] it returned."""
    try:
        s = call()
    except Exception as e:  # pylint: disable=broad-except
        return dict(st="err", fp=0, c0=0, c100=0, eq=False, why=repr(e)[:120])
    return _soc_of_sample(s, exp)


def _soc_of_sample(s, exp) -> dict:
    if s is None or s.value is None:
        return dict(st="none", fp=0, c0=0, c100=0, eq=False)
    x = s.value.as_percent()
    if math.isnan(x) or math.isinf(x):
        return dict(st="nan", fp=0, c0=0, c100=0, eq=False)
    fp = max(-FPMAX, min(FPMAX, round(x * 1e6)))
    eq = bool(exp[0] == 2 and abs(Fraction(x) - Fraction(exp[1], exp[2])) <= TOL)
    return dict(st="val", fp=fp, c0=(x > 0) - (x < 0), c100=(x > 100) - (x < 100), eq=eq)


def _cap_obs(call, exp) -> dict:
    try:
        s = call()
    except Exception as e:  # pylint: disable=broad-except
        return dict(st="err", fp=0, eq=False, why=repr(e)[:120])
    return _cap_of_sample(s, exp)


def _cap_of_sample(s, exp) -> dict:
    if s is None or s.value is None:
        return dict(st="none", fp=0, eq=False)
    x = s.value.as_watt_hours()
    if math.isnan(x) or math.isinf(x):
        return dict(st="nan", fp=0, eq=False)
    units = Fraction(x) / Fraction(U)
    fp = max(-CAPFPMAX, min(CAPFPMAX, round(units * 100000)))
    eq = bool(exp[0] == 2 and abs(units - Fraction(exp[1], exp[2])) <= TOL)
    return dict(st="val", fp=fp, eq=eq)


# ---------------------------------------------------------------------------
# "states": the real calculators on ComponentMetricsData
class Calc:
    def __init__(self, nb: int) -> None:
        from frequenz.client.microgrid import ComponentMetricId as M

        from frequenz.sdk.timeseries.battery_pool._component_metrics import ComponentMetricsData
        from frequenz.sdk.timeseries.battery_pool._metric_calculator import CapacityCalculator, SoCCalculator

        self.M = M
        self.CMD = ComponentMetricsData
        ids = frozenset(IDS[:nb])
        self.soc = SoCCalculator(ids)
        self.cap = CapacityCalculator(ids)

    def metrics(self, data: list[dict]) -> dict:
        M = self.M
        md = {}
        for i, d in enumerate(data):
            if not d["p"]:
                continue
            m = {}
            if d["cap"] != NONE:
                m[M.CAPACITY] = float(d["cap"]) * U
            if d["soc"] != NONE:
                m[M.SOC] = float(d["soc"])
            if d["lo"] != NONE:
                m[M.SOC_LOWER_BOUND] = float(d["lo"])
            if d["hi"] != NONE:
                m[M.SOC_UPPER_BOUND] = float(d["hi"])
            md[IDS[i]] = self.CMD(IDS[i], TS + timedelta(seconds=i), m)
        return md

    @staticmethod
    def wset(w: list[bool]) -> set[int]:
        return {IDS[i] for i, x in enumerate(w) if x}


def _qual(d: dict, with_soc: bool) -> bool:
    return d["p"] and NONE not in ([d["cap"], d["lo"], d["hi"]] + ([d["soc"]] if with_soc else []))


ABSENT = dict(p=False, cap=NONE, soc=NONE, lo=NONE, hi=NONE)


def replay_state(case: dict, calc: Calc) -> dict:
    data, w = case["data"], case["w"]
    md, ws = calc.metrics(data), calc.wset(w)
    obs = dict(
        soc=_soc_obs(lambda: calc.soc.calculate(md, set(ws)), case["exp"]),
        cap=_cap_obs(lambda: calc.cap.calculate(md, set(ws)), case["expc"]),
    )
    # every battery that does not qualify removed from the metrics and from the working set
    ps = [d if (w[i] and _qual(d, True)) else ABSENT for i, d in enumerate(data)]
    pc = [d if (w[i] and _qual(d, False)) else ABSENT for i, d in enumerate(data)]
    obs["psoc"] = _soc_obs(lambda: calc.soc.calculate(calc.metrics(ps), calc.wset([d["p"] for d in ps])), case["exp"])
    obs["pcap"] = _cap_obs(lambda: calc.cap.calculate(calc.metrics(pc), calc.wset([d["p"] for d in pc])), case["expc"])
    inc = []
    for e in case["inc"]:
        d2 = [dict(d) for d in data]
        d2[e["b"] - 1]["soc"] = e["soc"]
        md2 = calc.metrics(d2)
        inc.append(_soc_obs(lambda md2=md2: calc.soc.calculate(md2, set(ws)), e["exp"]))
    sc = []
    for e in case["scale"]:
        d2 = [dict(d, cap=(d["cap"] if d["cap"] == NONE else d["cap"] * e["k"])) for d in data]
        md2 = calc.metrics(d2)
        sc.append(_soc_obs(lambda md2=md2: calc.soc.calculate(md2, set(ws)), e["exp"]))
    obs["inc"], obs["scale"] = inc, sc
    return dict(case, kind="state", obs=obs)


# ---------------------------------------------------------------------------
# "history": real LatestBatteryMetricsFetcher + SendOnUpdate on a virtual-time loop, fake API
class _Comp:
    def __init__(self, cid, cat) -> None:
        self.component_id = cid
        self.category = cat


class _Graph:
    def __init__(self, nb: int, cat) -> None:
        self.nb = nb
        self.cat = cat

    def predecessors(self, bid):
        return {_Comp(INV_IDS[IDS.index(bid)], self.cat.INVERTER)}

    def successors(self, iid):
        return {_Comp(IDS[INV_IDS.index(iid)], self.cat.BATTERY)}


class _Api:
    def __init__(self, broadcast) -> None:
        self.ch: dict = {}
        self._broadcast = broadcast

    async def battery_data(self, cid, maxsize=50):  # the only API call the fetchers make
        if cid not in self.ch:
            self.ch[cid] = self._broadcast(name=f"battery-{cid}")
        return self.ch[cid].new_receiver(limit=maxsize)


class _CM:
    def __init__(self, graph, api) -> None:
        self.component_graph = graph
        self.api_client = api


def _gi(x, scale: float = 1.0) -> int:
    if x is None:
        return NONE
    if math.isnan(x):
        return NAN
    y = x / scale
    return int(y) if float(y).is_integer() and abs(y) < 100000 else NONGRID


def replay_history(case: dict, cfg: dict) -> dict:
    import asyncio

    from frequenz.channels import Broadcast
    from frequenz.client.microgrid import (
        BatteryComponentState,
        BatteryData,
        BatteryRelayState,
        ComponentCategory,
        ComponentMetricId as M,
    )

    from frequenz.sdk._internal._constants import MAX_BATTERY_DATA_AGE_SEC, WAIT_FOR_COMPONENT_DATA_SEC
    from frequenz.sdk.microgrid import connection_manager
    from frequenz.sdk.timeseries.battery_pool._methods import SendOnUpdate
    from frequenz.sdk.timeseries.battery_pool._metric_calculator import CapacityCalculator, SoCCalculator

    from .vloop import ManualLoop

    nb = cfg["NB"]
    ids = IDS[:nb]
    tick_s = MAX_BATTERY_DATA_AGE_SEC / cfg["MaxAge"]
    steps_out = []
    saved = connection_manager._CONNECTION_MANAGER  # pylint: disable=protected-access
    with ManualLoop() as loop:
        api = _Api(Broadcast)
        connection_manager._CONNECTION_MANAGER = _CM(_Graph(nb, ComponentCategory), api)  # pylint: disable=protected-access
        try:
            aggs = {
                "soc": SendOnUpdate(working_batteries=set(ids), metric_calculator=SoCCalculator(frozenset(ids)), min_update_interval=timedelta(0)),
                "cap": SendOnUpdate(working_batteries=set(ids), metric_calculator=CapacityCalculator(frozenset(ids)), min_update_interval=timedelta(0)),
            }
            latest: dict = {"soc": None, "cap": None}

            async def consume(name, rx):
                async for s in rx:
                    latest[name] = s

            for name, a in aggs.items():
                loop.create_task(consume(name, a.new_receiver()))
            # warm-up: SendOnUpdate waits WAIT_FOR_COMPONENT_DATA_SEC before its first result; at a multiple of
            # the silence time-out every fetcher has just reported "no metrics" and starts waiting again
            t0 = MAX_BATTERY_DATA_AGE_SEC * max(1, math.ceil(WAIT_FOR_COMPONENT_DATA_SEC / MAX_BATTERY_DATA_AGE_SEC))
            loop.run_until_idle()
            loop.advance_to(t0)
            senders = {cid: api.ch[cid].new_sender() for cid in ids}

            def proj(agg, with_soc):
                cm = getattr(agg, "_cached_metrics", None)
                if not isinstance(cm, dict):
                    return None
                out = []
                for cid in ids:
                    m = cm.get(cid)
                    if m is None:
                        out.append(dict(ABSENT))
                    else:
                        out.append(dict(
                            p=True, cap=_gi(m.get(M.CAPACITY), U), soc=_gi(m.get(M.SOC)) if with_soc else NONE,
                            lo=_gi(m.get(M.SOC_LOWER_BOUND)), hi=_gi(m.get(M.SOC_UPPER_BOUND)),
                        ))
                return out

            def fv(x, scale=1.0):
                return math.nan if x == NAN else float(x) * scale

            for s in case["steps"]:
                a = s["a"]
                if a == "init":
                    pass
                elif a == "msg":
                    cid = ids[s["b"] - 1]
                    msg = BatteryData(
                        component_id=cid, timestamp=loop.wall_now(),
                        soc=fv(s["soc"]), soc_lower_bound=fv(s["lo"]), soc_upper_bound=fv(s["hi"]), capacity=fv(s["cap"], U),
                        power_inclusion_lower_bound=0.0, power_exclusion_lower_bound=0.0,
                        power_inclusion_upper_bound=0.0, power_exclusion_upper_bound=0.0, temperature=20.0,
                        relay_state=BatteryRelayState.CLOSED, component_state=BatteryComponentState.IDLE, errors=[],
                    )
                    loop.run_coro(senders[cid].send(msg))
                elif a == "work":
                    ws = {ids[i] for i, x in enumerate(s["w"]) if x}
                    for agg in aggs.values():
                        agg.update_working_batteries(set(ws))
                elif a == "tick":
                    loop.advance(tick_s)
                else:
                    raise ValueError(a)
                loop.run_until_idle()
                c1, c2 = proj(aggs["soc"], True), proj(aggs["cap"], False)
                has = c1 is not None and c2 is not None
                steps_out.append(dict(s, obs=dict(
                    soc=_soc_of_sample(latest["soc"], s["exp"]), cap=_cap_of_sample(latest["cap"], s["expc"]),
                    hascache=has, cache=c1 if has else [], cachec=c2 if has else [],
                )))
            for agg in aggs.values():
                t = loop.create_task(agg.stop())
                loop.run_until_idle()
                del t
        finally:
            connection_manager._CONNECTION_MANAGER = saved  # pylint: disable=protected-access
    return dict(id=case["id"], kind="hist", steps=steps_out)


# ---------------------------------------------------------------------------
# "pool": the real BatteryPool wrapper over a real BatteryPoolReferenceStore (status channel -> store ->
# lazily created SendOnUpdate per metric), public receivers of BatteryPool.soc / .capacity
def replay_pool(case: dict, cfg: dict) -> dict:
    from frequenz.channels import Broadcast
    from frequenz.client.microgrid import BatteryComponentState, BatteryData, BatteryRelayState, ComponentCategory

    from frequenz.sdk._internal._channels import ChannelRegistry
    from frequenz.sdk._internal._constants import MAX_BATTERY_DATA_AGE_SEC, WAIT_FOR_COMPONENT_DATA_SEC
    from frequenz.sdk.microgrid import connection_manager
    from frequenz.sdk.microgrid._power_distributing import ComponentPoolStatus
    from frequenz.sdk.timeseries.battery_pool._battery_pool import BatteryPool
    from frequenz.sdk.timeseries.battery_pool._battery_pool_reference_store import BatteryPoolReferenceStore

    from .vloop import ManualLoop

    nb = cfg["NB"]
    ids = IDS[:nb]
    tick_s = MAX_BATTERY_DATA_AGE_SEC / cfg["MaxAge"]
    if abs(WAIT_FOR_COMPONENT_DATA_SEC - cfg["Warm"] * tick_s) > 1e-9:
        raise RuntimeError("WAIT_FOR_COMPONENT_DATA_SEC is not Warm ticks: adapt the Warm constant of the pool scopes")
    steps_out = []
    saved = connection_manager._CONNECTION_MANAGER  # pylint: disable=protected-access
    with ManualLoop() as loop:
        api = _Api(Broadcast)
        connection_manager._CONNECTION_MANAGER = _CM(_Graph(nb, ComponentCategory), api)  # pylint: disable=protected-access
        try:
            status = Broadcast(name="battery-status", resend_latest=True)
            store = BatteryPoolReferenceStore(
                channel_registry=ChannelRegistry(name="verif"),
                resampler_subscription_sender=Broadcast(name="resampler-subscriptions").new_sender(),
                batteries_status_receiver=status.new_receiver(limit=1),
                power_manager_requests_sender=Broadcast(name="pm-requests").new_sender(),
                power_manager_bounds_subscription_sender=Broadcast(name="pm-bounds").new_sender(),
                power_distribution_results_fetcher=Broadcast(name="pd-results"),
                min_update_interval=timedelta(0),
                batteries_id=set(ids),
            )
            pool = BatteryPool(pool_ref_store=store, name=None, priority=5, set_operating_point=False)
            status_sender = status.new_sender()
            loop.run_until_idle()
            latest: dict = {}
            used: set[str] = set()

            async def consume(name, rx):
                async for s in rx:
                    latest[name] = s

            def fv(x, scale=1.0):
                return math.nan if x == NAN else float(x) * scale

            def ob(name, exp):
                if name not in used:
                    return dict(st="off", fp=0, c0=0, c100=0, eq=False)
                if name not in latest:
                    return dict(st="nopub", fp=0, c0=0, c100=0, eq=False)
                return _soc_of_sample(latest[name], exp) if name == "soc" else _cap_of_sample(latest[name], exp)

            for s in case["steps"]:
                a = s["a"]
                if a == "init":
                    pass
                elif a == "status":
                    ws = {ids[i] for i, x in enumerate(s["w"]) if x}
                    loop.run_coro(status_sender.send(ComponentPoolStatus(working=ws, uncertain=set())))
                elif a == "use":
                    name = s["m"]
                    fetcher = pool.soc if name == "soc" else pool.capacity  # the lazily creating properties
                    loop.create_task(consume(name, fetcher.new_receiver()))
                    used.add(name)
                elif a == "msg":
                    cid = ids[s["b"] - 1]
                    if cid in api.ch:  # nobody has subscribed to the component's data before the first use
                        msg = BatteryData(
                            component_id=cid, timestamp=loop.wall_now(),
                            soc=fv(s["soc"]), soc_lower_bound=fv(s["lo"]), soc_upper_bound=fv(s["hi"]), capacity=fv(s["cap"], U),
                            power_inclusion_lower_bound=0.0, power_exclusion_lower_bound=0.0,
                            power_inclusion_upper_bound=0.0, power_exclusion_upper_bound=0.0, temperature=20.0,
                            relay_state=BatteryRelayState.CLOSED, component_state=BatteryComponentState.IDLE, errors=[],
                        )
                        loop.run_coro(api.ch[cid].new_sender().send(msg))
                elif a == "tick":
                    loop.advance(tick_s)
                else:
                    raise ValueError(a)
                loop.run_until_idle()
                steps_out.append(dict(s, obs=dict(soc=ob("soc", s["exp"]), cap=ob("cap", s["expc"]))))
            t = loop.create_task(store.stop())
            loop.run_until_idle()
            del t
        finally:
            connection_manager._CONNECTION_MANAGER = saved  # pylint: disable=protected-access
    return dict(id=case["id"], kind="pool", steps=steps_out)


_CFG: dict = {}


def _worker(chunk, out_path):
    from .common import use_repo

    use_repo()
    warnings.simplefilter("ignore")
    cfg = _CFG
    calc = Calc(cfg["NB"])
    with open(out_path, "w") as f:
        for c in chunk:
            if c["kind"] == "hist":
                rec = replay_history(c, cfg)
            elif c["kind"] == "pool":
                rec = replay_pool(c, cfg)
            else:
                rec = replay_state(c, calc)
            f.write(json.dumps(rec, separators=(",", ":")) + "\n")


# ---------------------------------------------------------------------------
def _consts(c: dict) -> dict:
    c = dict(BASE, **c)
    if isinstance(c["HMsgs"], list):
        c["HMsgs"] = Raw("{" + ", ".join(tla_value(m) for m in c["HMsgs"]) + "}")
    return c


def _printable(consts: dict) -> dict:
    return {k: (sorted(v) if isinstance(v, (set, frozenset)) else v.text if isinstance(v, Raw) else v) for k, v in consts.items()}


EX_TOTAL: dict[str, int] = {}


def _emitted_batches(path: Path, mode: str, simulate, cov: dict, size: int):
    """Stream what TLC emitted (one JSON-in-JSON line per explored transition) as batches of cases.

    Duplicate lines are dropped; per-action counts are accumulated in `cov` (TLC's own -coverage option
    slows this model down four-fold, so the counts come from the emitted transitions themselves).
    """
    pool = mode in ("pool", "poolsim")
    key = (
        {"status": "StatusStep", "use": "UseStep", "msg": "PoolMsgStep", "tick": "PoolTickStep"}
        if pool else {"msg": "MsgStep", "work": "WorkStep", "tick": "TickStep"}
    )
    seen: set[int] = set()
    batch: list[dict] = []
    n = 0
    if path.exists():
        with open(path) as f:
            for line in f:
                line = line.strip()
                if not line:
                    continue
                hsh = hash(line)
                if hsh in seen:
                    continue
                seen.add(hsh)
                v = json.loads(line)
                if isinstance(v, str):
                    v = json.loads(v)
                n += 1
                if mode == "states":
                    cov["InstallStep"] = cov.get("InstallStep", 0) + 1
                    batch.append(dict(v, id=n, kind="state"))
                else:
                    for st in v[1:] if simulate else v[-1:]:
                        cov[key[st["a"]]] = cov.get(key[st["a"]], 0) + 1
                    batch.append(dict(id=n, kind="pool" if pool else "hist", steps=v))
                if len(batch) >= size:
                    yield batch
                    batch = []
    if batch:
        yield batch


def _stage(rep: Report, prop: str, name: str, consts: dict, work: Path, mode: str, simulate=None, timeout=7200):
    """MC+GEN, RUN, VAL for one scope."""
    global _CFG
    consts = _consts(dict(consts, Mode=mode))
    d = work / name
    d.mkdir(parents=True, exist_ok=True)
    cases_file = d / "cases.ndjson"
    inv = list(MC_INV)
    res = run_tlc(
        "PoolMetrics", d, constants=consts, view="View", invariants=inv + (["SimEmit"] if simulate else []),
        env={"OUT_FILE": str(cases_file)}, simulate=simulate,
        depth=(consts["MaxDepth"] + 2 if simulate else None), seed=(SEED + 18 if simulate else None), timeout=timeout,
        # the depth bound reads the hidden history: only a single worker explores strictly breadth-first, which
        # makes the set of emitted histories deterministic (shortest path to every state)
        **({"workers": 1} if mode in ("history", "pool") else {}), heap="4g",
    )
    if not res.ok:
        rep.add_mc(name, res, _printable(consts), inv, mode=("simulate " + simulate) if simulate else "exhaustive")
        rep.fail(f"{prop}.MC.{'/'.join(res.violated)}", dict(stage=name, constants=str(_printable(consts))), res.counterexample[:3000])
        return
    _CFG = dict(consts)
    cov: dict[str, int] = (
        {"InstallStep": 0} if mode == "states"
        else {"StatusStep": 0, "UseStep": 0, "PoolMsgStep": 0, "PoolTickStep": 0} if mode in ("pool", "poolsim")
        else {"MsgStep": 0, "WorkStep": 0, "TickStep": 0}
    )
    run_s = val_s = 0.0
    total = done = val_states = 0
    ex: dict[str, int] = {}
    n_fail_records = 0
    # replayed and validated in batches so that the driver and each validating TLC hold a bounded number of records
    for bi, part in enumerate(_emitted_batches(cases_file, mode, simulate, cov, BATCH)):
        total += len(part)
        bd = d / f"batch{bi}"
        bd.mkdir(parents=True, exist_ok=True)
        t_run = Timer()
        # one JVM per shard in VAL: few shards for small stages (JVM start-up dominates there)
        weight = sum(len(c["steps"]) if c["kind"] != "state" else 1 for c in part)
        shards = replay_parallel(_worker, part, bd, nproc=max(1, min(NCPU, weight // 2500)))
        run_s += t_run.s()
        t_val = Timer()
        fails, done_b, st = validate_shards("PoolMetricsTrace", shards, bd, constants=dict(consts, Mode="trace"), timeout=timeout, heap="2g")
        val_s += t_val.s()
        done += done_b
        val_states += st["states"]
        for vf in bd.glob("verdict_impl_*.ndjson"):
            for v in read_emitted(vf):
                if v.get("done"):
                    for k, n in v["ex"].items():
                        ex[k] = ex.get(k, 0) + n
        if bi == 0 and len(rep.samples) < 4:
            rep.samples.append(load_ndjson(shards[0])[0])
        byid = None
        bad = False
        for v in fails:
            if v["clause"].startswith("M18."):
                raise MachineryError(f"recorded trace {v['tid']} is not the case TLC emitted ({v['clause']}): {v['detail']}")
            if v["clause"].startswith("X18."):
                dis = rep.extra.setdefault("disagreements", {})
                dis[v["clause"]] = dis.get(v["clause"], 0) + 1
                continue
            if not v["clause"].startswith(prop + "."):
                continue
            bad = True
            n_fail_records += 1
            if n_fail_records > 2000:  # enough to report; keeps the evidence file small
                continue
            if byid is None:
                byid = {}
                for p in shards:
                    for r_ in load_ndjson(p):
                        byid[r_["id"]] = r_
            rep.fail(v["clause"], dict(stage=name, constants=_printable(consts), trace=byid.get(v["tid"]), step=v["l"]), v["detail"])
        if not bad and bi > 0:
            for p in shards:  # clean batches of big scopes are not kept (disk)
                p.unlink(missing_ok=True)
    if total > BATCH and not n_fail_records:
        cases_file.unlink(missing_ok=True)  # hundreds of MB; TLC regenerates it deterministically
    res.coverage = cov
    rep.add_mc(name, res, _printable(consts), inv, mode=("simulate " + simulate) if simulate else "exhaustive")
    for a_, n in cov.items():
        if not n:
            raise RuntimeError(f"vacuity: action {a_} never taken in {name} ({cov})")
    if n_fail_records > 2000:
        rep.notes.append(f"stage {name}: {n_fail_records} failing verdict lines, the first 2000 are reported")
    rep.validated += done
    for k, n in ex.items():
        EX_TOTAL[k] = EX_TOTAL.get(k, 0) + n
    rep.extra.setdefault("stages", []).append(dict(
        stage=name, cases_emitted=total, cases_replayed=total, traces_validated=done, val_states=val_states,
        mc_s=res.wall_s, run_s=round(run_s, 2), val_s=round(val_s, 2), exercised=ex,
    ))


# antecedents that must have been exercised by at least one validated record
MUST_EXERCISE = ["wm", "zerototal", "none", "mono", "scale", "excluded", "eqlim", "outside", "missing", "notworking", "cap",
                 "evict", "nandrop", "timeout", "cachecmp", "resume", "lateuse", "latepub", "usenostatus", "poolpub"]


def _cpu_s() -> float:
    import resource

    a, b = resource.getrusage(resource.RUSAGE_CHILDREN), resource.getrusage(resource.RUSAGE_SELF)
    return round(a.ru_utime + a.ru_stime + b.ru_utime + b.ru_stime, 1)


def run(prop: str, tier: str) -> int:
    tm = Timer()
    cpu0 = _cpu_s()
    rep = Report(prop, tier)
    sc = SCOPES[tier]
    work = scratch(f"{prop}_{tier}")
    EX_TOTAL.clear()
    rep.assumptions = [
        "capacity, soc and soc limits on small integer grids; the code's float result is compared with TLC's exact rational "
        "within 1e-9 (fractions.Fraction) and, as fixed point, within 2e-6 % by TLC; rounding-only behaviour "
        "(math.isclose / is_close_to_zero windows) is not decided",
        "soc_lower_bound <= soc_upper_bound (inverted limits are outside the stated quantifier)",
        "when the total usable capacity of the qualifying batteries is zero the weighted mean is undefined; the property "
        "then only demands a value in [0, 100] (the code's 0.0 is recorded under X18.ZeroTotalIsZero, not judged)",
        "history stages: fake API channels and component graph, virtual-time loop, min_update_interval = 0; the cache "
        "projection reads SendOnUpdate._cached_metrics (skipped if the attribute disappears)",
        "pool stages: a real BatteryPool over a real BatteryPoolReferenceStore constructed directly (what "
        "microgrid.new_battery_pool / the data pipeline wire up - status tracker, power manager, resampler - is replaced "
        "by plain channels); status messages carry working sets only (uncertain = {})",
    ]
    only = [x for x in os.environ.get("VERIF_C18_STAGES", "").split(",") if x]  # development aid: run some stages only

    def want(name: str) -> bool:
        return not only or name in only

    if want("states"):
        _stage(rep, prop, "states", sc["states"], work, "states")
    for extra in ("states_mm", "states3"):
        if extra in sc and want(extra):
            _stage(rep, prop, extra, sc[extra], work, "states")
    if want("history"):
        _stage(rep, prop, "history", dict(sc["history"], HMsgs=sc["history_msgs"]), work, "history")
    n = sc["sim_num"]
    if want("sim"):
        _stage(rep, prop, "sim", sc["sim"], work, "sim", simulate=f"num={max(1, n // 16)}")
    if want("pool"):
        _stage(rep, prop, "pool", dict(sc["pool"], HMsgs=sc["pool_msgs"]), work, "pool")
    if want("poolsim"):
        _stage(rep, prop, "poolsim", sc["poolsim"], work, "poolsim", simulate=f"num={max(1, sc['poolsim_num'] // 16)}")
    rep.extra["exercised"] = dict(EX_TOTAL)
    rep.extra["cpu_s"] = round(_cpu_s() - cpu0, 1)  # CPU seconds of this check incl. TLC (wall time depends on machine load)
    if only:
        rep.notes.append(f"VERIF_C18_STAGES={','.join(only)}: partial run")
    if not rep.failures and not only:
        for k in MUST_EXERCISE:
            if not EX_TOTAL.get(k):
                raise RuntimeError(f"vacuity: no validated record exercised '{k}' ({EX_TOTAL})")
    return rep.finish(tm.s())
