"""Shared stages: parallel replay into the real code, sharded TLC trace validation."""

from __future__ import annotations

import concurrent.futures as cf
import json
import multiprocessing as mp
import random
from pathlib import Path

from .common import NCPU, SEED, chunks
from .tlc import MachineryError, read_emitted, run_tlc


def replay_parallel(func, cases: list, workdir: Path, nproc: int = NCPU, prefix: str = "impl") -> list[Path]:
    """Run func(chunk, out_path) in `nproc` forked processes; returns the shard files.

    func must write one JSON object per line to out_path, one per case, with an "id".
    """
    if not cases:
        return []
    parts = chunks(cases, nproc)
    paths = [workdir / f"{prefix}_{i}.ndjson" for i in range(len(parts))]
    if len(parts) == 1:
        func(parts[0], paths[0])
        return paths
    ctx = mp.get_context("fork")
    # a ProcessPoolExecutor raises BrokenProcessPool when a worker is killed (OOM) instead of hanging
    with cf.ProcessPoolExecutor(max_workers=len(parts), mp_context=ctx) as pool:
        futs = [pool.submit(func, part, path) for part, path in zip(parts, paths)]
        for f in futs:
            f.result()
    return paths


def validate_shards(
    trace_module: str,
    shard_files: list[Path],
    workdir: Path,
    *,
    constants: dict,
    init: str = "TInit",
    next_: str = "TNext",
    view: str | None = None,
    timeout: int = 3600,
    heap: str = "1200m",
    extra_env: dict | None = None,
    dfs_queue: bool = False,
    invariants: list[str] | None = None,
    unconsumed_clause: str | None = None,
) -> tuple[list[dict], int, dict]:
    """Validate each shard with its own TLC (workers=1 each, JVMs in parallel).

    Returns (failure verdict lines, number of traces fully consumed, tlc stats).
    Raises MachineryError if some trace was not consumed to its end.
    """
    shard_files = [p for p in shard_files if p.exists() and p.stat().st_size > 0]
    stats = dict(states=0, generated=0, wall_s=0.0)

    def one(i_p):
        i, p = i_p
        vf = workdir / f"verdict_{p.stem}.ndjson"
        if vf.exists():
            vf.unlink()
        env = {"TRACE_FILE": str(p), "VERDICT_FILE": str(vf)}
        env.update(extra_env or {})
        res = run_tlc(
            trace_module,
            workdir,
            constants=constants,
            init=init,
            next_=next_,
            view=view,
            env=env,
            workers=1,
            timeout=timeout,
            heap=heap,
            name=f"VAL_{p.stem}",
            dfs_queue=dfs_queue,
            invariants=invariants,
        )
        return res, vf, p

    fails: list[dict] = []
    done = 0
    with cf.ThreadPoolExecutor(max_workers=NCPU) as ex:
        for res, vf, p in ex.map(one, list(enumerate(shard_files))):
            if not res.ok:
                raise MachineryError(f"trace validation run failed on {p}: {res.violated}\n{res.counterexample[:1500]}")
            stats["states"] += res.distinct
            stats["generated"] += res.generated
            stats["wall_s"] = max(stats["wall_s"], res.wall_s)
            n_lines = sum(1 for _ in open(p))
            ids_done = set()
            progress: dict = {}
            for v in read_emitted(vf):
                if v.get("done"):
                    ids_done.add(v["tid"])
                elif "at" in v:
                    progress[v["tid"]] = max(progress.get(v["tid"], 0), v["at"])
                else:
                    fails.append(v)
            if len(ids_done) != n_lines and unconsumed_clause:
                # existential validation: no behaviour of the specification explains the trace
                for line in open(p):
                    tid_ = json.loads(line)["id"]
                    if tid_ not in ids_done:
                        at = progress.get(tid_, 1)
                        fails.append(dict(tid=tid_, l=at, clause=unconsumed_clause,
                                          detail=["longest explained prefix ends before line", at]))
                        ids_done.add(tid_)
            if len(ids_done) != n_lines:
                raise MachineryError(
                    f"trace validation consumed {len(ids_done)} of {n_lines} traces in {p} "
                    "(a trace was not explainable by the trace specification's step relation)"
                )
            done += len(ids_done)
    return fails, done, stats


def subsample(cases: list, limit: int, seed: int = SEED) -> tuple[list, bool]:
    """Deterministically subsample when there are more than `limit` cases."""
    if len(cases) <= limit:
        return cases, False
    rnd = random.Random(seed)
    idx = sorted(rnd.sample(range(len(cases)), limit))
    return [cases[i] for i in idx], True


def load_ndjson(path: Path) -> list:
    return [json.loads(x) for x in open(path) if x.strip()]
