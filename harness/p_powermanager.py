"""C11: PowerManager.tla — TLC histories (proposals of both actor groups, bounds updates,
distribution results, expiry) drive the REAL PowerManagingActor under the manual loop; what it
really sent to the power distributor and reported to the actors is validated by TLC against
PowerManagerTrace.tla (clauses SentIsSum, SentInBounds)."""

from __future__ import annotations

import json
import os
from pathlib import Path

from .common import NCPU, SEED, Timer, scratch
from .pipeline import load_ndjson, replay_parallel, subsample, validate_shards
from .tlc import read_emitted, run_tlc
from .verdict import Report

NONE = -99
NONGRID = 9999  # a value the real code produced that is not a small integer
TICK_S = 40.0  # one model tick; max_proposal_age is 60 s, so MaxAge = 1 tick (80 s > 60 s >= 40 s)
IDS = frozenset({7, 8})
OP_PRIO_OFFSET = 100  # report channels are named by (component_ids, priority) only: keep the groups apart

MC_INV = ["Inv_SentIsSum", "Inv_SentInBounds", "ReportsAreMemos", "MustSendNeverDrops", "DevImpliesSent"]
HARD_INV = ["SentIsSum", "SentInBounds", "ReportsAreMemos", "MustSendNeverDrops"]  # no deviation allowed
ACTIONS = ["bounds", "reg", "op", "result", "tick"]
DEV = "Dev_UnchangedGroupDroppedOnBoundsUpdate"
# The primary model is the design as repaired by /repo 52a89e3 (Fixed = TRUE).  VERIF_C11_LEGACY=1 validates
# against the design before that repair instead (only for looking at an old tree; not used by ./check).
FIXED = os.environ.get("VERIF_C11_LEGACY", "") != "1"


def S(lo, hi, xlo=0, xhi=0, has=True):
    return dict(has=has, lo=lo, hi=hi, xlo=xlo, xhi=xhi)


def Q(who, pref, lo=NONE, hi=NONE):
    return dict(who=who, pref=pref, lo=lo, hi=hi)


SCOPES = {
    "quick": dict(
        hist=dict(
            NA=2, G=3, Prio=[1, 2], MaxAge=1, MaxClock=2, MaxDepth=6, XG=0, MaxBack=1,
            SysAlpha=[S(-3, 3), S(-3, 1), S(-1, 3), S(-2, 2)],
            RegAlpha=[Q(1, 2), Q(1, -1), Q(1, 3), Q(2, NONE, -1, 2)],
            OpAlpha=[Q(1, -1), Q(1, 2), Q(2, NONE, 0, 1)],
        ),
        hist_limit=10000,
        every_second_one_in=4,  # in 1 of 4 executions the 1 s drop timer fires every second of a tick, else once per tick
        legacy_depth=5,  # design-level run of the model BEFORE the repair (keeps the named deviation exercised)
        sim=dict(NA=2, G=3, Prio=[1, 2], MaxAge=1, MaxClock=4, MaxDepth=10, XG=1, MaxBack=2, SysAlpha=[], RegAlpha=[], OpAlpha=[]),
        sim_num=2000,
    ),
    "thorough": dict(
        hist=dict(
            NA=2, G=3, Prio=[1, 2], MaxAge=1, MaxClock=3, MaxDepth=6, XG=1, MaxBack=2,
            SysAlpha=[S(-3, 3), S(-3, 1), S(-1, 3), S(-2, 2), S(-3, 3, -1, 1), S(0, 0, 0, 0, False)],
            RegAlpha=[Q(1, 2), Q(1, -1), Q(1, 3), Q(1, 0), Q(2, NONE, -1, 2), Q(2, 1, 0, 3)],
            OpAlpha=[Q(1, -1), Q(1, 2), Q(1, -3), Q(2, NONE, 0, 1)],
        ),
        hist_limit=120000,
        every_second_one_in=1,
        legacy_depth=6,
        deep_depth=8,  # design-level invariants only (no emission / replay)
        sim=dict(NA=3, G=3, Prio=[1, 2, 4], MaxAge=1, MaxClock=6, MaxDepth=14, XG=2, MaxBack=3, SysAlpha=[], RegAlpha=[], OpAlpha=[]),
        sim_num=60000,
    ),
}


# ---------------------------------------------------------------------------
# real-code side
class Exec:
    """One real PowerManagingActor under the manual loop, with fake channels around it.

    Substituted from the harness (no repo hook): `_data_pipeline.new_battery_pool`, which the
    actor calls to obtain the bounds stream, returns an object whose `_system_power_bounds` is a
    Broadcast channel the harness sends SystemBounds into.  Everything else is the real actor:
    `_run` (select over proposals / subscriptions / results / the drop timer), `_bounds_tracker`,
    `_send_updated_target_power`, `_calculate_target_power`, `_send_reports`, both Matryoshkas.
    """

    def __init__(self, prio: list[int], every_second: bool = True) -> None:
        from frequenz.channels import Broadcast
        from frequenz.client.microgrid import ComponentCategory
        from frequenz.quantities import Power

        from frequenz.sdk._internal._channels import ChannelRegistry
        from frequenz.sdk.microgrid import _data_pipeline
        from frequenz.sdk.microgrid import _power_distributing as pd
        from frequenz.sdk.microgrid._power_managing._base_classes import Proposal, ReportRequest, _Report
        from frequenz.sdk.microgrid._power_managing._power_managing_actor import PowerManagingActor
        from frequenz.sdk.timeseries._base_types import Bounds, SystemBounds

        from .vloop import ManualLoop

        self.Power, self.Proposal, self.Bounds, self.SystemBounds, self.pd = Power, Proposal, Bounds, SystemBounds, pd
        self.prio = prio
        self.every_second = every_second
        self.loop = ManualLoop()
        self.loop.__enter__()
        self._dp = _data_pipeline
        self._saved = _data_pipeline.new_battery_pool
        self.bounds_ch = Broadcast[SystemBounds](name="system-bounds")
        ex = self

        class FakePool:  # pylint: disable=too-few-public-methods
            def __init__(self) -> None:
                self._system_power_bounds = ex.bounds_ch

        def fake_new_battery_pool(*, priority, component_ids=None, **_kw):  # noqa: ARG001
            if component_ids != IDS:
                raise RuntimeError(f"unexpected component ids {component_ids}")
            return FakePool()

        _data_pipeline.new_battery_pool = fake_new_battery_pool
        self.prop_ch = Broadcast[Proposal](name="proposals")
        self.sub_ch = Broadcast[ReportRequest](name="subscriptions")
        self.req_ch = Broadcast[pd.Request](name="requests")
        self.res_ch = Broadcast[pd.Result](name="results")
        self.registry = ChannelRegistry(name="registry")
        self.requests: list = []
        self.reports: dict[tuple[bool, int], list] = {}
        self._pumps = []
        self._pump(self.req_ch.new_receiver(limit=200), self.requests)
        self.actor = PowerManagingActor(
            self.prop_ch.new_receiver(limit=50),
            self.sub_ch.new_receiver(limit=50),
            self.req_ch.new_sender(),
            self.res_ch.new_receiver(limit=50),
            self.registry,
            component_category=ComponentCategory.BATTERY,
        )
        self.actor.start()
        self.loop.run_until_idle()
        self._prop_s = self.prop_ch.new_sender()
        self._res_s = self.res_ch.new_sender()
        self._bounds_s = self.bounds_ch.new_sender()
        sub_s = self.sub_ch.new_sender()
        for op in (False, True):
            for k, p in enumerate(prio, start=1):
                rr = ReportRequest(source_id=self.source(op, k), component_ids=IDS, priority=self.impl_prio(op, k), set_operating_point=op)
                sink: list = []
                self.reports[(op, k)] = sink
                self._pump(self.registry.get_or_create(_Report, rr.get_channel_name()).new_receiver(limit=200), sink)
                self._inject(sub_s.send(rr))
        # latest report per subscriber (cumulative over the execution)
        self.latest: dict[tuple[bool, int], object] = {}
        self.last_request = None
        self.all_requests: list = []  # every Request object the actor sent, oldest first
        self.answered = dict(older=False, ans=NONE, lat=NONE)

    # -- plumbing ----------------------------------------------------------
    def _pump(self, rx, sink: list) -> None:
        async def pump() -> None:
            async for m in rx:
                sink.append(m)

        self._pumps.append(self.loop.create_task(pump()))

    def _inject(self, coro) -> None:
        t = self.loop.create_task(coro)
        self.loop.run_until_idle()
        if not t.done():
            raise RuntimeError("injection did not complete")
        t.result()

    def close(self) -> None:
        self._dp.new_battery_pool = self._saved
        self.loop.__exit__(None, None, None)

    def source(self, op: bool, k: int) -> str:
        return f"{'op' if op else 'reg'}-{k}"

    def impl_prio(self, op: bool, k: int) -> int:
        return self.prio[k - 1] + (OP_PRIO_OFFSET if op else 0)

    def pw(self, v):
        return None if v == NONE else self.Power.from_watts(float(v))

    @staticmethod
    def iv(p) -> int:
        if p is None:
            return NONE
        w = p.as_watts()
        return int(w) if float(w).is_integer() and abs(w) < 1000 else NONGRID

    # -- events ------------------------------------------------------------
    def bounds(self, r: dict) -> None:
        from datetime import datetime, timezone

        incl = self.Bounds(self.pw(r["lo"]), self.pw(r["hi"])) if r["has"] else None
        if r["xlo"] == 0 and r["xhi"] == 0 and not r["has"]:
            excl = None
        else:
            excl = self.Bounds(self.pw(r["xlo"]), self.pw(r["xhi"]))
        self._inject(self._bounds_s.send(self.SystemBounds(timestamp=datetime.now(tz=timezone.utc), inclusion_bounds=incl, exclusion_bounds=excl)))

    def propose(self, op: bool, r: dict) -> None:
        k = r["who"]
        p = self.Proposal(
            source_id=self.source(op, k),
            preferred_power=self.pw(r["pref"]),
            bounds=self.Bounds(self.pw(r["lo"]), self.pw(r["hi"])),
            component_ids=IDS,
            priority=self.impl_prio(op, k),
            creation_time=self.loop.time(),
            set_operating_point=op,
        )
        self._inject(self._prop_s.send(p))

    def result(self, kind: str, back: int = 0) -> None:
        """A result for the request sent `back` requests before the latest (the very Request object)."""
        pd = self.pd
        if self.all_requests:
            idx = max(0, len(self.all_requests) - 1 - back)
            req = self.all_requests[idx]
            self.answered = dict(older=idx < len(self.all_requests) - 1, ans=self.iv(req.power), lat=self.iv(self.all_requests[-1].power))
        else:
            req = pd.Request(power=self.Power.zero(), component_ids=IDS)
        power = req.power
        zero = self.Power.zero()
        if kind == "success":
            res = pd.Success(request=req, succeeded_power=power, succeeded_components=set(IDS), excess_power=zero)
        elif kind == "partial":
            res = pd.PartialFailure(
                request=req, succeeded_power=zero, succeeded_components={7}, excess_power=zero,
                failed_power=power, failed_components={8},
            )
        else:
            res = pd.Error(request=req, msg="distribution failed")
        self._inject(self._res_s.send(res))

    def tick(self) -> None:
        if self.every_second:
            self.loop.advance(TICK_S)  # the 1 s drop timer fires 40 times
        else:
            # late wake-up: the clock moves 40 s at once, the drop timer (SkipMissedAndDrift) fires once
            self.loop.jump_to(self.loop.time() + TICK_S)
            self.loop.run_until_idle()

    def observe(self) -> dict:
        """What arrived on the requests channel and the report channels since the last call."""
        self.loop.run_until_idle()
        req = [self.iv(r.power) for r in self.requests]
        for r in self.requests:
            if frozenset(r.component_ids) != IDS:
                raise RuntimeError("request for foreign components")
        if self.requests:
            self.last_request = self.requests[-1]
        self.all_requests.extend(self.requests)
        self.requests.clear()
        answered, self.answered = self.answered, dict(older=False, ans=NONE, lat=NONE)
        n = {False: 0, True: 0}
        newest: dict[bool, object] = {}
        for (op, k), sink in self.reports.items():
            n[op] += len(sink)
            if sink:
                self.latest[(op, k)] = sink[-1]
                newest[op] = sink[-1]
            sink.clear()
        for op, rep_ in newest.items():
            self.latest[(op, 0)] = rep_

        def tgt(op: bool) -> int:
            r = self.latest.get((op, 0))
            return NONE if r is None else self.iv(r.target_power)

        def bnds(op: bool) -> list:
            out = []
            for k in range(1, len(self.prio) + 1):
                r = self.latest.get((op, k))
                b = None if r is None else r.bounds
                out.append([NONE, NONE] if b is None else [self.iv(b.lower), self.iv(b.upper)])
            return out

        return dict(req=req, nr=n[False], no=n[True], rr=tgt(False), ro=tgt(True), rb=bnds(False), ob=bnds(True), **answered)


def execute(case: dict, cfg: dict) -> dict:
    ex = Exec(cfg["Prio"], every_second=(case["id"] % cfg.get("EverySecondOneIn", 1) == 0))
    try:
        ex.observe()  # the subscriptions themselves produce nothing
        out = []
        for s in case["steps"]:
            a = s["a"]
            if a == "bounds":
                ex.bounds(s)
            elif a == "reg":
                ex.propose(False, s)
            elif a == "op":
                ex.propose(True, s)
            elif a == "result":
                ex.result(s["k"], s.get("back", 0))
            elif a == "tick":
                ex.tick()
            else:
                raise ValueError(a)
            out.append(dict(s, obs=ex.observe()))
        return dict(id=case["id"], steps=out)
    finally:
        ex.close()


_CFG: dict = {}


def _worker(chunk, out_path):
    from .common import use_repo

    use_repo()
    with open(out_path, "w") as f:
        for c in chunk:
            f.write(json.dumps(execute(c, _CFG), separators=(",", ":")) + "\n")


# ---------------------------------------------------------------------------
def _printable(consts: dict) -> dict:
    return {k: (f"{len(v)} symbols" if isinstance(v, list) and v and isinstance(v[0], dict) else v) for k, v in consts.items()}


def _stage(rep: Report, name: str, consts: dict, work: Path, mode: str, limit, simulate=None, timeout=3000, every_second_one_in=1):
    """MC+GEN, RUN, VAL for one scope."""
    global _CFG
    consts = dict(consts, Fixed=FIXED, Mode=mode)
    d = work / name
    d.mkdir(parents=True, exist_ok=True)
    cases_file = d / "cases.ndjson"
    # (no -coverage: TLC's cost-model creation does not terminate on the nested operators of this
    #  module; per-action transition counts are taken from the emitted transitions instead)
    # exhaustive emission runs with ONE worker: the depth bound reads the hidden history, and only a
    # strict breadth-first search reaches every state first by a shortest history (deterministic,
    # complete up to MaxDepth); with several workers the explored set varies from run to run
    inv = HARD_INV if FIXED else MC_INV
    res = run_tlc(
        "PowerManager", d, constants=consts, view="View", invariants=inv + (["SimEmit"] if simulate else []),
        env={"OUT_FILE": str(cases_file)}, simulate=simulate, workers=(NCPU if simulate else 1),
        depth=(consts["MaxDepth"] + 2 if simulate else None), seed=(SEED + 11 if simulate else None), timeout=timeout,
    )
    raw = read_emitted(cases_file)
    acts = {a: 0 for a in ACTIONS}
    for hh in raw:
        for s in (hh[1:] if simulate else hh[-1:]):
            acts[s["a"]] += 1
    res.coverage = acts
    rep.add_mc(name, res, _printable(consts), inv, mode=("simulate " + simulate) if simulate else "exhaustive, one history per transition")
    if not res.ok:
        rep.fail("C11.MC." + "/".join(res.violated), dict(stage=name, constants=_printable(consts)), res.counterexample[:3000])
        return
    for a in ACTIONS:
        if not acts[a]:
            raise RuntimeError(f"vacuity: action {a} never taken in {name} ({acts})")
    cases = [dict(id=i + 1, steps=c) for i, c in enumerate(raw)]
    total = len(cases)
    if limit:
        cases, cut = subsample(cases, limit)
        if cut:
            rep.exhaustive = False
    _CFG = dict(consts, EverySecondOneIn=every_second_one_in)
    shards = replay_parallel(_worker, cases, d)
    fails, done, st = validate_shards("PowerManagerTrace", shards, d, constants=dict(consts, Mode="trace", MaxClock=999))
    rep.validated += done

    # book-keeping on the recorded executions: how often was each clause's antecedent exercised
    ex = dict(requests=0, requests_under_bounds=0, steps=0, steps_without_request=0,
              requests_after={a: 0 for a in ACTIONS}, both_groups_have_target=0)
    byid = {}
    for p in shards:
        for r_ in load_ndjson(p):
            byid[r_["id"]] = r_
            has = False
            for s in r_["steps"]:
                o = s["obs"]
                if s["a"] == "bounds":
                    has = bool(s["has"])
                ex["requests_under_bounds"] += len(o["req"]) if has else 0
                ex["steps"] += 1
                if not o["req"]:
                    ex["steps_without_request"] += 1
                ex["requests"] += len(o["req"])
                ex["requests_after"][s["a"]] += len(o["req"])
                if o["req"] and o["rr"] != NONE and o["ro"] != NONE:
                    ex["both_groups_have_target"] += 1
    dis: dict[str, int] = {}
    obs: dict[str, int] = {}
    dev_fired = 0
    for v in fails:
        c = v["clause"]
        if c.startswith("DIS."):
            dis[c] = dis.get(c, 0) + 1
            if len(rep.extra.setdefault("disagreement_samples", [])) < 3:
                rep.extra["disagreement_samples"].append(dict(stage=name, clause=c, step=v["l"], detail=v["detail"], trace=byid.get(v["tid"])))
            continue
        if c.startswith("OBS."):
            obs[c] = obs.get(c, 0) + 1
            continue
        devs = list(v.get("deviations") or [])
        dev_fired += DEV in devs
        tr = byid.get(v["tid"])
        rep.fail(c, dict(stage=name, constants=_printable(consts), trace_constants=_trace_consts(consts), trace=dict(id=v["tid"], steps=tr["steps"][: v["l"]]) if tr else None, step=v["l"]), v["detail"], deviations=devs)
    if not ex["requests"]:
        raise RuntimeError(f"vacuity: no request was ever observed in {name}")
    if not ex["requests_under_bounds"]:
        raise RuntimeError(f"vacuity: no request while inclusion bounds were known in {name}")
    if not ex["both_groups_have_target"]:
        raise RuntimeError(f"vacuity: no request while both groups had a target in {name}")
    if not ex["requests_after"]["bounds"]:
        raise RuntimeError(f"vacuity: no request after a bounds update in {name}")
    if not obs.get("OBS.LatePartialFailure"):
        raise RuntimeError(f"vacuity: no partial failure for a request older than the latest in {name}")
    if not obs.get("OBS.LatePartialFailureOtherPower"):
        raise RuntimeError(f"vacuity: no late partial failure for a request whose power differs from the latest in {name}")
    if FIXED and not obs.get("OBS.UnchangedGroupSubstituted"):
        raise RuntimeError(f"vacuity: no bounds update in {name} on which exactly one group's target changed")
    rep.extra.setdefault("stages", []).append(
        dict(stage=name, cases_emitted=total, cases_replayed=len(cases), traces_validated=done, val_states=st["states"],
             transitions_per_action=acts, exercised=ex,
             partial_failure_for_request_older_than_latest=obs.get("OBS.LatePartialFailure", 0),
             of_which_with_another_power=obs.get("OBS.LatePartialFailureOtherPower", 0), deviation_fired=dev_fired, disagreements=dis, observations=obs)
    )
    d_all = rep.extra.setdefault("disagreements", {})
    for k, n in dis.items():
        d_all[k] = d_all.get(k, 0) + n
    if dis:
        rep.notes.append(f"{name}: the code differs from the transcription in PowerManager.tla without falsifying a C11 clause: {dis} (see evidence disagreement_samples)")
    if cases and len(rep.samples) < 3:
        recs = load_ndjson(shards[len(shards) // 2])
        rep.samples.append(recs[len(recs) // 2])


def _trace_consts(consts: dict) -> dict:
    return dict({k: consts[k] for k in ("NA", "G", "Prio", "MaxAge", "XG", "MaxBack", "Fixed")}, MaxClock=999, MaxDepth=0,
                SysAlpha=[], RegAlpha=[], OpAlpha=[], Mode="trace")


def _deep_design(rep: Report, consts: dict, depth: int, work: Path) -> None:
    """Design-level invariants of the model of the code as it is, deeper than what is replayed."""
    consts = dict(consts, MaxDepth=depth, Fixed=FIXED, Mode="history")
    inv = HARD_INV if FIXED else MC_INV
    res = run_tlc("PowerManager", work / "deep_design", constants=consts, view="ViewD", invariants=inv, timeout=6000)
    rep.add_mc("deep_design", res, _printable(consts), inv, mode="exhaustive, design level only")
    if not res.ok:
        rep.fail("C11.MC." + "/".join(res.violated), dict(stage="deep_design", constants=_printable(consts)), res.counterexample[:3000])


def _legacy_design(rep: Report, consts: dict, depth: int, work: Path) -> None:
    """Design-level run of the model BEFORE the repair (Fixed = FALSE): SentIsSum fails there exactly under the
    named deviation (invariant `SentIsSum \\/ Dev_...`), SentInBounds holds.  Says nothing about the code."""
    consts = dict(consts, MaxDepth=depth, Fixed=False, Mode="history")
    res = run_tlc("PowerManager", work / "legacy_design", constants=consts, view="ViewD", invariants=MC_INV, timeout=3000)
    rep.add_mc("legacy_design", res, _printable(consts), MC_INV, mode="exhaustive, design before the repair, named deviation allowed")
    rep.extra["old_design_fails_only_under_named_deviation"] = bool(res.ok)
    if not res.ok:
        rep.notes.append("model of the design before the repair: " + "/".join(res.violated) + " fails outside the named deviation")


def run(prop: str, tier: str) -> int:
    tm = Timer()
    rep = Report(prop, tier)
    sc = SCOPES[tier]
    work = scratch(f"{prop}_{tier}")
    rep.assumptions = [
        "one component group; values are small integers (W); one event at a time, the loop runs to quiescence between events",
        "the bounds stream is substituted (module attribute _data_pipeline.new_battery_pool returns a fake pool); the actor, both Matryoshkas, the channels and the drop timer are real",
        "'currently reported' = target_power of the latest _Report each actor group received by the time the event is handled "
        "(reports follow the request inside the same handler); a group without target (None) counts as 0",
        "regular and operating-point actors use distinct priorities (report channels are named by priority only)",
        "a distribution result carries the very Request object the actor sent: the latest one or one of the MaxBack before it (late results)",
        "one tick = 40 s of virtual time, proposals expire after 60 s; the actor's own 1 s drop timer does the expiry "
        "(quick: in 3 of 4 executions the clock jumps a whole tick and the timer fires once, late)",
    ]
    one_in = sc["every_second_one_in"]
    _stage(rep, "history", sc["hist"], work, "history", sc["hist_limit"], every_second_one_in=one_in)
    if FIXED:
        _legacy_design(rep, sc["hist"], sc["legacy_depth"], work)
    if "deep_depth" in sc:
        _deep_design(rep, sc["hist"], sc["deep_depth"], work)
    n = sc["sim_num"]
    _stage(rep, "sim", sc["sim"], work, "sim", None, simulate=f"num={max(1, n // 16)}", every_second_one_in=one_in)
    rep.exhaustive = False if tier == "quick" else rep.exhaustive
    return rep.finish(tm.s())


def replay(prop: str, data: dict) -> int:
    """./check C11 --replay <file>: re-run one recorded history on the real actor and validate it again."""
    from .common import use_repo

    use_repo()
    case = data["case"]
    consts = case["trace_constants"]
    work = scratch(f"{prop}_replay")
    steps = [{k: v for k, v in s.items() if k != "obs"} for s in case["trace"]["steps"]]
    rec = execute(dict(id=1, steps=steps), consts)
    p = work / "impl_0.ndjson"
    p.write_text(json.dumps(rec, separators=(",", ":")) + "\n")
    fails, _, _ = validate_shards("PowerManagerTrace", [p], work, constants=consts)
    for s in rec["steps"]:
        print({k: v for k, v in s.items() if k != "obs"}, "->", s["obs"])
    bad = [v for v in fails if v["clause"].startswith(prop + ".")]
    for v in fails:
        print("clause", v["clause"], "step", v["l"], "detail", v["detail"], "deviations", v.get("deviations"))
    return 1 if bad else 0
