"""X03 (extension): EV charger / PV inverter status trackers and the EV charger manager.

Part 1  ComponentStatus.tla — TLC behaviours (messages of every fault class, silences, set-power
        results, same-instant message/timer races) drive the REAL EVChargerStatusTracker and
        PVInverterStatusTracker on the virtual clock; TLC evaluates every clause on the statuses the
        code put on its channel (ComponentStatusTrace.tla) and explains each execution by the
        specification (existential validation).
Part 2  EVChargerPower.tla — TLC behaviours (charger data messages, requests, 30 s ticks, one outcome
        per set_power call) drive the REAL EVChargerManager over a scripted fake API client; TLC
        re-executes the transcription on the recorded events and evaluates every clause on the
        set_power calls and Results the code produced (EVChargerPowerTrace.tla).
"""

from __future__ import annotations

import json
import os
import random
from datetime import timedelta
from pathlib import Path

from .common import SEED, Timer, scratch
from .pipeline import load_ndjson, replay_parallel, validate_shards
from .tlc import read_emitted, run_tlc
from .verdict import Report

PROP = "X03"
ALL_FIXES = {"edge", "override", "unblock", "unmentioned"}
KINDS = {"ev": {"ok", "cable", "state", "stale", "edge"}, "pv": {"ok", "state", "stale", "edge"}}
ST_BASE = dict(MaxAge=5, MinBlock=1, MaxBlock=4, TickW=1, MaxDepth=0, Horizon=0, MaxEvents=0, Regular=False)
ST_STRICT = ["TypeOK", "DeviationFree", "WorkingImpliesHealthyAndFresh", "NotWorkingWhenDisqualified", "WorkingWhenHealthy",
             "ChannelIsStatus", "BackoffDoubles"]
ST_CODED = ["TypeOK", "WorkingImpliesHealthyAndFreshOrDev", "NotWorkingWhenDisqualifiedOrDev", "WorkingWhenHealthy",
            "ChannelIsStatus", "BackoffDoublesOrDev"]
ST_PROPS = ["NotifyOnlyOnChange"]
ST_STEPS = ["TickStep", "DataStep", "ResStep", "TimerStep", "LateStep"]
RACE_KS = [0, 1, 2, 3, 4, 5, 6, 8]
LATE_K = 3
SHORT = {"NOT_WORKING": "NW", "UNCERTAIN": "UN", "WORKING": "WK"}
NONE = -99
CID = 6  # component id of the tracked charger / inverter

SCOPES = {
    "quick": dict(
        nproc=8,
        st_gen=dict(Horizon=12, MaxEvents=5), st_gen_limit=350, st_race_limit=12,
        st_gen_regular=dict(Horizon=12, MaxEvents=6), st_gen_regular_limit=300,
        st_sim=dict(Horizon=60, MaxEvents=60, MaxDepth=30, TickW=5), st_sim_num=60,
        mg_mc=dict(Reqs={0, 2500, 5000, 9000}, MaxSteps=5, MaxTicks=3),
        mg_deep=dict(Reqs={2500, 5000, 9000}, MaxSteps=7, MaxTicks=2, Kinds={"ok", "off"}, Uses={"zero", "full"}, UBs={4800}),
        mg_gen=dict(Reqs={0, 2500, 5000, 9000}, MaxSteps=4, MaxTicks=2), mg_gen_limit=700,
        mg_gen_deep=dict(Reqs={2500, 9000}, MaxSteps=7, MaxTicks=2, Outs={"ok", "to"}, Kinds={"ok", "off"}, Uses={"zero", "full"}, UBs={4800}), mg_gen_deep_limit=400,
        mg_sim=dict(N=3, Reqs={0, 2500, 4000, 6500, 9000, 14000}, MaxSteps=40, MaxTicks=40, MaxDepth=30), mg_sim_num=160,
    ),
    "thorough": dict(
        nproc=16,
        st_gen=dict(Horizon=12, MaxEvents=7), st_gen_limit=20000, st_race_limit=400,
        st_gen_regular=dict(Horizon=14, MaxEvents=8), st_gen_regular_limit=15000,
        st_sim=dict(Horizon=200, MaxEvents=200, MaxDepth=80, TickW=5), st_sim_num=6000,
        mg_mc=dict(Reqs={0, 2500, 4000, 6500, 9000}, MaxSteps=6, MaxTicks=4),
        mg_deep=dict(Reqs={0, 2500, 5000, 9000}, MaxSteps=8, MaxTicks=3, Kinds={"ok", "off"}, Uses={"zero", "half", "full"}, UBs={4800}),
        mg_gen=dict(Reqs={0, 2500, 5000, 9000}, MaxSteps=5, MaxTicks=3), mg_gen_limit=30000,
        mg_gen_deep=dict(Reqs={2500, 5000, 9000}, MaxSteps=8, MaxTicks=2, Outs={"ok", "to"}, Kinds={"ok", "off"}, Uses={"zero", "full"}, UBs={4800}), mg_gen_deep_limit=15000,
        mg_sim=dict(N=3, Reqs={0, 2500, 4000, 6500, 9000, 14000}, MaxSteps=200, MaxTicks=200, MaxDepth=80), mg_sim_num=8000,
    ),
}

_WORK: Path | None = None
_NPROC = 16


# ---------------------------------------------------------------------------
# Part 1: status trackers
class StatusExec:
    """One execution of a real EV charger / PV inverter status tracker under the manual loop."""

    def __init__(self, comp: str, cfg: dict, salt: int = 0) -> None:
        from frequenz.channels import Broadcast

        from frequenz.sdk.microgrid import connection_manager
        from frequenz.sdk.microgrid._power_distributing._component_status import (
            EVChargerStatusTracker,
            PVInverterStatusTracker,
            SetPowerResult,
        )

        from .vloop import ManualLoop

        self.comp, self.cfg, self.salt = comp, cfg, salt
        self.lines: list[dict] = []
        self.new_sent: list[str] = []
        self.foreign: list[int] = []
        self.nmsg = 0
        self.SetPowerResult = SetPowerResult
        ex = self

        class _Api:
            def __init__(self) -> None:
                self.ch = Broadcast(name=f"data{CID}")

            async def ev_charger_data(self, cid, maxsize=50):  # pylint: disable=unused-argument
                if comp != "ev" or cid != CID:
                    raise RuntimeError(f"unexpected ev_charger_data({cid})")
                return self.ch.new_receiver(limit=50)

            async def inverter_data(self, cid, maxsize=50):  # pylint: disable=unused-argument
                if comp != "pv" or cid != CID:
                    raise RuntimeError(f"unexpected inverter_data({cid})")
                return self.ch.new_receiver(limit=50)

        class _CM:
            def __init__(self) -> None:
                self.api_client = _Api()

        self.loop = ManualLoop()
        self.loop.__enter__()
        self._cmmod = connection_manager
        self._saved_cm = connection_manager._CONNECTION_MANAGER  # pylint: disable=protected-access
        self.cm = _CM()
        connection_manager._CONNECTION_MANAGER = self.cm  # harness-side substitution of the microgrid connection
        self.st_ch = Broadcast(name="status")
        self.res_ch = Broadcast(name="set_power_result")
        st_recv = self.st_ch.new_receiver(limit=200)
        cls = EVChargerStatusTracker if comp == "ev" else PVInverterStatusTracker
        self.tracker = cls(
            component_id=CID, max_data_age=timedelta(seconds=cfg["MaxAge"]),
            max_blocking_duration=timedelta(seconds=cfg["MaxBlock"]),
            status_sender=self.st_ch.new_sender(), set_power_result_receiver=self.res_ch.new_receiver(limit=50),
        )
        self.res_sender = self.res_ch.new_sender()

        async def consume() -> None:
            async for m in st_recv:
                if m.component_id != CID:
                    ex.foreign.append(m.component_id)
                ex.new_sent.append(SHORT[m.value.name])

        self._consumer = self.loop.create_task(consume())
        self.tracker.start()
        self.loop.run_until_idle()
        self.sender = self.cm.api_client.ch.new_sender()
        self._line(ev="start")

    def close(self) -> None:
        self._cmmod._CONNECTION_MANAGER = self._saved_cm  # pylint: disable=protected-access
        self.loop.__exit__(None, None, None)

    # -- building messages ---------------------------------------------------
    def _lag(self, kind: str) -> int:
        m = self.cfg["MaxAge"]
        return {"stale": m + 1, "edge": m, "lag": 2}.get(kind, 0)

    def _ev_msg(self, kind: str):
        from frequenz.client.microgrid import EVChargerCableState as C, EVChargerComponentState as S, EVChargerData

        self.nmsg += 1
        v = self.nmsg + self.salt
        good_c = [C.EV_PLUGGED, C.EV_LOCKED]
        bad_c = [C.UNPLUGGED, C.CHARGING_STATION_PLUGGED, C.CHARGING_STATION_LOCKED, C.UNSPECIFIED]
        good_s = [S.READY, S.CHARGING, S.DISCHARGING]
        bad_s = [S.ERROR, S.NOT_READY, S.STARTING, S.AUTHORIZATION_REJECTED, S.INTERRUPTED, S.UNKNOWN, S.UNSPECIFIED]
        cable = bad_c[v % len(bad_c)] if kind == "cable" else good_c[v % len(good_c)]
        state = bad_s[v % len(bad_s)] if kind == "state" else good_s[(v // 2) % len(good_s)]
        z = (0.0, 0.0, 0.0)
        ts = self.loop.wall_now() - timedelta(seconds=self._lag(kind))
        return EVChargerData(
            component_id=CID, timestamp=ts, active_power=0.0, active_power_per_phase=z, current_per_phase=z, reactive_power=0.0,
            reactive_power_per_phase=z, voltage_per_phase=(230.0, 230.0, 230.0), active_power_inclusion_lower_bound=0.0,
            active_power_exclusion_lower_bound=0.0, active_power_inclusion_upper_bound=11040.0, active_power_exclusion_upper_bound=0.0,
            frequency=50.0, cable_state=cable, component_state=state,
        ), f"{cable.name}/{state.name}"

    def _pv_msg(self, kind: str):
        from frequenz.client.microgrid import ErrorLevel, InverterComponentState as S, InverterData, InverterError

        self.nmsg += 1
        v = self.nmsg + self.salt
        good = [S.DISCHARGING, S.CHARGING, S.IDLE, S.STANDBY]
        bad = [S.ERROR, S.OFF, S.SWITCHING_ON, S.SWITCHING_OFF, S.UNAVAILABLE, S.UNKNOWN, S.UNSPECIFIED]
        state = bad[v % len(bad)] if kind == "state" else good[v % len(good)]
        errors = [InverterError(level=ErrorLevel.WARN)] if v % 3 == 0 else []
        z = (0.0, 0.0, 0.0)
        ts = self.loop.wall_now() - timedelta(seconds=self._lag(kind))
        return InverterData(
            component_id=CID, timestamp=ts, active_power=0.0, active_power_per_phase=z, reactive_power=0.0,
            reactive_power_per_phase=z, current_per_phase=z, voltage_per_phase=z, active_power_inclusion_lower_bound=-1000.0,
            active_power_exclusion_lower_bound=0.0, active_power_inclusion_upper_bound=0.0, active_power_exclusion_upper_bound=0.0,
            frequency=50.0, component_state=state, errors=errors,
        ), f"{state.name}/{len(errors)}"

    @staticmethod
    def _send_now(coro) -> None:
        try:
            coro.send(None)
        except StopIteration:
            return
        raise RuntimeError("send suspended; cannot inject synchronously")

    # -- observation -----------------------------------------------------------
    def _proj(self) -> dict:
        try:
            bs = self.tracker._blocking_status  # pylint: disable=protected-access
            until = NONE if bs.blocked_until is None else round((bs.blocked_until - self.loop._epoch).total_seconds())  # pylint: disable=protected-access
            return dict(until=until, dur=round(bs.last_blocking_duration.total_seconds()))
        except AttributeError:
            return dict(until=-1, dur=-1)

    def _line(self, **kw) -> None:
        if self.foreign:
            raise RuntimeError(f"status sent for components {self.foreign}, which are not the tracked component")
        rec = dict(ev="", kind="", k=-1, f="", run=True, variant="")
        rec.update(kw)
        rec["idle"] = self.loop.idle()
        rec["t"] = round(self.loop.time())
        rec["sent"] = self.new_sent
        self.new_sent = []
        rec["proj"] = self._proj()
        self.lines.append(rec)

    # -- harness steps -----------------------------------------------------------
    def tick(self, run: bool) -> None:
        t = self.loop.time() + 1.0
        if run:
            self.loop.advance_to(t)
        else:
            self.loop.jump_to(t)
        self._line(ev="tick", run=run)

    def msg(self, kind: str, k: int) -> None:
        kk = -1
        if not self.loop.idle():
            kk = 0
            for _ in range(max(0, k)):
                if self.loop.idle():
                    break
                self.loop.step()
                kk += 1
        m, variant = self._ev_msg(kind) if self.comp == "ev" else self._pv_msg(kind)
        self._send_now(self.sender.send(m))
        self.loop.run_until_idle()
        self._line(ev="msg", kind=kind, k=kk, variant=variant)

    def res(self, f: str) -> None:
        other = CID + 1 + (self.salt % 3)
        succ = {CID} if f == "ok" else ({other} if self.salt % 2 else set())
        fail = {CID} if f == "fail" else ({other} if f == "none" and self.salt % 2 == 0 else set())
        self._send_now(self.res_sender.send(self.SetPowerResult(succeeded=succ, failed=fail)))
        self.loop.run_until_idle()
        self._line(ev="res", f=f)


def st_execute(case: dict, cfg: dict) -> dict:
    ex = StatusExec(case["comp"], cfg, salt=case["id"])
    try:
        h = case["h"]
        race_k = case.get("k")
        i = 0
        while i < len(h):
            a = h[i]
            if a["a"] == "tick":
                nxt = h[i + 1] if i + 1 < len(h) else None
                if nxt and nxt["a"] == "msg" and (nxt["pre"] or nxt["late"]):
                    # same-instant race: move the clock, inject the message k iterations into the wake-up
                    ex.tick(run=False)
                    k = race_k if race_k is not None else (LATE_K if nxt["late"] else 0)
                    ex.msg(nxt["kind"], k)
                    i += 2
                    continue
                ex.tick(run=True)
            elif a["a"] == "msg":
                ex.msg(a["kind"], -1)
            elif a["a"] == "res":
                ex.res(a["f"])
            # timer actions of the behaviour are realised by the tracker itself
            i += 1
        return dict(id=case["id"], comp=case["comp"], src=case.get("src", ""), k=(-1 if race_k is None else race_k), lines=ex.lines)
    finally:
        ex.close()


def st_execute_lines(trace: dict, cfg: dict) -> dict:
    """Re-drive the real tracker along the harness steps of a recorded trace (used by --replay)."""
    ex = StatusExec(trace.get("comp", cfg["CompKind"]), cfg, salt=trace["id"])
    try:
        for x in trace["lines"]:
            if x["ev"] == "tick":
                ex.tick(run=x["run"])
            elif x["ev"] == "msg":
                ex.msg(x["kind"], x["k"])
            elif x["ev"] == "res":
                ex.res(x["f"])
        return dict(id=trace["id"], comp=trace.get("comp", cfg["CompKind"]), src="replay", k=trace.get("k", -1), lines=ex.lines)
    finally:
        ex.close()


_CFG: dict = {}


def _st_worker(chunk, out_path):
    from .common import use_repo

    use_repo()
    with open(out_path, "w") as f:
        for c in chunk:
            f.write(json.dumps(st_execute(c, _CFG), separators=(",", ":")) + "\n")


def _is_deep(ln: str) -> bool:
    """Histories worth keeping besides the uniform sample: healthy data only and at least three failed commands
    over at least three seconds (only those can reach the back-off cap)."""
    return ln.count("fail") >= 3 and ln.count("tick") >= 3 and ln.count("kind") == ln.count(r'kind\":\"ok')


def _sample_emitted(path: Path, limit: int | None, seed: int, deep: int = 0, is_deep=None) -> tuple[list, int]:
    """Read the histories TLC emitted; deterministically subsample by line index when there are many."""
    if not path.exists():
        return [], 0
    total = 0
    deep_idx: list[int] = []
    with open(path) as f:
        for ln in f:
            if not ln.strip():
                continue
            if deep and is_deep and is_deep(ln):
                deep_idx.append(total)
            total += 1
    if not limit or total <= limit:
        return read_emitted(path), total
    rnd = random.Random(seed)
    keep = set(rnd.sample(range(total), limit))
    keep |= set(rnd.sample(deep_idx, min(deep, len(deep_idx))))
    out = []
    with open(path) as f:
        i = -1
        for ln in f:
            if not ln.strip():
                continue
            i += 1
            if i in keep:
                v = json.loads(ln)
                out.append(json.loads(v) if isinstance(v, str) else v)
    return out, total


def _has_race(hist: list[dict]) -> bool:
    return any(
        a["a"] == "tick" and i + 1 < len(hist) and hist[i + 1]["a"] == "msg" and (hist[i + 1]["pre"] or hist[i + 1]["late"])
        for i, a in enumerate(hist)
    )


def _plain(consts: dict) -> dict:
    return {k: (sorted(x) if isinstance(x, (set, frozenset)) else x) for k, x in consts.items()}


def _st_consts(comp: str, sc: dict, mode: str, fixes: set) -> dict:
    c = dict(ST_BASE, CompKind=comp, Kinds=KINDS[comp], Mode=mode, Fixes=set(fixes))
    c.update(sc)
    return c


def _merge_stats(tot: dict, stats: dict) -> None:
    for k_, n in stats.items():
        tot[k_] = max(tot.get(k_, 0), n) if k_.startswith("max") else tot.get(k_, 0) + n


def _run_jobs(jobs: list[dict]) -> None:
    """Run the TLC model runs of both parts concurrently (each is a subprocess); job['res'] gets the TLCResult."""
    import concurrent.futures as cf

    def one(job):
        d = _WORK / job["name"]
        d.mkdir(parents=True, exist_ok=True)
        sim = job.get("simulate")
        c = job["consts"]
        return run_tlc(
            job["module"], d, constants=c, view="View", invariants=job["invs"] + (["SimEmit"] if sim else []),
            properties=(None if sim else job.get("props")),
            env=({"OUT_FILE": str(d / "cases.ndjson")} if job.get("emit") else None), coverage=(sim is None), simulate=sim,
            depth=(c["MaxDepth"] + 2 if sim else None), seed=(SEED + 16 if sim else None), timeout=3000, heap="2g",
            # emitting runs use one worker: the emitted histories (and so the replayed sample) are the same on every run
            workers=(1 if job.get("emit") else 4),
        )

    with cf.ThreadPoolExecutor(max_workers=6) as pool:
        for job, res in zip(jobs, pool.map(one, jobs)):
            job["res"] = res


def _book(rep: Report, job: dict, steps: list[str]) -> bool:
    """Record a model run; False when it found a violation of the model's invariants."""
    res = job["res"]
    rep.add_mc(job["name"], res, _plain(job["consts"]), job["invs"] + (job.get("props") or []), mode=job["mode"])
    if not res.ok:
        rep.fail(f"{PROP}.MC." + "/".join(res.violated), dict(stage=job["name"]), res.counterexample[:3000])
        return False
    if not job.get("simulate"):
        for a in steps:
            if not res.coverage.get(a):
                raise RuntimeError(f"vacuity: spec action {a} never taken in {job['name']} ({res.coverage})")
    return True


def _st_jobs(sc: dict) -> list[dict]:
    jobs = []
    for comp in ("ev", "pv"):
        for fixes in (ALL_FIXES, set()):
            jobs.append(dict(
                part="st", comp=comp, module="ComponentStatus", name=f"st_{comp}_mc_{'repaired' if fixes else 'as_coded'}",
                consts=_st_consts(comp, {}, "mc", fixes), invs=(ST_STRICT if fixes else ST_CODED), props=ST_PROPS,
                mode="exhaustive, unbounded time/events (relative-time view); " +
                     ("repaired design, strict clauses" if fixes else "the code as it is, Clause \\/ Dev_x")))
        jobs.append(dict(part="st", comp=comp, module="ComponentStatus", name=f"st_{comp}_gen", emit=True,
                         consts=_st_consts(comp, sc["st_gen"], "gen", set()), invs=ST_CODED, props=ST_PROPS, limit=sc["st_gen_limit"],
                         mode="exhaustive+emit (one history per transition)"))
        # regular environment: nothing triggers a named deviation, the unrepaired model itself is deviation free
        jobs.append(dict(part="st", comp=comp, module="ComponentStatus", name=f"st_{comp}_gen_regular", emit=True,
                         consts=_st_consts(comp, dict(sc["st_gen_regular"], Regular=True), "gen", set()), invs=ST_STRICT, props=ST_PROPS,
                         limit=sc["st_gen_regular_limit"], mode="exhaustive+emit, regular environment (strict clauses on the unrepaired model)"))
        num = f"num={max(1, sc['st_sim_num'] // 4)}"
        jobs.append(dict(part="st", comp=comp, module="ComponentStatus", name=f"st_{comp}_sim", emit=True, simulate=num,
                         consts=_st_consts(comp, dict(sc["st_sim"], Kinds=KINDS[comp] | {"lag"}), "sim", set()), invs=ST_CODED,
                         limit=sc["st_sim_num"], mode="simulate " + num))
        jobs.append(dict(part="st", comp=comp, module="ComponentStatus", name=f"st_{comp}_sim_regular", emit=True, simulate=num,
                         consts=_st_consts(comp, dict(sc["st_sim"], Regular=True), "sim", set()), invs=ST_STRICT,
                         limit=sc["st_sim_num"], mode="simulate " + num + ", regular environment"))
    return jobs


def _st_after(rep: Report, sc: dict, jobs: list[dict]) -> None:
    """Book the tracker model runs, then RUN -> VAL for all emitted behaviours (EV and PV traces are validated by
    the same trace specification)."""
    global _CFG
    cases: list[dict] = []
    for job in jobs:
        if not _book(rep, job, ST_STEPS) or not job.get("emit"):
            continue
        sim = job.get("simulate")
        raw, total = _sample_emitted(_WORK / job["name"] / "cases.ndjson", job["limit"], SEED + 3,
                                     deep=(0 if sim else max(60, (job["limit"] or 0) // 5)), is_deep=_is_deep)
        if sim:
            raw.sort(key=lambda c: json.dumps(c, sort_keys=True))
        mine = [dict(comp=job["comp"], src=job["name"], h=c) for c in raw]
        nrace = 0
        if not sim:
            for c in [c for c in mine if _has_race(c["h"])][:sc["st_race_limit"]]:
                for k in RACE_KS:
                    nrace += 1
                    mine.append(dict(comp=job["comp"], src=job["name"], h=c["h"], k=k))
        rep.extra.setdefault("stages", []).append(dict(stage=job["name"], cases_emitted=total, cases_replayed=len(mine), race_variants=nrace))
        cases += mine
    if not cases:
        return
    for i, c in enumerate(cases):
        c["id"] = i + 1
    d = _WORK / "st_bind"
    d.mkdir(parents=True, exist_ok=True)
    consts = _st_consts("ev", {}, "trace", set())
    consts["Kinds"] = KINDS["ev"] | KINDS["pv"] | {"lag"}
    _CFG = dict(consts)
    shards = replay_parallel(_st_worker, cases, d, nproc=_NPROC)
    fails, done, st = validate_shards("ComponentStatusTrace", shards, d, constants=consts,
                                      unconsumed_clause=f"{PROP}.TraceNotExplainedBySpec", dfs_queue=True)
    rep.validated += done
    stats: dict[str, int] = {}
    for vf in d.glob("verdict_*.ndjson"):
        for v in read_emitted(vf, dedupe=False):
            if v.get("done"):
                _merge_stats(stats, v["stats"])
    kinds_seen: dict[str, int] = {}
    byid: dict = {}
    for p in shards:
        for r_ in load_ndjson(p):
            byid[r_["id"]] = r_
            for x in r_["lines"]:
                if x["ev"] == "msg":
                    key = r_["comp"] + ":" + x["kind"]
                    kinds_seen[key] = kinds_seen.get(key, 0) + 1
    # trace id -> first line the specification cannot explain
    unexplained = {v["tid"]: v.get("l", 1) for v in fails if v["clause"] == f"{PROP}.TraceNotExplainedBySpec"}
    rep.extra.setdefault("stages", []).append(dict(
        stage="st_bind", traces_validated=done, traces_not_explained_by_spec=len(unexplained), val_states=st["states"],
        antecedents=stats, messages=kinds_seen))
    rep.extra["tracker_antecedents_total"] = stats
    for comp in ("ev", "pv"):
        rows = [r_ for r_ in byid.values() if r_["comp"] == comp]
        if rows:
            rep.samples.append(dict(part="tracker", trace=rows[len(rows) // 2]))
    shown: dict = {}
    for v in fails:
        key = (v["clause"], bool(v.get("deviations")))  # whole traces for the first few records of each kind
        shown[key] = shown.get(key, 0) + 1
        full = shown[key] <= 4
        tr = byid.get(v["tid"]) or {}
        case = dict(part="tracker", kind=tr.get("comp"), stage=tr.get("src"), trace=(tr if full else None), trace_id=v["tid"],
                    line=v.get("l"), constants=_plain(dict(consts, CompKind=tr.get("comp", "ev"))))
        if v["clause"] == f"{PROP}.TraceNotExplainedBySpec":
            dis = rep.extra.setdefault("disagreements", dict(traces_not_explained_by_spec=0, examples=[]))
            dis["traces_not_explained_by_spec"] += 1
            if len(dis["examples"]) < 3:
                dis["examples"].append(dict(part="tracker", trace=tr, detail=v.get("detail")))
            continue
        if v["clause"].startswith("EXT."):
            ext = rep.extra.setdefault("extension_lagged_data", dict(records=0, example=None))
            ext["records"] += 1
            ext["example"] = ext["example"] or dict(detail=v.get("detail"), trace_id=v["tid"], line=v.get("l"))
            continue
        devs = list(v.get("deviations", []))
        detail = v.get("detail")
        if devs and v["tid"] in unexplained and v.get("l", 0) >= unexplained[v["tid"]]:
            # a deviation name only classifies a record when the execution up to it is a behaviour of the
            # specification (the code did exactly what the transcription with that deviation does)
            detail = list(detail or []) + ["deviations named but the execution is not a behaviour of the specification", devs]
            devs = []
        elif devs:
            detail = list(detail or []) + ["explained by", devs]
        rep.fail(v["clause"], case, detail, deviations=devs)
    need = dict(reportedUsable=1, disqualifiedEdges=1, silenceEdges=1, healthyAlone=1, notifications=1, blockedPoints=1,
                unblockedAfterBlock=1, resets=1, maxConsecutive=3, spuriousNotWorking=1)
    if all(f.get("deviations") for f in rep.failures):
        for k_, n in need.items():
            if stats.get(k_, 0) < n:
                raise RuntimeError(f"vacuity: tracker antecedent {k_} exercised {stats.get(k_, 0)} times (< {n})")


# ---------------------------------------------------------------------------
# Part 2: EV charger manager
EV_ID = 10  # charger index c <-> component id 10 + c
VOLT = 100.0  # V per phase: initial power 100 * 10 A * 3 = 3000 W, minimum power 100 * 6 A * 3 = 1800 W
TICK_S = 30.0
TIMEOUT_S = 0.25  # api_power_request_timeout; at most MaxDepth timeouts per execution stay far below one 30 s tick
MG_BASE = dict(N=2, InitP=3000, MinP=1800, Interval=2, UBs={2400, 4800}, Kinds={"ok", "off", "nr"}, Uses={"zero", "half", "full"},
               Outs={"ok", "err", "exc", "to"}, MaxDepth=0)
MG_ALL_FIXES = {"disc", "clamp", "cap"}
MG_STRICT = ["TypeOK", "DeviationFree", "CommandOnlyConnected", "WithinChargerBounds", "TotalWithinRequest", "Redistributes", "ResultAccounts"]
MG_CODED = ["TypeOK", "CommandOnlyConnectedOrDev", "WithinChargerBoundsOrDev", "TotalWithinRequestOrDev", "RedistributesOrDev", "ResultAccounts"]
MG_STEPS = ["TickStep", "FirstStep", "DataStep", "RequestStep"]


class _StubTracker:
    """Stands in for ComponentPoolStatusTracker (the repo's tests substitute it the same way); the manager
    never consults it."""

    def __init__(self, *a, **k) -> None:
        pass

    def get_working_components(self, ids):
        return set(ids)

    async def update_status(self, succeeded, failed) -> None:
        pass

    async def stop(self) -> None:
        pass


def _watts(w: float) -> int:
    r = round(w)
    if abs(w - r) > 1e-6:
        raise RuntimeError(f"non-integral power {w!r} W outside the integer scope of the specification")
    return int(r)


class ManagerExec:
    """One execution of the real EVChargerManager under the manual loop, over a scripted fake API client."""

    def __init__(self, n: int, salt: int = 0) -> None:
        from frequenz.channels import Broadcast
        from frequenz.client.microgrid import ApiClientError, Component, ComponentCategory
        from frequenz.quantities import Power, Voltage

        from frequenz.sdk.microgrid import _data_pipeline, connection_manager
        from frequenz.sdk.microgrid._power_distributing._component_managers._ev_charger_manager import _ev_charger_manager as em
        from frequenz.sdk.microgrid._power_distributing.request import Request
        from frequenz.sdk.timeseries import Sample3Phase

        from .vloop import ManualLoop

        self.n, self.salt = n, salt
        self.ids = [EV_ID + c for c in range(1, n + 1)]
        self.lines: list[dict] = []
        self.calls: list[dict] = []
        self.results: list = []
        self.script: dict[int, str] = {}
        self.pending = 0
        self.nmsg = 0
        self.Power, self.Request = Power, Request
        ex = self

        class _Api:
            def __init__(self) -> None:
                self.ch = {i: Broadcast(name=f"data{i}") for i in ex.ids}

            async def ev_charger_data(self, cid, maxsize=50):  # pylint: disable=unused-argument
                return self.ch[cid].new_receiver(limit=50)

            async def set_power(self, cid, power_w) -> None:
                import asyncio

                if cid not in ex.ids:
                    raise RuntimeError(f"set_power for component {cid}, which is not an EV charger of the microgrid")
                ex.calls.append(dict(c=cid - EV_ID, p=_watts(power_w)))
                o = ex.script.get(cid, "ok")
                if o == "to":
                    ex.pending += 1
                    try:
                        await asyncio.get_running_loop().create_future()  # never answers
                    finally:
                        ex.pending -= 1
                if o == "err":
                    raise ApiClientError(server_url="fake", operation="set_power", description="scripted", retryable=False)
                if o == "exc":
                    raise RuntimeError("scripted unexpected exception")

        class _Graph:
            def components(self, component_ids=None, component_categories=None, **kw):  # pylint: disable=unused-argument
                return {Component(i, ComponentCategory.EV_CHARGER) for i in ex.ids}

        class _CM:
            def __init__(self) -> None:
                self.api_client = _Api()
                self.component_graph = _Graph()

        self.loop = ManualLoop()
        self.loop.__enter__()
        self._mods = (connection_manager, _data_pipeline, em)
        self._saved = (connection_manager._CONNECTION_MANAGER, _data_pipeline.voltage_per_phase, em.ComponentPoolStatusTracker)  # pylint: disable=protected-access
        self.cm = _CM()
        connection_manager._CONNECTION_MANAGER = self.cm  # pylint: disable=protected-access
        vch = Broadcast(name="voltage")

        class _VoltageFetcher:
            def new_receiver(self, **kw):  # pylint: disable=unused-argument
                return vch.new_receiver(limit=5)

        _data_pipeline.voltage_per_phase = lambda: _VoltageFetcher()
        em.ComponentPoolStatusTracker = _StubTracker
        res_ch = Broadcast(name="results")
        st_ch = Broadcast(name="pool_status")
        rx = res_ch.new_receiver(limit=100)
        self.mgr = em.EVChargerManager(st_ch.new_sender(), res_ch.new_sender(), timedelta(seconds=TIMEOUT_S))

        async def consume() -> None:
            async for r in rx:
                ex.results.append(r)

        self._consumer = self.loop.create_task(consume())
        self.loop.run_coro(self.mgr.start())
        self.loop.run_until_idle()
        v = Voltage.from_volts(VOLT)
        StatusExec._send_now(vch.new_sender().send(Sample3Phase(self.loop.wall_now(), v, v, v)))  # pylint: disable=protected-access
        self.loop.run_until_idle()
        self.senders = {i: self.cm.api_client.ch[i].new_sender() for i in self.ids}

    def close(self) -> None:
        cm, dp, em = self._mods
        cm._CONNECTION_MANAGER, dp.voltage_per_phase, em.ComponentPoolStatusTracker = self._saved  # pylint: disable=protected-access
        self.loop.__exit__(None, None, None)

    def _msg(self, c: int, kind: str, pw: int, ub: int):
        from frequenz.client.microgrid import EVChargerCableState as C, EVChargerComponentState as S, EVChargerData

        self.nmsg += 1
        v = self.nmsg + self.salt
        plugged = [C.EV_PLUGGED, C.EV_LOCKED]
        good = [S.READY, S.CHARGING, S.DISCHARGING]
        cable, state = plugged[v % 2], good[(v // 2) % 3]
        if kind == "off":
            if v % 3 == 0:  # error states with the cable plugged: not connected either
                state = [S.ERROR, S.AUTHORIZATION_REJECTED][(v // 3) % 2]
            else:
                cable = [C.UNPLUGGED, C.CHARGING_STATION_PLUGGED, C.CHARGING_STATION_LOCKED, C.UNSPECIFIED][(v // 3) % 4]
        elif kind == "nr":
            state = [S.NOT_READY, S.STARTING, S.INTERRUPTED, S.UNKNOWN, S.UNSPECIFIED][v % 5]
        z = (0.0, 0.0, 0.0)
        return EVChargerData(
            component_id=EV_ID + c, timestamp=self.loop.wall_now(), active_power=float(pw), active_power_per_phase=z,
            current_per_phase=z, reactive_power=0.0, reactive_power_per_phase=z, voltage_per_phase=(VOLT, VOLT, VOLT),
            active_power_inclusion_lower_bound=0.0, active_power_exclusion_lower_bound=0.0,
            active_power_inclusion_upper_bound=float(ub), active_power_exclusion_upper_bound=0.0,
            frequency=50.0, cable_state=cable, component_state=state,
        ), f"{cable.name}/{state.name}"

    def _settle(self) -> None:
        self.loop.run_until_idle()
        guard = 0
        while self.pending:  # a call that gets no reply: the clock passes the request timeout
            self.loop.advance(TIMEOUT_S)
            guard += 1
            if guard > 5:
                raise RuntimeError("set_power call still pending after the request timeout")
        self.loop.run_until_idle()

    def _alloc(self) -> list[int]:
        out = []
        try:
            states = self.mgr._evc_states  # pylint: disable=protected-access
            for i in self.ids:
                out.append(_watts(states.get(i).last_allocation.as_watts()) if i in states else -1)
        except AttributeError:
            out = [-1] * self.n
        return out

    def _line(self, **kw) -> None:
        rec = dict(ev="", c=0, kind="", pw=0, ub=0, p=0, o=["ok"] * self.n, variant="")
        rec.update(kw)
        rec["t"] = round(self.loop.time(), 3)
        rec["calls"] = self.calls
        self.calls = []
        if len(self.results) > 1:
            raise RuntimeError(f"{len(self.results)} Results for one handled event")
        rec["hasres"] = bool(self.results)
        res = dict(type="", sp=0, fp=0, ex=0, succ=[], failed=[])
        if self.results:
            r = self.results[0]
            res = dict(type=type(r).__name__, sp=_watts(r.succeeded_power.as_watts()), ex=_watts(r.excess_power.as_watts()),
                       fp=_watts(r.failed_power.as_watts()) if hasattr(r, "failed_power") else 0,
                       succ=sorted(i - EV_ID for i in r.succeeded_components),
                       failed=sorted(i - EV_ID for i in getattr(r, "failed_components", set())))
        self.results = []
        rec["res"] = res
        rec["alloc"] = self._alloc()
        self.lines.append(rec)

    def tick(self) -> None:
        self.loop.advance(TICK_S)
        self._line(ev="tick")

    def data(self, c: int, kind: str, pw: int, ub: int, o: list[str]) -> None:
        self.script = {EV_ID + i + 1: x for i, x in enumerate(o)}
        m, variant = self._msg(c, kind, pw, ub)
        StatusExec._send_now(self.senders[EV_ID + c].send(m))  # pylint: disable=protected-access
        self._settle()
        self._line(ev="data", c=c, kind=kind, pw=pw, ub=ub, o=list(o), variant=variant)

    def req(self, p: int, o: list[str]) -> None:
        self.script = {EV_ID + i + 1: x for i, x in enumerate(o)}
        self.loop.run_coro(self.mgr.distribute_power(self.Request(self.Power.from_watts(float(p)), set(self.ids))))
        self._settle()
        self._line(ev="req", p=p, o=list(o))


def mg_execute(case: dict, cfg: dict) -> dict:
    ex = ManagerExec(case.get("n") or cfg["N"], salt=case["id"])
    try:
        for a in case["h"]:
            if a["a"] == "tick":
                ex.tick()
            elif a["a"] == "data":
                ex.data(a["c"], a["kind"], a["pw"], a["ub"], a["o"])
            elif a["a"] == "req":
                ex.req(a["p"], a["o"])
        return dict(id=case["id"], src=case.get("src", ""), n=ex.n, lines=ex.lines)
    finally:
        ex.close()


def mg_execute_lines(trace: dict, cfg: dict) -> dict:
    h = []
    for x in trace["lines"]:
        h.append(dict(a=x["ev"], c=x["c"], kind=x["kind"], pw=x["pw"], ub=x["ub"], p=x["p"], o=x["o"]))
    return mg_execute(dict(id=trace["id"], src="replay", n=trace.get("n"), h=h), cfg)


def _mg_worker(chunk, out_path):
    from .common import use_repo

    use_repo()
    with open(out_path, "w") as f:
        for c in chunk:
            f.write(json.dumps(mg_execute(c, _CFG), separators=(",", ":")) + "\n")


def _mg_consts(sc: dict, mode: str, fixes: set) -> dict:
    c = dict(MG_BASE, Mode=mode, Fixes=set(fixes))
    c.update(sc)
    return c


def _mg_interesting(ln: str) -> bool:
    """Histories worth keeping besides the uniform sample: a request left more allocated than requested (the
    specification's own ghost `over`, logged with the request), or a lowered target after both chargers reported."""
    return r'ov\":true' in ln or (ln.count("req") >= 2 and ln.count("data") >= 3)


def _mg_jobs(sc: dict) -> list[dict]:
    jobs = []
    for scope in ("mg_mc", "mg_deep"):
        for fixes in (MG_ALL_FIXES, set()):
            jobs.append(dict(
                part="mg", module="EVChargerPower", name=f"{scope}_{'repaired' if fixes else 'as_coded'}",
                consts=_mg_consts(sc[scope], "mc", fixes), invs=(MG_STRICT if fixes else MG_CODED),
                mode="exhaustive, bounded; " + ("repaired design, strict clauses" if fixes else "the code as it is, Clause \\/ Dev_x")))
    for scope in ("mg_gen", "mg_gen_deep"):
        jobs.append(dict(part="mg", module="EVChargerPower", name=scope, emit=True, consts=_mg_consts(sc[scope], "gen", set()),
                         invs=MG_CODED, limit=sc[scope + "_limit"], mode="exhaustive+emit (one history per transition)"))
    num = f"num={max(1, sc['mg_sim_num'] // 4)}"
    jobs.append(dict(part="mg", module="EVChargerPower", name="mg_sim", emit=True, simulate=num, consts=_mg_consts(sc["mg_sim"], "sim", set()),
                     invs=MG_CODED, limit=sc["mg_sim_num"], mode="simulate " + num))
    return jobs


def _mg_after(rep: Report, sc: dict, jobs: list[dict]) -> None:
    global _CFG
    cases: list[dict] = []
    for job in jobs:
        if not _book(rep, job, MG_STEPS) or not job.get("emit"):
            continue
        sim = job.get("simulate")
        raw, total = _sample_emitted(_WORK / job["name"] / "cases.ndjson", job["limit"], SEED + 5,
                                     deep=(0 if sim else job["limit"] // 2), is_deep=_mg_interesting)
        raw.sort(key=lambda c: json.dumps(c, sort_keys=True))
        rep.extra.setdefault("stages", []).append(dict(stage=job["name"], cases_emitted=total, cases_replayed=len(raw)))
        cases += [dict(src=job["name"], n=job["consts"]["N"], h=c) for c in raw]
    if not cases:
        return
    for i, c in enumerate(cases):
        c["id"] = i + 1
    d = _WORK / "mg_bind"
    d.mkdir(parents=True, exist_ok=True)
    # the transcription the code is compared with: the code as it is, unless a repaired tree is being validated
    tfix = {x for x in os.environ.get("VERIF_X03_MG_FIXES", "").split(",") if x}
    consts = _mg_consts(sc["mg_gen"], "trace", tfix)
    _CFG = dict(consts)
    shards, fails, done, st = [], [], 0, dict(states=0)
    for n in sorted({c["n"] for c in cases}):  # one validation round per number of chargers (a constant of the specification)
        part = replay_parallel(_mg_worker, [c for c in cases if c["n"] == n], d, nproc=_NPROC, prefix=f"impl{n}")
        f_, d_, s_ = validate_shards("EVChargerPowerTrace", part, d, constants=dict(consts, N=n))
        shards += part
        fails += f_
        done += d_
        st["states"] += s_["states"]
    rep.validated += done
    stats: dict[str, int] = {}
    conforming = 0
    for vf in d.glob("verdict_*.ndjson"):
        for v in read_emitted(vf, dedupe=False):
            if v.get("done"):
                _merge_stats(stats, v["stats"])
                conforming += bool(v.get("conforms"))
    byid: dict = {}
    for p in shards:
        for r_ in load_ndjson(p):
            byid[r_["id"]] = r_
    rep.extra.setdefault("stages", []).append(dict(stage="mg_bind", traces_validated=done, traces_following_transcription=conforming,
                                                   val_states=st["states"], antecedents=stats))
    rep.extra["manager_antecedents_total"] = stats
    rows = list(byid.values())
    if rows:
        rep.samples.append(dict(part="manager", trace=rows[len(rows) // 2]))
    shown: dict = {}
    for v in fails:
        key = (v["clause"], bool(v.get("deviations")))  # whole traces for the first few records of each kind
        shown[key] = shown.get(key, 0) + 1
        full = shown[key] <= 4
        tr = byid.get(v["tid"]) or {}
        case = dict(part="manager", stage=tr.get("src"), trace=(tr if full else None), trace_id=v["tid"], line=v.get("l"),
                    constants=_plain(dict(consts, N=tr.get("n", consts["N"]))))
        if v["clause"].startswith("CONF."):
            dis = rep.extra.setdefault("disagreements", dict(traces_not_explained_by_spec=0, examples=[]))
            dis["manager_records"] = dis.get("manager_records", 0) + 1
            if len([e for e in dis["examples"] if e.get("part") == "manager"]) < 3:
                dis["examples"].append(dict(part="manager", clause=v["clause"], detail=v.get("detail"), trace=tr, line=v.get("l")))
            continue
        if v["clause"].startswith("EXT."):
            ext = rep.extra.setdefault("statement_vs_documentation", {})
            e = ext.setdefault(v["clause"], dict(records=0, example=None))
            e["records"] += 1
            e["example"] = e["example"] or dict(detail=v.get("detail"), trace_id=v["tid"], line=v.get("l"))
            continue
        devs = list(v.get("deviations", []))
        detail = v.get("detail")
        if devs:
            detail = list(detail or []) + ["explained by", devs]
        rep.fail(v["clause"], case, detail, deviations=devs)
    need = dict(positive=1, bounded=1, zeroedOnDisconnect=1, raisedWithRoom=1, results=1, partialFailures=1, timeouts=1,
                requests=1, throttles=1, deallocs=1)
    if all(f.get("deviations") for f in rep.failures):
        for k_, n in need.items():
            if stats.get(k_, 0) < n:
                raise RuntimeError(f"vacuity: manager antecedent {k_} exercised {stats.get(k_, 0)} times (< {n})")


# ---------------------------------------------------------------------------
def replay(prop: str, data: dict) -> int:  # pylint: disable=unused-argument
    """./check X03 --replay <file>: run the recorded harness steps again on the current tree and validate."""
    from .common import dump_ndjson, use_repo

    case = data.get("case") or {}
    trace = case.get("trace")
    if not trace or "constants" not in case:
        print(json.dumps(data, indent=1)[:4000])
        return 0
    use_repo()
    consts = {k_: (set(x) if isinstance(x, list) else x) for k_, x in case["constants"].items()}
    d = scratch(f"{PROP}_replay")
    shard = d / "impl_0.ndjson"
    if case.get("part") == "tracker":
        rec = st_execute_lines(trace, consts)
        dump_ndjson(shard, [rec])
        fails, _, _ = validate_shards("ComponentStatusTrace", [shard], d, constants=dict(consts, Mode="trace"),
                                      unconsumed_clause=f"{PROP}.TraceNotExplainedBySpec", dfs_queue=True)
        for x in rec["lines"]:
            print(f"t={x['t']:3d} {x['ev']:5s} {x['kind']:6s} k={x['k']:2d} f={x['f']:4s} sent={x['sent']} proj={x['proj']}")
    elif case.get("part") == "manager":
        rec = mg_execute_lines(trace, consts)
        dump_ndjson(shard, [rec])
        tfix = {x for x in os.environ.get("VERIF_X03_MG_FIXES", "").split(",") if x}
        fails, _, _ = validate_shards("EVChargerPowerTrace", [shard], d, constants=dict(consts, Mode="trace", N=rec["n"], Fixes=tfix))
        for x in rec["lines"]:
            print(f"t={x['t']:7.1f} {x['ev']:4s} c={x['c']} {x['kind']:3s} pw={x['pw']:5d} ub={x['ub']:5d} p={x['p']:5d} o={x['o']} "
                  f"calls={[(c['c'], c['p']) for c in x['calls']]} alloc={x['alloc']} res={x['res']['type']}")
        for v in fails:
            if v["clause"].startswith("CONF."):
                print(f"disagreement with the transcription: {v['clause']} line={v.get('l')} {json.dumps(v.get('detail'))[:200]}")
        fails = [v for v in fails if not v["clause"].startswith("CONF.")]
    else:
        print(json.dumps(data, indent=1)[:4000])
        return 0
    bad = [v for v in fails if not v["clause"].startswith("EXT.") and v["clause"] != f"{PROP}.TraceNotExplainedBySpec"]
    if any(v["clause"] == f"{PROP}.TraceNotExplainedBySpec" for v in fails):
        print("disagreement: this execution is not a behaviour of the specification (not a violation by itself)")
    for v in bad:
        print(f"FAILS clause={v['clause']} line={v.get('l')} deviations={v.get('deviations', [])} detail={json.dumps(v.get('detail'))[:300]}")
    print(f"replay: {len(bad)} failing clause records ({len([v for v in bad if v.get('deviations')])} of them carry a named deviation)")
    return 1 if bad else 0


def run(prop: str, tier: str) -> int:
    if prop != PROP:
        raise ValueError(f"p_componentstatus serves {PROP}, not {prop}")
    tm = Timer()
    rep = Report(prop, tier)
    sc = SCOPES[tier]
    global _WORK, _NPROC
    _WORK = scratch(f"{prop}_{tier}")
    _NPROC = sc["nproc"]
    rep.assumptions = [
        "trackers: time in 1 s steps on a virtual clock (datetime.now follows the loop); max data age 5 s, blocking 1..4 s",
        "trackers: every due timer is handled before the clock moves on; same-instant message/timer order is free",
        "trackers: ages are measured from arrival = message timestamp for the fresh / stale / exactly-max-age classes; "
        "lagged-but-not-stale messages (kind lag) are an extension reported under extension_lagged_data, never a violation",
        "UNCERTAIN counts as 'reported usable' (the pool hands out uncertain components when none is working)",
        "the microgrid connection is a harness fake (per-component Broadcast channels)",
    ]
    parts = set(os.environ.get("VERIF_X03_PARTS", "tracker,manager").split(","))  # building aid: run one part only
    st_jobs = _st_jobs(sc) if "tracker" in parts else []
    mg_jobs = _mg_jobs(sc) if "manager" in parts else []
    _run_jobs(st_jobs + mg_jobs)
    if st_jobs:
        _st_after(rep, sc, st_jobs)
    if mg_jobs:
        _mg_after(rep, sc, mg_jobs)
    if parts != {"tracker", "manager"}:
        rep.notes.append(f"only part(s) {sorted(parts)} were run (VERIF_X03_PARTS)")
    rep.exhaustive = False
    ndis = rep.extra.get("disagreements", {}).get("traces_not_explained_by_spec", 0)
    rep.extra.setdefault("disagreements", dict(traces_not_explained_by_spec=0, examples=[]))
    rep.notes.append(f"disagreements: {ndis} of {rep.validated} recorded executions are not a behaviour of the specifications")
    return rep.finish(tm.s())
