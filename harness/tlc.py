"""Run TLC on a specification with generated MC wrapper module + cfg, parse its output."""

from __future__ import annotations

import json
import os
import re
import shutil
import subprocess
from dataclasses import dataclass, field
from pathlib import Path

from .common import NCPU, SPECS

JAR = "/opt/veriftools/tla/tla2tools.jar:/opt/veriftools/tla/CommunityModules-deps.jar"


class MachineryError(RuntimeError):
    """TLC crashed or the spec is broken: exit 2, never a verdict."""


@dataclass
class TLCResult:
    ok: bool  # no invariant/property violation and no error
    generated: int = 0
    distinct: int = 0
    depth: int = 0
    wall_s: float = 0.0
    violated: list[str] = field(default_factory=list)
    output: str = ""
    coverage: dict[str, int] = field(default_factory=dict)
    workdir: Path | None = None
    counterexample: str = ""


def tla_value(v) -> str:
    """Python value -> TLA+ expression text."""
    if isinstance(v, bool):
        return "TRUE" if v else "FALSE"
    if isinstance(v, int):
        return str(v)
    if isinstance(v, str):
        return json.dumps(v)
    if isinstance(v, (list, tuple)):
        return "<<" + ", ".join(tla_value(x) for x in v) + ">>"
    if isinstance(v, (set, frozenset)):
        return "{" + ", ".join(tla_value(x) for x in sorted(v, key=repr)) + "}"
    if isinstance(v, dict):
        return "[" + ", ".join(f"{k} |-> {tla_value(x)}" for k, x in v.items()) + "]"
    if isinstance(v, Raw):
        return v.text
    raise TypeError(f"no TLA+ rendering for {v!r}")


class Raw:
    """A literal TLA+ expression."""

    def __init__(self, text: str) -> None:
        self.text = text


def run_tlc(
    module: str,
    workdir: Path,
    *,
    constants: dict | None = None,
    init: str = "Init",
    next_: str = "Next",
    spec: str | None = None,
    invariants: list[str] | None = None,
    properties: list[str] | None = None,
    constraints: list[str] | None = None,
    action_constraints: list[str] | None = None,
    view: str | None = None,
    postcondition: str | None = None,
    env: dict[str, str] | None = None,
    workers: int | str = NCPU,
    timeout: int = 1800,
    simulate: str | None = None,
    depth: int | None = None,
    seed: int | None = None,
    coverage: bool = False,
    deadlock: bool = False,
    extra_defs: str = "",
    heap: str = "3g",
    dfs_queue: bool = False,
    name: str = "MC",
) -> TLCResult:
    """Model-check `module` (a file in specs/) with the given constants.

    Constants are given as Python values and turned into definition overrides in a
    generated wrapper module, so tuples/records work.
    """
    import time

    workdir.mkdir(parents=True, exist_ok=True)
    constants = constants or {}
    mc = workdir / f"{name}.tla"
    lines = [f"---- MODULE {name} ----", f"EXTENDS {module}"]
    for k, v in constants.items():
        lines.append(f"mc_{k} == {tla_value(v)}")
    if extra_defs:
        lines.append(extra_defs)
    lines.append("====")
    mc.write_text("\n".join(lines) + "\n")
    cfg = []
    if constants:
        cfg.append("CONSTANTS")
        for k in constants:
            cfg.append(f"  {k} <- mc_{k}")
    if spec:
        cfg.append(f"SPECIFICATION {spec}")
    else:
        cfg.append(f"INIT {init}")
        cfg.append(f"NEXT {next_}")
    if view:
        cfg.append(f"VIEW {view}")
    for i in invariants or []:
        cfg.append(f"INVARIANT {i}")
    for p in properties or []:
        cfg.append(f"PROPERTY {p}")
    for c in constraints or []:
        cfg.append(f"CONSTRAINT {c}")
    for c in action_constraints or []:
        cfg.append(f"ACTION_CONSTRAINT {c}")
    if postcondition:
        cfg.append(f"POSTCONDITION {postcondition}")
    cfg.append(f"CHECK_DEADLOCK {'TRUE' if deadlock else 'FALSE'}")
    (workdir / f"{name}.cfg").write_text("\n".join(cfg) + "\n")

    meta = workdir / f"meta_{name}"
    shutil.rmtree(meta, ignore_errors=True)
    jtmp = workdir / "jtmp"
    jtmp.mkdir(exist_ok=True)  # keep TLC's temporary directories out of /tmp
    cmd = ["java", "-XX:+UseParallelGC", f"-Xmx{heap}", f"-Djava.io.tmpdir={jtmp}", f"-DTLA-Library={SPECS}:{SPECS / 'lib'}"]
    if dfs_queue:
        cmd.append("-Dtlc2.tool.queue.IStateQueue=StateDeque")
    cmd += ["-cp", JAR, "tlc2.TLC", "-metadir", str(meta), "-noGenerateSpecTE"]
    cmd += ["-workers", str(workers)]
    if simulate:
        cmd += ["-simulate", simulate]
    if depth is not None:
        cmd += ["-depth", str(depth)]
    if seed is not None:
        cmd += ["-seed", str(seed)]
    if coverage:
        cmd += ["-coverage", "1"]
    cmd += ["-config", f"{name}.cfg", f"{name}.tla"]
    e = dict(os.environ)
    e.pop("JAVA_TOOL_OPTIONS", None)
    e.update(env or {})
    t0 = time.time()
    try:
        pr = subprocess.run(cmd, cwd=workdir, env=e, capture_output=True, text=True, timeout=timeout)
        out = pr.stdout + pr.stderr
        rc = pr.returncode
    except subprocess.TimeoutExpired as ex:
        out = (ex.stdout or b"").decode() if isinstance(ex.stdout, bytes) else (ex.stdout or "")
        subprocess.run(["pkill", "-f", f"metadir {meta}"], check=False)
        if simulate:
            rc = 0  # simulation under an outer timeout is the normal way to stop
        else:
            raise MachineryError(f"TLC timed out after {timeout}s on {module}\n{out[-2000:]}") from ex
    wall = time.time() - t0
    (workdir / f"{name}.out").write_text(out)
    shutil.rmtree(meta, ignore_errors=True)
    res = TLCResult(ok=True, output=out, wall_s=round(wall, 2), workdir=workdir)
    m = re.search(r"(\d+) states generated, (\d+) distinct states found", out)
    if m:
        res.generated, res.distinct = int(m.group(1)), int(m.group(2))
    m = re.search(r"The number of states generated: (\d+)", out)
    if m and simulate:
        res.generated = int(m.group(1))
        res.distinct = max(res.distinct, 1)
    m = re.search(r"depth of the complete state graph search is (\d+)", out)
    if m:
        res.depth = int(m.group(1))
    for m in re.finditer(r"Invariant (\S+) is violated", out):
        res.violated.append(m.group(1))
    for m in re.finditer(r"Action property (\S+) is violated|Temporal properties were violated", out):
        res.violated.append(m.group(1) or "temporal")
    if "is violated by the initial state" in out and not res.violated:
        res.violated.append("initial")
    if "Evaluating assumption" in out and "is false" in out:
        res.violated.append("ASSUME")
    if postcondition and re.search(r"[Pp]ost.?condition.*(false|violated)", out):
        res.violated.append(postcondition)
    if res.violated:
        res.ok = False
        i = out.find("Error:")
        res.counterexample = out[i : i + 6000]
    elif "Error:" in out or (rc not in (0,) and not simulate):
        # parse/semantic/evaluation error: machinery failure
        i = out.find("Error:")
        raise MachineryError(f"TLC failed on {module} (rc={rc}):\n{out[max(0, i - 200): i + 3000]}")
    if coverage:
        # lines like: <Propose line 60, col 1 to line 68, col 80 of module Matryoshka>: 120:4000
        for m in re.finditer(r"^<(\w+) line \d+, col \d+ to line \d+, col \d+ of module \w+>: (\d+):(\d+)", out, re.M):
            res.coverage[m.group(1)] = res.coverage.get(m.group(1), 0) + int(m.group(3))
    return res


def read_emitted(path: Path, dedupe: bool = True) -> list:
    """Read lines written by Emit (a JSON string containing JSON)."""
    out = []
    seen = set()
    if not path.exists():
        return out
    with open(path) as f:
        for line in f:
            line = line.strip()
            if not line:
                continue
            if dedupe:
                if line in seen:
                    continue
                seen.add(line)
            v = json.loads(line)
            if isinstance(v, str):
                v = json.loads(v)
            out.append(v)
    return out
