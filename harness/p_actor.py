"""C10: ActorLifecycle.tla — TLC behaviours drive the real Actor / BackgroundService / run()
(probe Actor subclass under the manual loop, virtual clock in 1 s ticks); the recorded executions
are validated by TLC against ActorLifecycleTrace.tla."""

from __future__ import annotations

import concurrent.futures as cf
import json
from pathlib import Path

from .common import SEED, Timer, scratch
from .pipeline import load_ndjson, replay_parallel, subsample, validate_shards
from .tlc import read_emitted, run_tlc
from .verdict import Report

ALL_MODES = {"prop", "exc", "ret"}
UNL = -1

MC_INV = ["TypeOK", "AliveOwned", "AtMostOneRun", "RestartCountExact", "NoRunWhenDone"]
MC_PROPS = [
    "RerunOnlyAfterException", "NoRerunAfterReturnOrCancel", "StartIdempotent", "StopCancelsEverything",
    "StopReturnsOnlyWhenAllDone", "StopSurfacesErrors", "RunReturnsIffAllFinished",
]
MC_LIVE = ["StopLeadsToReturn", "RestartHappens", "RunReturnsWhenAllFinished"]
ACTIONS_1 = [
    "StartStep", "LoopBeginStep", "DelayElapsedStep", "RunContinueStep", "RunOutcomeStep", "ExtraOutcomeStep", "AddExtraStep",
    "CancelStep", "CancelLoopStep", "CancelExtraStep", "CallStopStep", "CallWaitStep", "StopRoundStep", "WaitRoundStep", "TimeStep",
]
ACTIONS_RUN = ["CallRunStep", "RWaitBeginStep", "RWaitRoundStep", "RunReturnStep", "CallStopStep", "StopRoundStep", "RunOutcomeStep"]

SVC = {"start", "stop", "wait", "cancel", "extra", "late"}


def _c(na, limits, maxruns, feats, modes=ALL_MODES, xmodes=None, depth=0):
    return dict(NA=na, Limits=set(limits), MaxRuns=maxruns, CancelModes=set(modes), XCancelModes=set(xmodes or modes),
                Features=set(feats), MaxDepth=depth)


SCOPES = {
    "quick": dict(
        mc=[
            # (name, constants, spec, invariants, properties, expected actions, expect_violation)
            ("policy", _c(1, {0, 1, 2, UNL}, 3, {"start", "stop", "cancel"}), "Spec", MC_INV, MC_PROPS, None, None),
            ("service_stop", _c(1, {0, 1}, 2, SVC - {"wait"}), "Spec", MC_INV, MC_PROPS, [a for a in ACTIONS_1 if "Wait" not in a], None),
            ("service_wait", _c(1, {0, 1}, 2, SVC - {"stop"}), "Spec", MC_INV, MC_PROPS, ["CallWaitStep", "WaitRoundStep"], None),
            ("service_both", _c(1, {0}, 1, SVC - {"cancel"}), "Spec", MC_INV, MC_PROPS, None, None),
            # legacy design (wait() before commit 799638e), specification only: the clause is violated and the cause predicate names it
            ("legacy_witness", _c(1, {0}, 1, SVC | {"legacy"}), "Spec", [], ["StopReturnsOnlyWhenAllDone"], None, "StopReturnsOnlyWhenAllDone"),
            ("legacy_cause", _c(1, {0, 1}, 2, (SVC - {"wait"}) | {"legacy"}), "Spec", [], ["LegacyViolationHasCause"], None, None),
            ("run2", _c(2, {1}, 2, {"run", "stop"}, {"prop"}), "Spec", MC_INV, MC_PROPS, ACTIONS_RUN, None),
            # run() called with actors that are already running / have finished / were stopped before
            ("run2_started", _c(2, {0}, 1, {"run", "stop", "start"}, {"prop"}), "Spec", MC_INV, MC_PROPS, ACTIONS_RUN + ["StartStep"], None),
            ("live1", _c(1, {0, 1}, 2, SVC - {"wait"}, {"prop"}), "FairSpec", [], ["StopLeadsToReturn", "RestartHappens"], None, None),
            ("live_run2", _c(2, {0}, 1, {"run", "stop"}, {"prop"}), "FairSpec", [], MC_LIVE, None, None),
        ],
        gen=[
            ("gen1", _c(1, {0, 1, UNL}, 3, SVC, depth=9), 2000),
            ("genrun", _c(2, {0, 1}, 2, {"run", "stop", "cancel", "start"}, {"prop", "exc"}, depth=9), 600),
        ],
        sim=[
            ("sim1", _c(1, {0, 1, 2, UNL}, 3, SVC, depth=24), 480),
            ("simrun", _c(2, {0, 1, UNL}, 3, {"run", "stop", "cancel", "start", "extra", "late"}, depth=24), 200),
        ],
    ),
    "thorough": dict(
        mc=[
            ("policy", _c(1, {0, 1, 2, UNL}, 4, {"start", "stop", "cancel"}), "Spec", MC_INV, MC_PROPS, None, None),
            ("service", _c(1, {0, 1, 2, UNL}, 3, SVC), "Spec", MC_INV, MC_PROPS, ACTIONS_1, None),
            # legacy design (wait() before commit 799638e), specification only: the clause is violated and the cause predicate names it
            ("legacy_witness", _c(1, {0}, 1, SVC | {"legacy"}), "Spec", [], ["StopReturnsOnlyWhenAllDone"], None, "StopReturnsOnlyWhenAllDone"),
            ("legacy_cause", _c(1, {0, 1}, 2, (SVC - {"wait"}) | {"legacy"}), "Spec", [], ["LegacyViolationHasCause"], None, None),
            ("run2", _c(2, {0, 1}, 2, {"run", "stop", "cancel"}, {"prop", "exc"}), "Spec", MC_INV, MC_PROPS, ACTIONS_RUN, None),
            ("run2_started", _c(2, {1}, 2, {"run", "stop", "start"}, {"prop"}), "Spec", MC_INV, MC_PROPS, ACTIONS_RUN + ["StartStep"], None),
            ("live1", _c(1, {0, 1, UNL}, 3, SVC - {"wait"}, {"prop"}), "FairSpec", [], ["StopLeadsToReturn", "RestartHappens"], None, None),
            ("live_run2", _c(2, {0, 1}, 2, {"run", "stop"}, {"prop"}), "FairSpec", [], MC_LIVE, None, None),
        ],
        gen=[
            ("gen1", _c(1, {0, 1, 2, UNL}, 3, SVC, depth=10), 20000),
            ("genrun", _c(2, {0, 1}, 2, {"run", "stop", "cancel", "start"}, {"prop", "exc"}, depth=10), 6000),
        ],
        sim=[
            ("sim1", _c(1, {0, 1, 2, UNL}, 4, SVC, depth=40), 8000),
            ("simrun", _c(2, {0, 1, 2, UNL}, 3, {"run", "stop", "cancel", "start", "wait", "extra"}, depth=40), 3000),
        ],
    ),
}


# ---------------------------------------------------------------------------
class Exec:
    """One execution of real probe actors under the manual loop."""

    def __init__(self, limits: list[int]) -> None:
        import asyncio

        from frequenz.sdk.actor import Actor
        from frequenz.sdk.actor import run as sdk_run

        from .vloop import ManualLoop

        ex = self
        self.asyncio = asyncio
        self.sdk_run = sdk_run
        self.na = len(limits)
        self.obs: list[dict] = []
        self.lines: list[dict] = []
        self.gen: list[list] = [[] for _ in limits]  # per actor: [(name, task)] of the current generation

        class ProbeExc(RuntimeError):
            pass

        class ProbeBase(BaseException):  # private: asyncio re-raises KeyboardInterrupt/SystemExit out of the loop
            pass

        self.ProbeExc, self.ProbeBase = ProbeExc, ProbeBase

        class Probe(Actor):
            def __init__(self, idx: int, limit: int) -> None:
                super().__init__(name=f"probe{idx}")
                self._restart_limit = None if limit == UNL else limit
                self.idx = idx
                self.fut = None
                self.xfut = None
                self.cmode = "prop"
                self.xmode = "prop"

            async def _run(self) -> None:
                ex.ev("enter", self.idx, ts=[])
                kind, c = "ret", ""
                try:
                    for pt in (1, 2):
                        self.fut = asyncio.get_running_loop().create_future()
                        try:
                            cmd = await self.fut
                        except asyncio.CancelledError:
                            c = self.cmode
                            if c == "exc":
                                kind = "exc"
                                raise ProbeExc("loop") from None
                            if c == "ret":
                                kind = "ret"
                                return
                            kind = "cancelled"
                            raise
                        finally:
                            self.fut = None
                        if cmd == "exc":
                            kind = "exc"
                            raise ProbeExc("loop")
                        if cmd == "base":
                            kind = "base"
                            raise ProbeBase("loop")
                        if cmd == "ret":
                            return
                        if pt == 1:
                            ex.ev("point", self.idx, ts=[])
                finally:
                    ex.ev("exit", self.idx, v=kind, c=c, ts=[])

            async def _extra(self, fut) -> None:
                kind, c = "ret", ""
                try:
                    try:
                        cmd = await fut
                    except asyncio.CancelledError:
                        c = self.xmode
                        if c == "exc":
                            kind = "exc"
                            raise ProbeExc("extra") from None
                        if c == "ret":
                            return
                        kind = "cancelled"
                        raise
                    if cmd == "exc":
                        kind = "exc"
                        raise ProbeExc("extra")
                    if cmd == "base":
                        kind = "base"
                        raise ProbeBase("extra")
                finally:
                    ex.ev("xexit", self.idx, v=kind, c=c, ts=[])

            def spawn_extra(self):
                """What a service does when it needs another task: add it to the protected _tasks set."""
                self.xfut = asyncio.get_running_loop().create_future()
                task = asyncio.create_task(self._extra(self.xfut))
                self._tasks.add(task)
                return task

        self.loop = ManualLoop()
        self.loop.__enter__()
        self.loop.set_exception_handler(lambda _l, _c: None)
        self.actors = [None] + [Probe(i + 1, lim) for i, lim in enumerate(limits)]
        self.call_tasks: list = []

    def close(self) -> None:
        self.loop.__exit__(None, None, None)

    # -- observation ---------------------------------------------------------
    def ev(self, k: str, a: int, v: str = "", c: str = "", n: int = 0, res=(), ts=None) -> None:
        self.obs.append(dict(k=k, a=a, v=v, c=c, n=n, res=list(res), ts=self.tstates(a) if ts is None else ts))

    def _state(self, t) -> str:
        if not t.done():
            return "alive"
        if t.cancelled():
            return "cancelled"
        e = t.exception()
        if e is None:
            return "ret"
        if isinstance(e, self.ProbeExc):
            return "exc"
        if isinstance(e, self.ProbeBase):
            return "base"
        return "other"

    def sync(self, a: int) -> int:
        """Register task objects that appeared in actor.tasks; returns how many are new."""
        known = {id(t) for _, t in self.gen[a - 1]}
        new = [t for t in self.actors[a].tasks if id(t) not in known]
        if new:
            if all(t.done() for _, t in self.gen[a - 1]):
                self.gen[a - 1] = []  # the previous generation is over (start() cleared _tasks)
            for t in new:
                self.gen[a - 1].append(("loop", t))
        return len(new)

    def tstates(self, a: int) -> list[dict]:
        """States of the tasks of the current generation (a = 0: of all actors)."""
        out = []
        for b in range(1, self.na + 1) if a == 0 else [a]:
            self.sync(b)
            tasks = self.actors[b].tasks
            out += [dict(a=b, n=n, s=self._state(t), cn=t.cancelling(), own=t in tasks) for n, t in self.gen[b - 1]]
        return out

    def snap(self) -> list[dict]:
        return [dict(isr=bool(self.actors[a].is_running), nt=len(self.actors[a].tasks), ts=self.tstates(a)) for a in range(1, self.na + 1)]

    def line(self, ev: str, a: int = 0, n: int = 0, ts=(), pumped: bool = True) -> None:
        obs, self.obs = self.obs, []
        self.lines.append(dict(ev=ev, a=a, n=n, ts=list(ts), obs=obs, snap=self.snap(), idle=self.loop.idle(), pumped=pumped and ev == "iter"))

    # -- injections ----------------------------------------------------------
    def start(self, a: int) -> None:
        before = self.tstates(a)
        self.actors[a].start()
        self.line("start", a, n=self.sync(a), ts=before)

    def cancel(self, a: int) -> None:
        self.actors[a].cancel()
        self.line("cancel", a)

    def addx(self, a: int) -> None:
        act = self.actors[a]
        if not any(not t.done() for _, t in self.gen[a - 1]) or any(n == "extra" for n, _ in self.gen[a - 1]):
            return  # outside the modelled scope (the real run diverged from the TLC behaviour)
        self.gen[a - 1].append(("extra", act.spawn_extra()))
        self.line("addx", a)

    def tick(self) -> None:
        self.loop.jump_to(self.loop.time() + 1.0)
        self.line("tick")

    def _eager(self, coro, name: str) -> None:
        self.call_tasks.append(self.asyncio.Task(coro, loop=self.loop, eager_start=True, name=name))
        self.line("iter", pumped=False)

    def call(self, a: int, name: str) -> None:
        if any(not t.done() and t.get_name() == f"{name}{a}" for t in self.call_tasks):
            return  # one call of a kind in flight per actor (scope)
        act = self.actors[a]

        async def wrapper() -> None:
            self.ev(f"{name}_call", a)
            res: list[str] = []
            try:
                await getattr(act, name)()
            except BaseExceptionGroup as g:
                res = self.classify(g)
            self.ev(f"{name}_ret", a, res=res)

        self._eager(wrapper(), f"{name}{a}")

    def call_run(self) -> None:
        if any(t.get_name() == "run" for t in self.call_tasks):
            return

        async def wrapper() -> None:
            self.ev("run_call", 0, ts=[])
            await self.sdk_run(*self.actors[1:])
            self.ev("run_ret", 0)

        before = [self.tstates(a) for a in range(1, self.na + 1)]
        self.call_tasks.append(self.asyncio.Task(wrapper(), loop=self.loop, eager_start=True, name="run"))
        for a in range(1, self.na + 1):
            self.ev("start", a, c="run", n=self.sync(a), ts=before[a - 1])
        self.line("iter", pumped=False)

    def classify(self, g: BaseExceptionGroup) -> list[str]:
        out = set()
        for e in g.exceptions:
            if isinstance(e, self.asyncio.CancelledError):
                out.add("cancelled")
            elif isinstance(e, (self.ProbeExc, self.ProbeBase)):
                out.add(f"{e.args[0]}_{'exc' if isinstance(e, self.ProbeExc) else 'base'}")
            elif isinstance(e, BaseExceptionGroup):
                out |= {"nested:" + x for x in self.classify(e)}
            else:
                out.add("other:" + type(e).__name__)
        return sorted(out)

    def resolve(self, a: int, cmd: str, extra: bool = False) -> bool:
        fut = self.actors[a].xfut if extra else self.actors[a].fut
        if fut is None or fut.done():
            return False
        fut.set_result(cmd)
        return True

    def iter(self) -> None:
        if self.loop.idle():
            return
        self.loop.step()
        self.line("iter")

    def drain(self) -> None:
        """Let everything finish: pump, move the clock through pending sleeps, let parked probes return."""
        for act in self.actors[1:]:
            act.cmode = act.xmode = "prop"
        resolved = 0
        for _ in range(400):
            n = 0
            while not self.loop.idle() and n < 200:
                self.iter()
                n += 1
            if n >= 200:
                break  # busy loop: the implementation does not settle (recorded as it is, TLC decides)
            if self.loop.next_deadline() is not None:
                self.tick()
                continue
            parked = [(a, x) for a in range(1, self.na + 1) for x in (False, True)
                      if (f := (self.actors[a].xfut if x else self.actors[a].fut)) is not None and not f.done()
                      and any(not t.done() for _, t in self.gen[a - 1])]
            if not parked or resolved >= 12:
                break
            resolved += 1
            for a, x in parked:
                self.resolve(a, "ret", extra=x)
        self.lines.append(dict(ev="final"))


def execute(case: dict) -> dict:
    ex = Exec(case["lim"])
    try:
        for r in case["h"]:
            act, a, k = r["act"], r["a"], r["k"]
            if act == "start":
                ex.start(a)
            elif act == "cancel":
                ex.cancel(a)
            elif act == "addx":
                ex.addx(a)
            elif act == "tick":
                ex.tick()
            elif act in ("stop", "wait"):
                ex.call(a, act)
            elif act == "run":
                ex.call_run()
            elif act == "out":
                ex.resolve(a, k)
                ex.iter()
            elif act == "xout":
                ex.resolve(a, k, extra=True)
                ex.iter()
            elif act == "cdl":
                ex.actors[a].cmode = k
                ex.iter()
            elif act == "cdx":
                ex.actors[a].xmode = k
                ex.iter()
            else:
                ex.iter()
        ex.drain()
        return dict(id=case["id"], lim=case["lim"], lines=ex.lines)
    finally:
        ex.close()


def _worker(chunk, out_path):
    from .common import use_repo

    use_repo()
    with open(out_path, "w") as f:
        for c in chunk:
            f.write(json.dumps(execute(c), separators=(",", ":")) + "\n")


# ---------------------------------------------------------------------------
EXERCISE_KEYS = [
    "AtMostOneRun/enter", "RerunOnlyAfterException/rerun_after_exc", "RestartCountExact/limit_reached",
    "NoRerunAfterReturnOrCancel/ended_ret", "NoRerunAfterReturnOrCancel/ended_cancelled", "NoRerunAfterReturnOrCancel/ended_base",
    "NoRerunAfterReturnOrCancel/cancel_in_delay", "StartIdempotent/start_while_running", "StartIdempotent/start_after_completion",
    "StopCancelsEverything/stop_with_alive_tasks", "StopReturnsOnlyWhenAllDone/stop_ret", "StopSurfacesErrors/ret_with_error",
    "StopSurfacesErrors/ret_with_cancel_only", "RunReturnsIffAllFinished/run_ret", "RunReturnsIffAllFinished/run_called_with_running_actor",
    "RunReturnsIffAllFinished/run_called_with_finished_actor", "exit_at_point2", "cancel_to_exc", "cancel_to_ret",
    "stop_during_delay", "late_task", "extra_error_surfaced",
]


def _exercised(rec: dict, wit: dict) -> None:
    """Counts how many recorded events exercised each clause's antecedent (book-keeping only)."""
    lim = rec["lim"]
    exc_since = {a: 0 for a in range(1, len(lim) + 1)}
    last = {a: None for a in range(1, len(lim) + 1)}
    pt2 = {a: False for a in range(1, len(lim) + 1)}
    cancel_after_exc = {a: False for a in range(1, len(lim) + 1)}
    in_stop = {a: False for a in range(1, len(lim) + 1)}

    def event(e):
        k, a = e["k"], e["a"]
        if k == "stop_call":
            in_stop[a] = True
        elif k == "stop_ret":
            in_stop[a] = False
        elif k == "addx" and in_stop.get(a):
            # antecedent of the late-task clauses: a task added while a stop() is in flight
            wit["late_task"] += 1
        if k == "enter":
            wit["AtMostOneRun/enter"] += 1
            if last[a] == "exc":
                wit["RerunOnlyAfterException/rerun_after_exc"] += 1
            pt2[a] = False
        elif k == "point":
            pt2[a] = True
        elif k == "exit":
            last[a] = e["v"]
            cancel_after_exc[a] = False
            wit["exit_at_point2"] += pt2[a]
            if e["c"] in ("exc", "ret"):
                wit["cancel_to_" + e["c"]] += 1
            if e["v"] == "exc":
                exc_since[a] += 1
                if lim[a - 1] != UNL and exc_since[a] > lim[a - 1]:
                    wit["RestartCountExact/limit_reached"] += 1
            elif e["v"] in ("ret", "cancelled", "base"):
                wit["NoRerunAfterReturnOrCancel/ended_" + e["v"]] += 1
        elif k == "start":
            alive = any(t["s"] == "alive" for t in e["ts"])
            if e["c"] != "run":
                wit["StartIdempotent/start_while_running" if alive else "StartIdempotent/start_after_completion"] += 1
            elif alive:
                wit["RunReturnsIffAllFinished/run_called_with_running_actor"] += 1  # run() must await it although it does not start it
            elif e["ts"]:
                wit["RunReturnsIffAllFinished/run_called_with_finished_actor"] += 1
            if e["n"]:
                exc_since[a] = 0
                last[a] = "fresh"
        elif k in ("cancel", "stop_call"):
            loop_alive_delay = last[a] == "exc"
            if k == "stop_call":
                if any(t["s"] == "alive" for t in e["ts"]):
                    wit["StopCancelsEverything/stop_with_alive_tasks"] += 1
                    if loop_alive_delay and not cancel_after_exc[a] and any(t["n"] == "loop" and t["s"] == "alive" for t in e["ts"]):
                        wit["stop_during_delay"] += 1
            elif loop_alive_delay:
                wit["NoRerunAfterReturnOrCancel/cancel_in_delay"] += 1
            cancel_after_exc[a] = True
        elif k in ("stop_ret", "wait_ret"):
            if k == "stop_ret":
                wit["StopReturnsOnlyWhenAllDone/stop_ret"] += 1
            if [x for x in e["res"] if x != "cancelled"]:
                wit["StopSurfacesErrors/ret_with_error"] += 1
                wit["extra_error_surfaced"] += any(x.startswith("extra") for x in e["res"])
            elif any(t["s"] == "cancelled" for t in e["ts"]):
                wit["StopSurfacesErrors/ret_with_cancel_only"] += 1
        elif k == "run_ret":
            wit["RunReturnsIffAllFinished/run_ret"] += 1

    for x in rec["lines"]:
        if x["ev"] == "iter":
            for e in x["obs"]:
                event(e)
        elif x["ev"] != "final":
            event(dict(k=x["ev"], a=x["a"], n=x["n"], ts=x["ts"], c="", v=""))


def _printable(consts: dict) -> dict:
    return {k: (sorted(v, key=repr) if isinstance(v, (set, frozenset)) else v) for k, v in consts.items()}


def _tlc_job(args):
    """One TLC run of ActorLifecycle: kind = "mc" (design-level check) | "gen" | "sim" (behaviours for the real code)."""
    kind, name, consts, spec, inv, props, cov, num, work = args
    d = work / f"{kind}_{name}"
    d.mkdir(parents=True, exist_ok=True)
    cases_file = d / "cases.ndjson"
    if kind == "mc":
        res = run_tlc("ActorLifecycle", d, constants=dict(consts, Mode="mc"), spec=spec, view="View", invariants=inv, properties=props,
                      coverage=cov, timeout=2400, workers=4, heap="4g")
    elif kind == "gen":
        res = run_tlc("ActorLifecycle", d, constants=dict(consts, Mode="gen"), view="View", invariants=MC_INV,
                      env={"OUT_FILE": str(cases_file)}, timeout=2400, workers=4, heap="4g")
    else:
        res = run_tlc("ActorLifecycle", d, constants=dict(consts, Mode="sim"), view="View", invariants=MC_INV + ["SimEmit"],
                      env={"OUT_FILE": str(cases_file)}, simulate=f"num={max(1, num // 4)}", depth=consts["MaxDepth"] + 2,
                      seed=SEED + 11, timeout=2400, workers=4, heap="4g")
    return kind, name, res, cases_file


def run(prop: str, tier: str) -> int:
    tm = Timer()
    rep = Report(prop, tier)
    sc = SCOPES[tier]
    work = scratch(f"{prop}_{tier}")
    rep.assumptions = [
        "asyncio is single-threaded: one loop iteration is the finest interleaving; start/cancel/stop/wait/run are called between iterations (the calls run eagerly up to their first suspension)",
        "the probe _run has two await points; a CancelledError is propagated, turned into an Exception or into a normal return (an Exception escaping _run is a failure even if a cancellation was requested)",
        "the specification models _wait() as repaired in 799638e (errors kept, tasks added while waiting are awaited and, by stop(), cancelled); the earlier behaviour is kept as a named cause predicate (Dev_LateTaskAbandoned) and a legacy design-level witness",
        "one extra task per start; at most one stop() and one wait() in flight per actor; a stop()/wait()/run() answers for the generation of tasks it was called on (a start() issued after that generation ended begins a new one)",
        "time: 1 s ticks of the virtual clock, RESTART_DELAY = 2 s",
    ]
    # MC + GEN: every TLC run of the specification, in parallel
    jobs = [("mc", n, c, spec, inv, props, bool(acts), 0, work) for (n, c, spec, inv, props, acts, _e) in sc["mc"]]
    jobs += [("gen", n, c, None, None, None, False, 0, work) for (n, c, _lim) in sc["gen"]]
    jobs += [("sim", n, c, None, None, None, False, num, work) for (n, c, num) in sc["sim"]]
    expect = {n: (c, inv, props, acts, exp) for (n, c, _s, inv, props, acts, exp) in sc["mc"]}
    bind = {n: (c, lim) for (n, c, lim) in sc["gen"]}
    bind.update({n: (c, None) for (n, c, _num) in sc["sim"]})
    groups: dict[int, list] = {}
    stages: dict[str, dict] = {}
    with cf.ThreadPoolExecutor(max_workers=6) as pool:
        results = list(pool.map(_tlc_job, jobs))
    for kind, name, res, cases_file in results:
        if kind == "mc":
            consts, inv, props, acts, exp = expect[name]
            rep.add_mc("mc_" + name, res, _printable(consts), inv + props,
                       mode="exhaustive" + (", legacy design, expected to be violated (witness of the defect repaired in 799638e)" if exp else ""))
            if exp:
                if res.ok or exp not in res.violated:
                    raise RuntimeError(f"vacuity: {name} was expected to violate {exp} (the legacy variant of the specification no longer shows the defect)")
                rep.extra["legacy_design_witness"] = f"{exp} is violated by the legacy variant of the specification (wait() before 799638e) when tasks may be added during stop() ({res.distinct} states)"
                continue
            if not res.ok:
                rep.fail("C10.MC." + "/".join(res.violated), dict(stage="mc_" + name), res.counterexample[:3000])
            for a in acts or []:
                if not res.coverage.get(a):
                    raise RuntimeError(f"vacuity: action {a} never taken in {name} ({res.coverage})")
            continue
        consts, limit = bind[name]
        rep.add_mc(name, res, _printable(consts), MC_INV, mode="exhaustive+emit" if kind == "gen" else "simulate")
        if not res.ok:
            rep.fail("C10.MC." + "/".join(res.violated), dict(stage=name), res.counterexample[:3000])
            continue
        raw = read_emitted(cases_file)
        base = (len(stages) + 1) * 10_000_000
        cases = [dict(id=base + i + 1, lim=c["lim"], h=c["h"]) for i, c in enumerate(raw)]
        total = len(cases)
        if limit:
            cases, cut = subsample(cases, limit)
            rep.exhaustive = rep.exhaustive and not cut
        stages[name] = dict(stage=name, base=base, cases_emitted=total, cases_replayed=len(cases), traces_validated=0,
                            exercised={k: 0 for k in EXERCISE_KEYS})
        groups.setdefault(consts["NA"], []).extend(cases)
    # RUN: the real code, one forked worker per shard
    shards = {na: replay_parallel(_worker, cases, work, nproc=(8 if tier == "quick" else 16), prefix=f"impl{na}") for na, cases in groups.items()}

    # VAL: TLC on the recorded executions
    def val(na):
        return na, validate_shards(
            "ActorLifecycleTrace", shards[na], work,
            constants=dict(_c(na, {0}, 1, set()), Mode="trace"),
            invariants=["TraceInv"], unconsumed_clause="C10.TraceNotExplainedBySpec", dfs_queue=True,
        )

    with cf.ThreadPoolExecutor(max_workers=2) as pool:
        vals = list(pool.map(val, sorted(shards)))
    by_base = {st["base"]: st for st in stages.values()}
    byid = {}
    for na in shards:
        for p in shards[na]:
            for r_ in load_ndjson(p):
                st = by_base[r_["id"] // 10_000_000 * 10_000_000]
                _exercised(r_, st["exercised"])
                st["traces_validated"] += 1
                byid[r_["id"]] = r_
                if len(rep.samples) < 3 and r_["id"] % 97 == 5:
                    rep.samples.append(r_)
    for na, (fails, done, st) in vals:
        rep.validated += done
        rep.extra.setdefault("validation", []).append(dict(NA=na, traces=done, states=st["states"], wall_s=st["wall_s"]))
        for v in fails:
            rep.fail(v["clause"], dict(NA=na, trace=byid.get(v["tid"])), v.get("detail"), deviations=v.get("deviations", []))
    total = {k: sum(st["exercised"][k] for st in stages.values()) for k in EXERCISE_KEYS}
    rep.extra["stages"] = [{k: v for k, v in st.items() if k != "base"} for st in stages.values()]
    rep.extra["exercised"] = total
    missing = [k for k, v in total.items() if v == 0]
    if missing and not rep.failures:
        raise RuntimeError(f"vacuity: never exercised on the real code: {missing}")
    if tier == "quick":
        rep.exhaustive = False
    return rep.finish(tm.s())
