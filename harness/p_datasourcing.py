"""C20: DataSourcing.tla — TLC behaviours (and TLC event orders crossed with every injection offset)
drive the real DataSourcingActor over a fake API client whose per-component data streams are
Broadcast channels; the loop is pumped one iteration at a time, the recorded executions are
validated by TLC against DataSourcingTrace.tla, which evaluates every C20 clause on the samples the
real code delivered."""

from __future__ import annotations

import itertools
import json
import random
from datetime import timedelta
from pathlib import Path

from .common import SEED, Timer, scratch
from .pipeline import load_ndjson, replay_parallel, subsample, validate_shards
from .tlc import Raw, read_emitted, run_tlc
from .verdict import Report

UNKNOWN = 9
CATS = ["METER", "INVERTER", "BATTERY", "EV_CHARGER"]
# category -> [(ComponentMetricId name, data-class field, index in the per-phase tuple or None)]
# (input construction: which field of the API message carries the metric)
_PH = lambda pre, f: [(f"{pre}_PHASE_{i + 1}", f, i) for i in range(3)]  # noqa: E731
TABLE = {
    "METER": [("ACTIVE_POWER", "active_power", None), ("REACTIVE_POWER", "reactive_power", None), ("FREQUENCY", "frequency", None)]
    + _PH("ACTIVE_POWER", "active_power_per_phase") + _PH("CURRENT", "current_per_phase")
    + _PH("VOLTAGE", "voltage_per_phase") + _PH("REACTIVE_POWER", "reactive_power_per_phase"),
    "INVERTER": [("ACTIVE_POWER", "active_power", None), ("FREQUENCY", "frequency", None), ("REACTIVE_POWER", "reactive_power", None)]
    + [(f"ACTIVE_POWER_{k}_BOUND", f"active_power_{k.lower()}_bound", None)
       for k in ("INCLUSION_LOWER", "EXCLUSION_LOWER", "EXCLUSION_UPPER", "INCLUSION_UPPER")]
    + _PH("ACTIVE_POWER", "active_power_per_phase") + _PH("CURRENT", "current_per_phase")
    + _PH("VOLTAGE", "voltage_per_phase") + _PH("REACTIVE_POWER", "reactive_power_per_phase"),
    "BATTERY": [("SOC", "soc", None), ("CAPACITY", "capacity", None), ("SOC_LOWER_BOUND", "soc_lower_bound", None),
                ("SOC_UPPER_BOUND", "soc_upper_bound", None), ("TEMPERATURE", "temperature", None)]
    + [(f"POWER_{k}_BOUND", f"power_{k.lower()}_bound", None)
       for k in ("INCLUSION_LOWER", "EXCLUSION_LOWER", "EXCLUSION_UPPER", "INCLUSION_UPPER")],
    "EV_CHARGER": [("ACTIVE_POWER", "active_power", None), ("VOLTAGE_PHASE_2", "voltage_per_phase", 1), ("FREQUENCY", "frequency", None),
                   ("REACTIVE_POWER", "reactive_power", None)]
    + _PH("ACTIVE_POWER", "active_power_per_phase") + _PH("CURRENT", "current_per_phase")
    + [("VOLTAGE_PHASE_1", "voltage_per_phase", 0), ("VOLTAGE_PHASE_3", "voltage_per_phase", 2)]
    + _PH("REACTIVE_POWER", "reactive_power_per_phase"),
}
# fields of the data classes that no metric reads (filled with values no metric may show)
EXTRA = {
    "METER": {},
    "INVERTER": dict(component_state="InverterComponentState.UNSPECIFIED", errors=[]),
    "BATTERY": dict(component_state="BatteryComponentState.UNSPECIFIED", relay_state="BatteryRelayState.UNSPECIFIED", errors=[]),
    "EV_CHARGER": dict(component_state="EVChargerComponentState.UNSPECIFIED", cable_state="EVChargerCableState.UNSPECIFIED",
                       active_power_inclusion_lower_bound=7771.0, active_power_exclusion_lower_bound=7772.0,
                       active_power_exclusion_upper_bound=7773.0, active_power_inclusion_upper_bound=7774.0),
}

# requests are (component, namespace, metric, start_time): start_time 0 = None, 1 = START_TIME; the four
# fields are exactly what ComponentMetricRequest.get_channel_name() is built from
FULL = [(c, n, m, 0) for c in (1, 2, UNKNOWN) for n in (1, 2) for m in (1, 2)] + [(c, 1, 1, 1) for c in (1, 2, UNKNOWN)]
FULL_SIM = [(c, n, m, st) for c in (1, 2, UNKNOWN) for n in (1, 2) for m in (1, 2) for st in (0, 1)]
# up to renaming of namespaces / metrics / components; the last differs from the first ONLY in start_time
CANON = [(1, 1, 1, 0), (1, 1, 2, 0), (1, 2, 1, 0), (2, 1, 1, 0), (UNKNOWN, 1, 1, 0), (1, 1, 1, 1)]


def _reqset(t):
    return Raw("{" + ", ".join(f"[c |-> {c}, ns |-> {n}, m |-> {m}, st |-> {st}]" for c, n, m, st in t) + "}")


BASE = dict(Comps={1, 2}, Unknown=UNKNOWN, Namespaces={1, 2}, Metrics={1, 2}, Starts={0, 1})
SCOPES = {
    "quick": dict(
        mc=dict(BASE, ReqSet=_reqset(CANON), MaxMsg=3, MaxReq=3, MaxFail=1),
        live=dict(BASE, ReqSet=_reqset(CANON), MaxMsg=2, MaxReq=2, MaxFail=1),
        gen=dict(BASE, ReqSet=_reqset(CANON), MaxMsg=2, MaxReq=2, MaxFail=1, MaxDepth=9),
        gen_limit=2000,
        sim=dict(BASE, ReqSet=_reqset(FULL_SIM), MaxMsg=6, MaxReq=4, MaxFail=1, MaxDepth=40),
        sim_num=400,
        env=dict(BASE, ReqSet=_reqset(CANON), MaxMsg=3, MaxReq=3, MaxFail=1, MaxDepth=5),
        off_orders=9, off_k=4,
        table_msgs=2,
    ),
    "thorough": dict(
        mc=dict(BASE, ReqSet=_reqset(FULL), MaxMsg=4, MaxReq=3, MaxFail=1),
        live=dict(BASE, ReqSet=_reqset(CANON), MaxMsg=3, MaxReq=2, MaxFail=1),
        gen=dict(BASE, ReqSet=_reqset(CANON), MaxMsg=3, MaxReq=3, MaxFail=1, MaxDepth=11),
        gen_limit=60000,
        sim=dict(BASE, ReqSet=_reqset(FULL_SIM), MaxMsg=8, MaxReq=5, MaxFail=2, MaxDepth=60),
        sim_num=20000,
        env=dict(BASE, ReqSet=_reqset(CANON), MaxMsg=4, MaxReq=3, MaxFail=1, MaxDepth=6),
        off_orders=25, off_k=4,
        table_msgs=3,
    ),
}
MC_INV = ["TypeOK", "ExactlyOnceInOrder", "NoApiMessageLost", "QuiescentAllDelivered"]
MC_PROPS = ["ExistingSubsUndisturbed", "DuplicateRequestNoEffect", "UnknownComponentHarmless"]
ACTIONS = ["MsgStep", "ReqStep", "FailStep", "RecvStep", "AddStep", "CrashStep", "RestartStep", "StartStep", "ConsStep", "SendStep"]
# the forced hand-over order: a subscription, a burst, a second subscription on the same component
# (other metric), one more message; then a duplicate of the first
HANDOVER = [("req", 1, 1, 1, 0), ("msg", 1, 0, 0, 0), ("msg", 1, 0, 0, 0), ("req", 1, 1, 2, 0), ("msg", 1, 0, 0, 0)]
HANDOVER_NS = [("req", 1, 1, 1, 0), ("msg", 1, 0, 0, 0), ("req", 1, 2, 1, 0), ("msg", 1, 0, 0, 0), ("req", 1, 1, 1, 0)]
# ... and one whose second subscription differs from the first only in start_time, then its exact duplicate
HANDOVER_ST = [("req", 1, 1, 1, 0), ("msg", 1, 0, 0, 0), ("req", 1, 1, 1, 1), ("msg", 1, 0, 0, 0), ("req", 1, 1, 1, 1)]

# extension (transient API failure): a subscription, the API's component list fails while the actor looks up an
# unknown id (the actor crashes and is restarted after RESTART_DELAY), the first request again, a message
HANDOVER_CRASH = [("req", 1, 1, 1, 0), ("fail", 0, 0, 0, 0), ("req", UNKNOWN, 1, 1, 0), ("req", 1, 1, 1, 0), ("msg", 1, 0, 0, 0)]

NONE = -99
HEAP = "2g"  # the state spaces are small; many checks share the machine


def ts_of(c: int, i: int) -> int:
    """Seconds after the epoch that the harness stamps on message i of component c."""
    return 1000 * c + i


# ---------------------------------------------------------------------------
class Exec:
    """One execution of the real actor under the manual loop."""

    def __init__(self, cfg: dict) -> None:
        import asyncio

        import frequenz.client.microgrid as cm
        from frequenz.channels import Broadcast
        from frequenz.client.microgrid import Component, ComponentCategory, ComponentMetricId
        from frequenz.quantities import Quantity

        from frequenz.sdk._internal._channels import ChannelRegistry
        from frequenz.sdk.microgrid import connection_manager
        from frequenz.sdk.microgrid._data_sourcing import ComponentMetricRequest, DataSourcingActor
        from frequenz.sdk.timeseries import Sample

        from .vloop import EPOCH, ManualLoop

        self.cfg = cfg
        self.cats: list[str] = cfg["cats"]  # category of component 1..NC
        self.nc = len(self.cats)
        self.nm: int = cfg["nm"]  # number of spec metrics
        self.moff: list[int] = cfg["moff"]  # per component: rotation into the metric table
        self.slow: bool = bool(cfg.get("slow"))
        self.cm, self.MetricId, self.Request = cm, ComponentMetricId, ComponentMetricRequest
        self.Sample, self.Quantity, self.EPOCH = Sample, Quantity, EPOCH
        self.START_TIME = EPOCH - timedelta(days=1)  # the "some fixed datetime" of start_time = 1
        self.obs: list[dict] = []
        self.lines: list[dict] = []
        self.nmsg = {c: 0 for c in range(1, self.nc + 1)}
        self.msg_id: dict[int, tuple[int, int]] = {}
        self._keep: list = []
        self.fail_next = False
        self.taps: dict[tuple[int, int, int], object] = {}
        self.gen = {c: 0 for c in range(1, self.nc + 1)}
        self._task_seen: dict[int, object] = {}
        ex = self

        def api_probe(c):
            def f(msg):
                cid, i = ex.msg_id.get(id(msg), (0, 0))
                ex.obs.append(ex.ob("cons", c=c, id=i if cid == c else 0, ts=ex.ts_int(msg.timestamp)))
                return msg

            return f

        class FakeApi:
            """API client: components() and one Broadcast data stream per component."""

            def __init__(self) -> None:
                self.chans = {c: Broadcast(name=f"raw-component-data-{c}") for c in range(1, ex.nc + 1)}
                self.senders = {c: ch.new_sender() for c, ch in self.chans.items()}

            async def components(self):
                if ex.slow:
                    await asyncio.sleep(0)
                if ex.fail_next:  # extension: a transient failure of the API call, armed by the schedule
                    ex.fail_next = False
                    ex.obs.append(ex.ob("listfail"))
                    raise RuntimeError("components(): transient API failure")
                return {Component(component_id=c, category=getattr(ComponentCategory, ex.cats[c - 1])) for c in self.chans}

            async def _data(self, c: int, cat: str, maxsize: int = 50):
                if ex.cats[c - 1] != cat:
                    raise ValueError(f"component {c} is not a {cat}")
                if ex.slow:  # the real client awaits the component list before handing out the receiver
                    await asyncio.sleep(0)
                ex.obs.append(ex.ob("newrecv", c=c))
                return self.chans[c].new_receiver(limit=maxsize).map(api_probe(c))

            async def meter_data(self, component_id, maxsize=50):
                return await self._data(component_id, "METER", maxsize)

            async def inverter_data(self, component_id, maxsize=50):
                return await self._data(component_id, "INVERTER", maxsize)

            async def battery_data(self, component_id, maxsize=50):
                return await self._data(component_id, "BATTERY", maxsize)

            async def ev_charger_data(self, component_id, maxsize=50):
                return await self._data(component_id, "EV_CHARGER", maxsize)

        class FakeConn:
            def __init__(self) -> None:
                self.api_client = FakeApi()

        self.loop = ManualLoop()
        self.loop.__enter__()
        self._connmod = connection_manager
        self._saved = connection_manager._CONNECTION_MANAGER  # pylint: disable=protected-access
        self.conn = FakeConn()
        connection_manager._CONNECTION_MANAGER = self.conn  # the documented way tests provide a fake API
        self.registry = ChannelRegistry(name="verif")
        self.req_ch = Broadcast(name="data_sourcing_requests")
        self.req_sender = self.req_ch.new_sender()

        def take_probe(r):
            ex.obs.append(ex.ob("take", **ex.key_of(r)))
            return r

        self.actor = DataSourcingActor(self.req_ch.new_receiver(limit=50).map(take_probe), self.registry)
        self.actor.start()
        self.loop.run_until_idle()
        self.obs.clear()

    def close(self) -> None:
        self._connmod._CONNECTION_MANAGER = self._saved  # pylint: disable=protected-access
        self.loop.__exit__(None, None, None)

    # -- helpers -------------------------------------------------------------
    @staticmethod
    def ob(k, c=0, ns=0, m=0, st=0, id=0, ts=0, val=0):  # pylint: disable=redefined-builtin
        return dict(k=k, c=c, ns=ns, m=m, st=st, id=id, ts=ts, val=val)

    def ts_int(self, t) -> int:
        try:
            return int(round((t - self.EPOCH).total_seconds()))
        except Exception:  # pylint: disable=broad-except
            return NONE

    def metric(self, c: int, m: int):
        cat = self.cats[c - 1] if 1 <= c <= self.nc else "METER"
        tab = TABLE[cat]
        off = self.moff[c - 1] if 1 <= c <= self.nc else 0
        return tab[(off + m - 1) % len(tab)]

    def key_of(self, r) -> dict:
        c = r.component_id if r.component_id <= self.nc else UNKNOWN
        ns = int(r.namespace[2:])
        st = 0 if r.start_time is None else (1 if r.start_time == self.START_TIME else NONE)
        for m in range(1, self.nm + 1):
            if self.metric(c, m)[0] == r.metric_id.name:
                return dict(c=c, ns=ns, m=m, st=st)
        return dict(c=c, ns=ns, m=0, st=st)

    def make_request(self, c: int, ns: int, m: int, st: int = 0):
        cid = c if c <= self.nc else 99
        return self.Request(f"ns{ns}", cid, getattr(self.MetricId, self.metric(c, m)[0]), self.START_TIME if st else None)

    def _sync(self, coro) -> None:
        try:
            coro.send(None)
        except StopIteration:
            return
        raise RuntimeError("Sender.send suspended; cannot inject synchronously")

    # -- injections ----------------------------------------------------------
    def request(self, c: int, ns: int, m: int, st: int = 0) -> None:
        req = self.make_request(c, ns, m, st)
        key = (c, ns, m, st)
        if key not in self.taps:
            # a consumer creates its receiver before (or in the same step as) sending the request
            self.taps[key] = self.registry.get_or_create(self.Sample[self.Quantity], req.get_channel_name()).new_receiver(limit=500)
        self._sync(self.req_sender.send(req))
        self.lines.append(dict(ev="req", c=c, ns=ns, m=m, st=st))

    def arm_fail(self) -> None:
        self.fail_next = True
        self.lines.append(dict(ev="fail"))

    def tick(self, horizon: float = 30.0) -> bool:
        """The loop is idle: let virtual time pass up to the next timer (an actor restart delay)."""
        nxt = self.loop.next_deadline()
        if nxt is None or nxt > horizon:
            return False
        self.loop.jump_to(max(nxt, self.loop.time()))
        return True

    def message(self, c: int) -> None:
        self.nmsg[c] += 1
        i = self.nmsg[c]
        cat = self.cats[c - 1]
        vals = [1000 * c + 10 * m + i for m in range(1, self.nm + 1)]
        kw: dict = {}
        junk = 5000
        for j, (_name, fld, idx) in enumerate(TABLE[cat]):
            # default: a value no subscribed metric carries
            if idx is None:
                kw.setdefault(fld, float(junk + j))
            else:
                kw.setdefault(fld, [float(junk + 100 + 3 * j), float(junk + 101 + 3 * j), float(junk + 102 + 3 * j)])
        for m in range(1, self.nm + 1):
            _name, fld, idx = self.metric(c, m)
            if idx is None:
                kw[fld] = float(vals[m - 1])
            else:
                kw[fld][idx] = float(vals[m - 1])
        for fld, v in list(kw.items()):
            if isinstance(v, list):
                kw[fld] = tuple(v)
        for fld, v in EXTRA[cat].items():
            if isinstance(v, str):
                cls, member = v.split(".")
                v = getattr(getattr(self.cm, cls), member)
            kw[fld] = v
        cls = dict(METER="MeterData", INVERTER="InverterData", BATTERY="BatteryData", EV_CHARGER="EVChargerData")[cat]
        ts = ts_of(c, i)
        msg = getattr(self.cm, cls)(component_id=c, timestamp=self.EPOCH + timedelta(seconds=ts), **kw)
        self.msg_id[id(msg)] = (c, i)
        self._keep.append(msg)  # ids of live objects stay unique
        self._sync(self.conn.api_client.senders[c].send(msg))
        self.lines.append(dict(ev="msg", c=c, id=i, ts=ts, vals=vals))

    # -- observation ---------------------------------------------------------
    def _drain(self) -> None:
        for (c, ns, m, st), rx in self.taps.items():
            while len(rx):  # BroadcastReceiver.__len__: number of unconsumed messages
                s = rx.consume()
                v = s.value.base_value if s.value is not None else None
                iv = NONE
                if v is not None and v == v and abs(v - round(v)) < 1e-9 and abs(v) < 2**30:
                    iv = int(round(v))
                self.obs.append(self.ob("dlv", c=c, ns=ns, m=m, st=st, ts=self.ts_int(s.timestamp), val=iv))

    def _projection(self):
        """Enrichment from private attributes (skipped if they are renamed)."""
        gen, nent = [], []
        ugen = unent = -1
        try:
            src = self.actor._microgrid_api_source
            for c in range(1, self.nc + 1):
                t = src.comp_data_tasks.get(c)
                if t is not None and t is not self._task_seen.get(c):
                    self._task_seen[c] = t
                    self.gen[c] += 1
                gen.append(self.gen[c])
                nent.append(sum(len(v) for v in src._req_streaming_metrics.get(c, {}).values()))
            ugen = sum(1 for c in src.comp_data_tasks if not 1 <= c <= self.nc)
            unent = sum(len(v) for c, d in src._req_streaming_metrics.items() if not 1 <= c <= self.nc for v in d.values())
        except AttributeError:
            gen, nent, ugen, unent = [-1] * self.nc, [-1] * self.nc, -1, -1
        return gen, nent, ugen, unent

    def iter(self) -> None:
        self.loop.step()
        self._drain()
        gen, nent, ugen, unent = self._projection()
        self.lines.append(dict(ev="iter", obs=self.obs, gen=gen, nent=nent, ugen=ugen, unent=unent, idle=self.loop.idle()))
        self.obs = []

    def drain(self, horizon: float = 30.0) -> None:
        """Pump until idle; let pending timers (restart delays after an exception) elapse on the virtual
        clock up to `horizon` seconds, so that the final state is what a consumer eventually sees."""
        n = jumps = 0
        while True:
            while not self.loop.idle():
                self.iter()
                n += 1
                if n > 3000:
                    raise RuntimeError("loop does not become idle")
            nxt = self.loop.next_deadline()
            if nxt is None or nxt > horizon:
                break
            self.loop.jump_to(max(nxt, self.loop.time()))
            jumps += 1
        self.lines.append(dict(ev="final", alive=bool(self.actor.is_running), jumps=jumps))


def execute(case: dict) -> dict:
    ex = Exec(case["cfg"])
    try:
        for a in case["h"]:
            if a["a"] == "req":
                ex.request(a["c"], a["ns"], a["m"], a.get("st", 0))
            elif a["a"] == "msg":
                ex.message(a["c"])
            elif a["a"] == "fail":
                ex.arm_fail()
            elif not ex.loop.idle() or ex.tick():
                ex.iter()
        ex.drain()
        return dict(id=case["id"], stage=case.get("stage", ""), cfg=case["cfg"], lines=ex.lines)
    finally:
        ex.close()


def _worker(chunk, out_path):
    from .common import use_repo

    use_repo()
    with open(out_path, "w") as f:
        for c in chunk:
            f.write(json.dumps(execute(c), separators=(",", ":")) + "\n")


# ---------------------------------------------------------------------------
PAIRS = [(a, b) for a in CATS for b in CATS]


def cfg_for(i: int, nm: int = 2) -> dict:
    """Configuration of case i: categories of components 1, 2, rotation into their metric tables,
    whether the fake API suspends once inside components() / *_data() like the real client."""
    cats = list(PAIRS[i % len(PAIRS)])
    j = i // len(PAIRS)
    slow = j % 2
    j //= 2
    return dict(cats=cats, nm=nm, moff=[j % len(TABLE[cats[0]]), (j * 5 + 3) % len(TABLE[cats[1]])], slow=slow)


def _int():
    return dict(a="int", c=0, ns=0, m=0, st=0)


def _witness(records: list) -> dict:
    """Count how often the situations the clauses talk about occurred in the recorded executions
    (book-keeping for the vacuity guards; no clause is decided here)."""
    w = dict(traces=0, samples=0, streams=0, restarts_with_existing_streams=0, restart_while_fanout_in_flight=0,
             restart_with_message_buffered=0, duplicate_takes=0, unknown_takes=0, back_to_back_takes=0,
             receiver_created_by_suspending_api=0, actor_crashes=0, requests_dropped_by_crash=0, duplicate_takes_after_restart=0,
             streams_fed_across_restart=0, requests_differing_only_in_start_time=0, samples_on_start_time_twins=0,
             samples_by_category={}, metrics_seen={})
    for r in records:
        if True:
            w["traces"] += 1
            cfg = r["cfg"]
            taken: list[tuple] = []
            twins: set = set()
            crashed = False
            last_take = None  # (key, was it counted as new)
            fed_after: set = set()
            first: dict = {}  # key -> number of messages consumed when it was installed
            injected: dict = {}
            recv_from: dict = {}  # c -> number of messages injected before the API receiver existed
            consumed: dict = {}
            dlv: dict = {}
            for x in r["lines"]:
                if x["ev"] == "msg":
                    injected[x["c"]] = injected.get(x["c"], 0) + 1
                if x["ev"] != "iter":
                    continue
                nt = 0
                for o in x["obs"]:
                    c = o["c"]
                    key = (c, o["ns"], o["m"], o["st"])
                    if o["k"] == "listfail":
                        w["actor_crashes"] += 1
                        crashed = True
                        if last_take and last_take[1]:  # the crash dropped the request in hand: not a subscription
                            w["requests_dropped_by_crash"] += 1
                            taken.remove(last_take[0])
                            first.pop(last_take[0], None)
                        last_take = None
                    if o["k"] == "take":
                        nt += 1
                        last_take = (key, False)
                        if c == UNKNOWN:
                            w["unknown_takes"] += 1
                        elif key in taken:
                            w["duplicate_takes"] += 1
                            w["duplicate_takes_after_restart"] += crashed
                        else:
                            old = [k for k in taken if k[0] == c]
                            if any(k[:3] == key[:3] for k in old):
                                w["requests_differing_only_in_start_time"] += 1
                                twins.add(key)
                            if old:
                                w["restarts_with_existing_streams"] += 1
                                if any(consumed.get(c, 0) - first[k] > dlv.get(k, 0) for k in old):
                                    w["restart_while_fanout_in_flight"] += 1
                                if c in recv_from and injected.get(c, 0) - recv_from[c] > consumed.get(c, 0):
                                    w["restart_with_message_buffered"] += 1
                            taken.append(key)
                            last_take = (key, True)
                            first[key] = consumed.get(c, 0)
                    elif o["k"] == "newrecv":
                        recv_from.setdefault(c, injected.get(c, 0))
                        w["receiver_created_by_suspending_api"] += cfg["slow"]
                    elif o["k"] == "cons":
                        consumed[c] = consumed.get(c, 0) + 1
                    elif o["k"] == "dlv":
                        dlv[key] = dlv.get(key, 0) + 1
                        w["samples_on_start_time_twins"] += key in twins
                        if crashed:
                            fed_after.add(key)
                        w["samples"] += 1
                        if 1 <= c <= len(cfg["cats"]):
                            cat = cfg["cats"][c - 1]
                            w["samples_by_category"][cat] = w["samples_by_category"].get(cat, 0) + 1
                            tab = TABLE[cat]
                            name = cat + "." + tab[(cfg["moff"][c - 1] + o["m"] - 1) % len(tab)][0]
                            w["metrics_seen"][name] = w["metrics_seen"].get(name, 0) + 1
                w["back_to_back_takes"] += nt > 1
            w["streams"] += len(dlv)
            w["streams_fed_across_restart"] += len(fed_after)
    return w


def _merge(a: dict, b: dict) -> dict:
    for k, v in b.items():
        if isinstance(v, dict):
            d = a.setdefault(k, {})
            for kk, vv in v.items():
                d[kk] = d.get(kk, 0) + vv
        else:
            a[k] = a.get(k, 0) + int(v)
    return a


def _run_val(rep: Report, name: str, cases: list, d: Path, consts: dict, needs: dict) -> None:
    """RUN the cases through the real actor, VAL the recorded executions with TLC."""
    d.mkdir(parents=True, exist_ok=True)
    shards = replay_parallel(_worker, cases, d)
    tconsts = dict(consts, Mode="trace", MaxMsg=99, MaxReq=99, MaxFail=99, MaxDepth=0, ReqSet=Raw("{}"))
    fails, done, st = validate_shards(
        "DataSourcingTrace", shards, d, constants=tconsts, invariants=["TraceInv"],
        unconsumed_clause="C20.TraceNotExplainedBySpec", dfs_queue=True, heap="1g",
    )
    rep.validated += done
    recs = [r_ for p in shards for r_ in load_ndjson(p)]
    for stage in sorted({r_["stage"] for r_ in recs}):
        mine = [r_ for r_ in recs if r_["stage"] == stage]
        wit = _witness(mine)
        for k in needs.get(stage, ()):
            if not wit.get(k) and not fails:
                raise RuntimeError(f"vacuity: stage {stage} never exercised '{k}' ({ {a: b for a, b in wit.items() if not isinstance(b, dict)} })")
        rep.extra.setdefault("stages", []).append(
            dict(stage=stage, cases_replayed=len(mine), val_run=name, witnessed={k: v for k, v in wit.items() if not isinstance(v, dict)})
        )
        _merge(rep.extra.setdefault("clause_antecedents_exercised", {}), dict(
            ExactlyOnceInOrder_streams=wit["streams"], ValueAndTimestamp_samples=wit["samples"],
            ExistingSubsUndisturbed_restarts=wit["restarts_with_existing_streams"],
            ExistingSubsUndisturbed_restarts_with_fanout_in_flight=wit["restart_while_fanout_in_flight"],
            ExistingSubsUndisturbed_restarts_with_message_buffered=wit["restart_with_message_buffered"],
            DuplicateRequestNoEffect_duplicates=wit["duplicate_takes"], UnknownComponentHarmless_requests=wit["unknown_takes"],
            ExactlyOnceInOrder_streams_differing_only_in_start_time=wit["requests_differing_only_in_start_time"],
            extension_actor_crashes=wit["actor_crashes"], extension_DuplicateRequestNoEffect_after_restart=wit["duplicate_takes_after_restart"],
            extension_ExactlyOnceInOrder_streams_fed_after_restart=wit["streams_fed_across_restart"],
        ))
        _merge(rep.extra.setdefault("samples_by_category", {}), wit["samples_by_category"])
        _merge(rep.extra.setdefault("metrics_seen", {}), wit["metrics_seen"])
        if mine and len(rep.samples) < 5:
            rep.samples.append(mine[len(mine) // 2])
    rep.extra.setdefault("val_runs", []).append(dict(run=name, traces_validated=done, val_states=st["states"], wall_s=st["wall_s"]))
    byid = {r_["id"]: r_ for r_ in recs} if fails else {}
    for v in fails:
        rep.fail(v["clause"], dict(stage=byid.get(v["tid"], {}).get("stage"), trace=byid.get(v["tid"])), v.get("detail"))


def _tlc_cases(rep: Report, name: str, consts: dict, d: Path, mode: str, simulate=None) -> list | None:
    """MC+GEN: TLC checks the design-level invariants on this scope and emits behaviours."""
    d.mkdir(parents=True, exist_ok=True)
    cases_file = d / "cases.ndjson"
    consts = dict(consts, Mode=mode)
    res = run_tlc(
        "DataSourcing", d, constants=consts, view=(None if mode == "env" else "View"),  # env: every ORDER is a state
        invariants=MC_INV + (["SimEmit"] if simulate else []),
        env={"OUT_FILE": str(cases_file)}, coverage=(simulate is None), simulate=simulate,
        depth=(consts["MaxDepth"] + 2 if simulate else None), seed=(SEED + 11 if simulate else None), timeout=1500, heap=HEAP,
    )
    rep.add_mc(name, res, consts, MC_INV, mode=("simulate " + simulate) if simulate else "exhaustive+emit")
    if not res.ok:
        rep.fail("C20.MC." + "/".join(res.violated), dict(stage=name), res.counterexample[:3000])
        return None
    if simulate is None:
        for a in (ACTIONS if mode == "gen" else ["MsgStep", "ReqStep", "FailStep"]):
            if not res.coverage.get(a):
                raise RuntimeError(f"vacuity: action {a} never taken in {name} ({res.coverage})")
    return read_emitted(cases_file)


def _offset_cases(rep: Report, raw: list, depth: int, n_orders: int, kmax: int) -> list:
    """Every chosen order of environment events (TLC enumerated them) crossed with EVERY vector of
    injection offsets: 0..kmax loop iterations between consecutive events."""
    full = [o for o in raw if len(o) == depth and o[0]["a"] == "req" and any(x["a"] == "msg" for x in o)]
    as_rec = lambda t: [dict(a=a, c=c, ns=ns, m=m, st=st) for a, c, ns, m, st in t]  # noqa: E731
    forced = [as_rec(HANDOVER), as_rec(HANDOVER_NS), as_rec(HANDOVER_ST), as_rec(HANDOVER_CRASH)]
    for f in forced:
        if f not in raw:
            raise RuntimeError("the forced hand-over order is not an order the specification allows")
    rnd = random.Random(SEED + 3)
    rnd.shuffle(full)
    orders = forced + [o for o in full if o not in forced][: max(0, n_orders - len(forced))]
    cases = []
    for o in orders:
        for gaps in itertools.product(range(kmax + 1), repeat=len(o) - 1):
            hh = []
            for j, e in enumerate(o):
                hh.append(e)
                if j < len(gaps):
                    hh += [_int()] * gaps[j]
            cases.append(dict(h=hh))
    rep.exhaustive = rep.exhaustive and len(orders) >= len(full)
    rep.extra["offsets"] = dict(orders_emitted=len(raw), orders_full_length=len(full), orders_used=len(orders), offsets_per_gap=kmax + 1,
                                schedules=len(cases), forced_orders=["".join(x["a"][0] for x in f) for f in forced])
    return cases


def _table_cases(nmsgs: int) -> list:
    """Every metric of every category's extraction table: one component subscribed to all of them,
    requests interleaved with messages (each request restarts a handler holding more senders)."""
    cases = []
    for ci, cat in enumerate(CATS):
        nm = len(TABLE[cat])
        for variant in (0, 1, 2):
            hh = []
            for m in range(1, nm + 1):
                hh.append(dict(a="req", c=1, ns=1, m=m, st=0))
                if variant == 1:
                    hh += [_int(), _int(), dict(a="msg", c=1, ns=0, m=0, st=0)]
                if variant == 2 and m % 3 == 0:
                    hh += [dict(a="msg", c=1, ns=0, m=0, st=0), _int()]
            hh += [_int()] * 4
            hh += [dict(a="msg", c=1, ns=0, m=0, st=0)] * nmsgs
            cases.append(dict(id=len(cases) + 1, stage="table", h=hh,
                              cfg=dict(cats=[cat, CATS[(ci + 1) % 4]], nm=nm, moff=[0, 0], slow=variant % 2)))
    return cases


def run(prop: str, tier: str) -> int:
    tm = Timer()
    rep = Report(prop, tier)
    sc = SCOPES[tier]
    work = scratch(f"{prop}_{tier}")
    rep.assumptions = [
        "asyncio is single-threaded: one loop iteration is the finest interleaving; messages and requests are injected between iterations",
        "the API client is a fake whose per-component data streams are Broadcast channels (as in the real client); with slow=1 components() and "
        "*_data() suspend once before returning, as the real client's gRPC calls do",
        "consumption from the API receiver and from the request receiver is observed through Receiver.map probes handed in by the harness "
        "(public API, no repo hook); comp_data_tasks / _req_streaming_metrics are read as an enrichment only (skipped when renamed)",
        "consumer receivers on the registry channels are created before the request is sent (limit 500, nothing dropped by the receiver)",
        "a subscription is identified by what determines its channel name: namespace, component, metric, start_time (None or one fixed datetime)",
        "'subscribed at that time' = from the first message consumed from the API receiver after the actor took the request off its queue (DESIGN 5/C20)",
        "EXTENSION beyond C20's stated quantifier: api.components() may raise once while the actor looks up a component (ApiListFails); the actor "
        "crashes, the request in hand is dropped (it never becomes a subscription) and _run is called again after RESTART_DELAY on the virtual clock; "
        "the same clauses are evaluated across the restart",
        "handler restarts by run_forever after an exception, closed API streams and unknown metrics of a known category are out of scope",
    ]
    # design-level model checking: invariants + action properties, then liveness under fairness
    consts = dict(sc["mc"], MaxDepth=0, Mode="mc")
    res = run_tlc("DataSourcing", work / "mc", constants=consts, view="View", invariants=MC_INV, properties=MC_PROPS, coverage=True, timeout=3000, heap=HEAP)
    rep.add_mc("mc", res, consts, MC_INV + MC_PROPS, mode="exhaustive")
    if not res.ok:
        rep.fail("C20.MC." + "/".join(res.violated), dict(stage="mc"), res.counterexample[:3000])
    for a in ACTIONS:
        if not res.coverage.get(a):
            raise RuntimeError(f"vacuity: action {a} never taken ({res.coverage})")
    consts = dict(sc["live"], MaxDepth=0, Mode="mc")
    res = run_tlc("DataSourcing", work / "live", constants=consts, spec="FairSpec", view="View", invariants=MC_INV,
                  properties=["EventuallyDelivered"], timeout=3000, heap=HEAP)
    rep.add_mc("live", res, consts, ["EventuallyDelivered"], mode="exhaustive, liveness under weak fairness")
    if not res.ok:
        rep.fail("C20.MC." + "/".join(res.violated), dict(stage="live"), res.counterexample[:3000])

    # MC+GEN: behaviours of the specification (exhaustive small scope, random larger scope, all event orders)
    cases: list = []
    raw = _tlc_cases(rep, "gen", sc["gen"], work / "gen", "gen")
    if raw is not None:
        part = [dict(stage="gen", h=c) for c in raw]
        rep.extra["gen_cases_emitted"] = len(part)
        part, cut = subsample(part, sc["gen_limit"])
        rep.exhaustive = rep.exhaustive and not cut
        cases += part
    raw = _tlc_cases(rep, "sim", sc["sim"], work / "sim", "sim", simulate=f"num={max(1, sc['sim_num'] // 16)}")
    if raw is not None:
        cases += [dict(stage="sim", h=c) for c in raw]
    raw = _tlc_cases(rep, "env", sc["env"], work / "env", "env")
    if raw is not None:
        cases += [dict(c, stage="off") for c in _offset_cases(rep, raw, sc["env"]["MaxDepth"], sc["off_orders"], sc["off_k"])]
    for i, c in enumerate(cases):
        c["id"] = i + 1
        c["cfg"] = cfg_for(i + 1)
    needs = dict(
        gen=("restarts_with_existing_streams", "duplicate_takes", "unknown_takes", "requests_differing_only_in_start_time"),
        sim=("restarts_with_existing_streams", "restart_while_fanout_in_flight", "duplicate_takes", "unknown_takes",
             "requests_differing_only_in_start_time"),
        off=("restarts_with_existing_streams", "restart_while_fanout_in_flight", "restart_with_message_buffered", "duplicate_takes",
             "receiver_created_by_suspending_api", "requests_differing_only_in_start_time", "samples_on_start_time_twins",
             "actor_crashes", "duplicate_takes_after_restart", "streams_fed_across_restart"),
    )
    if cases:
        _run_val(rep, "bind", cases, work / "bind", BASE, needs)
    _run_val(rep, "table", _table_cases(sc["table_msgs"]), work / "table",
             dict(BASE, Namespaces={1}, Starts={0}, Metrics=set(range(1, max(len(t) for t in TABLE.values()) + 1))), {})
    if not rep.failures:
        missing = [f"{c}.{t[0]}" for c in CATS for t in TABLE[c] if not rep.extra.get("metrics_seen", {}).get(f"{c}.{t[0]}")]
        if missing:
            raise RuntimeError(f"vacuity: no sample was ever observed for {missing}")
    if tier == "quick":
        rep.exhaustive = False
    return rep.finish(tm.s())
