"""C15: PowerResults.tla — result accounting of BatteryManager and PVManager.

MC+GEN  TLC checks the accounting clauses on the model (PV water-filling + _set_api_power,
        battery _distribute_power/_parse_result on top of a given distribution) and emits cases:
        a configuration, a request and one outcome per set_power call
        (ok / OperationOutOfRange / ApiClientError / other exception / no reply before the timeout).
RUN     every case is pushed through the REAL PVManager / BatteryManager under the virtual-time
        loop (fake connection manager + API client scripted per outcome vector, status tracker
        substituted like the repo's tests do); the fake client and the results channel record
        what happened as integer milliwatts.
VAL     PowerResultsTrace.tla re-executes the spec on the recorded events and evaluates every
        C15 clause on the recorded Result and set_power calls.
"""

from __future__ import annotations

import importlib.util
import json
import math
import random
from datetime import datetime, timedelta, timezone
from pathlib import Path

from .common import REPO, SEED, Timer, scratch
from .pipeline import load_ndjson, replay_parallel, subsample, validate_shards
from .tlc import read_emitted, run_tlc
from .verdict import Report

UNIT_W = 100.0  # one model unit of power in watts
UNIT_MW = 100000  # ... in recorded milliwatts
TOL_MW = 5
TIMEOUT_S = 5.0
BAD = 2_000_000_000  # recorded for a non-finite power

INV_ID = 10  # inverter index i  <-> component id 10 + i
BAT_ID = 20  # battery index b   <-> component id 20 + b


def _T(*a):
    return tuple(frozenset(x) for x in a)


TOPOS_ALL = {
    _T({1}),  # one inverter, one battery
    _T({1, 2}),  # one inverter, two batteries
    _T({1}, {2}),  # two independent pairs
    _T({1}, {1}),  # two inverters, one battery
    _T({1, 2}, {1, 2}),  # two inverters sharing two batteries
    _T({1, 2}, {3}),
    _T({1}, {2}, {3}),
    _T({1}, {1}, {2}),
}
TOPOS_QUICK_FORCED = TOPOS_ALL - {_T({1}, {2}, {3})}

MC_INV = [
    "SumsToRequested", "FailedPowerIsFailedSetpoints", "SetsDisjoint", "SetsCoverAddressed", "FailedSetIsFailedCalls",
    "PVSetpointsWithinBounds", "SucceededIsSucceededSetpoints", "WaterFillExact", "WaterFillConserves",
    "EveryAllocationIsCalled", "TypeOfResult", "StaleFormulaIsDetected", "UnaddressedNotReported",
]
ACTIONS = {
    "pv": ["ConfigureStep", "RequestStep", "PVDistributeStep", "SetPowerStep", "ReplyStep", "TimeoutStep", "CancelStep", "Collected", "Parse", "Send"],
    "bat": ["ConfigureStep", "RequestStep", "BatDistributeStep", "SetPowerStep", "ReplyStep", "TimeoutStep", "CancelStep", "Collected", "Parse", "Send"],
    "batreal": ["ConfigureStep", "RequestStep"],
}

BASE = dict(
    MaxN=3, PVBounds={0, -6, -12, -18}, PVReqs={0, -6, -12, -18, -24, -30, -36}, PVSorted=False, Topos=TOPOS_ALL,
    SetGrid={-2, 0, 1}, RemGrid={0, 1}, LostGrid={0, 1}, BadKinds={"nw", "nan"}, MaxBad=1, Profiles=3, RealReqs={-25, -12, -3, 0, 3, 12, 25},
    Orders="index", Unit=1, Tol=0,
)
SCOPES = {
    "quick": dict(
        pv=dict(PVSorted=True), pv_limit=4000,
        bat=dict(Topos=TOPOS_QUICK_FORCED), bat_limit=4000,
        batreal=dict(Profiles=4), batreal_limit=4000,
    ),
    "thorough": dict(
        pv=dict(Orders="any", PVBounds={0, -12, -24, -36}, PVReqs={-6 * k for k in range(13)}), pv_limit=None,
        bat=dict(Orders="any"), bat_limit=None,
        batreal=dict(Profiles=4, RealReqs={-40, -25, -12, -7, -3, 0, 3, 7, 12, 25, 40}), batreal_limit=None,
    ),
}


# ---------------------------------------------------------------------------
# real-code side
def _mw(p) -> int:
    w = p.as_watts() if hasattr(p, "as_watts") else float(p)
    if not math.isfinite(w):
        return BAD
    return int(round(w * 1000.0))


class _Tracker:
    """Stands in for ComponentPoolStatusTracker (the repo's tests substitute it the same way):
    every requested component is working, except the ones the case marks "nw"."""

    excluded: frozenset = frozenset()

    def __init__(self, *a, **k) -> None:
        self.updates: list = []

    def get_working_components(self, ids):
        return set(ids) - self.excluded

    async def update_status(self, succeeded, failed) -> None:
        self.updates.append((set(succeeded), set(failed)))

    async def stop(self) -> None:
        pass


class _Env:
    """Imports of the repo (after use_repo()) shared by the executions of one worker."""

    def __init__(self) -> None:
        from unittest.mock import MagicMock

        from frequenz.channels import Broadcast
        from frequenz.client.microgrid import (
            ApiClientError,
            Component,
            ComponentCategory,
            Connection,
            InverterComponentState,
            InverterType,
            OperationOutOfRange,
        )
        from frequenz.quantities import Power

        from frequenz.sdk.microgrid import connection_manager
        from frequenz.sdk.microgrid._power_distributing import result as resmod
        from frequenz.sdk.microgrid._power_distributing._component_managers import _battery_manager as bm
        from frequenz.sdk.microgrid._power_distributing._component_managers._pv_inverter_manager import (
            _pv_inverter_manager as pm,
        )
        from frequenz.sdk.microgrid._power_distributing._distribution_algorithm import DistributionResult
        from frequenz.sdk.microgrid._power_distributing.request import Request
        from frequenz.sdk.microgrid.component_graph import _MicrogridComponentGraph

        from .vloop import ManualLoop

        wrapper = REPO / "tests/utils/component_data_wrapper.py"
        if not wrapper.exists():  # a source-only copy of the repo (mutation runs)
            wrapper = Path("/repo/tests/utils/component_data_wrapper.py")
        spec = importlib.util.spec_from_file_location("_verif_cdw", str(wrapper))
        cdw = importlib.util.module_from_spec(spec)
        spec.loader.exec_module(cdw)
        self.__dict__.update(locals())
        del self.__dict__["self"]


class _Api:
    """Fake microgrid API client: component data channels + scripted, recorded set_power."""

    def __init__(self, env: _Env, ids, events: list, to_idx) -> None:
        self.env = env
        self.ch = {i: env.Broadcast(name=f"data-{i}") for i in ids}
        self.events = events
        self.script: dict[int, tuple[str, float]] = {}
        self.to_idx = to_idx
        self.pending = 0

    async def battery_data(self, cid, maxsize=50):
        return self.ch[cid].new_receiver(limit=8)

    async def inverter_data(self, cid, maxsize=50):
        return self.ch[cid].new_receiver(limit=8)

    async def set_power(self, cid, power_w) -> None:
        import asyncio

        env = self.env
        c = self.to_idx(cid)
        self.events.append(dict(e="call", c=c, p=_mw(power_w)))
        o, delay = self.script[cid]
        self.pending += 1
        try:
            if o == "to":
                await asyncio.get_running_loop().create_future()  # never answers
            elif delay > 0:
                await asyncio.sleep(delay)
        except asyncio.CancelledError:
            self.events.append(dict(e="cancel", c=c))
            raise
        finally:
            self.pending -= 1
        self.events.append(dict(e="reply", c=c, o=o))
        if o == "ok":
            return None
        if o == "oor":
            raise env.OperationOutOfRange(server_url="fake", operation="set_power", grpc_error=env.MagicMock())
        if o == "err":
            raise env.ApiClientError(server_url="fake", operation="set_power", description="scripted", retryable=False)
        raise RuntimeError("scripted unexpected exception")


class _CM:
    def __init__(self, api, graph) -> None:
        self.api_client = api
        self.component_graph = graph


def _graph(env: _Env, kind: str, topo):
    C, K, X = env.Component, env.Connection, env.ComponentCategory
    comps = {C(1, X.GRID), C(2, X.METER)}
    conns = {K(1, 2)}
    for i, bats in enumerate(topo, start=1):
        typ = env.InverterType.SOLAR if kind == "pv" else env.InverterType.BATTERY
        comps.add(C(INV_ID + i, X.INVERTER, typ))
        conns.add(K(2, INV_ID + i))
        if kind == "bat":
            for b in bats:
                comps.add(C(BAT_ID + b, X.BATTERY))
                conns.add(K(INV_ID + i, BAT_ID + b))
    return env._MicrogridComponentGraph(comps, conns)  # pylint: disable=protected-access


def _bat_profile(prof: int, n_inv: int, bats: list[int]):
    """Component data of the battery side (built here, the model does not look at it).

    0: wide bounds (forced distribution)   1: plain   2: exclusion bounds (lost-power regime of C01)
    3: uneven SoC / capacity / bounds      4: battery 1 at its upper, battery 3 at its lower SoC bound
    """
    bd, idt = {}, {}
    for b in bats:
        if prof == 0:
            bd[b] = dict(soc=50.0, cap=1000.0, il=-100000.0, el=0.0, eu=0.0, iu=100000.0)
        elif prof == 1:
            bd[b] = dict(soc=50.0, cap=1000.0, il=-1000.0, el=0.0, eu=0.0, iu=1000.0)
        elif prof == 2:
            bd[b] = dict(soc=50.0, cap=1000.0, il=-2000.0, el=-300.0, eu=300.0, iu=2000.0)
        elif prof == 3:
            bd[b] = dict(soc=[30.0, 55.0, 80.0][b - 1], cap=[1000.0, 3000.0, 700.0][b - 1], il=-900.0 - 300 * b, el=0.0, eu=0.0, iu=700.0 + 200 * b)
        else:
            bd[b] = dict(soc=[90.0, 50.0, 10.0][b - 1], cap=1000.0, il=-1000.0, el=0.0, eu=0.0, iu=1000.0)
    for i in range(1, n_inv + 1):
        if prof == 0:
            idt[i] = dict(il=-100000.0, el=0.0, eu=0.0, iu=100000.0)
        elif prof == 1:
            idt[i] = dict(il=-500.0, el=0.0, eu=0.0, iu=500.0)
        elif prof == 2:
            idt[i] = dict(il=-1000.0, el=-300.0, eu=300.0, iu=1000.0)
        elif prof == 3:
            idt[i] = dict(il=-400.0 - 300 * i, el=0.0, eu=0.0, iu=300.0 + 350 * i)
        else:
            idt[i] = dict(il=-800.0, el=0.0, eu=0.0, iu=800.0)
    return bd, idt


def execute(env: _Env, case: dict, rnd: random.Random) -> dict:
    """Run one request through the real manager; returns the trace record."""
    import asyncio

    kind, n, topo = case["kind"], case["n"], case["topo"]
    forced = "s" in case
    events: list[dict] = []
    bats = sorted({b for bs in topo for b in bs}) if kind == "bat" else []
    inv_ids = [INV_ID + i for i in range(1, n + 1)]

    def inv_idx(cid):
        return cid - INV_ID if cid in inv_ids else 1000 + cid

    def res_idx(cid):
        if kind == "pv":
            return inv_idx(cid)
        return cid - BAT_ID if (cid - BAT_ID) in bats else 1000 + cid

    graph = _graph(env, kind, topo)
    api = _Api(env, inv_ids + [BAT_ID + b for b in bats], events, inv_idx)
    # replies of the calls that do answer arrive after distinct delays in a seeded random order
    # (delay 0 = the call returns/raises without suspending)
    answering = [i for i in range(1, n + 1) if case["out"][i - 1] != "to"]
    ranks = list(range(len(answering)))
    rnd.shuffle(ranks)
    instant = rnd.random() < 0.3
    for i in range(1, n + 1):
        o = case["out"][i - 1]
        d = 0.0 if (o == "to" or instant) else 0.25 * (1 + ranks[answering.index(i)])
        api.script[INV_ID + i] = (o, d)

    mod = env.pm if kind == "pv" else env.bm
    cm = env.connection_manager
    saved_cm, saved_tr = cm._CONNECTION_MANAGER, mod.ComponentPoolStatusTracker  # pylint: disable=protected-access
    bad = list(case.get("bad") or [])
    rec = dict(id=case["id"], kind=kind, forced=forced, n=n, topo=[sorted(x) for x in topo], bd=case["bd"], req=case["req"],
               out=case["out"], prof=case["prof"], bad=bad, s=case.get("s", []), r=case.get("r", 0), ev=events)
    tracker_cls = type("_CaseTracker", (_Tracker,), dict(excluded=frozenset(BAT_ID + b for b in bats if bad[b - 1] == "nw")))
    with env.ManualLoop() as loop:
        cm._CONNECTION_MANAGER = _CM(api, graph)  # pylint: disable=protected-access
        mod.ComponentPoolStatusTracker = tracker_cls
        try:
            res_ch = env.Broadcast(name="results")
            st_ch = env.Broadcast(name="status")
            rx = res_ch.new_receiver(limit=8)
            cls = env.pm.PVManager if kind == "pv" else env.bm.BatteryManager
            mgr = cls(st_ch.new_sender(), res_ch.new_sender(), timedelta(seconds=TIMEOUT_S))
            loop.run_coro(mgr.start())
            now = datetime.now(timezone.utc)
            if kind == "pv":
                for i in range(1, n + 1):
                    msg = env.cdw.InverterDataWrapper(
                        INV_ID + i, now, active_power=0.0, component_state=env.InverterComponentState.IDLE,
                        active_power_inclusion_lower_bound=case["bd"][i - 1] * UNIT_W, active_power_inclusion_upper_bound=0.0,
                    )
                    loop.run_coro(api.ch[INV_ID + i].new_sender().send(msg))
                ids = set(inv_ids)
            else:
                bd, idt = _bat_profile(case["prof"], n, bats)
                for b in bats:
                    d = bd[b]
                    msg = env.cdw.BatteryDataWrapper(
                        BAT_ID + b, now, soc=(math.nan if bad[b - 1] == "nan" else d["soc"]), soc_lower_bound=10.0, soc_upper_bound=90.0, capacity=d["cap"],
                        power_inclusion_lower_bound=d["il"], power_exclusion_lower_bound=d["el"],
                        power_exclusion_upper_bound=d["eu"], power_inclusion_upper_bound=d["iu"],
                    )
                    loop.run_coro(api.ch[BAT_ID + b].new_sender().send(msg))
                for i in range(1, n + 1):
                    d = idt[i]
                    msg = env.cdw.InverterDataWrapper(
                        INV_ID + i, now, active_power=0.0, active_power_inclusion_lower_bound=d["il"],
                        active_power_exclusion_lower_bound=d["el"], active_power_exclusion_upper_bound=d["eu"],
                        active_power_inclusion_upper_bound=d["iu"],
                    )
                    loop.run_coro(api.ch[INV_ID + i].new_sender().send(msg))
                ids = {BAT_ID + b for b in bats}
                # the distribution algorithm is a collaborator: it is observed (real algorithm) or,
                # in the forced stage, replaced by the distribution TLC chose
                algo = mgr._distribution_algorithm  # pylint: disable=protected-access
                orig = algo.distribute_power

                def spy(power, components):
                    if forced:
                        out = env.DistributionResult(
                            distribution={INV_ID + i: case["s"][i - 1] * UNIT_W for i in sorted(case["act"])},
                            remaining_power=case["r"] * UNIT_W,
                        )
                    else:
                        out = orig(power, components)
                    events.append(dict(e="dist", s=[_mw(out.distribution.get(INV_ID + i, 0.0)) for i in range(1, n + 1)],
                                       r=_mw(out.remaining_power), missing=[i for i in range(1, n + 1) if INV_ID + i not in out.distribution]))
                    return out

                algo.distribute_power = spy
            loop.run_until_idle()
            events.append(dict(e="config"))
            request = env.Request(power=env.Power.from_watts(case["req"] * UNIT_W), component_ids=ids)
            events.append(dict(e="request", req=_mw(request.power)))
            t0 = loop.time()
            task = loop.create_task(mgr.distribute_power(request))
            loop.advance_to(t0 + TIMEOUT_S - 0.5)
            if not task.done() and api.pending:
                events.append(dict(e="timeout"))
            loop.advance_to(t0 + TIMEOUT_S + 0.5)
            if not task.done():
                loop.advance_to(t0 + 20 * TIMEOUT_S)
            why = None
            if not task.done():
                why = "distribute_power did not finish"
            elif task.cancelled():
                why = "distribute_power was cancelled"
            elif task.exception() is not None:
                why = f"distribute_power raised {type(task.exception()).__name__}"
            got = loop.create_task(rx.receive())
            loop.run_until_idle()
            if got.done() and not got.cancelled() and got.exception() is None:
                r = got.result()
                typ = type(r).__name__
                if typ in ("Success", "PartialFailure"):
                    events.append(dict(
                        e="result", type=typ, sp=_mw(r.succeeded_power), fp=_mw(getattr(r, "failed_power", 0.0)),
                        ex=_mw(r.excess_power), succ=sorted(res_idx(c) for c in r.succeeded_components),
                        failed=sorted(res_idx(c) for c in getattr(r, "failed_components", ())),
                    ))
                else:
                    events.append(dict(e="result", type=typ, sp=0, fp=0, ex=0, succ=[], failed=[]))
            else:
                got.cancel()
                events.append(dict(e="noresult", why=why or "no Result was sent"))
            try:
                loop.run_coro(mgr.stop())
            except Exception:  # pylint: disable=broad-except
                pass
        finally:
            cm._CONNECTION_MANAGER = saved_cm  # pylint: disable=protected-access
            mod.ComponentPoolStatusTracker = saved_tr
    return rec


def _worker(chunk, out_path):
    from .common import use_repo

    use_repo()
    import warnings

    warnings.simplefilter("ignore")
    env = _Env()
    with open(out_path, "w") as f:
        for c in chunk:
            rnd = random.Random(SEED * 1000003 + c["id"])
            f.write(json.dumps(execute(env, c, rnd), separators=(",", ":")) + "\n")


# ---------------------------------------------------------------------------
def _witness(recs: list[dict]) -> dict:
    """How often the antecedent of each clause was exercised (counting only)."""
    w = dict(records=0, partial_failure=0, success=0, rejected=0, some_call_failed=0, timeout=0, excess_nonzero=0,
             failed_power_nonzero=0, multi_component_inverter=0, shared_battery_mixed_outcome=0, pv_bound_binding=0,
             instant_replies=0, lost_power=0, unusable_battery=0, unaddressed_battery=0, unaddressed_and_some_call_failed=0,
             unaddressed_and_all_calls_ok=0, zero_setpoint_call_failed=0, zero_setpoint_failed_nonzero_request=0,
             only_zero_setpoint_calls_failed=0)
    by_out = {o: 0 for o in ("ok", "oor", "err", "exc", "to")}
    for r in recs:
        w["records"] += 1
        ev = r["ev"]
        res = next((e for e in ev if e["e"] == "result"), None)
        calls = [e for e in ev if e["e"] == "call"]
        replies = {e["c"]: e["o"] for e in ev if e["e"] == "reply"}
        for c in calls:
            by_out[replies.get(c["c"], "to")] += 1
        if res is None:
            continue
        if res["type"] == "PartialFailure":
            w["partial_failure"] += 1
        elif res["type"] == "Success":
            w["success"] += 1
        else:
            w["rejected"] += 1
        w["some_call_failed"] += any(replies.get(c["c"], "to") != "ok" for c in calls)
        if res["type"] in ("Success", "PartialFailure"):
            fz = [c for c in calls if replies.get(c["c"], "to") != "ok"]
            rq = next((e["req"] for e in ev if e["e"] == "request"), 0)
            w["zero_setpoint_call_failed"] += any(c["p"] == 0 for c in fz)
            w["zero_setpoint_failed_nonzero_request"] += rq != 0 and any(c["p"] == 0 for c in fz)
            w["only_zero_setpoint_calls_failed"] += bool(fz) and all(c["p"] == 0 for c in fz)
        w["timeout"] += any(e["e"] == "timeout" for e in ev)
        w["excess_nonzero"] += res["ex"] != 0
        w["failed_power_nonzero"] += res["fp"] != 0
        w["multi_component_inverter"] += any(len(t) > 1 for t in r["topo"])
        if r["kind"] == "bat" and res["type"] in ("Success", "PartialFailure"):
            w["unusable_battery"] += any(x != "ok" for x in r["bad"])
            behind = {b for c in calls if 1 <= c["c"] <= r["n"] for b in r["topo"][c["c"] - 1]}
            if {b for t in r["topo"] for b in t} - behind:
                w["unaddressed_battery"] += 1
                if any(replies.get(c["c"], "to") != "ok" for c in calls):
                    w["unaddressed_and_some_call_failed"] += 1
                else:
                    w["unaddressed_and_all_calls_ok"] += 1
        if r["kind"] == "bat":
            for i, t in enumerate(r["topo"], start=1):
                for j, u in enumerate(r["topo"], start=1):
                    if i < j and set(t) & set(u) and (replies.get(i, "to") == "ok") != (replies.get(j, "to") == "ok"):
                        w["shared_battery_mixed_outcome"] += 1
            d = next((e for e in ev if e["e"] == "dist"), None)
            rq = next((e["req"] for e in ev if e["e"] == "request"), None)
            if d is not None and rq is not None and abs(sum(d["s"]) + d["r"] - rq) > TOL_MW:
                w["lost_power"] += 1
        else:
            w["pv_bound_binding"] += any(c["p"] == r["bd"][c["c"] - 1] * UNIT_MW and c["p"] != 0 for c in calls if 1 <= c["c"] <= r["n"])
        idx = [e["e"] for e in ev]
        w["instant_replies"] += any(idx[k] == "call" and idx[k + 1] == "reply" and k + 2 < len(idx) and idx[k + 2] == "call" for k in range(len(idx) - 2))
    w["calls_by_outcome"] = by_out
    return w


_MIN_WITNESS_BAT = ["unaddressed_and_some_call_failed", "unaddressed_and_all_calls_ok", "shared_battery_mixed_outcome"]
_MIN_WITNESS = ["zero_setpoint_call_failed", "zero_setpoint_failed_nonzero_request", "only_zero_setpoint_calls_failed", "partial_failure", "success", "some_call_failed", "timeout", "excess_nonzero", "failed_power_nonzero"]


def _stage(rep: Report, prop: str, name: str, consts: dict, work: Path, limit):
    mode = consts["Mode"]
    d = work / name
    d.mkdir(parents=True, exist_ok=True)
    cases_file = d / "cases.ndjson"
    inv = MC_INV if mode != "batreal" else []
    res = run_tlc("PowerResults", d, constants=consts, view="View", invariants=inv, env={"OUT_FILE": str(cases_file)}, coverage=True, timeout=3000, heap="4g")
    rep.add_mc(name, res, consts, inv, mode="exhaustive" if mode != "batreal" else "case enumeration only (distribution by the real algorithm)")
    if not res.ok:
        rep.fail(f"{prop}.MC.{'/'.join(res.violated)}", dict(stage=name), res.counterexample[:3000])
        return
    for a in ACTIONS[mode]:
        if not res.coverage.get(a):
            raise RuntimeError(f"vacuity: action {a} never taken in {name} ({res.coverage})")
    t_mc = res.wall_s
    tm = Timer()
    raw = read_emitted(cases_file)
    raw.sort(key=lambda c: json.dumps(c, sort_keys=True))  # TLC's workers emit in a varying order
    cases = [dict(c, id=i + 1) for i, c in enumerate(raw)]
    total = len(cases)
    if limit:
        cases, cut = subsample(cases, limit)
        rep.exhaustive = rep.exhaustive and not cut
    shards = replay_parallel(_worker, cases, d)
    t_run = tm.s()
    fails, done, st = validate_shards(
        "PowerResultsTrace", shards, d,
        constants=dict(consts, Mode="trace", Orders="any", Unit=UNIT_MW, Tol=TOL_MW), heap="1g",
    )
    rep.validated += done
    recs = [r for p in shards for r in load_ndjson(p)]
    wit = _witness(recs)
    byid = {r["id"]: r for r in recs}
    other: dict[str, int] = {}
    for v in fails:
        if v["clause"].startswith(prop + "."):
            rep.fail(v["clause"], dict(stage=name, trace=byid.get(v["tid"]), event=v["l"]), v["detail"], deviations=v.get("deviations", []))
        else:
            key = v["clause"] + ("[" + ",".join(v.get("deviations", [])) + "]" if v.get("deviations") else "")
            other[key] = other.get(key, 0) + 1
            if v["clause"].startswith("CONF.") and len(rep.extra.setdefault("disagreement_samples", [])) < 4:
                rep.extra["disagreement_samples"].append(dict(stage=name, clause=v["clause"], detail=v["detail"], trace=byid.get(v["tid"])))
    if not any(v["clause"].startswith(prop + ".") for v in fails):
        # vacuity guard (only meaningful when the clauses held: a violating run is reported as such)
        for k in _MIN_WITNESS + (_MIN_WITNESS_BAT if mode != "pv" else []):
            if not wit[k]:
                raise RuntimeError(f"vacuity: no replayed record of stage {name} exercised '{k}' ({wit})")
    rep.extra.setdefault("stages", []).append(dict(
        stage=name, cases_emitted=total, cases_replayed=len(cases), traces_validated=done, val_states=st["states"],
        wall_s=dict(mc=t_mc, run=t_run, val=round(tm.s() - t_run, 2)),
        clause_antecedents_exercised=wit, non_property_reports=other,
    ))
    rep.extra["disagreements"] = rep.extra.get("disagreements", 0) + sum(n for k, n in other.items() if k.startswith("CONF."))
    if recs and len(rep.samples) < 6:
        rep.samples.append(recs[len(recs) // 3])
        rep.samples.append(recs[(2 * len(recs)) // 3])


def run(prop: str, tier: str) -> int:
    tm = Timer()
    rep = Report(prop, tier)
    sc = SCOPES[tier]
    work = scratch(f"{prop}_{tier}")
    rep.assumptions = [
        "power unit 100 W; recorded values are integer mW, equalities up to 5 mW; is_close_to_zero / float rounding not decided",
        "ComponentPoolStatusTracker substituted like the repo's tests do: every requested component is working except at most one battery per configuration that is either not listed as working or streams NaN SoC; one request per fresh manager",
        "battery side: the distribution is taken as given (real algorithm observed through a recording wrapper, or a TLC-chosen distribution in the forced stage); its correctness is C01/C02/C17",
        "reply order / instant replies of the answering calls: seeded random per case (VERIF_SEED); what really happened is what is validated",
        "EV charger manager out of scope (property names battery pools and PV pools)",
    ]
    for name in ("pv", "bat", "batreal"):
        consts = dict(BASE, **sc[name], Mode=name)
        _stage(rep, prop, name, consts, work, sc[name + "_limit"])
    return rep.finish(tm.s())


def replay(prop: str, data: dict) -> int:
    """./check C15 --replay <file>: re-run the recorded case on the real manager and re-validate it."""
    from .common import use_repo

    tr = (data.get("case") or {}).get("trace")
    if not tr:
        print(json.dumps(data, indent=1)[:4000])
        return 0
    use_repo()
    import warnings

    warnings.simplefilter("ignore")
    case = {k: tr[k] for k in ("id", "kind", "n", "topo", "bd", "req", "out", "prof", "bad")}
    if tr.get("forced"):
        missing = next((e["missing"] for e in tr["ev"] if e["e"] == "dist"), [])
        case.update(s=tr["s"], r=tr["r"], act=[i for i in range(1, tr["n"] + 1) if i not in missing])
    rec = execute(_Env(), case, random.Random(SEED * 1000003 + case["id"]))
    d = scratch(f"{prop}_replay")
    p = d / "impl_0.ndjson"
    p.write_text(json.dumps(rec, separators=(",", ":")) + "\n")
    fails, _, _ = validate_shards("PowerResultsTrace", [p], d, constants=dict(BASE, Mode="trace", Orders="any", Unit=UNIT_MW, Tol=TOL_MW))
    print("events:", json.dumps(rec["ev"]))
    bad = [v for v in fails if v["clause"].startswith(prop + ".")]
    for v in fails:
        print(("FALSE " if v in bad else "note  ") + v["clause"], v.get("deviations") or "", json.dumps(v["detail"])[:300])
    return 1 if bad else 0
