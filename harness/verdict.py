"""Aggregate verdicts, match known findings, write evidence and replay files."""

from __future__ import annotations

import json
from pathlib import Path

from .common import EVIDENCE, OUT, SEED, VERIF

KNOWN = VERIF / "known_findings.json"


def load_known() -> list[dict]:
    out: list[dict] = []
    files = [KNOWN] if KNOWN.exists() else []
    files += sorted((VERIF / "known_findings.d").glob("*.json")) if (VERIF / "known_findings.d").is_dir() else []
    for p in files:
        data = json.loads(p.read_text())
        out += [f for f in data.get("findings", []) if f.get("status") == "known"]
    return out


class Report:
    """Collects what one check run found for one property."""

    def __init__(self, prop: str, tier: str) -> None:
        self.prop = prop
        self.tier = tier
        self.failures: list[dict] = []
        self.mc: list[dict] = []  # per TLC model-checking run: spec, constants, states...
        self.validated = 0
        self.samples: list = []
        self.extra: dict = {}
        self.assumptions: list[str] = []
        self.exhaustive = True
        self.notes: list[str] = []

    # -- recording ---------------------------------------------------------
    def add_mc(self, name: str, res, constants: dict | None = None, invariants=None, **kw) -> None:
        self.mc.append(
            dict(
                run=name,
                states=res.distinct,
                transitions=res.generated,
                depth=res.depth,
                wall_s=res.wall_s,
                constants={k: (v if isinstance(v, (int, str, bool, list)) else repr(v)) for k, v in (constants or {}).items()},
                invariants=list(invariants or []),
                actions=res.coverage or None,
                **kw,
            )
        )

    def fail(self, clause: str, case, detail=None, deviations=(), replay=None) -> None:
        """A property clause was false on something the real code did (or on the model)."""
        self.failures.append(
            dict(clause=clause, case=case, detail=detail, deviations=list(deviations), replay=replay)
        )

    # -- finishing ---------------------------------------------------------
    def finish(self, wall_s: float) -> int:
        known = [k for k in load_known() if k["property"] == self.prop]
        fired: dict[str, int] = {}
        violations = []
        for f in self.failures:
            match = None
            for k in known:
                if k["clause"] != f["clause"]:
                    continue
                if k.get("deviation") and k["deviation"] not in f["deviations"]:
                    continue
                match = k
                break
            if match:
                fired[match["id"]] = fired.get(match["id"], 0) + 1
                f["known"] = match["id"]
            else:
                violations.append(f)
        replay_dir = OUT / "replay"
        replay_dir.mkdir(parents=True, exist_ok=True)
        shown = 0
        seen_clause: dict[str, int] = {}
        for v in violations:
            n = seen_clause.get(v["clause"], 0)
            seen_clause[v["clause"]] = n + 1
            if n >= 3 or shown >= 12:
                continue
            shown += 1
            path = replay_dir / f"{self.prop}_{self.tier}_{shown}.json"
            path.write_text(json.dumps(dict(property=self.prop, **v), indent=1, default=str))
            print(f"VIOLATION property={self.prop} replay={path}")
            print(f"  clause={v['clause']} detail={json.dumps(v['detail'], default=str)[:400]}")
        if violations:
            print(f"  ({len(violations)} failing records in total: " + ", ".join(f"{c}×{n}" for c, n in seen_clause.items()) + ")")
        for k in known:
            if k["id"] in fired:
                print(f"KNOWN-FINDING: property={self.prop} {k['id']} {k['what']} [{fired[k['id']]} records]")
        for n in self.notes:
            print("note:", n)
        states = sum(m["states"] for m in self.mc)
        transitions = sum(m["transitions"] for m in self.mc)
        ev = dict(
            property_id=self.prop,
            tier=self.tier,
            seed=SEED,
            level="model_checking",
            coverage=dict(
                states=states,
                transitions=transitions,
                traces_validated_against_impl=self.validated,
                samples=self.samples[:6] or ["(no sample recorded)"],
                exhaustive=bool(self.exhaustive),
                model_checking_runs=self.mc,
                known_findings_fired=fired,
                failing_records=len(self.failures),
                **self.extra,
            ),
            assumptions=self.assumptions,
            wall_s=wall_s,
            violations=len(violations),
        )
        EVIDENCE.mkdir(exist_ok=True)
        (EVIDENCE / f"{self.prop}.json").write_text(json.dumps(ev, indent=1, default=str) + "\n")
        print(
            f"{self.prop} {self.tier}: states={states} transitions={transitions} "
            f"validated={self.validated} failing={len(self.failures)} known={sum(fired.values())} "
            f"violations={len(violations)} wall={wall_s}s"
        )
        return 1 if violations else 0
