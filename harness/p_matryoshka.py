"""C03 / C04: Matryoshka.tla model checking, replay into the real class, trace validation."""

from __future__ import annotations

import json
from datetime import datetime, timedelta, timezone
from pathlib import Path

from .common import SEED, Timer, scratch
from .pipeline import load_ndjson, replay_parallel, subsample, validate_shards
from .tlc import read_emitted, run_tlc
from .verdict import Report

NONE = -99
NONGRID = 9999  # a value the real code produced that is not on the integer grid

MC_INV = {
    "C03": ["Envelope", "MemoConsistent", "ExpiredDoNotCount"],
    "C04": ["ClosestAdmissible", "NoPrefZero", "ReportedRangeIsHonoured", "AdjustToBoundsAgrees", "EmptyProposalIsNoProposal"],
}

SCOPES = {
    "quick": dict(
        states1=dict(NA=2, G=1, Prio=[1, 2], XG=1),  # every state of the small grid (TLC); replay a seeded sample
        states1_limit=12000,
        states=dict(NA=2, G=2, Prio=[1, 2], XG=2, Shards=6, Shard=SEED % 6),  # one seeded shard of the system bounds
        states_limit=10000,
        stateseq=dict(NA=2, G=1, Prio=[1, 1], XG=1),
        stateseq_limit=8000,
        history=dict(NA=2, G=1, Prio=[1, 2], XG=1, MaxAge=0, MaxClock=1, MaxDepth=5, HPref={NONE, -1, 1}, HLo={NONE, 0}, HHi={NONE, 0, 1}),
        history_limit=16000,
        sim=dict(NA=3, G=2, Prio=[1, 2, 3], XG=2, MaxAge=1, MaxClock=3, MaxDepth=9),
        sim_num=3000,
    ),
    "thorough": dict(
        states=dict(NA=2, G=2, Prio=[1, 2], XG=2),
        states_limit=400000,  # TLC checks all ~2.2 M states; a seeded sample is replayed into the code
        states3_limit=150000,
        states3=dict(NA=3, G=1, Prio=[1, 2, 3], XG=1),
        stateseq=dict(NA=3, G=1, Prio=[1, 1, 2], XG=1),
        stateseq_limit=None,
        history=dict(NA=2, G=1, Prio=[1, 2], XG=1, MaxAge=1, MaxClock=2, MaxDepth=6, HPref={NONE, -1, 1}, HLo={NONE, 0}, HHi={NONE, 0, 1}),
        history_limit=None,
        sim=dict(NA=4, G=3, Prio=[1, 2, 3, 5], XG=3, MaxAge=2, MaxClock=6, MaxDepth=12),
        sim_num=60000,
    ),
}

BASE = dict(MaxAge=1, MaxClock=0, MaxDepth=0, HPref=set(), HLo=set(), HHi=set(), ExclInside=False, Shards=1, Shard=0)

# source ids per actor index: every naming is increasing in the index (so the (priority, source_id)
# order of the code equals the spec's rank order also for equal priorities) but hashes differently,
# which varies the iteration order of the bucket set
NAMINGS = [
    lambda i: f"actor-{i}",
    lambda i: f"src{i}-q",
    lambda i: "abcdefghij"[i] + "k",
    lambda i: f"m{i:03d}z",
]
DECOY_A = frozenset({101, 102})  # registered before the group under test
DECOY_B = frozenset({201})  # registered after it


# ---------------------------------------------------------------------------
# real-code side
def _mk():
    from frequenz.quantities import Power

    from frequenz.sdk.microgrid._power_managing._base_classes import Proposal
    from frequenz.sdk.microgrid._power_managing._matryoshka import Matryoshka
    from frequenz.sdk.timeseries._base_types import Bounds, SystemBounds

    return Power, Proposal, Matryoshka, Bounds, SystemBounds


IDS = frozenset({7, 8})
TS = datetime(2024, 1, 1, tzinfo=timezone.utc)


class Real:
    """One real Matryoshka instance plus the projection used by the trace spec."""

    def __init__(self, prio: list[int], max_age: int, naming: int = 0, decoys: bool = False) -> None:
        self.Power, self.Proposal, Matryoshka, self.Bounds, self.SystemBounds = _mk()
        self.m = Matryoshka(max_proposal_age=timedelta(seconds=max_age))
        self.prio = prio
        self.clock = 0.0
        self.sys = None
        self.name = NAMINGS[naming % len(NAMINGS)]
        self.decoys = decoys
        self.decoy_b_done = False
        self.decoy_sys = self.SystemBounds(
            timestamp=TS, inclusion_bounds=self.Bounds(self.pw(-50), self.pw(50)), exclusion_bounds=None
        )
        if decoys:
            self._decoy(DECOY_A)

    def _decoy(self, ids) -> None:
        """Other component groups with always-fresh proposals (environment of the group under test)."""
        p = self.Proposal(
            source_id="decoy", preferred_power=self.pw(7), bounds=self.Bounds(None, None), component_ids=ids,
            priority=1, creation_time=self.clock, set_operating_point=False,
        )
        self.m.calculate_target_power(ids, p, self.decoy_sys, must_return_power=True)

    def refresh_decoys(self) -> None:
        if not self.decoys:
            return
        self._decoy(DECOY_A)
        if self.decoy_b_done:
            self._decoy(DECOY_B)

    def pw(self, v):
        return None if v == NONE else self.Power.from_watts(float(v))

    @staticmethod
    def iv(p) -> int:
        if p is None:
            return NONE
        w = p.as_watts()
        return int(w) if float(w).is_integer() and abs(w) < 1000 else NONGRID

    def set_sys(self, r) -> None:
        incl = self.Bounds(self.pw(r["lo"]), self.pw(r["hi"])) if r["has"] else None
        if r["xlo"] == 0 and r["xhi"] == 0 and not r["has"]:
            excl = None
        else:
            excl = self.Bounds(self.pw(r["xlo"]), self.pw(r["xhi"]))
        self.sys = self.SystemBounds(timestamp=TS, inclusion_bounds=incl, exclusion_bounds=excl)

    def propose(self, who: int, pref: int, lo: int, hi: int):
        p = self.Proposal(
            source_id=self.name(who),
            preferred_power=self.pw(pref),
            bounds=self.Bounds(self.pw(lo), self.pw(hi)),
            component_ids=IDS,
            priority=self.prio[who - 1],
            creation_time=self.clock,
            set_operating_point=False,
        )
        t = self.m.calculate_target_power(IDS, p, self.sys, must_return_power=True)
        if t is not None and self.decoys and not self.decoy_b_done:
            self.decoy_b_done = True
            self._decoy(DECOY_B)
        return t

    def recalc(self):
        return self.m.calculate_target_power(IDS, None, self.sys, must_return_power=True)

    def obs(self, t) -> dict:
        nm = self.m.calculate_target_power(IDS, None, self.sys, must_return_power=False)
        gt = self.m.get_target_power(IDS)
        st = []
        rt = NONE
        for k in self.prio:
            rep = self.m.get_status(IDS, k, self.sys)
            b = rep.bounds
            st.append([NONE, NONE] if b is None else [self.iv(b.lower), self.iv(b.upper)])
            rt = self.iv(rep.target_power)
        return dict(t=self.iv(t), nm=self.iv(nm), gt=self.iv(gt), rt=rt, st=st)

    def report(self, who: int):
        return self.m.get_status(IDS, self.prio[who - 1], self.sys)


def replay_history(case: dict, cfg: dict) -> dict:
    steps = case["steps"]
    r = Real(cfg["Prio"], cfg["MaxAge"], naming=case["id"], decoys=True)
    out = []
    for i, s in enumerate(steps):
        a = s["a"]
        if a == "bounds":
            r.set_sys(s)
            t = r.recalc()
        elif a == "propose":
            t = r.propose(s["who"], s["pref"], s["lo"], s["hi"])
        elif a == "tick":
            r.clock += 1.0
            r.refresh_decoys()
            t = r.recalc()
        elif a == "drop":
            r.refresh_decoys()
            r.m.drop_old_proposals(r.clock)
            t = r.recalc()
        else:
            raise ValueError(a)
        out.append(dict(s, obs=r.obs(t)))
    return dict(id=case["id"], kind="hist", steps=out)


def _install(r: Real, bucket: list[dict], order: int, G: int) -> None:
    n = len(bucket)
    live = [i for i in range(1, n + 1) if bucket[i - 1]["live"]]
    if order == 0:
        for i in live:
            b = bucket[i - 1]
            r.propose(i, b["pref"], b["lo"], b["hi"])
    elif order == 1:  # descending, every proposal first sent with other values and then replaced
        for i in reversed(live):
            b = bucket[i - 1]
            r.propose(i, G, NONE, NONE)
            r.propose(i, -G, 0, 0)
            r.propose(i, b["pref"], b["lo"], b["hi"])
    else:  # everybody proposes junk, time passes, live ones renew, old ones are dropped
        for i in range(1, n + 1):
            r.propose(i, G if i % 2 else -G, NONE, NONE)
        r.clock += 5.0
        for i in live:
            b = bucket[i - 1]
            r.propose(i, b["pref"], b["lo"], b["hi"])
        r.m.drop_old_proposals(r.clock)


def replay_state(case: dict, cfg: dict, want_c04: bool) -> dict:
    G = cfg["G"]
    bucket = case["bucket"]
    sysr = case["sys"]
    orders = []
    first = None
    for order in (0, 1, 2):
        r = Real(cfg["Prio"], 1, naming=order + case["id"])
        r.set_sys(sysr)
        # make sure the group's bucket exists even when nobody is live (state-level: created = TRUE)
        if not (sysr["has"] or sysr["xlo"] or sysr["xhi"]):
            # no system bounds at all: the code refuses to create a bucket; install under bounds, then remove them
            r.set_sys(dict(has=True, lo=-G, hi=G, xlo=0, xhi=0))
            r.propose(1, NONE, NONE, NONE)
            r.clock += 5.0
            r.m.drop_old_proposals(r.clock)
            _install(r, bucket, order, G)
            r.set_sys(sysr)
        else:
            r.propose(1, NONE, NONE, NONE)
            r.clock += 5.0
            r.m.drop_old_proposals(r.clock)
            _install(r, bucket, order, G)
        t = r.recalc()
        orders.append(r.obs(t))
        if first is None:
            first = r
    hon = []
    adj = []
    if want_c04:
        n = len(bucket)
        for a in range(1, n + 1):
            rep = first.report(a)
            ha, aa = [], []
            for x in range(-G, G + 1):
                p2 = []
                for i in range(1, n + 1):
                    b = dict(bucket[i - 1])
                    if i == a:
                        b["pref"], b["live"] = x, True
                    elif i < a:
                        b["pref"] = NONE
                    p2.append(b)
                r2 = Real(cfg["Prio"], 1)
                r2.set_sys(sysr)
                if not (sysr["has"] or sysr["xlo"] or sysr["xhi"]):
                    ha.append(NONE)
                else:
                    _install(r2, p2, 0, G)
                    ha.append(Real.iv(r2.recalc()))
                lo_hi = rep.adjust_to_bounds(first.pw(x))
                aa.append([Real.iv(lo_hi[0]), Real.iv(lo_hi[1])])
            hon.append(ha)
            adj.append(aa)
    else:
        n = len(bucket)
        hon = [[NONE] * (2 * G + 1) for _ in range(n)]
        adj = [[[NONE, NONE]] * (2 * G + 1) for _ in range(n)]
    return dict(id=case["id"], kind="state", c04=want_c04, sys=sysr, bucket=bucket, orders=orders, hon=hon, adj=adj)


_CFG: dict = {}


def _worker(chunk, out_path):
    from .common import use_repo

    use_repo()
    cfg = _CFG
    with open(out_path, "w") as f:
        for c in chunk:
            if c["kind"] == "hist":
                rec = replay_history(c, cfg)
            else:
                rec = replay_state(c, cfg, cfg["want_c04"])
            f.write(json.dumps(rec, separators=(",", ":")) + "\n")


# ---------------------------------------------------------------------------
def _stage(rep: Report, prop: str, name: str, consts: dict, work: Path, mode: str, limit, simulate=None, inv=None, timeout=3000):
    """MC+GEN, RUN, VAL for one scope."""
    global _CFG
    consts = dict(BASE, **consts, Mode=mode)
    d = work / name
    d.mkdir(parents=True, exist_ok=True)
    cases_file = d / "cases.ndjson"
    inv = inv if inv is not None else MC_INV[prop]
    res = run_tlc(
        "Matryoshka", d, constants=consts, view="View", invariants=inv + (["SimEmit"] if simulate else []),
        env={"OUT_FILE": str(cases_file)}, coverage=(simulate is None), simulate=simulate,
        depth=(consts["MaxDepth"] + 2 if simulate else None), seed=(SEED + 17 if simulate else None), timeout=timeout,
    )
    rep.add_mc(name, res, consts, inv, mode=("simulate " + simulate) if simulate else "exhaustive")
    if not res.ok:
        rep.fail(f"{prop}.MC.{'/'.join(res.violated)}", dict(stage=name, constants=str(consts)), res.counterexample[:3000])
        return
    if simulate is None:
        expected = {"states": ["InstallStep"], "history": ["ProposeStep", "BoundsStep", "TickStep", "DropStep"]}[mode]
        for a in expected:
            if not res.coverage.get(a):
                raise RuntimeError(f"vacuity: action {a} never taken in {name} ({res.coverage})")
    raw = read_emitted(cases_file)
    if mode == "states":
        cases = [dict(id=i + 1, kind="state", sys=c["sys"], bucket=c["bucket"]) for i, c in enumerate(raw)]
    else:
        cases = [dict(id=i + 1, kind="hist", steps=c) for i, c in enumerate(raw)]
    total = len(cases)
    if limit:
        cases, cut = subsample(cases, limit)
        if cut:
            rep.exhaustive = False
    _CFG = dict(consts, want_c04=(prop == "C04"))
    shards = replay_parallel(_worker, cases, d)
    fails, done, st = validate_shards(
        "MatryoshkaTrace", shards, d,
        constants=dict(consts, Mode="trace"),
    )
    rep.validated += done
    rep.extra.setdefault("stages", []).append(dict(stage=name, cases_emitted=total, cases_replayed=len(cases), traces_validated=done, val_states=st["states"]))
    if cases and len(rep.samples) < 4:
        rec = load_ndjson(shards[0])[0]
        rep.samples.append(rec)
    byid = None
    for v in fails:
        if not v["clause"].startswith(prop + "."):
            continue
        if byid is None:
            byid = {}
            for p in shards:
                for r_ in load_ndjson(p):
                    byid[r_["id"]] = r_
        rep.fail(v["clause"], dict(stage=name, constants={k: (sorted(x) if isinstance(x, set) else x) for k, x in consts.items()}, trace=byid.get(v["tid"]), step=v["l"]), v["detail"])


def run(prop: str, tier: str) -> int:
    tm = Timer()
    rep = Report(prop, tier)
    sc = SCOPES[tier]
    work = scratch(f"{prop}_{tier}")
    rep.assumptions = [
        "values on an integer grid (W); float behaviour beyond exact small integers not decided",
        "C04 clauses: distinct priorities per actor; C03 additionally with equal priorities (tie broken by source id)",
        "other component groups exist only as always-fresh decoys (the resolver is per group)",
        "the harness reads no private state: only calculate_target_power / get_target_power / get_status / drop_old_proposals",
    ]
    if "states1" in sc:
        _stage(rep, prop, "states1", sc["states1"], work, "states", sc.get("states1_limit"))
    _stage(rep, prop, "states", sc["states"], work, "states", sc["states_limit"])
    if "states3" in sc:
        _stage(rep, prop, "states3", sc["states3"], work, "states", sc.get("states3_limit"))
    if prop == "C03" and "stateseq" in sc:
        # equal priorities: the code orders by (priority, source_id); C04's "higher priority" clauses do not apply
        _stage(rep, prop, "stateseq", sc["stateseq"], work, "states", sc["stateseq_limit"], inv=MC_INV["C03"])
    _stage(rep, prop, "history", sc["history"], work, "history", sc["history_limit"], inv=MC_INV["C03"] + ["ClosestAdmissible", "NoPrefZero"])
    n = sc["sim_num"]
    _stage(rep, prop, "sim", sc["sim"], work, "sim", None, simulate=f"num={max(1, n // 16)}", inv=MC_INV["C03"] + ["ClosestAdmissible", "NoPrefZero"])
    if sc.get("sim_num"):
        rep.exhaustive = rep.exhaustive and False if tier == "quick" else rep.exhaustive
    return rep.finish(tm.s())
