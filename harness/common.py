"""Paths, environment and small helpers shared by all checks."""

from __future__ import annotations

import json
import os
import shutil
import sys
import time
from pathlib import Path

VERIF = Path(__file__).resolve().parent.parent
SPECS = VERIF / "specs"
OUT = VERIF / "out"
# seeded-change evaluations (tools/seed.py) point this elsewhere so that they never overwrite real evidence
EVIDENCE = Path(os.environ.get("VERIF_EVIDENCE_DIR") or (VERIF / "evidence"))
REPO = Path(os.environ.get("VERIF_REPO", "/repo")).resolve()
SEED = int(os.environ.get("VERIF_SEED", "0") or 0)
NCPU = min(16, os.cpu_count() or 1)
GUARD = "FREQUENZ_SDK_VERIF"


def use_repo() -> None:
    """Make `import frequenz.sdk` resolve to $VERIF_REPO/src (the current working tree)."""
    src = str(REPO / "src")
    if src in sys.path:
        sys.path.remove(src)
    sys.path.insert(0, src)
    os.environ[GUARD] = "1"
    if "frequenz" in sys.modules and "frequenz.sdk" not in sys.modules:
        import importlib

        importlib.invalidate_caches()
        fp = sys.modules["frequenz"].__path__
        want = str(REPO / "src" / "frequenz")
        try:
            fp._recalculate()  # type: ignore[attr-defined]
        except Exception:  # pylint: disable=broad-except
            pass
        if want not in list(fp):
            raise RuntimeError("cannot redirect frequenz namespace package")
    import logging

    logging.disable(logging.CRITICAL)
    import frequenz.sdk  # noqa: F401

    got = Path(frequenz.sdk.__file__).resolve()
    if not str(got).startswith(str(REPO)):
        raise RuntimeError(f"frequenz.sdk imported from {got}, expected under {REPO}")


def scratch(name: str, clean: bool = True) -> Path:
    d = OUT / name
    if clean and d.exists():
        shutil.rmtree(d, ignore_errors=True)
    d.mkdir(parents=True, exist_ok=True)
    return d


class Timer:
    def __init__(self) -> None:
        self.t0 = time.time()

    def s(self) -> float:
        return round(time.time() - self.t0, 2)


def dump_ndjson(path: Path, records) -> int:
    n = 0
    with open(path, "w") as f:
        for r in records:
            f.write(json.dumps(r, separators=(",", ":")))
            f.write("\n")
            n += 1
    return n


def chunks(seq, n):
    k = max(1, (len(seq) + n - 1) // n)
    return [seq[i : i + k] for i in range(0, len(seq), k)]
