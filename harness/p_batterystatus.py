"""C16: BatteryStatus.tla — TLC behaviours (messages of every fault class, silences, set-power
outcomes, same-instant message/timer races) drive the REAL BatteryStatusTracker (and the real
ComponentPoolStatusTracker with two batteries) on the virtual clock; TLC evaluates every clause
on the statuses the code put on its channels (BatteryStatusTrace.tla)."""

from __future__ import annotations

import json
import math
import random
import re
from datetime import timedelta
from pathlib import Path

from .common import SEED, Timer, scratch
from .pipeline import load_ndjson, replay_parallel, validate_shards
from .tlc import read_emitted, run_tlc
from .verdict import Report

BAT_KINDS = {"ok", "stale", "edge", "state", "relay", "crit", "nan"}
INV_KINDS = {"ok", "stale", "edge", "state", "crit"}
BASE = dict(MaxAge=5, MinBlock=1, MaxBlock=4, TickW=1, MaxDepth=0)

SCOPES = {
    "quick": dict(
        mc=dict(Bats={1}, BatKinds=BAT_KINDS, InvKinds=INV_KINDS, Horizon=0, MaxEvents=0),
        mc_pool=dict(Bats={1, 2}, BatKinds={"ok", "crit"}, InvKinds={"ok"}, Horizon=5, MaxEvents=5),
        gen=dict(Bats={1}, BatKinds=BAT_KINDS, InvKinds=INV_KINDS, Horizon=12, MaxEvents=8),
        gen_limit=1500, race_limit=40, nproc=8,
        gen_pool=dict(Bats={1, 2}, BatKinds={"ok"}, InvKinds={"ok", "crit"}, Horizon=2, MaxEvents=5),
        gen_pool_limit=500,
        sim=dict(Bats={1}, BatKinds=BAT_KINDS | {"lag"}, InvKinds=INV_KINDS | {"lag"}, Horizon=60, MaxEvents=60, MaxDepth=32, TickW=6),
        sim_num=320,
        sim_pool=dict(Bats={1, 2}, BatKinds=BAT_KINDS, InvKinds=INV_KINDS, Horizon=60, MaxEvents=60, MaxDepth=32, TickW=8),
        sim_pool_num=240,
    ),
    "thorough": dict(
        mc=dict(Bats={1}, BatKinds=BAT_KINDS | {"lag"}, InvKinds=INV_KINDS | {"lag"}, Horizon=0, MaxEvents=0),
        mc_pool=dict(Bats={1, 2}, BatKinds={"ok", "crit"}, InvKinds={"ok"}, Horizon=7, MaxEvents=6),
        gen=dict(Bats={1}, BatKinds=BAT_KINDS, InvKinds=INV_KINDS, Horizon=12, MaxEvents=8),
        gen_limit=40000, race_limit=600, nproc=16,
        gen_pool=dict(Bats={1, 2}, BatKinds={"ok", "crit"}, InvKinds={"ok"}, Horizon=6, MaxEvents=4),
        gen_pool_limit=12000,
        sim=dict(Bats={1}, BatKinds=BAT_KINDS | {"lag"}, InvKinds=INV_KINDS | {"lag"}, Horizon=200, MaxEvents=200, MaxDepth=80, TickW=6),
        sim_num=16000,
        sim_pool=dict(Bats={1, 2}, BatKinds=BAT_KINDS, InvKinds=INV_KINDS, Horizon=200, MaxEvents=200, MaxDepth=80, TickW=8),
        sim_pool_num=8000,
    ),
}
MC_INV = ["TypeOK", "DeviationFree", "WorkingImpliesHealthyAndFresh", "NotWorkingWhenDisqualified", "ChannelIsStatus", "BackoffDoubles", "UncertainOnlyAsFallback"]
MC_PROPS = ["NotifyOnlyOnChange"]
STEPS = ["TickStep", "BatMsgStep", "InvMsgStep", "ResStep", "BatTimerStep", "InvTimerStep", "BatLateStep", "InvLateStep"]
RACE_KS = [0, 1, 2, 3, 4, 5, 6, 8]
LATE_K = 3  # injection offset at which the `continue` branch was observed on the real tracker
SHORT = {"NOT_WORKING": "NW", "UNCERTAIN": "UN", "WORKING": "WK"}
NONE = -99


def bat_id(b: int) -> int:
    return 10 * b - 1


# ---------------------------------------------------------------------------
class Exec:
    """One execution of the real tracker(s) under the manual loop."""

    def __init__(self, nb: int, pool: bool, cfg: dict, salt: int = 0, trace_late: bool = False) -> None:
        from frequenz.channels import Broadcast
        from frequenz.client.microgrid import ComponentCategory

        from frequenz.sdk.microgrid import connection_manager
        from frequenz.sdk.microgrid._power_distributing._component_status import (
            BatteryStatusTracker,
            ComponentPoolStatus,
            SetPowerResult,
        )

        from .vloop import ManualLoop

        self.nb, self.pool, self.cfg, self.salt = nb, pool, cfg, salt
        self.lines: list[dict] = []
        self.new_sent: list[list[str]] = [[] for _ in range(nb)]
        self.trackers: dict[int, object] = {}
        self.pool_msg = None
        self.nmsg = 0
        self.late_hits = 0
        self.foreign: list[int] = []
        self.SetPowerResult = SetPowerResult
        self.ComponentPoolStatus = ComponentPoolStatus
        ex = self

        class _Comp:
            def __init__(self, cid, cat) -> None:
                self.component_id, self.category = cid, cat

        class _Graph:
            def predecessors(self, cid):
                return {_Comp(cid - 1, ComponentCategory.INVERTER), _Comp(cid - 5, ComponentCategory.METER)}

        class _Api:
            def __init__(self) -> None:
                self.ch: dict[int, Broadcast] = {}

            def chan(self, cid):
                if cid not in self.ch:
                    self.ch[cid] = Broadcast(name=f"data{cid}")
                return self.ch[cid]

            async def battery_data(self, cid, maxsize=50):  # pylint: disable=unused-argument
                return self.chan(cid).new_receiver(limit=50)

            async def inverter_data(self, cid, maxsize=50):  # pylint: disable=unused-argument
                return self.chan(cid).new_receiver(limit=50)

        class _CM:
            def __init__(self) -> None:
                self.api_client = _Api()
                self.component_graph = _Graph()

        self.loop = ManualLoop()
        self.loop.__enter__()
        self._cmmod = connection_manager
        self._saved_cm = connection_manager._CONNECTION_MANAGER  # pylint: disable=protected-access
        self.cm = _CM()
        connection_manager._CONNECTION_MANAGER = self.cm  # harness-side substitution of the microgrid connection
        max_age = timedelta(seconds=cfg["MaxAge"])
        max_block = timedelta(seconds=cfg["MaxBlock"])
        if trace_late:
            self._install_late_probe(BatteryStatusTracker)

        def record(cid: int, name: str) -> None:
            b = (cid + 1) // 10
            if cid != bat_id(b) or not 1 <= b <= nb:
                ex.foreign.append(cid)  # raised from the harness thread in _line
                return
            ex.new_sent[b - 1].append(SHORT[name])

        if pool:
            from frequenz.sdk.microgrid._power_distributing._component_pool_status_tracker import ComponentPoolStatusTracker

            class _TapSender:
                """The tracker's own status sender, observed."""

                def __init__(self, inner) -> None:
                    self._inner = inner

                async def send(self, msg) -> None:
                    record(msg.component_id, msg.value.name)
                    await self._inner.send(msg)

            class Tap(BatteryStatusTracker):
                def __init__(self, component_id, max_data_age, max_blocking_duration, status_sender, set_power_result_receiver) -> None:
                    super().__init__(
                        component_id=component_id, max_data_age=max_data_age, max_blocking_duration=max_blocking_duration,
                        status_sender=_TapSender(status_sender), set_power_result_receiver=set_power_result_receiver,
                    )
                    ex.trackers[component_id] = self

            self.pool_ch = Broadcast(name="pool_status")
            pool_recv = self.pool_ch.new_receiver(limit=200)
            self.pool_tracker = ComponentPoolStatusTracker(
                component_ids={bat_id(b) for b in range(1, nb + 1)},
                component_status_sender=self.pool_ch.new_sender(),
                max_data_age=max_age, max_blocking_duration=max_block, component_status_tracker_type=Tap,
            )

            async def consume_pool() -> None:
                async for s in pool_recv:
                    ex.pool_msg = s

            self._consumer = self.loop.create_task(consume_pool())
        else:
            self.st_ch = Broadcast(name="status")
            self.res_ch = Broadcast(name="set_power_result")
            st_recv = self.st_ch.new_receiver(limit=200)
            tr = BatteryStatusTracker(
                component_id=bat_id(1), max_data_age=max_age, max_blocking_duration=max_block,
                status_sender=self.st_ch.new_sender(), set_power_result_receiver=self.res_ch.new_receiver(limit=50),
            )
            self.trackers[bat_id(1)] = tr
            self.res_sender = self.res_ch.new_sender()

            async def consume() -> None:
                async for m in st_recv:
                    record(m.component_id, m.value.name)

            self._consumer = self.loop.create_task(consume())
            tr.start()
        self.loop.run_until_idle()
        self.senders = {}
        for b in range(1, nb + 1):
            self.senders[("bat", b)] = self.cm.api_client.chan(bat_id(b)).new_sender()
            self.senders[("inv", b)] = self.cm.api_client.chan(bat_id(b) - 1).new_sender()

    # -- optional witness of the late-timer `continue` branch (passive line tracing, no repo hook)
    def _install_late_probe(self, cls) -> None:
        import inspect
        import sys

        code = cls._run.__code__  # pylint: disable=protected-access
        src, first = inspect.getsourcelines(cls._run)  # pylint: disable=protected-access
        lines = {first + i for i, s in enumerate(src) if s.strip() == "continue"}
        ex = self

        def local(frame, event, arg):  # pylint: disable=unused-argument
            if event == "line" and frame.f_lineno in lines:
                ex.late_hits += 1
            return local

        def tracer(frame, event, arg):  # pylint: disable=unused-argument
            return local if frame.f_code is code else None

        self._untrace = lambda: sys.settrace(None)
        sys.settrace(tracer)

    def close(self) -> None:
        if hasattr(self, "_untrace"):
            self._untrace()
        self._cmmod._CONNECTION_MANAGER = self._saved_cm  # pylint: disable=protected-access
        self.loop.__exit__(None, None, None)

    # -- building messages ---------------------------------------------------
    def _lag(self, kind: str) -> int:
        m = self.cfg["MaxAge"]
        return {"stale": m + 1, "edge": m, "lag": 2}.get(kind, 0)

    def _bat_msg(self, b: int, kind: str):
        from frequenz.client.microgrid import (
            BatteryComponentState as S,
            BatteryData,
            BatteryError,
            BatteryRelayState as R,
            ErrorLevel,
        )

        self.nmsg += 1
        v = self.nmsg + self.salt
        good = [S.IDLE, S.CHARGING, S.DISCHARGING]
        bad = [S.ERROR, S.OFF, S.LOCKED, S.SWITCHING_ON, S.SWITCHING_OFF, S.UNKNOWN, S.UNSPECIFIED]
        badr = [R.OPENED, R.PRECHARGING, R.ERROR, R.LOCKED, R.UNSPECIFIED]
        state = bad[v % len(bad)] if kind == "state" else good[v % len(good)]
        relay = badr[v % len(badr)] if kind == "relay" else R.CLOSED
        errors = []
        if kind == "crit":
            errors = [BatteryError(level=ErrorLevel.WARN), BatteryError(level=ErrorLevel.CRITICAL)][(v % 2):]
        elif v % 3 == 0:
            errors = [BatteryError(level=ErrorLevel.WARN)]  # a warning is not a critical error
        cap = math.nan if kind == "nan" else float(100 + v % 7)
        ts = self.loop.wall_now() - timedelta(seconds=self._lag(kind))
        return BatteryData(
            component_id=bat_id(b), timestamp=ts, soc=50.0, soc_lower_bound=10.0, soc_upper_bound=90.0, capacity=cap,
            power_inclusion_lower_bound=-1000.0, power_exclusion_lower_bound=0.0, power_inclusion_upper_bound=1000.0,
            power_exclusion_upper_bound=0.0, temperature=25.0, relay_state=relay, component_state=state, errors=errors,
        ), f"{state.name}/{relay.name}/{len(errors)}"

    def _inv_msg(self, b: int, kind: str):
        from frequenz.client.microgrid import ErrorLevel, InverterComponentState as S, InverterData, InverterError

        self.nmsg += 1
        v = self.nmsg + self.salt
        good = [S.STANDBY, S.IDLE, S.CHARGING, S.DISCHARGING]
        bad = [S.ERROR, S.OFF, S.SWITCHING_ON, S.SWITCHING_OFF, S.UNAVAILABLE, S.UNKNOWN, S.UNSPECIFIED]
        state = bad[v % len(bad)] if kind == "state" else good[v % len(good)]
        errors = []
        if kind == "crit":
            errors = [InverterError(level=ErrorLevel.WARN), InverterError(level=ErrorLevel.CRITICAL)][(v % 2):]
        elif v % 3 == 0:
            errors = [InverterError(level=ErrorLevel.WARN)]
        z = (0.0, 0.0, 0.0)
        ts = self.loop.wall_now() - timedelta(seconds=self._lag(kind))
        return InverterData(
            component_id=bat_id(b) - 1, timestamp=ts, active_power=0.0, active_power_per_phase=z, reactive_power=0.0,
            reactive_power_per_phase=z, current_per_phase=z, voltage_per_phase=z, active_power_inclusion_lower_bound=-1000.0,
            active_power_exclusion_lower_bound=0.0, active_power_inclusion_upper_bound=1000.0, active_power_exclusion_upper_bound=0.0,
            frequency=50.0, component_state=state, errors=errors,
        ), f"{state.name}/{len(errors)}"

    @staticmethod
    def _send_now(coro) -> None:
        try:
            coro.send(None)
        except StopIteration:
            return
        raise RuntimeError("send suspended; cannot inject synchronously")

    # -- observation -----------------------------------------------------------
    def _proj(self, b: int) -> dict:
        tr = self.trackers.get(bat_id(b))
        try:
            bs = tr._blocking_status  # pylint: disable=protected-access
            until = NONE if bs.blocked_until is None else round((bs.blocked_until - self.loop._epoch).total_seconds())  # pylint: disable=protected-access
            return dict(
                bok=int(bool(tr._battery.last_msg_correct)), iok=int(bool(tr._inverter.last_msg_correct)),  # pylint: disable=protected-access
                until=until, dur=round(bs.last_blocking_duration.total_seconds()),
            )
        except AttributeError:
            return dict(bok=-1, iok=-1, until=-1, dur=-1)

    def _line(self, **kw) -> None:
        if self.foreign:
            raise RuntimeError(f"status sent for components {self.foreign}, which are not tracked batteries")
        rec = dict(ev="", b=0, kind="", k=-1, f=[], run=True, variant="")
        rec.update(kw)
        rec["idle"] = self.loop.idle()
        rec["t"] = round(self.loop.time())
        rec["sent"] = self.new_sent
        self.new_sent = [[] for _ in range(self.nb)]
        rec["proj"] = [self._proj(b) for b in range(1, self.nb + 1)]
        rec["haspool"] = bool(self.pool)
        pw, pu, gw = [], [], []
        if self.pool:
            st = self.pool_msg if self.pool_msg is not None else self.ComponentPoolStatus(working=set(), uncertain=set())
            to_b = lambda ids: sorted((c + 1) // 10 for c in ids)  # noqa: E731
            pw, pu = to_b(st.working), to_b(st.uncertain)
            for mask in range(1, 2 ** self.nb):
                s = [b for b in range(1, self.nb + 1) if mask >> (b - 1) & 1]
                r = st.get_working_components({bat_id(b) for b in s})
                gw.append(dict(s=s, r=to_b(r)))
        rec["pw"], rec["pu"], rec["gw"] = pw, pu, gw
        self.lines.append(rec)

    # -- harness steps -----------------------------------------------------------
    def tick(self, run: bool) -> None:
        t = self.loop.time() + 1.0
        if run:
            self.loop.advance_to(t)
        else:
            self.loop.jump_to(t)
        self._line(ev="tick", run=run)

    def msg(self, stream: str, b: int, kind: str, k: int) -> None:
        kk = -1
        if not self.loop.idle():
            kk = 0
            for _ in range(max(0, k)):
                if self.loop.idle():
                    break
                self.loop.step()
                kk += 1
        m, variant = self._bat_msg(b, kind) if stream == "bat" else self._inv_msg(b, kind)
        self._send_now(self.senders[(stream, b)].send(m))
        self.loop.run_until_idle()
        self._line(ev=stream, b=b, kind=kind, k=kk, variant=variant)

    def res(self, f: list[str]) -> None:
        succ = {bat_id(b) for b in range(1, self.nb + 1) if f[b - 1] == "ok"}
        fail = {bat_id(b) for b in range(1, self.nb + 1) if f[b - 1] == "fail"}
        if self.pool:
            self._send_now(self.pool_tracker.update_status(succ, fail))
        else:
            self._send_now(self.res_sender.send(self.SetPowerResult(succeeded=succ, failed=fail)))
        self.loop.run_until_idle()
        self._line(ev="res", f=list(f))


def execute(case: dict, cfg: dict) -> dict:
    nb = len(cfg["Bats"])
    ex = Exec(nb, pool=cfg["pool"], cfg=cfg, salt=case["id"], trace_late=bool(case.get("probe")))
    try:
        h = case["h"]
        race_k = case.get("k")
        i = 0
        while i < len(h):
            a = h[i]
            if a["a"] == "tick":
                nxt = h[i + 1] if i + 1 < len(h) else None
                if nxt and nxt["a"] in ("bat", "inv") and (nxt["pre"] or nxt["late"]):
                    # same-instant race: move the clock, inject the message k iterations into the wake-up
                    ex.tick(run=False)
                    k = race_k if race_k is not None else (LATE_K if nxt["late"] else 0)
                    ex.msg(nxt["a"], nxt["b"], nxt["kind"], k)
                    i += 2
                    continue
                ex.tick(run=True)
            elif a["a"] in ("bat", "inv"):
                ex.msg(a["a"], a["b"], a["kind"], -1)
            elif a["a"] == "res":
                ex.res(a["f"])
            # timer actions of the behaviour are realised by the tracker itself
            i += 1
        return dict(id=case["id"], k=(-1 if race_k is None else race_k), late_hits=ex.late_hits, lines=ex.lines)
    finally:
        ex.close()


_CFG: dict = {}


def _worker(chunk, out_path):
    from .common import use_repo

    use_repo()
    with open(out_path, "w") as f:
        for c in chunk:
            f.write(json.dumps(execute(c, _CFG), separators=(",", ":")) + "\n")


# ---------------------------------------------------------------------------
_RESET_RE = re.compile(r'fail.*tick.*kind.*\[\\"ok\\"\].*\[\\"fail\\"\]\}\]"\s*$')


def _deep_tag(ln: str, pool: bool) -> str | None:
    """Histories worth keeping besides the uniform sample (a selection among TLC's histories, not an invention).

    Single battery, healthy data only:
      "cap"    four failed power commands over seven seconds (only those can reach the back-off cap);
      "reset"  failure, time passes, a message, a success, and a failure as the last step (the only way to
               see that a success arriving after the block expired resets the back-off);
      "late"   two failures with no set-power result and at least three seconds between them, the second as
               the last step (a consecutive failure arriving later than previous expiry + doubled duration).
    Pool: "both"  both batteries were sent data on both streams and a command failed (only those can show
               a working and an uncertain battery together).
    """
    if pool:
        needle = r'\"a\":\"%s\",\"b\":%d'
        return "both" if "fail" in ln and all((needle % (a, b)) in ln for a in ("bat", "inv") for b in (1, 2)) else None
    if ln.count("kind") != ln.count(r'kind\":\"ok'):
        return None
    if ln.count("fail") >= 4 and ln.count("tick") >= 7:
        return "cap"
    if _RESET_RE.search(ln):
        return "reset"
    res = ln.split(r'\"a\":\"res\"')
    if len(res) >= 3 and res[-1].startswith(r',\"f\":[\"fail\"]}]') and res[-2].startswith(r',\"f\":[\"fail\"]') and res[-2].count("tick") >= 3:
        return "late"
    return None


def _sample_emitted(path: Path, limit: int | None, seed: int, deep: int = 0, pool: bool = False) -> tuple[list, int]:
    """Read the histories TLC emitted; deterministically subsample by line index when there are many.

    `deep`: additionally keep up to that many histories of every _deep_tag class.
    """
    if not path.exists():
        return [], 0
    total = 0
    deep_idx: dict[str, list[int]] = {}
    with open(path) as f:
        for ln in f:
            if not ln.strip():
                continue
            tag = _deep_tag(ln, pool) if deep else None
            if tag:
                deep_idx.setdefault(tag, []).append(total)
            total += 1
    if not limit or total <= limit:
        return read_emitted(path), total
    rnd = random.Random(seed)
    keep = set(rnd.sample(range(total), limit))
    for tag in sorted(deep_idx):
        keep |= set(rnd.sample(deep_idx[tag], min(deep, len(deep_idx[tag]))))
    out = []
    with open(path) as f:
        i = -1
        for ln in f:
            if not ln.strip():
                continue
            i += 1
            if i in keep:
                v = json.loads(ln)
                out.append(json.loads(v) if isinstance(v, str) else v)
    return out, total


def _has_race(hist: list[dict]) -> bool:
    return any(
        a["a"] == "tick" and i + 1 < len(hist) and hist[i + 1]["a"] in ("bat", "inv") and (hist[i + 1]["pre"] or hist[i + 1]["late"])
        for i, a in enumerate(hist)
    )


def _consts(sc: dict, mode: str) -> dict:
    return dict(BASE, **sc, Mode=mode)


def _trace_consts(c: dict) -> dict:
    return dict(c, Mode="trace")


def _mc(rep: Report, name: str, sc: dict, mode: str, timeout: int) -> None:
    consts = _consts(sc, mode)
    res = run_tlc("BatteryStatus", rep_work(rep) / name, constants=consts, view="View", invariants=MC_INV, properties=MC_PROPS, timeout=timeout, heap="3g")
    rep.add_mc(name, res, consts, MC_INV + MC_PROPS, mode="exhaustive, unbounded time/events (relative-time view)" if mode == "mc" else "exhaustive, bounded")
    if not res.ok:
        rep.fail("C16.MC." + "/".join(res.violated), dict(stage=name), res.counterexample[:3000])


_WORK: Path | None = None
_NPROC = 16


def rep_work(rep: Report) -> Path:  # pylint: disable=unused-argument
    assert _WORK is not None
    return _WORK


def _bind(rep: Report, name: str, sc: dict, mode: str, limit, pool: bool, simulate=None, race_limit: int = 0) -> None:
    """MC+GEN -> RUN -> VAL for one scope."""
    global _CFG
    d = rep_work(rep) / name
    d.mkdir(parents=True, exist_ok=True)
    cases_file = d / "cases.ndjson"
    consts = _consts(sc, mode)
    res = run_tlc(
        "BatteryStatus", d, constants=consts, view="View",
        invariants=MC_INV + (["SimEmit"] if simulate else []), properties=None if simulate else MC_PROPS,
        env={"OUT_FILE": str(cases_file)}, coverage=(simulate is None), simulate=simulate,
        depth=(consts["MaxDepth"] + 2 if simulate else None), seed=(SEED + 16 if simulate else None), timeout=2400,
        heap="3g", workers=1,  # one worker: the emitted histories (and so the replayed sample) are the same on every run
    )
    rep.add_mc(name, res, consts, MC_INV, mode=("simulate " + simulate) if simulate else "exhaustive+emit (one history per transition)")
    if not res.ok:
        rep.fail("C16.MC." + "/".join(res.violated), dict(stage=name), res.counterexample[:3000])
        return
    if simulate is None:
        for a in (STEPS if consts["Horizon"] >= consts["MaxAge"] else STEPS[:4]):  # timers need MaxAge seconds
            if not res.coverage.get(a):
                raise RuntimeError(f"vacuity: spec action {a} never taken in {name} ({res.coverage})")
    raw, total = _sample_emitted(cases_file, limit, SEED + 3, deep=(0 if simulate else max(100, (limit or 0) // 4)), pool=pool)
    if limit and total > limit:
        rep.exhaustive = False
    if simulate:
        raw.sort(key=lambda c: json.dumps(c, sort_keys=True))  # order independent of the TLC worker interleaving
    cases = [dict(id=i + 1, h=c) for i, c in enumerate(raw)]
    # implementation-side systematic mode: every injection offset for the same-instant races
    nrace = 0
    if race_limit:
        nid = len(cases)
        for c in [c for c in cases if _has_race(c["h"])][:race_limit]:
            for k in RACE_KS:
                nid += 1
                nrace += 1
                cases.append(dict(id=nid, h=c["h"], k=k, probe=True))
    _CFG = dict(consts, pool=pool)
    shards = replay_parallel(_worker, cases, d, nproc=_NPROC)
    fails, done, st = validate_shards(
        "BatteryStatusTrace", shards, d, constants=_trace_consts(consts),
        unconsumed_clause="C16.TraceNotExplainedBySpec", dfs_queue=True,
    )
    rep.validated += done
    # antecedent counts (computed by TLC per accepted trace) and witnesses
    stats: dict[str, int] = {}
    for vf in d.glob("verdict_*.ndjson"):
        for v in read_emitted(vf, dedupe=False):
            if v.get("done"):
                for k_, n in v["stats"].items():
                    stats[k_] = max(stats.get(k_, 0), n) if k_ == "maxConsecutive" else stats.get(k_, 0) + n
    late_hits = 0
    kinds_seen: dict[str, int] = {}
    byid: dict = {}
    for p in shards:
        for r_ in load_ndjson(p):
            late_hits += r_["late_hits"]
            byid[r_["id"]] = r_
            for x in r_["lines"]:
                if x["ev"] in ("bat", "inv"):
                    key = x["ev"] + ":" + x["kind"]
                    kinds_seen[key] = kinds_seen.get(key, 0) + 1
    stage = dict(stage=name, cases_emitted=total, cases_replayed=len(cases), race_variants=nrace, traces_validated=done,
                 val_states=st["states"], antecedents=stats, late_timer_branch_executions=late_hits, messages=kinds_seen)
    rep.extra.setdefault("stages", []).append(stage)
    tot = rep.extra.setdefault("antecedents_total", {})
    for k_, n in stats.items():
        tot[k_] = max(tot.get(k_, 0), n) if k_ == "maxConsecutive" else tot.get(k_, 0) + n
    rep.extra["late_timer_branch_executions"] = rep.extra.get("late_timer_branch_executions", 0) + late_hits
    if cases and len(rep.samples) < 4:
        rows = load_ndjson(shards[0])
        rep.samples.append(rows[len(rows) // 2])
    shown: dict[str, int] = {}
    for v in fails:
        shown[v["clause"]] = shown.get(v["clause"], 0) + 1
        full = shown[v["clause"]] <= 5  # keep whole traces only for the first few records of a clause
        case = dict(stage=name, trace=(byid.get(v["tid"]) if full else None), trace_id=v["tid"], line=v.get("l"),
                    pool=pool, constants={k_: (sorted(x) if isinstance(x, (set, frozenset)) else x) for k_, x in consts.items()})
        if v["clause"] == "C16.TraceNotExplainedBySpec":
            # the code did something the transcription does not do, while every property clause was evaluated on
            # the same trace by ObsChecks: spec drift, reported, not a violation of C16 by itself
            dis = rep.extra.setdefault("disagreements", dict(traces_not_explained_by_spec=0, examples=[]))
            dis["traces_not_explained_by_spec"] += 1
            if len(dis["examples"]) < 3:
                dis["examples"].append(dict(stage=name, trace=byid.get(v["tid"]), detail=v.get("detail")))
            continue
        if v["clause"].startswith("EXT."):
            ext = rep.extra.setdefault("extension_lagged_data", dict(records=0, example=None))
            ext["records"] += 1
            ext["example"] = ext["example"] or dict(detail=v.get("detail"), stage=name, trace_id=v["tid"], line=v.get("l"))
            continue
        devs = list(v.get("deviations", []))
        detail = v.get("detail")
        if devs:  # a named deviation explains the record (e.g. the repaired Dev_EdgeAgeAccepted came back): say so
            detail = list(detail or []) + ["explained by", devs]
        rep.fail(v["clause"], case, detail, deviations=devs)


def execute_lines(trace: dict, cfg: dict) -> dict:
    """Re-drive the real tracker along the harness steps of a recorded trace (used by --replay)."""
    ex = Exec(len(cfg["Bats"]), pool=cfg["pool"], cfg=cfg, salt=trace["id"])
    try:
        for x in trace["lines"]:
            if x["ev"] == "tick":
                ex.tick(run=x["run"])
            elif x["ev"] in ("bat", "inv"):
                ex.msg(x["ev"], x["b"], x["kind"], x["k"])
            elif x["ev"] == "res":
                ex.res(x["f"])
        return dict(id=trace["id"], k=trace.get("k", -1), late_hits=0, lines=ex.lines)
    finally:
        ex.close()


def replay(prop: str, data: dict) -> int:  # pylint: disable=unused-argument
    """./check C16 --replay <file>: run the recorded harness steps again on the current tree and validate."""
    from .common import dump_ndjson, use_repo

    case = data.get("case") or {}
    trace = case.get("trace")
    if not trace or "constants" not in case:
        print(json.dumps(data, indent=1)[:4000])
        return 0
    use_repo()
    consts = {k_: (set(x) if isinstance(x, list) else x) for k_, x in case["constants"].items()}
    d = scratch("C16_replay")
    rec = execute_lines(trace, dict(consts, pool=case.get("pool", False)))
    shard = d / "impl_0.ndjson"
    dump_ndjson(shard, [rec])
    fails, _, _ = validate_shards("BatteryStatusTrace", [shard], d, constants=_trace_consts(consts),
                                  unconsumed_clause="C16.TraceNotExplainedBySpec", dfs_queue=True)
    for x in rec["lines"]:
        print(f"t={x['t']:3d} {x['ev']:4s} b={x['b']} {x['kind']:6s} k={x['k']:2d} f={x['f']} sent={x['sent']} proj={x['proj']}")
    bad = [v for v in fails if not v["clause"].startswith("EXT.") and v["clause"] != "C16.TraceNotExplainedBySpec"]
    if any(v["clause"] == "C16.TraceNotExplainedBySpec" for v in fails):
        print("disagreement: this execution is not a behaviour of BatteryStatus.tla (not a violation by itself)")
    for v in bad:
        print(f"FAILS clause={v['clause']} line={v.get('l')} deviations={v.get('deviations', [])} detail={json.dumps(v.get('detail'))[:300]}")
    named = [v for v in bad if v.get("deviations")]
    print(f"replay: {len(bad)} failing clause records ({len(named)} of them carry a named deviation)")
    return 1 if bad else 0


def run(prop: str, tier: str) -> int:
    tm = Timer()
    rep = Report(prop, tier)
    sc = SCOPES[tier]
    global _WORK, _NPROC
    _WORK = scratch(f"{prop}_{tier}")
    _NPROC = sc["nproc"]
    rep.assumptions = [
        "time in 1 s steps on a virtual clock (datetime.now follows the loop); max data age 5 s, blocking 1..4 s",
        "every due timer is handled before the clock moves on (no stalled event loop); same-instant message/timer order is free",
        "ages are measured from arrival = message timestamp for the fresh / stale / exactly-max-age classes; "
        "lagged-but-not-stale messages (kind lag) are an extension reported under extension_lagged_data, never a violation",
        "the microgrid connection is a harness fake (per-component Broadcast channels); the pool's per-battery status channels are "
        "observed through the status_sender constructor argument; _blocking_status/last_msg_correct projection is an enrichment",
        "UNCERTAIN -> WORKING happens at the first event handled after the block expired (the tracker has no unblock timer)",
        "emitted histories and their sample are reproducible (single TLC worker, VERIF_SEED); in the same-instant race cases the "
        "real outcome also depends on the iteration order of asyncio.wait's done set (object addresses) - every order is validated",
        "an execution the specification cannot explain while all clauses hold on it is reported as a disagreement, not a violation",
    ]
    _mc(rep, "mc", sc["mc"], "mc", 1500)
    _mc(rep, "mc_pool", sc["mc_pool"], "mcb", 2400)
    _bind(rep, "gen", sc["gen"], "gen", sc["gen_limit"], pool=False, race_limit=sc["race_limit"])
    if sc["gen_pool"]:
        _bind(rep, "gen_pool", sc["gen_pool"], "gen", sc["gen_pool_limit"], pool=True)
    _bind(rep, "sim", sc["sim"], "sim", sc["sim_num"], pool=False, simulate=f"num={max(1, sc['sim_num'] // 5)}")
    _bind(rep, "sim_pool", sc["sim_pool"], "sim", sc["sim_pool_num"], pool=True, simulate=f"num={max(1, sc['sim_pool_num'] // 5)}")
    rep.exhaustive = False  # emitted histories are subsampled / simulated; the MC stage itself is exhaustive
    need = dict(reportedUsable=1, disqualifiedEdges=1, silenceEdges=1, notifications=1, blockedPoints=1,
                unblockedAfterBlock=1, resets=1, fallbackUsed=1, uncertainWithheld=1, maxConsecutive=4, devEdge=1,
                successUnblockedThenFail=1, successAfterExpiryThenFail=1, successWhileBlockedThenFail=1, lateConsecutiveFail=1)
    tot = rep.extra.get("antecedents_total", {})
    ndis = rep.extra.get("disagreements", {}).get("traces_not_explained_by_spec", 0)
    rep.extra.setdefault("disagreements", dict(traces_not_explained_by_spec=0, examples=[]))
    rep.notes.append(f"disagreements: {ndis} of {rep.validated} recorded executions are not a behaviour of BatteryStatus.tla"
                     + (" (see evidence 'disagreements'; every property clause was evaluated on them all the same)" if ndis else ""))
    if not rep.failures:
        for k_, n in need.items():
            if tot.get(k_, 0) < n:
                raise RuntimeError(f"vacuity: antecedent {k_} exercised {tot.get(k_, 0)} times (< {n})")
    return rep.finish(tm.s())
