"""C12: GraphFormulas.tla model checking, every enumerated graph through the real generators, trace validation.

MC+GEN  TLC enumerates every component graph of the scope (specs/GraphFormulas.tla), checks the
        clauses on the TRANSCRIBED generators and emits each graph (and, for small n, each
        candidate outside the premise).
RUN     every emitted graph is built as a real `_MicrogridComponentGraph` behind a fake connection
        manager, the real generators are called the way the SDK calls them, and the post-fix steps of
        the engines they return (and of the engines their fallback generators return) are folded
        into signed multisets of component ids.  No event loop is needed: `generate()` is synchronous.
VAL     TLC (specs/GraphFormulasTrace.tla) re-executes the spec on each recorded graph and
        evaluates every C12 clause on the REAL multisets; "drift.*" lines say that code and
        transcription differ without a clause being false.
"""

from __future__ import annotations

import json
import sys
from pathlib import Path

from .common import SEED, Timer, scratch
from .pipeline import load_ndjson, replay_parallel, subsample, validate_shards
from .tlc import read_emitted, run_tlc
from .verdict import Report

NAMES = ["grid", "cons", "prod", "bat", "pv", "pvd", "ev", "chp"]

MC_INV = [
    "GraphAccepted", "RejectedIsOutside",
    "GridTotal", "ConsumerTotal", "ProducerTotal", "BatteryTotal", "PVTotal", "PVDfsTotal", "EVTotal", "CHPTotal",
    "Generated", "FallbackEqualsPrimary", "Balance",
    "NoDeviation", "LegacyWrongIffCause", "LegacyBalanceWrongIffCause", "RepairOnlyWhereCause", "ChpDevIsTight",
    "PVTwoWaysAgree", "TruthBalances", "SharedBatDevIsTight", "OwnWiringHasNoSharedCause",
]
ACTIONS = [
    "ChooseTopology", "GenGridStep", "GenConsumerStep", "GenProducerStep", "GenBatteryStep",
    "GenPVStep", "GenPVDfsStep", "GenEVStep", "GenCHPStep",
]

# stage = (name, constants, replay limit or None, expect RejectTopology)
ANY = dict(Shape="any", ShapeCats=set(), BatWiring="own")
# every wiring of battery inverters to batteries (shared batteries, several batteries per inverter) except the own one
WIRED = dict(Shape="wired", ShapeCats=set(), BatWiring="any", CandN=0, ShardK=1, ShardI=0)
SCOPES = {
    "quick": [
        ("n2to5", dict(MinN=2, MaxN=5, CandN=4, ShardK=1, ShardI=0, **ANY), None, True),
        # targeted: no grid meter, nodes 2 and 3 meters, >= 2 consumer meters with device chains below (first at n = 8)
        ("n8twomixed", dict(MinN=8, MaxN=8, CandN=0, ShardK=1, ShardI=0, BatWiring="own", Shape="twomixed", ShapeCats={"PVINV", "BATINV", "METER"}), 6000, False),
        ("n2to4wired", dict(MinN=2, MaxN=4, **WIRED), None, False),
    ],
    "thorough": [
        ("n2to6", dict(MinN=2, MaxN=6, CandN=5, ShardK=1, ShardI=0, **ANY), None, True),
        # one seeded shard (1/12 of the category vectors) of n = 7, sub-sampled
        ("n7shard", dict(MinN=7, MaxN=7, CandN=0, ShardK=12, ShardI=SEED % 12, **ANY), 30000, False),
        ("n8twomixed", dict(MinN=8, MaxN=8, CandN=0, ShardK=1, ShardI=0, BatWiring="own", Shape="twomixed", ShapeCats={"PVINV", "BATINV", "EV", "CHP", "METER"}), 40000, False),
        # n = 5 with every wiring (31^4 wirings of four inverters alone) did not finish in 15 min: n <= 4 here too
        ("n2to4wired", dict(MinN=2, MaxN=4, **WIRED), None, False),
    ],
}

BAT_OFFSET = 100  # the battery of battery inverter i has component id 100 + i


# ---------------------------------------------------------------------------
# real-code side
class _FakeConnectionManager:
    """What `connection_manager.get()` returns: only `.component_graph` is used by the generators."""

    def __init__(self, graph) -> None:
        self.component_graph = graph


class Real:
    """Builds real component graphs and runs the real formula generators on them."""

    def __init__(self) -> None:
        from frequenz.channels import Broadcast
        from frequenz.client.microgrid import Component, ComponentCategory, Connection, InverterType

        from frequenz.sdk._internal._channels import ChannelRegistry
        from frequenz.sdk.microgrid import connection_manager
        from frequenz.sdk.microgrid.component_graph import InvalidGraphError, _MicrogridComponentGraph
        from frequenz.sdk.timeseries.formula_engine import _formula_generators as fg
        from frequenz.sdk.timeseries.formula_engine._formula_generators._formula_generator import (
            NON_EXISTING_COMPONENT_ID,
            FormulaGeneratorConfig,
        )

        self.Component, self.CC, self.Connection, self.IT = Component, ComponentCategory, Connection, InverterType
        self.Graph, self.InvalidGraphError = _MicrogridComponentGraph, InvalidGraphError
        self.cm = connection_manager
        self.Registry = ChannelRegistry
        self.fg = fg
        self.Config = FormulaGeneratorConfig
        self.NONEX = NON_EXISTING_COMPONENT_ID
        self.sender = Broadcast(name="verif-resampler-requests").new_sender()

    # -- graph ---------------------------------------------------------------
    def build(self, cat: list[str], parent: list[int], wire: list[list[int]] | None = None):
        comps, conns = set(), set()
        if wire is None:  # candidates outside the premise: one own battery per battery inverter
            wire = [[i] if c == "BATINV" else [] for i, c in enumerate(cat, start=1)]
        for i, c in enumerate(cat, start=1):
            if c == "GRID":
                comps.add(self.Component(i, self.CC.GRID))
            elif c == "METER":
                comps.add(self.Component(i, self.CC.METER))
            elif c == "BATINV":
                comps.add(self.Component(i, self.CC.INVERTER, self.IT.BATTERY))
                for b in wire[i - 1]:
                    comps.add(self.Component(BAT_OFFSET + b, self.CC.BATTERY))
                    conns.add(self.Connection(i, BAT_OFFSET + b))
            elif c == "PVINV":
                comps.add(self.Component(i, self.CC.INVERTER, self.IT.SOLAR))
            elif c == "EV":
                comps.add(self.Component(i, self.CC.EV_CHARGER))
            elif c == "CHP":
                comps.add(self.Component(i, self.CC.CHP))
            else:
                raise ValueError(c)
            if parent[i - 1]:
                conns.add(self.Connection(parent[i - 1], i))
        try:
            return self.Graph(comps, conns)  # the constructor validates
        except self.InvalidGraphError:
            return None

    # -- formulas ------------------------------------------------------------
    def fold(self, engine, n: int) -> tuple[list[int], str]:
        """Fold the engine's post-fix steps into component id -> signed multiplicity."""
        steps, _ = engine._builder.finalize()  # pylint: disable=protected-access
        stack: list[list[int]] = []
        shape = "ok"
        for s in steps:
            t = type(s).__name__
            if t == "MetricFetcher":
                cid = int(s._name.lstrip("#"))  # pylint: disable=protected-access
                v = [0] * n
                if cid == self.NONEX:
                    pass
                elif 1 <= cid <= n:
                    v[cid - 1] = 1
                else:
                    shape = f"component id {cid} is not a node of the graph"
                stack.append(v)
            elif t in ("Adder", "Subtractor") and len(stack) >= 2:
                b, a = stack.pop(), stack.pop()
                sg = 1 if t == "Adder" else -1
                stack.append([x + sg * y for x, y in zip(a, b)])
            else:
                return [0] * n, f"step {t} is not a term, + or -"
        if len(stack) != 1:
            return [0] * n, "malformed post-fix formula"
        return stack[0], shape

    def call(self, name: str, cls, cfg, n: int) -> dict:
        zero = [0] * n
        nofb: list[list[int]] = [[] for _ in range(n)]
        try:
            engine = cls(f"verif-{name}", self.registry, self.sender, cfg).generate()
        except Exception as ex:  # pylint: disable=broad-except
            return dict(name=name, ok=False, err=type(ex).__name__, coef=zero, fb=nofb, shape="ok", s=str(ex)[:120])
        coef, shape = self.fold(engine, n)
        fb = nofb
        steps, _ = engine._builder.finalize()  # pylint: disable=protected-access
        for s in steps:
            if type(s).__name__ != "MetricFetcher" or s._fallback is None:  # pylint: disable=protected-access
                continue
            cid = int(s._name.lstrip("#"))  # pylint: disable=protected-access
            try:
                fengine = s._fallback._formula_generator.generate()  # pylint: disable=protected-access
                fcoef, fshape = self.fold(fengine, n)
            except Exception as ex:  # pylint: disable=broad-except
                fcoef, fshape = zero, f"fallback generator of #{cid} raised {type(ex).__name__}"
            if fshape != "ok":
                shape = fshape
            if 1 <= cid <= n:
                fb[cid - 1] = fcoef
        return dict(name=name, ok=True, err="", coef=coef, fb=fb, shape=shape, s=str(engine))

    def run(self, case: dict) -> dict:
        n, cat, parent = case["n"], case["cat"], case["parent"]
        graph = self.build(cat, parent, case.get("wire"))
        rec = dict(id=case["id"], kind=case["k"], n=n, cat=cat, parent=parent, accepted=graph is not None)
        if "wire" in case:
            rec["wire"] = case["wire"]
        if case["k"] != "graph":
            return rec
        rec["calls"] = []
        if graph is None:
            return rec
        self.cm._CONNECTION_MANAGER = _FakeConnectionManager(graph)  # pylint: disable=protected-access
        self.registry = self.Registry(name="verif")
        CC = self.CC
        # the component ids the pools pass (BatteryPool / PVPool / EVChargerPool of the whole microgrid)
        bats = frozenset(c.component_id for c in graph.components(component_categories={CC.BATTERY}))
        pvs = frozenset(c.component_id for c in graph.components(component_categories={CC.INVERTER}) if c.type == self.IT.SOLAR)
        evs = frozenset(c.component_id for c in graph.components(component_categories={CC.EV_CHARGER}))
        fg, Cfg = self.fg, self.Config
        plan = [
            ("grid", fg.GridPowerFormula, Cfg()),
            ("cons", fg.ConsumerPowerFormula, Cfg()),
            ("prod", fg.ProducerPowerFormula, Cfg()),
            ("bat", fg.BatteryPowerFormula, Cfg(component_ids=bats, allow_fallback=True)),
            ("pv", fg.PVPowerFormula, Cfg(component_ids=pvs)),
            ("pvd", fg.PVPowerFormula, Cfg()),
            ("ev", fg.EVChargerPowerFormula, Cfg(component_ids=evs)),
            ("chp", fg.CHPPowerFormula, Cfg()),
        ]
        assert [p[0] for p in plan] == NAMES
        for name, cls, cfg in plan:
            rec["calls"].append(self.call(name, cls, cfg, n))
        self.cm._CONNECTION_MANAGER = None  # pylint: disable=protected-access
        return rec


def _worker(chunk, out_path):
    import warnings

    from .common import use_repo

    use_repo()
    warnings.simplefilter("ignore")
    real = Real()
    with open(out_path, "w") as f:
        for c in chunk:
            f.write(json.dumps(real.run(c), separators=(",", ":")) + "\n")


# ---------------------------------------------------------------------------
def _count(dst: dict, flags: dict) -> None:
    for k, v in flags.items():
        dst[k] = dst.get(k, 0) + int(v)


def _stage(rep: Report, prop: str, name: str, consts: dict, limit, expect_reject: bool, work: Path, timeout: int) -> None:
    d = work / name
    d.mkdir(parents=True, exist_ok=True)
    cases_file = d / "cases.ndjson"
    res = run_tlc(
        "GraphFormulas", d, constants=consts, invariants=MC_INV,
        env={"OUT_FILE": str(cases_file)}, coverage=True, timeout=timeout,
    )
    rep.add_mc(name, res, consts, MC_INV, mode="exhaustive")
    if not res.ok:
        rep.fail(f"{prop}.MC.{'/'.join(res.violated)}", dict(stage=name, constants=consts), res.counterexample[:3000])
        return
    for a in ACTIONS + (["RejectTopology"] if expect_reject else []):
        if not res.coverage.get(a):
            raise RuntimeError(f"vacuity: action {a} never taken in {name} ({res.coverage})")
    raw = read_emitted(cases_file)
    raw.sort(key=lambda c: (c["n"], c["k"], c["cat"], c["parent"], c.get("wire", [])))
    cases = [dict(c, id=i + 1) for i, c in enumerate(raw)]
    graphs = [c for c in cases if c["k"] == "graph"]
    mc_flags: dict = {}
    for c in graphs:
        _count(mc_flags, c.pop("flags"))
    total = len(cases)
    if limit:
        cases, cut = subsample(cases, limit)
        if cut:
            rep.exhaustive = False
    shards = replay_parallel(_worker, cases, d)
    fails, done, st = validate_shards(
        "GraphFormulasTrace", shards, d,
        constants=dict(MinN=2, MaxN=9, CandN=99, ShardK=1, ShardI=0, Shape="any", ShapeCats=set(), BatWiring="any"), timeout=timeout,
    )
    rep.validated += done
    # what the validated records exercised (written by TLC with every consumed trace)
    ex: dict = {}
    for p in shards:
        vf = d / f"verdict_{p.stem}.ndjson"
        for v in read_emitted(vf):
            if v.get("done"):
                _count(ex, {k: x for k, x in v["ex"].items()})
    ex["without_grid_meter"] = ex.get("graph", 0) - ex.get("with_grid_meter", 0)
    ex["candidates_outside_premise"] = sum(1 for c in cases if c["k"] == "cand")
    rep.extra.setdefault("stages", []).append(
        dict(stage=name, graphs_enumerated=len(graphs), cases_emitted=total, cases_replayed=len(cases),
             traces_validated=done, val_states=st["states"], val_wall_s=st["wall_s"],
             model_antecedents=mc_flags, exercised_by_real_records=ex)
    )
    # vacuity: antecedents that depend on the graph only (the code under test cannot empty them)
    if consts["Shape"] == "wired":
        need = ["graph", "shared_battery", "multi_battery_inverter", "shared_battery_fallback", "real_fallbacks", "load", "nested"]
    elif consts["Shape"] == "twomixed":
        need = ["graph", "dev", "load", "no_grid_meter_and_two_mixed_meters_with_device_chains"]
    else:
        need = ["graph", "with_grid_meter", "without_grid_meter", "chp_without_dedicated_meter", "chp_with_dedicated_meter",
                "load", "nested", "dedicated_meter"]
        if consts["MinN"] <= 3:
            # these shapes need the small graphs, which a sampled shard of large graphs may not contain
            need += ["grid_meter_over_one_device_type", "grid_meter_as_chp_meter"]
        if consts["MaxN"] >= 5:
            need.append("dev")
    for k in need:
        if not ex.get(k):
            raise RuntimeError(f"vacuity: no validated record exercised '{k}' in {name} ({ex})")
    if not ex.get("real_fallbacks"):
        rep.notes.append(f"{name}: no real formula carried a fallback, C12.FallbackEqualsPrimary was vacuous")
    byid = None
    drift = rep.extra.setdefault("disagreements", dict(count=0, examples=[]))
    for v in fails:
        if v["clause"].startswith("drift."):
            drift["count"] += 1
            if len(drift["examples"]) < 5:
                drift["examples"].append(dict(stage=name, clause=v["clause"], detail=v["detail"]))
            continue
        if v["clause"].startswith("EXT."):
            obs = rep.extra.setdefault("observations", {}).setdefault(v["clause"], dict(count=0, example=None))
            obs["count"] += 1
            obs["example"] = obs["example"] or v["detail"]
            continue
        if not v["clause"].startswith(prop + "."):
            continue
        if byid is None:
            byid = {}
            for p in shards:
                for r_ in load_ndjson(p):
                    byid[r_["id"]] = r_
        r_ = byid.get(v["tid"], {})
        case = dict(stage=name, n=r_.get("n"), cat=r_.get("cat"), parent=r_.get("parent"), wire=r_.get("wire"),
                    formulas={c["name"]: (c["s"] if c["ok"] else "raised " + c["err"]) for c in r_.get("calls", [])})
        rep.fail(v["clause"], case, v["detail"], deviations=v.get("deviations") or [])
    for r_ in (load_ndjson(shards[-1])[-2:] if shards else []):
        if len(rep.samples) < 4 and r_["kind"] == "graph":
            rep.samples.append(dict(n=r_["n"], cat=r_["cat"], parent=r_["parent"],
                                    formulas={c["name"]: (c["s"] if c["ok"] else "raised " + c["err"]) for c in r_["calls"]},
                                    fallbacks={c["name"]: {f"#{i + 1}": fb for i, fb in enumerate(c["fb"]) if fb} for c in r_["calls"] if any(c["fb"])}))


def run(prop: str, tier: str) -> int:
    tm = Timer()
    rep = Report(prop, tier)
    work = scratch(f"{prop}_{tier}")
    rep.assumptions = [
        "graphs are trees: node 1 = grid, parent[i] < i, only the grid and meters have successors, CHPs hang below a meter, "
        "no hybrid inverters; one own battery per battery inverter in the tree stages; the 'wired' stages enumerate every "
        "wiring of the battery inverters to battery slots (a battery fed by several inverters, an inverter feeding several "
        "batteries) -- batteries are the only components with two predecessors",
        "a meter is 'dedicated to one device type' when all its successors are devices of one type AND it is not the grid "
        "meter (the only grid successor); every other meter, and always the grid meter, carries an unmetered-load variable",
        "a fallback attached to a term with an own unmetered-load variable (the grid meter above devices of one type) must "
        "equal the term minus that load (it cannot know it); reported as observation EXT.FallbackOmitsUnmeteredLoad",
        "a meter reads exactly the sum of everything below it plus its own unmetered load; a device reads its own AC power; "
        "formulas are compared as linear forms (exact integers), so every assignment of device powers is covered",
        "generators are called the way the SDK calls them for the whole microgrid (all batteries / PV inverters / EV chargers)",
        "the multisets are read from the engines' post-fix steps and the attached fallback generators (private attributes "
        "_builder, _name, _fallback, _formula_generator); the engines are not run on data (None handling is C13/C19)",
        "CHPPowerFormula raising FormulaGenerationError when a CHP has no dedicated meter is documented behaviour, not a wrong total",
    ]
    timeout = 900 if tier == "quick" else 3000
    for name, consts, limit, expect_reject in SCOPES[tier]:
        _stage(rep, prop, name, consts, limit, expect_reject, work, timeout)
    return rep.finish(tm.s())


if __name__ == "__main__":
    sys.exit(run(sys.argv[1] if len(sys.argv) > 1 else "C12", sys.argv[2] if len(sys.argv) > 2 else "quick"))
