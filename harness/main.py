"""Entry point:  ./check <property-id> [--tier quick|thorough] [--replay file]"""

from __future__ import annotations

import argparse
import json
import os
import sys
import traceback

REGISTRY = {
    "C01": ("p_batterypower", "C01"),
    "C02": ("p_batterypower", "C02"),
    "C03": ("p_matryoshka", "C03"),
    "C04": ("p_matryoshka", "C04"),
    "C05": ("p_formula", "C05"),
    "C06": ("p_formulasync", "C06"),
    "C07": ("p_resampler", "C07"),
    "C08": ("p_resampler", "C08"),
    "C09": ("p_ringbuffer", "C09"),
    "C10": ("p_actor", "C10"),
    "C11": ("p_powermanager", "C11"),
    "C12": ("p_graphformulas", "C12"),
    "C13": ("p_formula", "C13"),
    "C14": ("p_powerdist", "C14"),
    "C15": ("p_results", "C15"),
    "C16": ("p_batterystatus", "C16"),
    "C17": ("p_batterypower", "C17"),
    "C18": ("p_poolmetrics", "C18"),
    "C19": ("p_formulasync", "C19"),
    "C20": ("p_datasourcing", "C20"),
    # extensions of the specification beyond the listed properties (DESIGN.md section 13)
    "X01": ("p_resamplingactor", "X01"),
    "X02": ("p_powerpath", "X02"),
    "X03": ("p_componentstatus", "X03"),
    "X05": ("p_apalache", "X05"),
}


def main() -> int:
    ap = argparse.ArgumentParser()
    ap.add_argument("prop")
    ap.add_argument("--tier", default=os.environ.get("VERIF_TIER", "quick"), choices=["quick", "thorough"])
    ap.add_argument("--replay", default=None)
    args = ap.parse_args()
    if args.prop not in REGISTRY:
        print(f"unknown property {args.prop}", file=sys.stderr)
        return 2
    modname, prop = REGISTRY[args.prop]
    try:
        import importlib

        mod = importlib.import_module(f"harness.{modname}")
        if args.replay:
            if not hasattr(mod, "replay"):
                print(open(args.replay).read())
                return 0
            return mod.replay(prop, json.load(open(args.replay)))
        return mod.run(prop, args.tier)
    except Exception:  # pylint: disable=broad-except
        traceback.print_exc()
        print(f"MACHINERY-ERROR property={args.prop}", file=sys.stderr)
        return 2


if __name__ == "__main__":
    sys.exit(main())
