"""C01 / C02 / C17: BatteryPower.tla model checking, replay into the real distribution
algorithm, BatteryManager and PowerBoundsCalculator, trace validation by BatteryPowerTrace.tla.

MC+GEN  TLC enumerates every input of the scope (battery groups x admitted request x exponent),
        runs the transcribed algorithm stage by stage, checks the clause invariants (modulo the
        named deviations) and the design-level invariants, and emits every input.
RUN     each input is built as real BatteryData / InverterData and pushed through
        BatteryDistributionAlgorithm.distribute_power and (exponent 1) through the real
        BatteryManager.distribute_power with a fake API client; for C17 the same data go to the
        real PowerBoundsCalculator.calculate and BatteryManager._get_bounds / _check_request.
VAL     TLC evaluates every clause on the recorded numbers (fixed-point integers).
"""

from __future__ import annotations

import json
import math
import os
from pathlib import Path

from .common import NCPU, Timer, scratch
from .pipeline import replay_parallel, validate_shards
from .tlc import MachineryError, read_emitted, run_tlc
from .verdict import Report

UNITW = 500  # watts per spec power unit
SCD = 7  # fixed-point digits
SC = 10**SCD
TOL = 10  # 1e-6 spec units
BIG = 2_000_000_000

CLAUSE_INV = {
    "C01": ["ConservationInv", "SignOfRequestInv", "RemainderSignAndMagnitudeInv"],
    "C02": ["PerInverterInBoundsInv", "GroupInBoundsInv", "NoHeadroomZeroInv"],
    "C17": ["AdvertisedAcceptedInv", "AtLeastSumMinPowerInv", "InclusionIdenticalInv", "AdmittedIsAcceptedInv"],
}
DESIGN_INV = ["TypeOK", "OrderInv", "ReserveInv", "BookkeepingInv", "UpperBoundInv", "GreedyInv", "SplitInv"]


def bnds(incls, excls) -> set:
    """Bounds tuples <<il, el, eu, iu>>: every (excl, incl) pair on the upper side, the lower side
    gets the next value of each grid (so the two sides differ, and both see every pair)."""
    inc, exc = sorted(incls), sorted(excls)
    out = set()
    for k, i in enumerate(inc):
        for m, x in enumerate(exc):
            out.add((-inc[(k + 1) % len(inc)], -exc[(m + 1) % len(exc)], x, i))
    return out


ONE = {(1, 1)}
# battery bounds for the C17 scopes: consistent also when two of them sit behind one small inverter
QB = {(-6, -2, 0, 2), (-2, 0, 2, 6), (-6, 0, 3, 6), (-4, -3, 0, 4), (-4, 0, 0, 4)}
SMALL2 = dict(Caps2={1}, Socs2={2}, BatBnds2={(-2, 0, 0, 2), (-4, -2, 2, 4)}, InvBnds2={(-2, 0, 0, 2), (-4, -1, 1, 4), (-2, -2, 2, 2)})
BASE = dict(UnitW=UNITW, SocLo=1, SocHi=3, Lims2={(1, 3)}, SCd=SCD, Tol=TOL, **SMALL2)


def _scope(**kw) -> dict:
    d = dict(BASE)
    d.update(kw)
    return d


# Every stage is one TLC run.  "dist" stages serve C01 and C02 (and the manager path of C17),
# "bounds" stages serve C17.
SCOPES = {
    "quick": {
        "dist": [
            # two single-inverter groups, exponent 1: the reduced grid
            ("pair", _scope(Mode="dist", NGroups={2}, Caps={1, 2}, Socs={1, 2, 3}, BatBnds=bnds({2, 4, 6}, {0, 2}),
                            InvBnds={(-6, 0, 0, 6), (-2, -2, 2, 4)}, Shapes1=ONE, ShapesR=ONE,
                            Mags={1, 3, 5, 9, 13}, Exps={1})),
            # exponents 0 and 2 on a smaller alphabet
            ("expo", _scope(Mode="dist", NGroups={2}, Caps={1, 2}, Socs={1, 2, 3}, BatBnds=bnds({2, 6}, {0, 2}),
                            InvBnds={(-6, 0, 0, 6), (-2, -2, 2, 4)}, Shapes1=ONE, ShapesR=ONE,
                            Mags={2, 9}, Exps={0, 2})),
            # one group with two or three inverters and/or two batteries, alone and next to a plain group
            ("multi", _scope(Mode="dist", NGroups={1, 2}, Caps={1}, Socs={0, 3}, BatBnds={(-6, -2, 0, 4), (-4, 0, 3, 6), (-6, -3, 2, 6)},
                             InvBnds={(-4, -2, 0, 2), (-2, 0, 2, 4), (-4, -1, 1, 4)}, Shapes1={(1, 2), (2, 1), (2, 2), (1, 3)}, ShapesR=ONE,
                             Mags={1, 3, 4, 5, 7, 11}, Exps={1})),
            # two groups that both sit behind two inverters (the split of either may leave something unplaced)
            ("multi2", _scope(Mode="dist", NGroups={2}, Caps={1}, Socs={2}, BatBnds={(-6, -2, 0, 4), (-4, 0, 3, 6)},
                              InvBnds={(-4, -2, 0, 2), (-2, 0, 2, 4), (-4, -1, 1, 4)}, Shapes1={(1, 2)}, ShapesR={(1, 2)},
                              Mags={1, 3, 4, 5, 7, 9, 11}, Exps={1})),
            # two batteries of different capacity and different SoC limits behind shared inverter(s), each
            # battery at its own lower or upper limit (capacity-weighted aggregation of SoC and limits)
            ("hetero", _scope(Mode="dist", NGroups={1, 2}, Caps={1}, Socs={1, 3}, Caps2={2}, Socs2={2, 4}, Lims2={(2, 4)},
                              BatBnds={(-6, -2, 0, 4), (-4, 0, 2, 6)}, BatBnds2={(-2, 0, 0, 2), (-4, -2, 2, 4)},
                              InvBnds={(-4, -2, 0, 2), (-6, 0, 1, 6)}, Shapes1={(2, 1), (2, 2)}, ShapesR=ONE,
                              Mags={1, 3, 5, 8}, Exps={1})),
            # 3-4 groups on a finer SoC grid with exclusion bounds: a deficit larger than any single
            # surplus is covered from several donors (partial-cover branch of the deficit loop)
            ("cover3", _scope(Mode="dist", NGroups={3}, Caps={1}, Socs={1, 8}, SocLo=0, SocHi=9,
                              BatBnds={(-6, -2, 2, 6), (-6, 0, 0, 6), (-6, -4, 4, 6)}, InvBnds={(-6, 0, 0, 6), (-6, -1, 1, 6)},
                              Shapes1=ONE, ShapesR=ONE, Mags={1, 3, 5, 7, 9}, Exps={1})),
            ("cover4", _scope(Mode="dist", NGroups={4}, Caps={1}, Socs={1, 8, 9}, SocLo=0, SocHi=9,  # 9 = at the upper limit
                              BatBnds={(-6, -2, 2, 6), (-6, 0, 0, 6)}, InvBnds={(-6, 0, 0, 6)},
                              Shapes1=ONE, ShapesR=ONE, Mags={1, 3, 5, 7, 9}, Exps={1})),
        ],
        "reject": [
            # requests the advertised bounds do not admit, through the manager with adjust_power on/off
            ("reject", _scope(Mode="reject", NGroups={1, 2}, Caps={1}, Socs={2}, BatBnds={(-6, -2, 0, 2), (-2, 0, 2, 6), (-6, 0, 3, 6), (-4, -3, 0, 4)},
                              InvBnds=bnds({2, 4}, {0, 1, 2}), Shapes1={(1, 1), (1, 2)}, ShapesR=ONE,
                              Mags=set(), Exps={1})),
        ],
        "bounds": [
            # every configuration with every status assignment (working / uncertain / not working, see StatusSets)
            ("bounds", _scope(Mode="bounds", NGroups={1, 2}, Caps={1}, Socs={2}, BatBnds={(-6, -2, 0, 2), (-2, 0, 2, 6), (-6, 0, 3, 6)},
                              InvBnds=bnds({2, 4}, {0, 1, 2}), Shapes1={(1, 1), (1, 2), (2, 1), (2, 2)}, ShapesR={(1, 1)},
                              Mags=set(), Exps={1})),
            # two battery sets that both have two batteries behind one inverter
            ("bounds22", _scope(Mode="bounds", NGroups={2}, Caps={1}, Socs={2}, BatBnds={(-6, -2, 0, 2), (-2, 0, 2, 6)},
                                InvBnds=bnds({2, 4}, {0, 2}), Shapes1={(2, 1)}, ShapesR={(2, 1)}, Mags=set(), Exps={1})),
        ],
        "admit": [
            # admitted requests through the whole manager path (Result must not be OutOfBounds)
            ("admit", _scope(Mode="dist", NGroups={1, 2}, Caps={1}, Socs={3}, BatBnds=QB - {(-4, 0, 0, 4)},
                             InvBnds=bnds({2, 4}, {0, 1, 2}), Shapes1={(1, 1), (1, 2), (2, 1)}, ShapesR={(1, 1), (2, 1)},
                             Mags={2, 5, 11}, Exps={1})),
        ],
    },
    "thorough": {
        "dist": [
            ("pair", _scope(Mode="dist", NGroups={2}, Caps={1, 2}, Socs={0, 1, 2, 3, 4}, BatBnds=bnds({2, 4, 6}, {0, 2}),
                            InvBnds=bnds({2, 6}, {0, 2}), Shapes1=ONE, ShapesR=ONE,
                            Mags={1, 2, 3, 4, 5, 7, 9, 12, 13}, Exps={1})),
            ("expo", _scope(Mode="dist", NGroups={2}, Caps={1, 2}, Socs={1, 2, 3}, BatBnds=bnds({2, 4, 6}, {0, 2}),
                            InvBnds=bnds({2, 6}, {0, 2}), Shapes1=ONE, ShapesR=ONE,
                            Mags={1, 3, 5, 9, 13}, Exps={0, 2})),
            ("multi", _scope(Mode="dist", NGroups={1, 2}, Caps={1}, Socs={0, 1, 2, 3}, BatBnds={(-6, -2, 0, 4), (-4, 0, 3, 6), (-6, -3, 2, 6)},
                             InvBnds={(-4, -2, 0, 2), (-2, 0, 2, 4), (-4, -1, 1, 4), (-6, 0, 0, 6)}, Shapes1={(1, 2), (2, 1), (2, 2)}, ShapesR=ONE,
                             Mags={1, 2, 3, 4, 5, 7, 9, 11, 14}, Exps={1})),
            # three inverters behind one or two batteries
            ("tri", _scope(Mode="dist", NGroups={1, 2}, Caps={1}, Socs={0, 2, 3}, BatBnds={(-6, -2, 0, 4), (-4, 0, 3, 6), (-6, -3, 2, 6)},
                           InvBnds={(-4, -2, 0, 2), (-2, 0, 2, 4), (-4, -1, 1, 4)}, Shapes1={(1, 3), (2, 3)}, ShapesR=ONE,
                           Mags={1, 3, 4, 5, 7, 9, 11}, Exps={1})),
            ("multi2", _scope(Mode="dist", NGroups={2}, Caps={1}, Socs={1, 3}, BatBnds={(-6, -2, 0, 4), (-4, 0, 3, 6)},
                              InvBnds={(-4, -2, 0, 2), (-2, 0, 2, 4), (-4, -1, 1, 4)}, Shapes1={(1, 2), (2, 2)}, ShapesR={(1, 2)},
                              Mags={1, 3, 5, 7, 11, 15}, Exps={1, 2})),
            ("three", _scope(Mode="dist", NGroups={3}, Caps={1, 2}, Socs={1, 3}, BatBnds=bnds({2, 6}, {0, 2}),
                             InvBnds={(-6, 0, 0, 6), (-2, -2, 2, 4)}, Shapes1=ONE, ShapesR=ONE,
                             Mags={3, 8, 19}, Exps={1})),
            ("cover3", _scope(Mode="dist", NGroups={3}, Caps={1}, Socs={1, 3, 8}, SocLo=0, SocHi=9,
                              BatBnds={(-6, -2, 2, 6), (-6, 0, 0, 6), (-6, -4, 4, 6)}, InvBnds={(-6, 0, 0, 6), (-6, -1, 1, 6)},
                              Shapes1=ONE, ShapesR=ONE, Mags={1, 3, 5, 7, 9, 11}, Exps={1})),
            ("hetero", _scope(Mode="dist", NGroups={1, 2}, Caps={1, 3}, Socs={1, 2, 3}, Caps2={2}, Socs2={2, 3, 4}, Lims2={(2, 4), (1, 3)},
                              BatBnds={(-6, -2, 0, 4), (-4, 0, 2, 6)}, BatBnds2={(-2, 0, 0, 2), (-4, -2, 2, 4)},
                              InvBnds={(-4, -2, 0, 2), (-6, 0, 1, 6)}, Shapes1={(2, 1), (2, 2)}, ShapesR=ONE,
                              Mags={1, 3, 5, 8, 11}, Exps={1})),
            ("cover4", _scope(Mode="dist", NGroups={4}, Caps={1}, Socs={0, 1, 8, 9}, SocLo=0, SocHi=9,
                              BatBnds={(-6, -2, 2, 6), (-6, 0, 0, 6)}, InvBnds={(-6, 0, 0, 6)},
                              Shapes1=ONE, ShapesR=ONE, Mags={1, 3, 5, 7, 9, 11, 13}, Exps={1})),  # exponent 2 only on the coarse SoC grid (32-bit rationals)
        ],
        "reject": [
            ("reject", _scope(Mode="reject", NGroups={1, 2}, Caps={1}, Socs={2}, BatBnds=QB,
                              InvBnds=bnds({2, 4}, {0, 1, 2}), Shapes1={(1, 1), (1, 2), (2, 1), (2, 2)}, ShapesR={(1, 1), (1, 2)},
                              Mags=set(), Exps={1})),
        ],
        "bounds": [
            ("bounds", _scope(Mode="bounds", NGroups={1, 2}, Caps={1}, Socs={2}, BatBnds=QB,
                              InvBnds=bnds({2, 4}, {0, 1, 2}), Shapes1={(1, 1), (1, 2), (2, 1), (2, 2)}, ShapesR={(1, 1), (1, 2), (2, 1)},
                              Mags=set(), Exps={1})),
            ("bounds3", _scope(Mode="bounds", NGroups={3}, Caps={1}, Socs={2}, BatBnds=QB - {(-4, 0, 0, 4), (-4, -3, 0, 4)},
                               InvBnds=bnds({2, 4}, {0, 2}), Shapes1={(1, 1), (1, 2), (2, 1)}, ShapesR={(1, 1)},
                               Mags=set(), Exps={1})),
        ],
        "admit": [
            ("admit", _scope(Mode="dist", NGroups={1, 2}, Caps={1}, Socs={1, 2, 3}, BatBnds=bnds({2, 6}, {0, 2, 3}),
                             InvBnds=bnds({2, 4}, {0, 1, 2}), Shapes1={(1, 1), (1, 2), (2, 1)}, ShapesR=ONE,
                             Mags={1, 2, 3, 5, 8, 11}, Exps={1})),
        ],
    },
}


# ---------------------------------------------------------------------------
# real-code side


def fpw(watts: float) -> int:
    """Watts -> fixed-point spec units (int); non-finite / huge values -> sentinel."""
    if not math.isfinite(watts):
        return BIG
    v = round(watts / UNITW * SC)
    return v if abs(v) < BIG else (BIG if v > 0 else -BIG)


class _Cache:
    def __init__(self) -> None:
        self.v = None

    def has_value(self) -> bool:
        return self.v is not None

    def get(self):
        return self.v


class _Tracker:
    """Stands in for ComponentPoolStatusTracker with its real semantics: every query of the manager is
    answered by a real ComponentPoolStatus(working, uncertain).get_working_components(ids)."""

    status = None  # None: every battery is working

    def get_working_components(self, ids):
        return set(ids) if self.status is None else self.status.get_working_components(ids)

    async def update_status(self, ok, failed) -> None:
        return None


class _Sender:
    def __init__(self) -> None:
        self.items: list = []

    async def send(self, x) -> None:
        self.items.append(x)


class _Api:
    def __init__(self) -> None:
        self.calls: dict[int, float] = {}

    async def set_power(self, cid: int, power: float) -> None:
        self.calls[cid] = power


class _CM:
    def __init__(self, graph, api) -> None:
        self.component_graph = graph
        self.api_client = api


def inv_id(g: int, j: int) -> int:
    """Inverter ids 8g+j: a frozenset of them iterates in index order (asserted at run time)."""
    return 8 * g + j


def bat_id(g: int, k: int) -> int:
    return 100 + 8 * g + k


class Rig:
    """Real objects for one topology shape (tuple of (#batteries, #inverters) per group)."""

    def __init__(self, shape: tuple) -> None:
        import asyncio
        from datetime import datetime, timedelta, timezone

        from frequenz.client.microgrid import (
            BatteryComponentState,
            BatteryData,
            BatteryRelayState,
            Component,
            ComponentCategory,
            ComponentMetricId,
            Connection,
            InverterComponentState,
            InverterData,
            InverterType,
        )
        from frequenz.quantities import Power

        from frequenz.sdk.microgrid import connection_manager
        from frequenz.sdk.microgrid._power_distributing._component_managers import _battery_manager as bm
        from frequenz.sdk.microgrid._power_distributing._component_status import ComponentPoolStatus
        from frequenz.sdk.microgrid._power_distributing._distribution_algorithm import (
            AggregatedBatteryData,
            BatteryDistributionAlgorithm,
            InvBatPair,
        )
        from frequenz.sdk.microgrid._power_distributing.request import Request
        from frequenz.sdk.microgrid._power_distributing.result import OutOfBounds
        from frequenz.sdk.microgrid.component_graph import _MicrogridComponentGraph
        from frequenz.sdk.timeseries.battery_pool._component_metrics import ComponentMetricsData
        from frequenz.sdk.timeseries.battery_pool._metric_calculator import PowerBoundsCalculator

        self.asyncio = asyncio
        self.BatteryData, self.InverterData = BatteryData, InverterData
        self.brs, self.bcs, self.ics = BatteryRelayState.UNSPECIFIED, BatteryComponentState.UNSPECIFIED, InverterComponentState.UNSPECIFIED
        self.Agg, self.Pair, self.Algo = AggregatedBatteryData, InvBatPair, BatteryDistributionAlgorithm
        self.Request, self.Power, self.OutOfBounds = Request, Power, OutOfBounds
        self.CMD, self.MID = ComponentMetricsData, ComponentMetricId
        self.PoolStatus = ComponentPoolStatus
        self.ts = datetime(2024, 1, 1, tzinfo=timezone.utc)
        self.shape = shape
        comps = {Component(1, ComponentCategory.GRID), Component(2, ComponentCategory.METER)}
        conns = {Connection(1, 2)}
        self.inv_ids, self.bat_ids = [], []
        for g, (nb, ni) in enumerate(shape, start=1):
            invs = [inv_id(g, j) for j in range(1, ni + 1)]
            bats = [bat_id(g, k) for k in range(1, nb + 1)]
            if list(frozenset(invs)) != invs or list(frozenset(bats)) != bats:
                raise MachineryError(f"frozenset iteration order differs from index order for {invs} / {bats}")
            for i in invs:
                comps.add(Component(i, ComponentCategory.INVERTER, InverterType.BATTERY))
                conns.add(Connection(2, i))
                for b in bats:
                    conns.add(Connection(i, b))
            for b in bats:
                comps.add(Component(b, ComponentCategory.BATTERY))
            self.inv_ids.append(invs)
            self.bat_ids.append(bats)
        self.all_bats = frozenset(b for bs in self.bat_ids for b in bs)
        self.group_of_bat = {b: g for g, bs in enumerate(self.bat_ids) for b in bs}
        self.api = _Api()
        self.cm = _CM(_MicrogridComponentGraph(comps, conns), self.api)
        self.connection_manager = connection_manager
        connection_manager._CONNECTION_MANAGER = self.cm  # pylint: disable=protected-access
        # a real BatteryManager without its constructor's streaming machinery: the maps come from
        # the real _get_battery_inverter_mappings over a real component graph
        maps = bm._get_battery_inverter_mappings(set(self.all_bats))  # pylint: disable=protected-access
        m = object.__new__(bm.BatteryManager)
        self.sender = _Sender()
        m._results_sender = self.sender
        m._api_power_request_timeout = timedelta(seconds=5.0)
        m._battery_ids = set(self.all_bats)
        m._bat_invs_map, m._inv_bats_map = maps["bat_invs"], maps["inv_bats"]
        m._bat_bats_map, m._inv_invs_map = maps["bat_bats"], maps["inv_invs"]
        m._battery_caches = {b: _Cache() for b in self.all_bats}
        m._inverter_caches = {i: _Cache() for invs in self.inv_ids for i in invs}
        self.tracker = _Tracker()
        m._component_pool_status_tracker = self.tracker
        m._power_distributor_exponent = 1.0
        m._distribution_algorithm = BatteryDistributionAlgorithm(1.0)
        self.mgr = m
        self.calc = PowerBoundsCalculator(set(self.all_bats))
        self.algos: dict = {}
        self.loop = asyncio.new_event_loop()

    def activate(self) -> None:
        self.connection_manager._CONNECTION_MANAGER = self.cm  # pylint: disable=protected-access
        self.tracker.status = None

    # -- data -----------------------------------------------------------------
    def build(self, groups: list) -> list:
        """Real BatteryData / InverterData for the groups, also loaded into the manager's caches."""
        nan = math.nan
        pairs = []
        u = float(UNITW)
        for g, grp in enumerate(groups):
            bats = []
            for k, b in enumerate(grp["bats"]):
                il, el, eu, iu = b["b"]
                bd = self.BatteryData(
                    component_id=self.bat_ids[g][k], timestamp=self.ts, soc=10.0 * b["soc"], soc_lower_bound=10.0 * b["slo"],
                    soc_upper_bound=10.0 * b["shi"], capacity=1000.0 * b["cap"], power_inclusion_lower_bound=il * u,
                    power_exclusion_lower_bound=el * u, power_inclusion_upper_bound=iu * u, power_exclusion_upper_bound=eu * u,
                    temperature=nan, relay_state=self.brs, component_state=self.bcs, errors=[],
                )
                self.mgr._battery_caches[bd.component_id].v = bd
                bats.append(bd)
            invs = []
            for j, (il, el, eu, iu) in enumerate(grp["invs"]):
                idt = self.InverterData(
                    component_id=self.inv_ids[g][j], timestamp=self.ts, active_power=nan, active_power_per_phase=(nan, nan, nan),
                    current_per_phase=(nan, nan, nan), voltage_per_phase=(nan, nan, nan), active_power_inclusion_lower_bound=il * u,
                    active_power_exclusion_lower_bound=el * u, active_power_inclusion_upper_bound=iu * u,
                    active_power_exclusion_upper_bound=eu * u, reactive_power=nan, reactive_power_per_phase=(nan, nan, nan),
                    frequency=50.0, component_state=self.ics, errors=[],
                )
                self.mgr._inverter_caches[idt.component_id].v = idt
                invs.append(idt)
            pairs.append(self.Pair(self.Agg(bats), invs))
        return pairs

    def by_group(self, dist: dict) -> list:
        return [[fpw(dist.get(i, 0.0)) for i in invs] for invs in self.inv_ids]

    def algo(self, e: int):
        if e not in self.algos:
            self.algos[e] = self.Algo(float(e))
        return self.algos[e]

    # -- C01 / C02 ----------------------------------------------------------------
    def run_dist(self, case: dict) -> dict:
        groups, p, e = case["g"], case["p"], case["e"]
        pairs = self.build(groups)
        watts = float(p * UNITW)
        res = self.algo(e).distribute_power(watts, pairs)
        rec = dict(id=case["id"], kind="dist", g=groups, p=p, e=e, d=self.by_group(res.distribution), rem=fpw(res.remaining_power))
        if e != 1:
            rec["m"] = dict(has=False)
            return rec
        # the same request through the real BatteryManager
        mgr = self.mgr
        mpairs = mgr._get_components_data(self.all_bats)
        order = [self.group_of_bat[pr.battery.component_id] + 1 for pr in mpairs]
        mres = mgr._distribution_algorithm.distribute_power(watts, mpairs)
        adv_iu = sum(min(sum(b["b"][3] for b in g["bats"]), sum(i[3] for i in g["invs"])) for g in groups)
        adv_il = sum(max(sum(b["b"][0] for b in g["bats"]), sum(i[0] for i in g["invs"])) for g in groups)
        adjust = bool(p > adv_iu or p < adv_il or case["id"] % 2 == 1)
        self.api.calls.clear()
        self.sender.items.clear()
        req = self.Request(power=self.Power.from_watts(watts), component_ids=self.all_bats, adjust_power=adjust)
        self.loop.run_until_complete(mgr.distribute_power(req))
        if len(self.sender.items) != 1:
            raise MachineryError(f"BatteryManager sent {len(self.sender.items)} results for one request")
        result = self.sender.items[0]
        kind = type(result).__name__
        m = dict(has=True, kind=kind, adj=adjust, ord=order, calls=self.by_group(self.api.calls), succ=0, exc=0,
                 md=self.by_group(mres.distribution), mrem=fpw(mres.remaining_power))
        if kind in ("Success", "PartialFailure"):
            m["succ"] = fpw(result.succeeded_power.as_watts())
            m["exc"] = fpw(result.excess_power.as_watts())
        rec["m"] = m
        return rec

    # -- C02: requests the advertised bounds do not admit ------------------------------
    def run_reject(self, case: dict) -> dict:
        groups, p = case["g"], case["p"]
        self.build(groups)
        watts = float(p * UNITW)
        runs = []
        for adjust in (True, False):
            self.api.calls.clear()
            self.sender.items.clear()
            req = self.Request(power=self.Power.from_watts(watts), component_ids=self.all_bats, adjust_power=adjust)
            self.loop.run_until_complete(self.mgr.distribute_power(req))
            if len(self.sender.items) != 1:
                raise MachineryError(f"BatteryManager sent {len(self.sender.items)} results for one request")
            runs.append(dict(adj=adjust, kind=type(self.sender.items[0]).__name__, calls=self.by_group(self.api.calls)))
        return dict(id=case["id"], kind="reject", g=groups, p=p, e=case["e"], r=runs)

    # -- C17 ------------------------------------------------------------------------
    def run_bounds(self, case: dict) -> dict:
        groups = case["g"]
        self.build(groups)
        mgr = self.mgr
        M = self.MID
        ids = lambda what: {self.bat_ids[g][k] for g, ws in enumerate(case["bs"]) for k, x in enumerate(ws) if x == what}  # noqa: E731
        status = self.PoolStatus(working=ids("w"), uncertain=ids("u"))
        self.tracker.status = status
        # the battery pool's working set: the same rule over ALL batteries of the pool (_battery_pool_reference_store)
        working = status.get_working_components(set(self.all_bats))
        metrics = {}
        for c in mgr._battery_caches.values():
            b = c.v
            metrics[b.component_id] = self.CMD(b.component_id, self.ts, {
                M.POWER_INCLUSION_LOWER_BOUND: b.power_inclusion_lower_bound, M.POWER_EXCLUSION_LOWER_BOUND: b.power_exclusion_lower_bound,
                M.POWER_EXCLUSION_UPPER_BOUND: b.power_exclusion_upper_bound, M.POWER_INCLUSION_UPPER_BOUND: b.power_inclusion_upper_bound})
        for c in mgr._inverter_caches.values():
            i = c.v
            metrics[i.component_id] = self.CMD(i.component_id, self.ts, {
                M.ACTIVE_POWER_INCLUSION_LOWER_BOUND: i.active_power_inclusion_lower_bound,
                M.ACTIVE_POWER_EXCLUSION_LOWER_BOUND: i.active_power_exclusion_lower_bound,
                M.ACTIVE_POWER_EXCLUSION_UPPER_BOUND: i.active_power_exclusion_upper_bound,
                M.ACTIVE_POWER_INCLUSION_UPPER_BOUND: i.active_power_inclusion_upper_bound})
        sb = self.calc.calculate(metrics, set(working))
        if sb.inclusion_bounds is None or sb.exclusion_bounds is None:
            raise MachineryError("PowerBoundsCalculator returned no bounds for complete data")
        adv = [fpw(sb.inclusion_bounds.lower.as_watts()), fpw(sb.exclusion_bounds.lower.as_watts()),
               fpw(sb.exclusion_bounds.upper.as_watts()), fpw(sb.inclusion_bounds.upper.as_watts())]
        mpairs = mgr._get_components_data(self.all_bats)
        eb = mgr._get_bounds(mpairs)
        enf = [fpw(eb.inclusion_lower), fpw(eb.exclusion_lower), fpw(eb.exclusion_upper), fpw(eb.inclusion_upper)]
        hps = sorted(case["hp"])
        acc_a, acc_n, cont = [], [], []
        for hp in hps:
            pw = self.Power.from_watts(hp * UNITW / 2.0)
            for adjust, out in ((True, acc_a), (False, acc_n)):
                r = mgr._check_request(self.Request(power=pw, component_ids=self.all_bats, adjust_power=adjust), mpairs)
                if r is not None and not isinstance(r, self.OutOfBounds):
                    raise MachineryError(f"_check_request returned {r!r}")
                out.append(r is None)
            cont.append(bool(pw in sb))
        algo = self.algo(1)
        mps = []
        for supply in (False, True):
            _, excl = algo._inclusion_exclusion_bounds(mpairs, supply=supply)
            ratios, _ = algo._compute_battery_availability_ratio(mpairs, {pr.battery.component_id: 1.0 for pr in mpairs}, excl)
            mps.append(fpw(sum(r.min_power for r in ratios)))
        self.tracker.status = None
        return dict(id=case["id"], kind="bounds", g=groups, bs=case["bs"], hp=hps, adv=adv, enf=enf, accA=acc_a, accN=acc_n, cont=cont, mpC=mps[0], mpS=mps[1])


_STAGEFILES: list = []  # (cases file, number of lines, kind, stage name); set before the workers are forked


def _iter_cases(lo: int, hi: int):
    """The emitted cases with global index lo <= i < hi (ids are index + 1), streamed from the stage files."""
    base = 0
    for path, n, kind, name in _STAGEFILES:
        a, b = max(lo, base), min(hi, base + n)
        if a < b:
            with open(path) as fh:
                for k, line in enumerate(fh):
                    i = base + k
                    if i < a:
                        continue
                    if i >= b:
                        break
                    v = json.loads(line)
                    if isinstance(v, str):
                        v = json.loads(v)
                    yield i + 1, kind, name, v
        base += n


def _worker(chunk, out_path):
    from .common import use_repo

    use_repo()
    rigs: dict = {}
    meta: dict = {}
    with open(out_path, "w") as f:
        for cid, kind, name, c in _iter_cases(chunk[0], chunk[-1] + 1):
            mt = meta.setdefault(name, dict(n=0, az=0, devs={}, partial=0, multi=0, early=0))
            mt["n"] += 1
            mt["early"] += 1 if c.pop("el", False) else 0
            mt["az"] += 1 if c.pop("az", False) else 0
            npart = c.pop("np", 0) or 0
            mt["partial"] += 1 if npart >= 1 else 0
            mt["multi"] += 1 if npart >= 2 else 0
            for dn in c.pop("dev", []) or []:
                mt["devs"][dn] = mt["devs"].get(dn, 0) + 1
            c.update(id=cid, kind=kind, st=name)
            shape = tuple((len(g["bats"]), len(g["invs"])) for g in c["g"])
            rig = rigs.get(shape)
            if rig is None:
                rig = rigs[shape] = Rig(shape)
            rig.activate()
            rec = rig.run_dist(c) if kind == "dist" else rig.run_reject(c) if kind == "reject" else rig.run_bounds(c)
            rec["st"] = name
            f.write(json.dumps(rec, separators=(",", ":")) + "\n")
    Path(str(out_path) + ".meta").write_text(json.dumps(meta))


# ---------------------------------------------------------------------------
def _jsonable(consts: dict) -> dict:
    return {k: (sorted(v) if isinstance(v, (set, frozenset)) else v) for k, v in consts.items()}


def _exercised(workdir: Path, shards: list) -> dict:
    tot: dict = {}
    for p in shards:
        vf = workdir / f"verdict_{p.stem}.ndjson"
        for v in read_emitted(vf):
            if v.get("done"):
                for k, n in (v.get("ex") or {}).items():
                    tot[k] = tot.get(k, 0) + int(n)
    return tot


def _mc_run(prop: str, name: str, consts: dict, work: Path, workers: int):
    """MC+GEN for one scope (no side effects on the report): model-check the invariants; the emitted
    cases stay in the stage's file."""
    d = work / name
    d.mkdir(parents=True, exist_ok=True)
    mode = consts["Mode"]
    cases_file = d / "cases.ndjson"
    inv = list(DESIGN_INV)
    if mode == "bounds":
        inv += CLAUSE_INV["C17"][:3]
    elif mode == "reject":
        inv += CLAUSE_INV["C17"][:3] + ["NonAdmittedInv"]
    elif prop == "C17":
        inv += CLAUSE_INV["C01"] + CLAUSE_INV["C02"] + CLAUSE_INV["C17"]
    else:  # C01 and C02 share the distribution stages; the domain sanity invariant of C17 comes along
        inv += CLAUSE_INV["C01"] + CLAUSE_INV["C02"] + ["AdmittedIsAcceptedInv"]
    res = run_tlc("BatteryPower", d, constants=consts, invariants=inv, env={"OUT_FILE": str(cases_file)}, timeout=12000, heap="3g", workers=workers)
    return res, inv, cases_file


def _mc_all(rep: Report, prop: str, stages: list, work: Path) -> None:
    """Model-check all stages, a few TLC runs at a time (JVM start-up dominates the small stages);
    results are entered into the report in stage order."""
    import concurrent.futures as cf

    par = 3 if len(stages) > 2 else 1
    with cf.ThreadPoolExecutor(max_workers=par) as ex:
        futs = [ex.submit(_mc_run, prop, name, consts, work, max(4, NCPU // par)) for name, consts in stages]
        results = [f.result() for f in futs]
    for (name, consts), (res, inv, cases_file) in zip(stages, results):
        mode = consts["Mode"]
        rep.add_mc(name, res, _jsonable(consts), inv, mode="exhaustive")
        if not res.ok:
            mine = [v for v in res.violated if v in CLAUSE_INV[prop] or v in DESIGN_INV or v in ("initial", "ASSUME", "AdmittedIsAcceptedInv", "NonAdmittedInv")]
            if mine:
                rep.fail(f"{prop}.MC.{'/'.join(res.violated)}", dict(stage=name, constants=_jsonable(consts)), res.counterexample[:3000])
                continue
            raise MachineryError(f"model checking stopped on an invariant of another property: {res.violated}\n{res.counterexample[:1500]}")
        n = 0
        if cases_file.exists():
            with open(cases_file, "rb") as fh:
                n = sum(1 for _ in fh)
        if n == 0:
            raise MachineryError(f"stage {name}: TLC emitted no case")
        _STAGEFILES.append((cases_file, n, mode, name))


def _run_val(rep: Report, prop: str, work: Path, consts: dict) -> None:
    """RUN + VAL for the cases of all stages together (one set of validator JVMs)."""
    d = work / "replay"
    d.mkdir(parents=True, exist_ok=True)
    tm = Timer()
    total = sum(n for _, n, _, _ in _STAGEFILES)
    # few cases: fewer shards (every validator JVM costs a few CPU-seconds to start)
    shards = replay_parallel(_worker, list(range(total)), d, nproc=max(1, min(NCPU, total // 2500)))
    run_s = tm.s()
    # action coverage without TLC's (slow) -coverage: a case is emitted by Install ("bounds") or by
    # Report ("dist"), which is only reachable through Install, Prepare, then either AllZero or
    # Reserve..Split; "az" says which branch the input took
    meta: dict = {}
    all_taken: dict = {}
    for p in shards:
        for name, mt in json.loads(Path(str(p) + ".meta").read_text()).items():
            acc = meta.setdefault(name, dict(n=0, az=0, devs={}, partial=0, multi=0, early=0))
            acc["early"] += mt.get("early", 0)
            acc["n"] += mt["n"]
            acc["az"] += mt["az"]
            acc["partial"] += mt.get("partial", 0)
            acc["multi"] += mt.get("multi", 0)
            for k, v in mt["devs"].items():
                acc["devs"][k] = acc["devs"].get(k, 0) + v
    for (path, n, kind, name), mcrec in zip(_STAGEFILES, [m for m in rep.mc if m["run"] in {s[3] for s in _STAGEFILES}]):
        mt = meta.get(name, dict(n=0, az=0, devs={}, partial=0, multi=0, early=0))
        if mt["n"] != n:
            raise MachineryError(f"stage {name}: {n} cases emitted, {mt['n']} replayed")
        if kind == "dist":
            taken = dict(Install=n, Prepare=n, AllZero=mt["az"], Report=n)
            taken.update({a: n - mt["az"] for a in ("Reserve", "Cover", "AddExcess", "Greedy", "Split")})
        else:
            taken = dict(Install=n)
        mcrec["actions"] = taken
        for a, k in taken.items():
            all_taken[a] = all_taken.get(a, 0) + k
        rep.extra.setdefault("stages", []).append(
            dict(stage=name, inputs_enumerated=n, cases_replayed=mt["n"], model_inputs_with_named_cause=mt["devs"],
                 cover_partial_branch=mt["partial"], cover_multi_donor=mt["multi"], mc_wall_s=mcrec["wall_s"])
        )
    for a, k in all_taken.items():  # every action of the specification taken in some stage of this run
        if not k:
            raise MachineryError(f"vacuity: action {a} never taken ({all_taken})")
    fails, done, st = validate_shards("BatteryPowerTrace", shards, d, constants=dict(consts, Mode="trace"), timeout=12000, heap="1500m")
    rep.validated += done
    rep.extra["exercised"] = _exercised(d, shards)
    # inputs on which the deficit loop of the transcription took the partial-cover branch (once / from >= 2 donors)
    rep.extra["exercised"]["cover_partial_branch"] = sum(mt["partial"] for mt in meta.values())
    rep.extra["exercised"]["cover_multi_donor"] = sum(mt["multi"] for mt in meta.values())
    # inputs where a multi-inverter set that is not the last of the distribution left power unplaced
    rep.extra["exercised"]["split_unplaced_not_last_set"] = sum(mt.get("early", 0) for mt in meta.values())
    rep.extra["run_wall_s"] = run_s
    rep.extra["val_wall_s"] = st["wall_s"]
    # full records only for the first few failures of each (clause, deviations) class
    want_ids: set = set()
    seen_key: dict = {}
    for v in fails:
        if v["clause"].startswith(prop + "."):
            k = (v["clause"], tuple(sorted(v.get("deviations", []))))
            seen_key[k] = seen_key.get(k, 0) + 1
            if seen_key[k] <= 5:
                want_ids.add(v["tid"])
    byid = {}
    kinds = {s[2] for s in _STAGEFILES}
    for p in shards:
        if not kinds and not want_ids:
            break
        with open(p) as fh:
            for line in fh:
                if not kinds and not want_ids:
                    break
                r_ = json.loads(line)
                if r_["kind"] in kinds:
                    kinds.discard(r_["kind"])
                    rep.samples.append(r_)
                if r_["id"] in want_ids:
                    want_ids.discard(r_["id"])
                    byid[r_["id"]] = r_
    drift = rep.extra.setdefault("disagreements", {})
    firing: dict = {}
    for v in fails:
        cl = v["clause"]
        if cl.startswith("DRIFT."):
            drift[cl] = drift.get(cl, 0) + 1
            ds = rep.extra.setdefault("disagreement_samples", [])
            if len(ds) < 5:
                ds.append(dict(clause=cl, detail=v["detail"], deviations=v.get("deviations", [])))
            continue
        if cl.startswith("OBS."):
            obs = rep.extra.setdefault("observations", {})
            obs[cl] = obs.get(cl, 0) + 1
            osm = rep.extra.setdefault("observation_samples", [])
            if len(osm) < 3:
                osm.append(dict(clause=cl, detail=v["detail"]))
            continue
        if not cl.startswith(prop + "."):
            continue
        r_ = byid.get(v["tid"])
        key = cl + " <- " + "+".join(sorted(v.get("deviations", []))) + ("" if v["detail"].get("agree", True) else " (code differs from transcription)")
        firing[key] = firing.get(key, 0) + 1
        rep.fail(cl, dict(stage=(r_ or {}).get("st"), record=r_), v["detail"], deviations=v.get("deviations", []))
    rep.extra["failing_clause_by_deviation"] = firing


# antecedents that must have been exercised at least once (vacuity guard), per property
NEEDED = {
    "C01": ["nonzero_setpoint", "remainder", "supply", "beyond_incl", "multi_inverter", "multi_battery", "manager",
            "cover_partial_branch", "cover_multi_donor", "third_inverter_powered", "split_unplaced_not_last_set"],
    "C02": ["zero_headroom_among_three_with_excl", "hetero_group_at_soc_limit", "nonzero_setpoint", "noheadroom", "allnoheadroom", "at_excl", "at_incl", "multi_inverter", "multi_battery",
            "cover_partial_branch", "cover_multi_donor", "third_inverter_powered", "not_advertised", "inside_enforced_zone", "beyond_incl_noadjust",
            "rejected_runs"],
    "C17": ["probes", "in_advertised", "contains", "rejected", "excl_differs", "manager", "multi_inverter", "multi_battery",
            "partially_working", "group_not_working", "set_working_other_only_uncertain", "fallback_all_uncertain"],
}


def run(prop: str, tier: str) -> int:
    tm = Timer()
    rep = Report(prop, tier)
    sc = SCOPES[tier]
    work = scratch(f"{prop}_{tier}" + os.environ.get("VERIF_SCRATCH_TAG", ""))  # tag: parallel self-test runs
    rep.assumptions = [
        f"powers on an integer grid of {UNITW} W units, SoC on a grid of 10 %; exact rationals in the specification, "
        "implementation floats compared as fixed-point numbers with tolerance 1e-6 unit",
        "distribution exponents 0, 1, 2 only (non-integer exponents cannot be transcribed exactly)",
        "requests admitted by the advertised bounds (|p| >= advertised exclusion bound, may exceed the inclusion bound), consistent data",
        "BatteryManager is driven without its constructor (no status tracker / streaming): real component graph and mappings, "
        "real _get_components_data / _check_request / _get_power_distribution / _distribute_power / _set_distributed_power with a fake API client",
        "inverter ids are chosen so that the frozenset iteration order equals the index order; both orders of unequal inverters are enumerated",
    ]
    stages = (sc["bounds"] + sc["admit"]) if prop == "C17" else (sc["dist"] + sc["reject"]) if prop == "C02" else sc["dist"]
    _STAGEFILES.clear()
    _mc_all(rep, prop, stages, work)
    if not rep.failures:
        _run_val(rep, prop, work, stages[0][1])
        ex = rep.extra.get("exercised", {})
        missing = [k for k in NEEDED[prop] if not ex.get(k)]
        if missing:
            raise MachineryError(f"vacuity: antecedents never exercised for {prop}: {missing} ({ex})")
    rep.extra["disagreements_total"] = sum(rep.extra.get("disagreements", {}).values())
    return rep.finish(tm.s())


def replay(prop: str, data: dict) -> int:
    """./check <prop> --replay <file>: push the recorded input through the real code again and let TLC
    judge it (1 = a clause of `prop` is false and no known finding explains it)."""
    from .verdict import load_known

    rec = (data.get("case") or {}).get("record")
    if not rec:
        print(json.dumps(data, indent=1)[:4000])
        return 0
    work = scratch(f"{prop}_replay")
    case = {k: rec[k] for k in ("g", "p", "e", "hp", "bs") if k in rec}  # kind "dist", "reject" or "bounds"
    path = work / "cases.ndjson"
    path.write_text(json.dumps(case) + "\n")
    _STAGEFILES[:] = [(path, 1, rec["kind"], "replay")]
    rep = Report(prop, "replay")
    _run_val(rep, prop, work, SCOPES["quick"]["dist"][0][1])
    known = [k for k in load_known() if k["property"] == prop]
    bad = 0
    for f in rep.failures:
        kf = next((k["id"] for k in known if k["clause"] == f["clause"] and k.get("deviation") in f["deviations"]), None)
        print(("KNOWN-FINDING " + kf) if kf else "VIOLATION", f["clause"], f["deviations"], json.dumps(f["detail"])[:400])
        bad += 0 if kf else 1
    if not rep.failures:
        print(f"no clause of {prop} is false on this input")
    return 1 if bad else 0
