"""X05: unbounded safety by inductive invariants (Apalache), complementing TLC's bounded checks.

`tools/run_apalache.sh` discharges, for specs/apalache/MC_PowerDistributorInd.tla (C14 slots) and
specs/apalache/MC_BlockingInd.tla (C16 back-off):

    Initiation    Init => IndInv
    Consecution   IndInv /\\ Next => IndInv'
    Safety        IndInv => Safety            (the C14 / C16 clauses)
    StepSafety    IndInv /\\ Next => StepSafety (one-step form of the action clauses)

runs negative controls (Apalache must find a violation) and lets TLC check the same IndInv on
small constants, including that the typed re-statement has the same state graph as
specs/PowerDistributor.tla.  This module only calls the script, parses its lines and writes
evidence/X05.json (level "proof").  No property is decided in Python.

Exit: 0 all obligations/controls/cross-checks OK; 1 an obligation or cross-check FAILED (a
counterexample to induction or a reachable state violating IndInv: see the log named in the
output); machinery failure (TIMEOUT, failed negative control, script crash, missing line)
raises -> exit 2.
"""

from __future__ import annotations

import json
import re
import subprocess
import time

from .common import EVIDENCE, OUT, SEED, VERIF
from .tlc import MachineryError

SCRIPT = VERIF / "tools" / "run_apalache.sh"
APA_OUT = OUT / "apalache"

TRUSTED_BASE = [
    "Apalache 0.58.0 (SMT: z3)",
    "the typed re-statement of the actions equals PowerDistributor.tla (cross-checked by TLC on small constants)",
    "MC_BlockingInd.tla models BlockingStatus.block/unblock/is_blocked of _blocking_status.py with integer time; "
    "its Block/Unblock/BackoffDur operators are those of BatteryStatus.tla, which C16 validates against the real code",
    "the induction principle (Initiation + Consecution => invariant of every reachable state) and the soundness of "
    "Apalache's Gen(n) as 'any value of the declared type'",
    "Pow2 table = 2^e for e <= 7 and the exponent clamp at 7 under MaxBlock <= 64 * MinBlock "
    "(PowTableOK, evaluated by TLC against the built-in ^ for min <= 64, n <= 24)",
]

EXPECTED_OBLIGATIONS = {
    ("MC_PowerDistributorInd", "Initiation"),
    ("MC_PowerDistributorInd", "Consecution"),
    ("MC_PowerDistributorInd", "Safety"),
    ("MC_PowerDistributorInd", "StepSafety"),
    ("MC_BlockingInd", "Initiation"),
    ("MC_BlockingInd", "Consecution"),
    ("MC_BlockingInd", "Safety"),
    ("MC_BlockingInd", "StepSafety"),
    ("MC_BlockingInd", "LinInitiation"),
    ("MC_BlockingInd", "LinConsecution"),
    ("MC_BlockingInd", "LinSafety"),
}

LINE = re.compile(
    r"^(OBLIGATION|CONTROL|CROSSCHECK) (\w+) (\w+) (OK|FAIL|TIMEOUT) ([0-9.]+)(?: generated=(\d+) distinct=(\d+))?$"
)


def _cmd_of(mod: str, name: str) -> str:
    log = APA_OUT / "logs" / f"{mod}.{name}.log"
    try:
        first = log.read_text().splitlines()[0]
    except (OSError, IndexError):
        return ""
    return first[5:] if first.startswith("CMD: ") else ""


def run(prop: str, tier: str) -> int:
    if prop != "X05":
        raise MachineryError(f"p_apalache serves X05 only, not {prop}")
    t0 = time.time()
    # 34 items, each under `timeout 900`, four at a time
    try:
        pr = subprocess.run(
            [str(SCRIPT), tier], cwd=str(VERIF), capture_output=True, text=True, timeout=900 * 12
        )
    except subprocess.TimeoutExpired as ex:
        raise MachineryError(f"{SCRIPT} did not finish") from ex
    APA_OUT.mkdir(parents=True, exist_ok=True)
    (APA_OUT / "run_apalache.stdout").write_text(pr.stdout)
    (APA_OUT / "run_apalache.stderr").write_text(pr.stderr)

    items: list[dict] = []
    params: dict[str, str] = {}
    for line in pr.stdout.splitlines():
        if line.startswith("PARAM "):
            _, mod, name, value = line.split(" ", 3)
            params[f"{mod}.{name}"] = value
            continue
        m = LINE.match(line.strip())
        if not m:
            continue
        kind, mod, name, st, secs, gen, dis = m.groups()
        it = dict(kind=kind, module=mod, name=name, status=st, seconds=float(secs))
        if gen is not None:
            it["generated"], it["distinct"] = int(gen), int(dis)
        if kind != "CROSSCHECK":
            it["cmd"] = _cmd_of(mod, name)
            it["log"] = str(APA_OUT / "logs" / f"{mod}.{name}.log")
        else:
            it["log"] = str(APA_OUT / "tlc" / f"{mod}.{name}" / "XC.out")
        items.append(it)
        print(line)

    obligations = [i for i in items if i["kind"] == "OBLIGATION"]
    controls = [i for i in items if i["kind"] == "CONTROL"]
    cross = [i for i in items if i["kind"] == "CROSSCHECK"]
    got = {(i["module"], i["name"]) for i in obligations}
    if got != EXPECTED_OBLIGATIONS:
        raise MachineryError(
            f"run_apalache.sh (rc={pr.returncode}) did not report the expected obligations: "
            f"missing {sorted(EXPECTED_OBLIGATIONS - got)} extra {sorted(got - EXPECTED_OBLIGATIONS)}\n"
            f"{pr.stdout[-1500:]}\n{pr.stderr[-1500:]}"
        )
    if not controls or not cross:
        raise MachineryError("run_apalache.sh reported no controls / cross-checks")

    discharged = [i for i in obligations if i["status"] == "OK"]
    failed = [i for i in items if i["status"] == "FAIL"]
    timeouts = [i for i in items if i["status"] == "TIMEOUT"]
    k = params.get("MC_PowerDistributorInd.K", "?")
    wall = round(time.time() - t0, 2)

    ev = dict(
        property_id="X05",
        tier=tier,
        seed=SEED,
        level="proof",
        coverage=dict(
            obligations=len(obligations),
            discharged=len(discharged),
            checker_cmd=(
                f"tools/run_apalache.sh {tier}  # per obligation: timeout 900 apalache-mc check "
                "--out-dir=/verif/out/apalache/runs/<module>.<name> --cinit=<CInit|CInitLin> "
                "--init=<Init|IndInit|LinInit> --inv=<IndInv|Safety|StepSafety|LinInv|LinSafety> "
                "--length=<0|1> specs/apalache/<module>.tla"
            ),
            trusted_base=TRUSTED_BASE,
            samples=obligations,
            negative_controls=dict(
                total=len(controls),
                ok=sum(1 for i in controls if i["status"] == "OK"),
                what="Apalache must report a violation: IndInit satisfiable, every action enabled in some "
                "IndInv state, rich states (full channel, pending request, 3 groups, nsent > 1000 / nf > 1000) "
                "exist, a weakened invariant is rejected as non-inductive",
                items=controls,
            ),
            tlc_crosschecks=dict(
                total=len(cross),
                ok=sum(1 for i in cross if i["status"] == "OK"),
                what="TLC, small constants: the same IndInv/Safety/StepSafety hold in all reachable states; "
                "PowerDistributor.tla refines the typed re-statement, action by action equivalence on every "
                "reachable transition, identical generated/distinct state counts",
                items=cross,
            ),
            unbounded=[
                "MC_PowerDistributorInd: MaxReq \\in Nat (number of requests, request ids, nsent, length of the "
                "behaviour); Groups \\in {1..2, 1..3}",
                "MC_BlockingInd: time, number of block()/unblock() calls, failure count nf; "
                "1 <= MinBlock <= MaxBlock <= 64 * MinBlock symbolic (LinInv clauses: no upper bound on MaxBlock)",
            ],
            bounded=[
                f"MC_PowerDistributorInd Consecution/StepSafety: pre-state channel occupancy Len(chan) <= K = {k} "
                "(Apalache has no unbounded sequences; Send is unguarded, the post-state may hold K + 1). IndInv "
                "therefore holds in every reachable state before which the channel never held more than K "
                "unreceived requests; the channel clauses themselves are quantified over positions, not over K",
                "MC_PowerDistributorInd: 2 or 3 component groups",
                "MC_BlockingInd: the clause dur = min(2^(nf-1) * min, max) needs MaxBlock <= 64 * MinBlock "
                "(power table up to 2^7)",
            ],
            params=params,
            failed=[f"{i['kind']} {i['module']} {i['name']}" for i in failed],
            timeouts=[f"{i['kind']} {i['module']} {i['name']}" for i in timeouts],
            exhaustive=False,
        ),
        assumptions=[
            "design-level result: it concerns the specifications (PowerDistributor.tla slots, BlockingStatus "
            "back-off); conformance of the code to these specifications is what C14 / C16 check by trace validation",
            "Apalache's integers are mathematical integers; Python timedelta/datetime arithmetic is modelled "
            "as exact integer time",
        ],
        wall_s=wall,
        violations=len(failed),
    )
    EVIDENCE.mkdir(exist_ok=True)
    (EVIDENCE / "X05.json").write_text(json.dumps(ev, indent=1, default=str) + "\n")
    print(
        f"X05 {tier}: obligations={len(obligations)} discharged={len(discharged)} "
        f"controls={ev['coverage']['negative_controls']['ok']}/{len(controls)} "
        f"tlc_crosschecks={ev['coverage']['tlc_crosschecks']['ok']}/{len(cross)} K={k} wall={wall}s"
    )
    if timeouts:
        raise MachineryError("timeout in: " + ", ".join(f"{i['module']}.{i['name']}" for i in timeouts))
    bad_controls = [i for i in failed if i["kind"] == "CONTROL"]
    if bad_controls:
        raise MachineryError(
            "negative control not violated (vacuous IndInit or disabled action?): "
            + ", ".join(f"{i['module']}.{i['name']}" for i in bad_controls)
        )
    for i in failed:
        print(f"VIOLATION property=X05 replay={i['log']}")
        print(f"  clause=X05.{i['module']}.{i['name']} ({i['kind']})")
    if failed:
        return 1
    if pr.returncode != 0:
        raise MachineryError(f"run_apalache.sh exited {pr.returncode} although every line is OK\n{pr.stderr[-1500:]}")
    return 0
