"""C09: RingBuffer.tla model checking, replay into OrderedRingBuffer / MovingWindow, trace validation.

MC+GEN  TLC checks the refinement / gap / count / window / point invariants of RingBuffer.tla over
        every update history in scope and emits one history per explored transition (exhaustive
        stages) or finished random histories (-simulate stages).
RUN     each history is replayed into three real objects -- OrderedRingBuffer over a list,
        OrderedRingBuffer over a numpy array, and a MovingWindow (numpy, constructed without a
        running loop; its ring buffer is fed synchronously the way MovingWindow._run_impl does) --
        and after the last update (every update in the simulate stages) the projection of each
        object, the acceptance of the update, and a fixed battery of window / point queries are
        recorded.  A pickled and reloaded copy (serialization.dump / load) is projected as well.
VAL     RingBufferTrace re-executes the updates and evaluates every C09 clause on the recorded
        answers.  Python only drives, converts floats to small integer codes, removes duplicate
        answers of the three objects, and counts.

The transcription in RingBuffer.tla is the repaired design (repo commits 4b946d2, 67229ac).  No
deviation is tolerated; a wrong answer that is exactly what the design before those commits would
have returned carries the name of the old defect (Dev_*) in `deviations` and in the detail.
"note.*" verdict lines are not property clauses and go to evidence `disagreements`.
"""

from __future__ import annotations

import json
import os
from datetime import datetime, timedelta, timezone
from pathlib import Path

from .common import SEED, Timer, scratch
from .pipeline import load_ndjson, replay_parallel, subsample, validate_shards
from .tlc import read_emitted, run_tlc
from .verdict import Report

NONE = -99
ERR = -98  # IndexError
EXC = -96  # any other exception
TMIN = -100000
TMAX = 100000
FILLV = -7.0
INITV = 5.0

MC_INV = [
    "Refinement", "GapsSortedDisjoint", "GapsExact", "GapsCanonical", "CountValid", "CountCovered",
    "OldestNewest", "RejectsOld", "WindowIndexOK", "WindowDatetimeOK", "SpanOK", "PointOK",
    "OldWindowExplained", "OldPointExplained",
]


def _consts(cap: int, r: int, align: int, depth: int) -> dict:
    jump = 2 * cap * r  # updates anywhere within +-2 capacities of the newest slot
    return dict(Cap=cap, R=r, Align=align, Start=align + jump + 2 * r, Span=jump, Jump=jump, MaxDepth=depth)


# (name, constants, mode, replay limit, simulate histories)
SCOPES = {
    "quick": [
        ("cap3", _consts(3, 2, 0, 4), "history", 640, None),
        ("cap2", _consts(2, 2, 1, 3), "history", 160, None),
        ("cap1", _consts(1, 2, 0, 3), "history", 48, None),
        ("sim", _consts(3, 2, 0, 7), "sim", None, 32),
    ],
    "thorough": [
        ("cap3", _consts(3, 2, 0, 5), "history", 8000, None),
        ("cap4r4", _consts(4, 4, 0, 3), "history", 1200, None),
        ("cap2r3", _consts(2, 3, 2, 4), "history", 1500, None),
        ("cap2", _consts(2, 2, 1, 5), "history", 1500, None),
        ("cap1", _consts(1, 2, 0, 4), "history", 300, None),
        ("sim", _consts(4, 4, 1, 7), "sim", None, 64),
        ("sim3", _consts(3, 2, 0, 9), "sim", None, 192),
    ],
}

EPOCH = datetime(1970, 1, 1, tzinfo=timezone.utc)


def T(tick: int) -> datetime:
    """Model tick -> datetime (one tick = one second, so every instant is exact)."""
    return EPOCH + timedelta(seconds=tick)


def tick_of(ts) -> int:
    if ts is None:
        return NONE
    if ts.year <= 1:
        return TMIN
    if ts.year >= 9999:
        return TMAX
    d = ts - EPOCH
    s = d.total_seconds()
    return int(s) if float(s).is_integer() else 77777


def code(x) -> int:
    x = float(x)
    if x != x:
        return 0
    if x in (1.0, 2.0, INITV, FILLV):
        return int(x)
    return 99


# ---------------------------------------------------------------------------
# real-code side
class Real:
    """The three real objects driven along one history."""

    def __init__(self, cfg: dict) -> None:
        import numpy as np
        from frequenz.channels import Broadcast
        from frequenz.quantities import Quantity

        from frequenz.sdk.timeseries import MovingWindow, Sample
        from frequenz.sdk.timeseries._ringbuffer import OrderedRingBuffer
        from frequenz.sdk.timeseries._ringbuffer import serialization

        self.cap, self.r, self.align = cfg["Cap"], cfg["R"], cfg["Align"]
        self.Sample, self.Quantity, self.ser, self.np = Sample, Quantity, serialization, np
        period = timedelta(seconds=self.r)
        align_to = T(self.align)
        self.lst = OrderedRingBuffer([INITV] * self.cap, period, align_to)
        self.npb = OrderedRingBuffer(np.full(self.cap, INITV, dtype=float), period, align_to)
        self.chan = Broadcast(name="c09")
        self.mw = MovingWindow(
            size=period * self.cap,
            resampled_data_recv=self.chan.new_receiver(),
            input_sampling_period=period,
            align_to=align_to,
        )
        # np.empty content is arbitrary: give the never-written positions a recognisable value
        self.mw._buffer._buffer[:] = INITV  # pylint: disable=protected-access
        assert self.mw.capacity == self.cap
        self.bufs = [self.lst, self.npb, self.mw._buffer]  # pylint: disable=protected-access
        self.idx_args = [None] + list(range(-self.cap - 1, self.cap + 2))
        self.pkeys = list(range(-self.cap - 2, self.cap + 3))
        self.other_exc: list[str] = []  # exceptions other than IndexError raised by update()

    def update(self, n: int, t: int, v: int) -> list[bool]:
        if v == 0:
            val = None if (n + t) % 2 == 0 else self.Quantity(float("nan"))
        else:
            val = self.Quantity(float(v))
        rej = []
        for b in self.bufs:
            try:
                b.update(self.Sample(T(t), val))
                rej.append(False)
            except IndexError:
                rej.append(True)
            except Exception as ex:  # pylint: disable=broad-except
                rej.append(False)
                self.other_exc.append(type(ex).__name__)
        return rej

    def proj(self, b) -> dict:
        return dict(
            g=[[tick_of(g.start), tick_of(g.end)] for g in b.gaps],
            cv=int(b.count_valid()),
            cc=int(b.count_covered()),
            old=tick_of(b.oldest_timestamp),
            new=tick_of(b.newest_timestamp),
            tso=tick_of(b.time_bound_oldest),
            tsn=tick_of(b.time_bound_newest),
            buf=[code(b[i]) for i in range(b.maxlen)],
        )

    @staticmethod
    def _call(fn):
        try:
            return [code(x) for x in fn()]
        except IndexError:
            return [ERR]
        except Exception:  # pylint: disable=broad-except
            return [EXC]

    def window_answers(self, s, e) -> list:
        """Distinct answers <<default, fill -7, fill None, fill None as view>> of the three objects.

        The MovingWindow is asked through window[s:e] (default fill) and window(..., fill_value=-7);
        its other two variants go straight to the same OrderedRingBuffer.window and are copied
        from the numpy-backed buffer's answers only if the first two agree with them.
        """
        out = []
        for obj in (self.lst, self.npb):
            ans = [
                self._call(lambda: obj.window(s, e)),  # noqa: B023
                self._call(lambda: obj.window(s, e, fill_value=FILLV)),  # noqa: B023
                self._call(lambda: obj.window(s, e, fill_value=None)),  # noqa: B023
                self._call(lambda: obj.window(s, e, force_copy=False, fill_value=None)),  # noqa: B023
            ]
            if ans not in out:
                out.append(ans)
        mw2 = [self._call(lambda: self.mw[s:e]), self._call(lambda: self.mw.window(s, e, fill_value=FILLV))]
        if not any(a[:2] == mw2 for a in out):
            out.append(mw2 + [self._call(lambda: self.mw.window(s, e, fill_value=None))] * 2)
        return out

    def point_answers(self, key) -> list:
        out = []
        for fn in (lambda: self.mw.at(key), lambda: self.mw[key]):
            try:
                a = code(fn())
            except IndexError:
                a = ERR
            except Exception:  # pylint: disable=broad-except
                a = EXC
            if a not in out:
                out.append(a)
        return out

    def observe(self, rej: list[bool], qlo: int, qhi: int, ser_path: str | None) -> dict:
        st = []
        objs = list(self.bufs)
        if ser_path is not None:
            for b in (self.lst, self.npb):
                self.ser.dump(b, ser_path)
                objs.append(self.ser.load(ser_path))
        for b in objs:
            p = self.proj(b)
            if p not in st:
                st.append(p)
        ticks = [T(t) for t in range(qlo, qhi + 1)]
        qi = [[self.window_answers(s, e) for e in self.idx_args] for s in self.idx_args]
        qd = [[self.window_answers(s, e) for e in ticks] for s in ticks]
        pi = [self.point_answers(k) for k in self.pkeys]
        pd = [self.point_answers(t) for t in ticks]
        o = dict(rej=rej, st=st, qi=qi, qd=qd, pi=pi, pd=pd)
        if self.other_exc:
            o["xu"] = self.other_exc
        return o


def replay_history(case: dict, cfg: dict, ser_path: str) -> dict:
    r = Real(cfg)
    steps = case["steps"]
    every = cfg["observe_every"]
    out = []
    for n, (t, v, qlo, qhi) in enumerate(steps):
        rej = r.update(n, t, v)
        rec = dict(u=[t, v, qlo, qhi])
        last = n == len(steps) - 1
        if every or last:
            rec["o"] = r.observe(rej, qlo, qhi, ser_path if last else None)
        out.append(rec)
    return dict(id=case["id"], steps=out)


_CFG: dict = {}


def _worker(chunk, out_path):
    from .common import use_repo

    use_repo()
    ser_path = str(out_path) + ".pkl"
    with open(out_path, "w") as f:
        for c in chunk:
            f.write(json.dumps(replay_history(c, _CFG, ser_path), separators=(",", ":")) + "\n")
    if os.path.exists(ser_path):
        os.unlink(ser_path)


# ---------------------------------------------------------------------------
BATCH = 16 * 220  # records per validation round (bounds the size of one JSON shard TLC has to load)


def _stage(rep: Report, prop: str, name: str, consts: dict, mode: str, limit, sim_n, work: Path, stats: dict) -> None:
    """MC+GEN, RUN, VAL for one scope."""
    global _CFG
    consts = dict(consts, Mode=mode)
    d = work / name
    d.mkdir(parents=True, exist_ok=True)
    cases_file = d / "cases.ndjson"
    simulate = f"num={max(1, sim_n // 16)}" if sim_n else None
    reuse = os.environ.get("VERIF_C09_REUSE")  # self-test of the binding only: cases of an earlier run
    if reuse and (Path(reuse) / name / "cases.ndjson").exists():
        from .tlc import TLCResult

        cases_file = Path(reuse) / name / "cases.ndjson"
        res = TLCResult(ok=True)
        rep.notes.append(f"stage {name}: MC+GEN skipped, cases reused from {cases_file}")
        rep.exhaustive = False
    else:
        res = run_tlc(
            "RingBuffer", d, constants=consts, view="View",
            invariants=MC_INV + (["SimEmit"] if simulate else []),
            env={"OUT_FILE": str(cases_file)}, coverage=False, simulate=simulate,
            depth=(consts["MaxDepth"] + 2 if simulate else None), seed=(SEED + 23 if simulate else None), timeout=3000,
        )
        if simulate is None:
            # per-action coverage from a cheap second run without invariants (-coverage slows TLC down a lot)
            cov = run_tlc("RingBuffer", d, constants=consts, view="View", coverage=True, timeout=3000, name="COV")
            res.coverage = cov.coverage
            for a in ("UpdateStep", "RejectStep"):
                if not res.coverage.get(a):
                    raise RuntimeError(f"vacuity: action {a} never taken in {name} ({res.coverage})")
    rep.add_mc(name, res, consts, MC_INV, mode=("simulate " + simulate) if simulate else "exhaustive")
    if not res.ok:
        rep.fail(f"{prop}.MC.{'/'.join(res.violated)}", dict(stage=name, constants=str(consts)), res.counterexample[:3000])
        return
    raw = read_emitted(cases_file)
    cases = [dict(id=i + 1, steps=c) for i, c in enumerate(raw)]
    total = len(cases)
    if total == 0:
        raise RuntimeError(f"vacuity: stage {name} emitted no history")
    if simulate:
        # the simulator writes every candidate last step of each random history: keep sim_n of them
        limit = sim_n
        rep.exhaustive = False
    if limit:
        cases, cut = subsample(cases, limit)
        if cut:
            rep.exhaustive = False
    _CFG = dict(consts, observe_every=(mode == "sim"))
    done_total = 0
    val_states = 0
    fails: list[dict] = []
    per_round = BATCH // (consts["MaxDepth"] if mode == "sim" else 1)
    if consts["Cap"] * consts["R"] >= 16:
        per_round //= 4
    for b0 in range(0, len(cases), per_round):
        batch = cases[b0 : b0 + per_round]
        shards = replay_parallel(_worker, batch, d, prefix=f"impl{b0 // per_round}")
        f_, done, st = validate_shards("RingBufferTrace", shards, d, constants=dict(consts, Mode="trace"), heap="3g",
                                       extra_env={"JAVA_TOOL_OPTIONS": "-XX:ParallelGCThreads=2 -XX:CICompilerCount=2"})
        fails += f_
        done_total += done
        val_states += st["states"]
        for p in shards:
            vf = d / f"verdict_{p.stem}.ndjson"
            for v in read_emitted(vf):
                if v.get("done"):
                    for k, n in v["stats"].items():
                        stats[k] = stats.get(k, 0) + n
        if len(rep.samples) < 3 and batch:
            rec = load_ndjson(shards[0])[0]
            o = rec["steps"][-1].get("o", {})
            rep.samples.append(dict(stage=name, updates=[s["u"][:2] for s in rec["steps"]], rejected=o.get("rej"), state=o.get("st"),
                                    full_window=o.get("qi", [[None]])[0][0]))
        if b0 + per_round < len(cases):
            for p in shards:  # keep only the last round's recordings on disk
                p.unlink()
    rep.validated += done_total
    rep.extra.setdefault("stages", []).append(
        dict(stage=name, cases_emitted=total, cases_replayed=len(cases), traces_validated=done_total, val_states=val_states)
    )
    byid = {c["id"]: c for c in cases}
    for v in fails:
        cl = v["clause"]
        if cl.startswith("note."):
            dis = rep.extra.setdefault("disagreements", {})
            e = dis.setdefault(cl, dict(records=0, items=0, example=None, what=NOTES.get(cl, "")))
            e["records"] += 1
            e["items"] += v.get("n", 1)
            if e["example"] is None:
                e["example"] = dict(stage=name, updates=[s[:2] for s in byid[v["tid"]]["steps"]], detail=v["detail"])
            continue
        if not cl.startswith(prop + "."):
            continue
        cs = byid.get(v["tid"], {})
        devs = sorted(v.get("dev", []))
        rep.fail(
            cl,
            dict(stage=name, constants=consts, updates=[s[:2] for s in cs.get("steps", [])], step=v["l"], items=v.get("n", 1)),
            list(v["detail"]) + (["old defect returned", devs] if devs else []),
            deviations=devs,
        )


NOTES = {
    "note.Transcription": "the object answered correctly but not as the transcription in RingBuffer.tla does (spec drift)",
    "note.PointRange": "MovingWindow.at(int) read NaN for a key outside the covered range (a window slot before the oldest "
    "valid one) where its docstring promises IndexError; C09 does not demand the exception: it constrains the values "
    "queries return (stored value or 'no valid value', never evicted / unwritten data), and NaN is true of that slot",
}

# Counted by TLC on the MODEL's state and the query arguments only (never on what the code returned), so
# they do not depend on any defect manifesting.
GUARDS = {
    # statistic -> what it shows was exercised
    "obs": "observations",
    "rejected": "C09.RejectsOld: updates older than the window",
    "gapsGE2": "C09.Gaps: two or more gaps",
    "staleGap": "window slots never written whose container position holds an evicted value",
    "missWrite": "window slots whose last write was None / NaN",
    "wrapped": "window wraps around the end of the container",
    "dtOffGrid": "C09.WindowDatetime: queries with an argument off the slot grid",
    "dtNonEmpty": "C09.WindowDatetime: queries covering at least one slot",
    "dtWithFill": "C09.WindowDatetime: queries covering a slot without valid value",
    "idxNonEmpty": "C09.WindowIndex: queries covering at least one slot",
    "ptInRange": "C09.PointQueryNoStale: integer keys inside the covered range",
    "devSameSlot": "queries in the regime of the old defect Dev_SameSlotFullBuffer (clamped bounds round to one position)",
    "devFill": "queries in the regime of the old defect Dev_FillFromRawStart (off-grid start rounding down, gap in range)",
    "devPtGap": "point keys in the regime of Dev_PointIgnoresGaps (gap slot whose container position holds a value)",
    "devPtPast": "point keys in the regime of Dev_PointOnePastNewest (index == count_covered)",
}


def run(prop: str, tier: str) -> int:
    tm = Timer()
    rep = Report(prop, tier)
    work = scratch(f"{prop}_{tier}" + os.environ.get("VERIF_SCRATCH_TAG", ""))  # tag: concurrent self-test runs
    rep.assumptions = [
        "one tick = 1 s, sampling period = R s, align_to = epoch + Align s: all instants are exact",
        "a datetime denotes its nearest slot, ties to the even slot (normalize_timestamp); a query [s, e) spans the slots "
        "NSlot(s) <= k < NSlot(e); the stricter reading 's <= slot instant < e' is not demanded",
        "an update with None / NaN is a write of 'missing' that supersedes an earlier valid value of the slot "
        "(tests/timeseries/test_ringbuffer.py::test_gaps asserts this)",
        "newest_timestamp is the newest slot written (valid or missing) while any valid value is stored",
        "with fill_value=None the content of slots without valid value is unconstrained (documented raw access)",
        "MovingWindow is constructed without a running loop and its ring buffer is updated synchronously "
        "(what _run_impl does per sample); the resampler path is not exercised",
        "projection reads gaps, time_bound_*, count_*, oldest/newest_timestamp and buffer[i] (all public)",
    ]
    stats: dict = {}
    for name, consts, mode, limit, sim_n in SCOPES[tier]:
        _stage(rep, prop, name, consts, mode, limit, sim_n, work, stats)
    rep.extra["exercised"] = {k: dict(count=stats.get(k, 0), what=w) for k, w in GUARDS.items()}
    rep.extra["dt_queries"] = stats.get("dtQueries", 0)
    if not any(f["clause"].startswith(prop + ".MC.") for f in rep.failures):
        for k in GUARDS:
            if not stats.get(k):
                raise RuntimeError(f"vacuity: '{GUARDS[k]}' was never exercised ({stats})")
    return rep.finish(tm.s())
