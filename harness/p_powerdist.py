"""C14: PowerDistributor.tla — TLC behaviours drive the real PowerDistributingActor
(probe ComponentManager, loop pumped one iteration at a time); the recorded executions are
validated by TLC against PowerDistributorTrace.tla."""

from __future__ import annotations

import json
from datetime import timedelta
from pathlib import Path

from .common import SEED, Timer, scratch
from .pipeline import load_ndjson, replay_parallel, subsample, validate_shards
from .tlc import read_emitted, run_tlc
from .verdict import Report

GROUP_IDS = {1: frozenset({11, 12}), 2: frozenset({21}), 3: frozenset({31, 32, 33})}

SCOPES = {
    "quick": dict(
        mc=dict(Groups={1, 2}, MaxReq=4, MaxRestart=0),
        gen=dict(Groups={1, 2}, MaxReq=3, MaxDepth=12, MaxRestart=1),
        gen_limit=4000,
        sim=dict(Groups={1, 2}, MaxReq=6, MaxDepth=30, MaxRestart=2),
        sim_num=600,
    ),
    "thorough": dict(
        mc=dict(Groups={1, 2, 3}, MaxReq=5, MaxRestart=0),
        gen=dict(Groups={1, 2}, MaxReq=4, MaxDepth=12, MaxRestart=1),
        gen_limit=60000,
        sim=dict(Groups={1, 2, 3}, MaxReq=10, MaxDepth=60, MaxRestart=3),
        sim_num=20000,
    ),
}
MC_INV = ["NoOverlap", "PendingIsLatest", "QuiescentLatestApplied"]
MC_PROPS = ["EnteredIncreasing", "DisjointIndependent", "LastRequestApplied"]


# ---------------------------------------------------------------------------
class Exec:
    """One execution of the real actor under the manual loop."""

    def __init__(self, groups: list[int]) -> None:
        import asyncio

        from frequenz.channels import Broadcast
        from frequenz.client.microgrid import ComponentCategory
        from frequenz.quantities import Power

        from frequenz.sdk.microgrid._power_distributing import power_distributing as pdmod
        from frequenz.sdk.microgrid._power_distributing._component_managers import ComponentManager
        from frequenz.sdk.microgrid._power_distributing.request import Request

        from .vloop import ManualLoop

        self.groups = groups
        self.Power, self.Request = Power, Request
        self.obs: list[dict] = []
        self.parked: dict[int, tuple[int, object]] = {}
        self.inst: dict[int, str] = {}
        self.lines: list[dict] = []
        self.nsent = 0
        ex = self
        gid_of = {v: k for k, v in GROUP_IDS.items()}

        class Probe(ComponentManager):
            def __init__(self, *a, **k) -> None:  # pylint: disable=super-init-not-called
                pass

            def component_ids(self):
                return set().union(*GROUP_IDS.values())

            async def start(self) -> None:
                pass

            async def stop(self) -> None:
                pass

            async def distribute_power(self, request) -> None:
                g = gid_of[frozenset(request.component_ids)]
                p = int(request.power.as_watts())
                ex.obs.append(dict(k="enter", g=g, p=p, o=""))
                try:
                    mode = ex.inst.get(p, "")
                    if mode:
                        ex.obs.append(dict(k="resolve", g=g, p=0, o=mode))
                        if mode == "exc":
                            raise RuntimeError("instant failure")
                        return
                    fut = asyncio.get_running_loop().create_future()
                    ex.parked[g] = (p, fut)
                    await fut
                finally:
                    ex.parked.pop(g, None) if ex.parked.get(g, (None,))[0] == p else None
                    ex.obs.append(dict(k="exit", g=g, p=p, o=""))

        self.loop = ManualLoop()
        self.loop.__enter__()
        self._saved = pdmod.BatteryManager
        self._pdmod = pdmod
        pdmod.BatteryManager = Probe  # substitution from the harness (no repo hook)
        self.req_ch = Broadcast[Request](name="requests")
        self.res_ch = Broadcast(name="results")
        self.st_ch = Broadcast(name="status")
        self.sender = self.req_ch.new_sender()
        self.actor = pdmod.PowerDistributingActor(
            requests_receiver=self.req_ch.new_receiver(limit=50),
            results_sender=self.res_ch.new_sender(),
            component_pool_status_sender=self.st_ch.new_sender(),
            api_power_request_timeout=timedelta(seconds=5),
            component_category=ComponentCategory.BATTERY,
        )
        self.actor.start()
        self.loop.run_until_idle()
        self.obs.clear()

    def close(self) -> None:
        self._pdmod.BatteryManager = self._saved
        self.loop.__exit__(None, None, None)

    # -- injections --------------------------------------------------------
    def send(self, g: int, inst: str) -> None:
        self.nsent += 1
        p = self.nsent
        if inst:
            self.inst[p] = inst
        coro = self.sender.send(self.Request(power=self.Power.from_watts(float(p)), component_ids=GROUP_IDS[g]))
        try:
            coro.send(None)
        except StopIteration:
            pass
        else:
            raise RuntimeError("Sender.send suspended; cannot inject synchronously")
        self.lines.append(dict(ev="send", g=g, p=p))

    def resolve(self, g: int, o: str) -> bool:
        if g not in self.parked:
            return False
        p, fut = self.parked[g]
        if fut.done():
            return False
        if o == "ok":
            fut.set_result(None)
        else:
            fut.set_exception(RuntimeError("distribution failed"))
        # the future is resolved; the task has not run yet (still counts as parked until exit)
        self.parked[g] = (p, fut)
        self.lines.append(dict(ev="resolve", g=g, o=o))
        return True

    def snapshot(self):
        try:
            proc = [1 if GROUP_IDS[g] in self.actor._processing_tasks else 0 for g in self.groups]
            pend = [
                int(self.actor._pending_requests[GROUP_IDS[g]].power.as_watts()) if GROUP_IDS[g] in self.actor._pending_requests else 0
                for g in self.groups
            ]
        except AttributeError:
            proc = [-1] * len(self.groups)
            pend = [-1] * len(self.groups)
        return proc, pend

    def iter(self) -> None:
        self.loop.step()
        proc, pend = self.snapshot()
        self.lines.append(dict(ev="iter", obs=self.obs, proc=proc, pend=pend, idle=self.loop.idle()))
        self.obs = []

    def restart(self) -> None:
        """Cancel the actor's run loop, pump until it has ended, start it again."""
        self.actor.cancel()
        n = 0
        while self.actor.is_running:
            self.iter()
            # the actor is down: a quiet loop here is not a point at which it owes progress
            self.lines[-1]["idle"] = False
            n += 1
            if n > 50:
                raise RuntimeError("run loop does not end after cancel()")
        self.actor.start()
        self.lines.append(dict(ev="restart"))

    def unresolved(self) -> list[int]:
        return [g for g, (p, fut) in self.parked.items() if not fut.done()]

    def drain(self) -> None:
        for _ in range(200):
            n = 0
            while not self.loop.idle():
                self.iter()
                n += 1
                if n > 500:
                    raise RuntimeError("loop does not become idle")
            un = self.unresolved()
            if not un:
                break
            for g in un:
                self.resolve(g, "ok")
        self.lines.append(dict(ev="final"))


def execute(case: dict, groups: list[int]) -> dict:
    ex = Exec(groups)
    try:
        for a in case["h"]:
            if a["a"] == "send":
                ex.send(a["g"], a["o"])
            elif a["a"] == "resolve":
                ex.resolve(a["g"], a["o"])
            elif a["a"] == "restart":
                ex.restart()
            else:
                if not ex.loop.idle():
                    ex.iter()
        ex.drain()
        return dict(id=case["id"], lines=ex.lines)
    finally:
        ex.close()


_CFG: dict = {}


def _worker(chunk, out_path):
    from .common import use_repo

    use_repo()
    groups = sorted(_CFG["Groups"])
    with open(out_path, "w") as f:
        for c in chunk:
            f.write(json.dumps(execute(c, groups), separators=(",", ":")) + "\n")


# ---------------------------------------------------------------------------
def _bind(rep: Report, name: str, consts: dict, work: Path, mode: str, limit, simulate=None):
    global _CFG
    d = work / name
    d.mkdir(parents=True, exist_ok=True)
    cases_file = d / "cases.ndjson"
    consts = dict(consts, Mode=mode)
    res = run_tlc(
        "PowerDistributor", d, constants=consts, view="View",
        invariants=MC_INV + (["SimEmit"] if simulate else []),
        env={"OUT_FILE": str(cases_file)}, coverage=(simulate is None), simulate=simulate,
        depth=(consts["MaxDepth"] + 2 if simulate else None), seed=(SEED + 5 if simulate else None), timeout=1500,
    )
    rep.add_mc(name, res, consts, MC_INV, mode=("simulate " + simulate) if simulate else "exhaustive+emit")
    if not res.ok:
        rep.fail("C14.MC." + "/".join(res.violated), dict(stage=name), res.counterexample[:3000])
        return
    raw = read_emitted(cases_file)
    cases = [dict(id=i + 1, h=c) for i, c in enumerate(raw)]
    total = len(cases)
    if limit:
        cases, cut = subsample(cases, limit)
        rep.exhaustive = rep.exhaustive and not cut
    _CFG = consts
    shards = replay_parallel(_worker, cases, d)
    fails, done, st = validate_shards(
        "PowerDistributorTrace", shards, d, constants=dict(consts, Mode="trace"),
        invariants=["TraceInv"], unconsumed_clause="C14.TraceNotExplainedBySpec", dfs_queue=True,
    )
    rep.validated += done
    # which observable situations were witnessed in accepted traces
    wit = dict(pending_overwritten=0, pending_started_after_exc=0, concurrent_groups=0, instant=0, restart_while_in_flight=0)
    for p in shards:
        for r_ in load_ndjson(p):
            sent, entered, excg = set(), set(), set()
            conc = False
            inflight_now = False
            for x in r_["lines"]:
                if x["ev"] == "restart" and inflight_now:
                    wit["restart_while_in_flight"] += 1
                if x["ev"] == "iter":
                    inflight_now = any(v == 1 for v in x["proc"])
                if x["ev"] == "send":
                    sent.add(x["p"])
                elif x["ev"] == "resolve" and x["o"] == "exc":
                    excg.add(x["g"])
                elif x["ev"] == "iter":
                    if sum(1 for v in x["proc"] if v == 1) > 1:
                        conc = True
                    for o in x["obs"]:
                        if o["k"] == "enter":
                            entered.add(o["p"])
                            if o["g"] in excg:
                                wit["pending_started_after_exc"] += 1
                                excg.discard(o["g"])
                        if o["k"] == "resolve":
                            wit["instant"] += 1
            wit["concurrent_groups"] += conc
            wit["pending_overwritten"] += bool(sent - entered)
    stage = dict(stage=name, cases_emitted=total, cases_replayed=len(cases), traces_validated=done, val_states=st["states"], witnessed=wit)
    rep.extra.setdefault("stages", []).append(stage)
    if cases and len(rep.samples) < 3:
        rep.samples.append(load_ndjson(shards[0])[len(load_ndjson(shards[0])) // 2])
    byid = None
    for v in fails:
        if byid is None:
            byid = {r_["id"]: r_ for p in shards for r_ in load_ndjson(p)}
        rep.fail(v["clause"], dict(stage=name, trace=byid.get(v["tid"])), v.get("detail"))


def run(prop: str, tier: str) -> int:
    tm = Timer()
    rep = Report(prop, tier)
    sc = SCOPES[tier]
    work = scratch(f"{prop}_{tier}")
    rep.assumptions = [
        "asyncio is single-threaded: one loop iteration is the finest interleaving; external events are injected between iterations",
        "the probe replaces the ComponentManager (module attribute substituted from the harness); the distribution itself is C01/C15",
        "projection of _processing_tasks/_pending_requests is an enrichment; if the attributes are renamed only probe events are bound",
    ]
    # design-level model checking incl. liveness under fairness
    d = work / "mc"
    consts = dict(sc["mc"], MaxDepth=0, Mode="mc")
    res = run_tlc("PowerDistributor", d, constants=consts, spec="FairSpec", view="View", invariants=MC_INV, properties=MC_PROPS, coverage=True, timeout=2400)
    rep.add_mc("mc", res, consts, MC_INV + MC_PROPS, mode="exhaustive, liveness under weak fairness")
    if not res.ok:
        rep.fail("C14.MC." + "/".join(res.violated), dict(stage="mc"), res.counterexample[:3000])
    for a in ["SendStep", "RecvStep", "EnterStep", "ResolveStep", "ExitStep", "CallbackStep"]:
        if not res.coverage.get(a):
            raise RuntimeError(f"vacuity: action {a} never taken ({res.coverage})")
    _bind(rep, "gen", sc["gen"], work, "gen", sc["gen_limit"])
    _bind(rep, "sim", sc["sim"], work, "sim", None, simulate=f"num={max(1, sc['sim_num'] // 16)}")
    if tier == "quick":
        rep.exhaustive = False
    return rep.finish(tm.s())
