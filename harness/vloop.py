"""ManualLoop: an asyncio event loop on a virtual clock, pumped from synchronous code.

The harness owns the loop: nothing runs unless `step()` (exactly one loop iteration),
`run_until_idle()` or `advance_to(t)` is called, so external events can be injected
between any two iterations and the projected state can be snapshotted after each.
`datetime.now()` / `time.time()` are slaved to the loop clock with time_machine when
`wall=True`.

    with ManualLoop(start=0.0) as loop:
        task = loop.create_task(coro())
        loop.run_until_idle()
        loop.advance(5.0)
"""

from __future__ import annotations

import asyncio
import heapq
import selectors
from asyncio import events
from datetime import datetime, timezone

EPOCH = datetime(2024, 1, 1, tzinfo=timezone.utc)


class _NullSelector(selectors.BaseSelector):
    def __init__(self) -> None:
        self._map: dict = {}

    def register(self, fileobj, events_, data=None):  # noqa: D102
        key = selectors.SelectorKey(fileobj, 0, events_, data)
        self._map[fileobj] = key
        return key

    def unregister(self, fileobj):  # noqa: D102
        return self._map.pop(fileobj)

    def select(self, timeout=None):  # noqa: D102
        return []

    def get_map(self):  # noqa: D102
        return self._map

    def close(self) -> None:  # noqa: D102
        self._map.clear()


class ManualLoop(asyncio.selector_events.BaseSelectorEventLoop):
    """Event loop with a settable clock that only runs when pumped."""

    def __init__(self, start: float = 0.0, wall: bool = True, epoch: datetime = EPOCH) -> None:
        self._now = float(start)
        self._epoch = epoch
        self._wall = wall
        self._traveller = None
        self._entered = False
        self.iterations = 0
        super().__init__(selector=_NullSelector())
        self._clock_resolution = 1e-9

    # no self-pipe: there are no threads and no signals
    def _make_self_pipe(self) -> None:  # type: ignore[override]
        self._ssock = None
        self._csock = None
        self._internal_fds = 0

    def _close_self_pipe(self) -> None:  # type: ignore[override]
        pass

    def _write_to_self(self) -> None:  # type: ignore[override]
        pass

    def time(self) -> float:  # noqa: D102
        return self._now

    # -- wall clock ------------------------------------------------------
    def wall_now(self) -> datetime:
        from datetime import timedelta

        return self._epoch + timedelta(seconds=self._now)

    def _sync_wall(self) -> None:
        if self._traveller is not None:
            self._traveller.move_to(self.wall_now(), tick=False)

    # -- enter / leave ---------------------------------------------------
    def __enter__(self) -> "ManualLoop":
        import threading

        self._old_loop = None
        try:
            self._old_loop = events._get_running_loop()
        except Exception:  # pylint: disable=broad-except
            pass
        self._thread_id = threading.get_ident()
        events._set_running_loop(self)
        asyncio.set_event_loop(self)
        if self._wall:
            import time_machine

            self._tm = time_machine.travel(self.wall_now(), tick=False)
            self._traveller = self._tm.start()
        self._entered = True
        return self

    def __exit__(self, *exc) -> None:
        try:
            self.cancel_all()
        finally:
            events._set_running_loop(None)
            self._thread_id = None
            if self._traveller is not None:
                self._tm.stop()
                self._traveller = None
            asyncio.set_event_loop(None)
            self.close()
            self._entered = False

    # -- pumping ---------------------------------------------------------
    def has_ready(self) -> bool:
        return bool(self._ready)

    def next_deadline(self) -> float | None:
        while self._scheduled and self._scheduled[0]._cancelled:
            h = heapq.heappop(self._scheduled)
            h._scheduled = False
            self._timer_cancelled_count = max(0, self._timer_cancelled_count - 1)
        return self._scheduled[0]._when if self._scheduled else None

    def due(self) -> bool:
        d = self.next_deadline()
        return d is not None and d <= self._now

    def idle(self) -> bool:
        """No callback ready and no timer due at the current virtual time."""
        return not self._ready and not self.due()

    def step(self) -> None:
        """Run exactly one loop iteration (everything ready now, plus due timers)."""
        self.iterations += 1
        self._run_once()

    def run_until_idle(self, max_iter: int = 100000) -> int:
        n = 0
        while not self.idle():
            self.step()
            n += 1
            if n > max_iter:
                raise RuntimeError("loop does not become idle (busy loop?)")
        return n

    def set_time(self, t: float) -> None:
        if t < self._now:
            raise ValueError("time cannot go backwards")
        self._now = float(t)
        self._sync_wall()

    def advance_to(self, t: float, max_iter: int = 1000000) -> None:
        """Move the clock to t, firing timers in deadline order and draining the loop at each."""
        n = 0
        self.run_until_idle()
        while True:
            d = self.next_deadline()
            if d is None or d > t:
                break
            if d > self._now:
                self.set_time(d)
            self.run_until_idle()
            n += 1
            if n > max_iter:
                raise RuntimeError("too many timers")
        self.set_time(t)
        self.run_until_idle()

    def advance(self, dt: float) -> None:
        self.advance_to(self._now + dt)

    def jump_to(self, t: float) -> None:
        """Move the clock to t WITHOUT running anything (models a late wake-up)."""
        self.set_time(t)

    def run_coro(self, coro, max_time: float | None = None):
        """Drive a coroutine to completion, advancing virtual time as needed."""
        task = self.create_task(coro)
        while not task.done():
            self.run_until_idle()
            if task.done():
                break
            d = self.next_deadline()
            if d is None:
                raise RuntimeError("coroutine blocked forever (no timer pending)")
            if max_time is not None and d > max_time:
                raise TimeoutError("virtual time limit reached")
            self.set_time(max(d, self._now))
        return task.result()

    def cancel_all(self) -> None:
        """Cancel every task and let the cancellations run."""
        for _ in range(20):
            tasks = [t for t in asyncio.all_tasks(self) if not t.done()]
            if not tasks:
                break
            for t in tasks:
                t.cancel()
            try:
                self.run_until_idle()
            except Exception:  # pylint: disable=broad-except
                break
        for t in asyncio.all_tasks(self):
            if t.done() and not t.cancelled():
                try:
                    t.exception()
                except BaseException:  # pylint: disable=broad-except
                    pass
