"""X02 (extension): PowerPath.tla — end-to-end composition of power management.

propose_power -> PowerManagingActor -> Request -> PowerDistributingActor -> BatteryManager /
PVManager -> set_power on the microgrid API -> Result -> PowerManagingActor.

MC+GEN  TLC model-checks the composed specification (PowerManager.tla for the targets, the
        PowerDistributor.tla actions for the one-at-a-time / latest-wins slot, an abstract
        "set-points sum to the request minus the excess" component manager) and emits behaviours:
        proposals of regular / operating-point actors, component-data changes followed by the
        pool's bounds stream, API replies (ok / error, late = "slow"), internal steps.
RUN     every behaviour drives the REAL PowerManagingActor and the REAL PowerDistributingActor
        (real BatteryManager or PVManager behind it) connected by real channels under the
        virtual-time loop, with a fake connection manager / API client (set_power parks until the
        harness resolves it, or answers at once) and a fake pool bounds stream.  Recording
        endpoints (public constructor arguments) log, in program order: proposals / bounds /
        results the manager consumes, Requests it sends, reports, distributions entered / left,
        set_power calls, replies, Results.
VAL     PowerPathTrace.tla evaluates every X02 clause on the recorded events and validates each
        execution existentially against the composed specification.
"""

from __future__ import annotations

import json
import math
import random
from datetime import datetime, timedelta, timezone
from pathlib import Path

from .common import NCPU, SEED, Timer, scratch
from .pipeline import load_ndjson, replay_parallel, subsample, validate_shards
from .p_results import BAT_ID, INV_ID, _CM, _Env, _graph, _Tracker
from .tlc import read_emitted, run_tlc
from .verdict import Report

NONE = -99
UNIT_MW = 1000  # one model unit of power = 1 W, recorded as integer milliwatts
TOL_MW = 2
BAD = 2_000_000_000
TIMEOUT_S = 5.0
NI = 2  # inverters (= batteries) of the pool
OP_PRIO_OFFSET = 100


def S(lo, hi, xlo=0, xhi=0, has=True):
    return dict(has=has, lo=lo, hi=hi, xlo=xlo, xhi=xhi)


def Q(who, pref, lo=NONE, hi=NONE):
    return dict(who=who, pref=pref, lo=lo, hi=hi)


def _mw(p) -> int:
    w = p.as_watts() if hasattr(p, "as_watts") else float(p)
    if not math.isfinite(w):
        return BAD
    return int(round(w * 1000.0))


# ---------------------------------------------------------------------------
# real-code side
class Exec:
    """One execution: real PowerManagingActor + real PowerDistributingActor (+ real component
    manager) connected by real Broadcast channels, pumped by the harness.

    Substituted from the harness (no repo hook), exactly as in the single-component checks:
      * the connection manager (fake API client with scripted set_power, component graph),
      * ComponentPoolStatusTracker (every component is working; C16 is about the real one),
      * `_data_pipeline.new_battery_pool / new_pv_pool` (the bounds stream the manager reads).
    Recording endpoints are passed through public constructor arguments (Sender / Receiver
    objects, ChannelRegistry): they log and delegate.
    """

    def __init__(self, env: _Env, kind: str, prio: list[int], soc: list[float], sys0: dict, rnd: random.Random, p_instant: float) -> None:
        from frequenz.channels import Broadcast, Sender
        from frequenz.client.microgrid import ComponentCategory, InverterType

        from frequenz.sdk._internal._channels import ChannelRegistry
        from frequenz.sdk.microgrid import _data_pipeline
        from frequenz.sdk.microgrid._power_distributing import power_distributing as pdmod
        from frequenz.sdk.microgrid._power_distributing.result import PartialFailure, Success
        from frequenz.sdk.microgrid._power_managing._base_classes import Proposal, ReportRequest, _Report
        from frequenz.sdk.microgrid._power_managing._power_managing_actor import PowerManagingActor
        from frequenz.sdk.timeseries._base_types import Bounds, SystemBounds

        self.env, self.kind, self.prio, self.soc, self.rnd, self.p_instant = env, kind, prio, soc, rnd, p_instant
        self.Proposal, self.Bounds, self.SystemBounds, self.Power = Proposal, Bounds, SystemBounds, env.Power
        self.Success, self.PartialFailure = Success, PartialFailure
        self.lines: list[dict] = []
        self.sent: list = []  # Request objects the manager put on the requests channel, in order
        self.parked: dict[int, object] = {}  # inverter index -> future of the parked set_power call
        self.running = 0
        ex = self
        self.inv_ids = [INV_ID + i for i in range(1, NI + 1)]
        self.bat_ids = [BAT_ID + i for i in range(1, NI + 1)] if kind == "bat" else []
        self.ids = frozenset(self.bat_ids if kind == "bat" else self.inv_ids)

        class RecSender(Sender):  # logs, then delegates
            def __init__(self, inner, on_send) -> None:
                self._inner, self._on = inner, on_send

            async def send(self, message, /) -> None:
                self._on(message)
                await self._inner.send(message)

            async def aclose(self) -> None:
                await self._inner.aclose()

        class ChanProxy:  # what ChannelRegistry.get_or_create hands to the manager
            def __init__(self, ch, key) -> None:
                self._ch, self._key = ch, key

            def new_sender(self):
                return RecSender(self._ch.new_sender(), lambda m: ex._on_report(self._key, m))

            def new_receiver(self, **kw):
                return self._ch.new_receiver(**kw)

        class RecRegistry(ChannelRegistry):
            def get_or_create(self, message_type, key):
                return ChanProxy(super().get_or_create(message_type, key), key)

        # fake API client: component data channels + set_power that parks or answers at once
        class Api:
            def __init__(self) -> None:
                self.ch = {i: env.Broadcast(name=f"data-{i}") for i in ex.inv_ids + ex.bat_ids}

            async def battery_data(self, cid, maxsize=50):
                return self.ch[cid].new_receiver(limit=8)

            async def inverter_data(self, cid, maxsize=50):
                return self.ch[cid].new_receiver(limit=8)

            async def set_power(self, cid, power_w) -> None:
                import asyncio

                c = cid - INV_ID if cid in ex.inv_ids else 1000 + cid
                ex.lines.append(dict(ev="call", c=c, p=_mw(power_w), run=ex.running))
                o = ""
                if ex.rnd.random() < ex.p_instant:
                    o = "ok" if ex.rnd.random() < 0.7 else "err"
                else:
                    fut = asyncio.get_running_loop().create_future()
                    ex.parked[c] = fut
                    try:
                        o = await fut
                    finally:
                        if ex.parked.get(c) is fut:
                            del ex.parked[c]
                ex.lines.append(dict(ev="reply", c=c, o=o))
                if o != "ok":
                    raise env.ApiClientError(server_url="fake", operation="set_power", description="scripted", retryable=False)

        self.loop = env.ManualLoop()
        self.loop.__enter__()
        self.api = Api()
        cm = env.connection_manager
        self._cm = cm
        self._mod = env.bm if kind == "bat" else env.pm
        self._dp = _data_pipeline
        self._saved = (cm._CONNECTION_MANAGER, self._mod.ComponentPoolStatusTracker, _data_pipeline.new_battery_pool, _data_pipeline.new_pv_pool)  # pylint: disable=protected-access
        cm._CONNECTION_MANAGER = _CM(self.api, _graph(env, kind, [frozenset({i}) for i in range(1, NI + 1)]))  # pylint: disable=protected-access
        self._mod.ComponentPoolStatusTracker = _Tracker

        self.bounds_ch = Broadcast[SystemBounds](name="system-bounds")

        class FakePool:  # pylint: disable=too-few-public-methods
            class _Fetcher:
                def new_receiver(self, **kw):
                    return ex.bounds_ch.new_receiver(**kw).map(ex._on_bounds)

            def __init__(self) -> None:
                self._system_power_bounds = FakePool._Fetcher()

        def fake_pool(*, priority, component_ids=None, **_kw):  # noqa: ARG001
            if component_ids != ex.ids:
                raise RuntimeError(f"unexpected component ids {component_ids}")
            return FakePool()

        _data_pipeline.new_battery_pool = fake_pool
        _data_pipeline.new_pv_pool = fake_pool

        cat = dict(component_category=ComponentCategory.BATTERY) if kind == "bat" else dict(
            component_category=ComponentCategory.INVERTER, component_type=InverterType.SOLAR)
        self.prop_ch = Broadcast[Proposal](name="proposals")
        self.sub_ch = Broadcast[ReportRequest](name="subscriptions")
        self.req_ch = Broadcast(name="requests")
        self.res_ch = Broadcast(name="results")
        self.st_ch = Broadcast(name="status")
        self.registry = RecRegistry(name="registry")

        # the distributor first: its component manager subscribes to the component data
        self.dist = pdmod.PowerDistributingActor(
            requests_receiver=self.req_ch.new_receiver(limit=50),
            results_sender=RecSender(self.res_ch.new_sender(), self._on_result_sent),
            component_pool_status_sender=self.st_ch.new_sender(),
            api_power_request_timeout=timedelta(seconds=TIMEOUT_S),
            **cat,
        )
        mgr = self.dist._component_manager  # pylint: disable=protected-access
        self.mgr = mgr
        orig_dp = mgr.distribute_power

        async def spy_distribute_power(request):
            k = ex._rid(request)
            ex.running += 1
            ex.lines.append(dict(ev="enter", k=k, p=_mw(request.power), run=ex.running, **ex._comp_now()))
            try:
                return await orig_dp(request)
            finally:
                ex.lines.append(dict(ev="exit", k=k))
                ex.running -= 1

        mgr.distribute_power = spy_distribute_power  # instance attribute: the actor calls it through the instance
        if kind == "bat":
            algo = mgr._distribution_algorithm  # pylint: disable=protected-access
            orig_algo = algo.distribute_power

            def spy_algo(power, components):
                out = orig_algo(power, components)
                ex.lines.append(dict(ev="dist", s=[_mw(out.distribution.get(i, 0.0)) for i in ex.inv_ids], r=_mw(out.remaining_power), p=_mw(power)))
                return out

            algo.distribute_power = spy_algo
        self.dist.start()
        self.loop.run_until_idle()
        self.comp(sys0)
        self.loop.run_until_idle()

        self.manager = PowerManagingActor(
            self.prop_ch.new_receiver(limit=50).map(self._on_proposal),
            self.sub_ch.new_receiver(limit=50),
            RecSender(self.req_ch.new_sender(), self._on_request),
            self.res_ch.new_receiver(limit=50).map(self._on_result_got),
            self.registry,
            **cat,
        )
        self.manager.start()
        self.loop.run_until_idle()
        self._prop_s = self.prop_ch.new_sender()
        self._bounds_s = self.bounds_ch.new_sender()
        sub_s = self.sub_ch.new_sender()
        self.chan_of: dict[str, tuple[str, int]] = {}
        for op in (False, True):
            for k in range(1, len(prio) + 1):
                rr = ReportRequest(source_id=self.source(op, k), component_ids=self.ids, priority=self.impl_prio(op, k), set_operating_point=op)
                self.chan_of[rr.get_channel_name()] = ("o" if op else "r", k)
                self._inject(sub_s.send(rr))
        self.lines.clear()

    # -- plumbing ----------------------------------------------------------
    def _inject(self, coro) -> None:
        t = self.loop.create_task(coro)
        self.loop.run_until_idle()
        if not t.done():
            raise RuntimeError("injection did not complete")
        t.result()

    def _send_now(self, coro) -> None:
        """Put a message on a channel without running the loop (Broadcast.send never suspends)."""
        try:
            coro.send(None)
        except StopIteration:
            return
        raise RuntimeError("Sender.send suspended; cannot inject synchronously")

    def close(self) -> None:
        cm, dp = self._cm, self._dp
        try:
            self.loop.__exit__(None, None, None)
        finally:
            cm._CONNECTION_MANAGER, self._mod.ComponentPoolStatusTracker, dp.new_battery_pool, dp.new_pv_pool = self._saved  # pylint: disable=protected-access

    def source(self, op: bool, k: int) -> str:
        return f"{'op' if op else 'reg'}-{k}"

    def impl_prio(self, op: bool, k: int) -> int:
        return self.prio[k - 1] + (OP_PRIO_OFFSET if op else 0)

    def pw(self, v):
        return None if v == NONE else self.Power.from_watts(float(v))

    @staticmethod
    def ow(p) -> int:
        """A power of the manager's side as integer watts (NONE = None, BAD = not on the grid)."""
        if p is None:
            return NONE
        w = p.as_watts()
        return int(w) if math.isfinite(w) and float(w).is_integer() and abs(w) < 1000 else BAD

    def _rid(self, request) -> int:
        """Index (1-based, send order) of a Request object among those the manager sent; 0 = none.
        Identity first (channels pass the object itself), else the latest equal one."""
        for i in range(len(self.sent) - 1, -1, -1):
            if self.sent[i] is request:
                return i + 1
        for i in range(len(self.sent) - 1, -1, -1):
            if self.sent[i] == request:
                return i + 1
        return 0

    def _comp_now(self) -> dict:
        """Projection (enrichment): the component bounds the manager's caches hold right now."""
        try:
            lo = hi = 0.0
            if self.kind == "bat":
                for b, i in zip(self.bat_ids, self.inv_ids):
                    bd, iv = self.mgr._battery_caches[b].get(), self.mgr._inverter_caches[i].get()  # pylint: disable=protected-access
                    lo += max(bd.power_inclusion_lower_bound, iv.active_power_inclusion_lower_bound)
                    hi += min(bd.power_inclusion_upper_bound, iv.active_power_inclusion_upper_bound)
            else:
                for i in self.inv_ids:
                    lo += self.mgr._component_data_caches[i].get().active_power_inclusion_lower_bound  # pylint: disable=protected-access
            return dict(clo=_mw(lo), chi=_mw(hi))
        except Exception:  # pylint: disable=broad-except
            return dict(clo=-1, chi=-1)

    # -- recording endpoints -------------------------------------------------
    def _on_request(self, req) -> None:
        self.sent.append(req)
        foreign = frozenset(req.component_ids) != self.ids
        self.lines.append(dict(ev="req", k=len(self.sent), p=_mw(req.power), foreign=foreign))

    def _on_report(self, key: str, rep) -> None:
        g, who = self.chan_of.get(key, ("?", 0))
        b = rep.bounds
        self.lines.append(dict(ev="rep", g=g, who=who, t=self.ow(rep.target_power),
                               lo=NONE if b is None else self.ow(b.lower), hi=NONE if b is None else self.ow(b.upper)))

    def _on_proposal(self, p):
        op = bool(p.set_operating_point)
        who = int(p.source_id.split("-")[1])
        self.lines.append(dict(ev="prop", kind="op" if op else "reg", who=who, pref=self.ow(p.preferred_power),
                               lo=self.ow(p.bounds.lower), hi=self.ow(p.bounds.upper)))
        return p

    def _on_bounds(self, b):
        i, x = b.inclusion_bounds, b.exclusion_bounds
        self.lines.append(dict(ev="bounds", has=i is not None, lo=0 if i is None else self.ow(i.lower), hi=0 if i is None else self.ow(i.upper),
                               xlo=0 if x is None else self.ow(x.lower), xhi=0 if x is None else self.ow(x.upper)))
        return b

    def _res_rec(self, ev: str, r) -> dict:
        typ = type(r).__name__
        ok = isinstance(r, (self.Success, self.PartialFailure))
        return dict(ev=ev, k=self._rid(r.request), p=_mw(r.request.power), type=typ,
                    sp=_mw(r.succeeded_power) if ok else 0, fp=_mw(getattr(r, "failed_power", 0.0)) if ok else 0,
                    ex=_mw(r.excess_power) if ok else 0)

    def _on_result_sent(self, r) -> None:
        self.lines.append(self._res_rec("res", r))

    def _on_result_got(self, r):
        self.lines.append(self._res_rec("got", r))
        return r

    # -- injections --------------------------------------------------------
    def comp(self, s: dict) -> None:
        """Component data such that the pool's bounds are [s.lo, s.hi]: every unit has half of it."""
        env = self.env
        now = datetime.now(timezone.utc)
        lo, hi = s["lo"] / NI, s["hi"] / NI
        for n, i in enumerate(self.inv_ids):
            if self.kind == "bat":
                msg = env.cdw.BatteryDataWrapper(
                    self.bat_ids[n], now, soc=self.soc[n], soc_lower_bound=10.0, soc_upper_bound=90.0, capacity=1000.0,
                    power_inclusion_lower_bound=lo, power_exclusion_lower_bound=0.0, power_exclusion_upper_bound=0.0, power_inclusion_upper_bound=hi,
                )
                self._send_now(self.api.ch[self.bat_ids[n]].new_sender().send(msg))
                imsg = env.cdw.InverterDataWrapper(
                    i, now, active_power=0.0, active_power_inclusion_lower_bound=lo, active_power_exclusion_lower_bound=0.0,
                    active_power_exclusion_upper_bound=0.0, active_power_inclusion_upper_bound=hi,
                )
            else:
                imsg = env.cdw.InverterDataWrapper(
                    i, now, active_power=0.0, component_state=env.InverterComponentState.IDLE,
                    active_power_inclusion_lower_bound=lo, active_power_inclusion_upper_bound=0.0,
                )
            self._send_now(self.api.ch[i].new_sender().send(imsg))
        self.lines.append(dict(ev="comp", lo=s["lo"], hi=s["hi"]))

    def bounds(self, r: dict) -> None:
        incl = self.Bounds(self.pw(r["lo"]), self.pw(r["hi"])) if r["has"] else None
        excl = None if (r["xlo"] == 0 and r["xhi"] == 0 and not r["has"]) else self.Bounds(self.pw(r["xlo"]), self.pw(r["xhi"]))
        self._send_now(self._bounds_s.send(self.SystemBounds(timestamp=datetime.now(tz=timezone.utc), inclusion_bounds=incl, exclusion_bounds=excl)))

    def propose(self, op: bool, r: dict) -> None:
        k = r["who"]
        p = self.Proposal(
            source_id=self.source(op, k), preferred_power=self.pw(r["pref"]), bounds=self.Bounds(self.pw(r["lo"]), self.pw(r["hi"])),
            component_ids=self.ids, priority=self.impl_prio(op, k), creation_time=self.loop.time(), set_operating_point=op,
        )
        self._send_now(self._prop_s.send(p))

    def reply(self, c: int, o: str) -> bool:
        fut = self.parked.get(c)
        if fut is None or fut.done():
            return False
        fut.set_result(o)
        return True

    def pump(self) -> None:
        if not self.loop.idle():
            self.loop.step()
            if self.loop.idle():
                self.lines.append(dict(ev="idle"))

    def settle(self) -> None:
        if self.loop.run_until_idle():
            self.lines.append(dict(ev="idle"))

    def drain(self) -> None:
        """The actors have stopped proposing: let everything finish (parked calls answer ok)."""
        for _ in range(200):
            self.settle()
            un = [c for c, f in sorted(self.parked.items()) if not f.done()]
            if not un:
                break
            for c in un:
                self.reply(c, "ok")
        else:
            raise RuntimeError("the system does not quiesce")
        self.lines.append(dict(ev="final"))


def execute(env: _Env, case: dict, cfg: dict) -> dict:
    rnd = random.Random(SEED * 1000003 + case["id"])
    kind = cfg["Kinds"][case["id"] % len(cfg["Kinds"])]
    soc = cfg["Socs"][(case["id"] // 2) % len(cfg["Socs"])]
    p_instant = [0.0, 0.0, 0.35, 1.0][case["id"] % 4] if cfg.get("Instant", True) else 0.0
    h = case["h"]
    if not h or h[0].get("a") != "bounds":
        raise RuntimeError("a behaviour starts with the initial bounds")
    ex = Exec(env, kind, cfg["Prio"], soc, h[0], rnd, p_instant)
    try:
        for s in h:
            a = s["a"]
            if a == "bounds":
                ex.bounds(s)
            elif a == "comp":
                ex.comp(s)
            elif a == "reg":
                ex.propose(False, s)
            elif a == "op":
                ex.propose(True, s)
            elif a == "reply":
                for _ in range(8):  # the call may not have reached the client yet
                    if ex.reply(s["c"], s["o"]):
                        break
                    if ex.loop.idle():
                        break
                    ex.pump()
            elif a in ("int", "result"):
                ex.pump()
            elif a == "settle":
                ex.settle()
            else:
                raise ValueError(a)
        ex.drain()
        return dict(id=case["id"], kind=kind, soc=soc, p_instant=p_instant, h=h, lines=ex.lines)
    finally:
        ex.close()
