"""X02 (extension): PowerPath.tla — end-to-end composition of power management.

propose_power -> PowerManagingActor -> Request -> PowerDistributingActor -> BatteryManager /
PVManager -> set_power on the microgrid API -> Result -> PowerManagingActor.

MC+GEN  TLC model-checks the composed specification (PowerManager.tla for the targets, the
        PowerDistributor.tla actions for the one-at-a-time / latest-wins slot, an abstract
        "set-points sum to the request minus the excess" component manager) and emits behaviours:
        proposals of regular / operating-point actors, component-data changes followed by the
        pool's bounds stream, API replies (ok / error, late = "slow"), internal steps.
RUN     every behaviour drives the REAL PowerManagingActor and the REAL PowerDistributingActor
        (real BatteryManager or PVManager behind it) connected by real channels under the
        virtual-time loop, with a fake connection manager / API client (set_power parks until the
        harness resolves it, or answers at once) and a fake pool bounds stream.  Recording
        endpoints (public constructor arguments) log, in program order: proposals / bounds /
        results the manager consumes, Requests it sends, reports, distributions entered / left,
        set_power calls, replies, Results.
VAL     PowerPathTrace.tla evaluates every X02 clause on the recorded events and validates each
        execution existentially against the composed specification.
"""

from __future__ import annotations

import json
import math
import random
from datetime import datetime, timedelta, timezone
from pathlib import Path

from .common import NCPU, SEED, Timer, scratch
from .pipeline import load_ndjson, replay_parallel, subsample, validate_shards
from .p_results import BAT_ID, INV_ID, _CM, _Env, _graph, _Tracker
from .tlc import read_emitted, run_tlc
from .verdict import Report

NONE = -99
UNIT_MW = 1000  # one model unit of power = 1 W, recorded as integer milliwatts
TOL_MW = 2
BAD = 2_000_000_000
TIMEOUT_S = 5.0
NI = 2  # inverters (= batteries) of the pool
OP_PRIO_OFFSET = 100


def S(lo, hi, xlo=0, xhi=0, has=True):
    return dict(has=has, lo=lo, hi=hi, xlo=xlo, xhi=xhi)


def Q(who, pref, lo=NONE, hi=NONE):
    return dict(who=who, pref=pref, lo=lo, hi=hi)


def _mw(p) -> int:
    w = p.as_watts() if hasattr(p, "as_watts") else float(p)
    if not math.isfinite(w):
        return BAD
    return int(round(w * 1000.0))


# ---------------------------------------------------------------------------
# real-code side
class Exec:
    """One execution: real PowerManagingActor + real PowerDistributingActor (+ real component
    manager) connected by real Broadcast channels, pumped by the harness.

    Substituted from the harness (no repo hook), exactly as in the single-component checks:
      * the connection manager (fake API client with scripted set_power, component graph),
      * ComponentPoolStatusTracker (every component is working; C16 is about the real one),
      * `_data_pipeline.new_battery_pool / new_pv_pool` (the bounds stream the manager reads).
    Recording endpoints are passed through public constructor arguments (Sender / Receiver
    objects, ChannelRegistry): they log and delegate.
    """

    def __init__(self, env: _Env, kind: str, prio: list[int], soc: list[float], sys0: dict, rnd: random.Random, p_instant: float) -> None:
        from frequenz.channels import Broadcast, Sender
        from frequenz.client.microgrid import ComponentCategory, InverterType

        from frequenz.sdk._internal._channels import ChannelRegistry
        from frequenz.sdk.microgrid import _data_pipeline
        from frequenz.sdk.microgrid._power_distributing import power_distributing as pdmod
        from frequenz.sdk.microgrid._power_distributing.result import PartialFailure, Success
        from frequenz.sdk.microgrid._power_managing._base_classes import Proposal, ReportRequest, _Report
        from frequenz.sdk.microgrid._power_managing._power_managing_actor import PowerManagingActor
        from frequenz.sdk.timeseries._base_types import Bounds, SystemBounds

        self.env, self.kind, self.prio, self.soc, self.rnd, self.p_instant = env, kind, prio, soc, rnd, p_instant
        self.Proposal, self.Bounds, self.SystemBounds, self.Power = Proposal, Bounds, SystemBounds, env.Power
        self.Success, self.PartialFailure = Success, PartialFailure
        self.lines: list[dict] = []
        self.sent: list = []  # Request objects the manager put on the requests channel, in order
        self.parked: dict[int, object] = {}  # inverter index -> future of the parked set_power call
        self.running = 0
        ex = self
        self.inv_ids = [INV_ID + i for i in range(1, NI + 1)]
        self.bat_ids = [BAT_ID + i for i in range(1, NI + 1)] if kind == "bat" else []
        self.ids = frozenset(self.bat_ids if kind == "bat" else self.inv_ids)

        class RecSender(Sender):  # logs, then delegates
            def __init__(self, inner, on_send) -> None:
                self._inner, self._on = inner, on_send

            async def send(self, message, /) -> None:
                self._on(message)
                await self._inner.send(message)

            async def aclose(self) -> None:
                await self._inner.aclose()

        class ChanProxy:  # what ChannelRegistry.get_or_create hands to the manager
            def __init__(self, ch, key) -> None:
                self._ch, self._key = ch, key

            def new_sender(self):
                return RecSender(self._ch.new_sender(), lambda m: ex._on_report(self._key, m))

            def new_receiver(self, **kw):
                return self._ch.new_receiver(**kw)

        class RecRegistry(ChannelRegistry):
            def get_or_create(self, message_type, key):
                return ChanProxy(super().get_or_create(message_type, key), key)

        # fake API client: component data channels + set_power that parks or answers at once
        class Api:
            def __init__(self) -> None:
                self.ch = {i: env.Broadcast(name=f"data-{i}") for i in ex.inv_ids + ex.bat_ids}

            async def battery_data(self, cid, maxsize=50):
                return self.ch[cid].new_receiver(limit=8)

            async def inverter_data(self, cid, maxsize=50):
                return self.ch[cid].new_receiver(limit=8)

            async def set_power(self, cid, power_w) -> None:
                import asyncio

                c = cid - INV_ID if cid in ex.inv_ids else 1000 + cid
                ex.lines.append(dict(ev="call", c=c, p=_mw(power_w)))
                o = ""
                if ex.rnd.random() < ex.p_instant:
                    o = "ok" if ex.rnd.random() < 0.7 else "err"
                else:
                    fut = asyncio.get_running_loop().create_future()
                    ex.parked[c] = fut
                    try:
                        o = await fut
                    except asyncio.CancelledError:  # cancelled by the manager at api_power_request_timeout
                        ex.lines.append(dict(ev="reply", c=c, o="to"))
                        raise
                    finally:
                        if ex.parked.get(c) is fut:
                            del ex.parked[c]
                ex.lines.append(dict(ev="reply", c=c, o=o))
                if o != "ok":
                    raise env.ApiClientError(server_url="fake", operation="set_power", description="scripted", retryable=False)

        self.loop = env.ManualLoop()
        self.loop.__enter__()
        self.api = Api()
        cm = env.connection_manager
        self._cm = cm
        self._mod = env.bm if kind == "bat" else env.pm
        self._dp = _data_pipeline
        self._saved = (cm._CONNECTION_MANAGER, self._mod.ComponentPoolStatusTracker, _data_pipeline.new_battery_pool, _data_pipeline.new_pv_pool)  # pylint: disable=protected-access
        try:
            self._build(sys0, RecSender, RecRegistry, pdmod, PowerManagingActor, ReportRequest, Broadcast, SystemBounds, Proposal, ComponentCategory, InverterType)
        except BaseException:
            self.close()
            raise

    def _build(self, sys0, RecSender, RecRegistry, pdmod, PowerManagingActor, ReportRequest, Broadcast, SystemBounds, Proposal, ComponentCategory, InverterType) -> None:  # pylint: disable=too-many-arguments,too-many-locals
        ex, env, kind, prio, cm, _data_pipeline = self, self.env, self.kind, self.prio, self._cm, self._dp
        cm._CONNECTION_MANAGER = _CM(self.api, _graph(env, kind, [frozenset({i}) for i in range(1, NI + 1)]))  # pylint: disable=protected-access
        self._mod.ComponentPoolStatusTracker = _Tracker

        self.bounds_ch = Broadcast[SystemBounds](name="system-bounds")

        class FakePool:  # pylint: disable=too-few-public-methods
            class _Fetcher:
                def new_receiver(self, **kw):
                    return ex.bounds_ch.new_receiver(**kw).map(ex._on_bounds)

            def __init__(self) -> None:
                self._system_power_bounds = FakePool._Fetcher()

        def fake_pool(*, priority, component_ids=None, **_kw):  # noqa: ARG001
            if component_ids != ex.ids:
                raise RuntimeError(f"unexpected component ids {component_ids}")
            return FakePool()

        _data_pipeline.new_battery_pool = fake_pool
        _data_pipeline.new_pv_pool = fake_pool

        cat = dict(component_category=ComponentCategory.BATTERY) if kind == "bat" else dict(
            component_category=ComponentCategory.INVERTER, component_type=InverterType.SOLAR)
        self.prop_ch = Broadcast[Proposal](name="proposals")
        self.sub_ch = Broadcast[ReportRequest](name="subscriptions")
        self.req_ch = Broadcast(name="requests")
        self.res_ch = Broadcast(name="results")
        self.st_ch = Broadcast(name="status")
        self.registry = RecRegistry(name="registry")

        # the distributor first: its component manager subscribes to the component data
        self.dist = pdmod.PowerDistributingActor(
            requests_receiver=self.req_ch.new_receiver(limit=50),
            results_sender=RecSender(self.res_ch.new_sender(), self._on_result_sent),
            component_pool_status_sender=self.st_ch.new_sender(),
            api_power_request_timeout=timedelta(seconds=TIMEOUT_S),
            **cat,
        )
        mgr = self.dist._component_manager  # pylint: disable=protected-access
        self.mgr = mgr
        orig_dp = mgr.distribute_power

        async def spy_distribute_power(request):
            k = ex._rid(request)
            ex.running += 1
            ex.lines.append(dict(ev="enter", k=k, p=_mw(request.power), **ex._comp_now()))
            try:
                return await orig_dp(request)
            finally:
                ex.lines.append(dict(ev="exit", k=k))
                ex.running -= 1

        mgr.distribute_power = spy_distribute_power  # instance attribute: the actor calls it through the instance
        algo = getattr(mgr, "_distribution_algorithm", None) if kind == "bat" else None  # enrichment: absent -> no "dist" lines
        if algo is not None:
            orig_algo = algo.distribute_power

            def spy_algo(power, components):
                out = orig_algo(power, components)
                ex.lines.append(dict(ev="dist", s=[_mw(out.distribution.get(i, 0.0)) for i in ex.inv_ids], r=_mw(out.remaining_power), p=_mw(power)))
                return out

            algo.distribute_power = spy_algo
        self.dist.start()
        self.loop.run_until_idle()
        self.comp(sys0)
        self.loop.run_until_idle()

        self.manager = PowerManagingActor(
            self.prop_ch.new_receiver(limit=50).map(self._on_proposal),
            self.sub_ch.new_receiver(limit=50),
            RecSender(self.req_ch.new_sender(), self._on_request),
            self.res_ch.new_receiver(limit=50).map(self._on_result_got),
            self.registry,
            **cat,
        )
        self.manager.start()
        self.loop.run_until_idle()
        self._prop_s = self.prop_ch.new_sender()
        self._bounds_s = self.bounds_ch.new_sender()
        sub_s = self.sub_ch.new_sender()
        self.chan_of: dict[str, tuple[str, int]] = {}
        for op in (False, True):
            for k in range(1, len(prio) + 1):
                rr = ReportRequest(source_id=self.source(op, k), component_ids=self.ids, priority=self.impl_prio(op, k), set_operating_point=op)
                self.chan_of[rr.get_channel_name()] = ("o" if op else "r", k)
                self._inject(sub_s.send(rr))
        self.lines.clear()
        self.lines.append(dict(ev="comp", lo=sys0["lo"], hi=sys0["hi"]))

    # -- plumbing ----------------------------------------------------------
    def _inject(self, coro) -> None:
        t = self.loop.create_task(coro)
        self.loop.run_until_idle()
        if not t.done():
            raise RuntimeError("injection did not complete")
        t.result()

    def _send_now(self, coro) -> None:
        """Put a message on a channel without running the loop (Broadcast.send never suspends)."""
        try:
            coro.send(None)
        except StopIteration:
            return
        raise RuntimeError("Sender.send suspended; cannot inject synchronously")

    def close(self) -> None:
        cm, dp = self._cm, self._dp
        try:
            self.loop.__exit__(None, None, None)
        finally:
            cm._CONNECTION_MANAGER, self._mod.ComponentPoolStatusTracker, dp.new_battery_pool, dp.new_pv_pool = self._saved  # pylint: disable=protected-access

    def source(self, op: bool, k: int) -> str:
        return f"{'op' if op else 'reg'}-{k}"

    def impl_prio(self, op: bool, k: int) -> int:
        return self.prio[k - 1] + (OP_PRIO_OFFSET if op else 0)

    def pw(self, v):
        return None if v == NONE else self.Power.from_watts(float(v))

    @staticmethod
    def ow(p) -> int:
        """A power of the manager's side as integer watts (NONE = None, BAD = not on the grid)."""
        if p is None:
            return NONE
        w = p.as_watts()
        return int(w) if math.isfinite(w) and float(w).is_integer() and abs(w) < 1000 else BAD

    def _rid(self, request) -> int:
        """Index (1-based, send order) of a Request object among those the manager sent; 0 = none.
        Identity first (channels pass the object itself), else the latest equal one."""
        for i in range(len(self.sent) - 1, -1, -1):
            if self.sent[i] is request:
                return i + 1
        for i in range(len(self.sent) - 1, -1, -1):
            if self.sent[i] == request:
                return i + 1
        return 0

    def _comp_now(self) -> dict:
        """Projection (enrichment): the component bounds the manager's caches hold right now."""
        try:
            lo = hi = 0.0
            if self.kind == "bat":
                for b, i in zip(self.bat_ids, self.inv_ids):
                    bd, iv = self.mgr._battery_caches[b].get(), self.mgr._inverter_caches[i].get()  # pylint: disable=protected-access
                    lo += max(bd.power_inclusion_lower_bound, iv.active_power_inclusion_lower_bound)
                    hi += min(bd.power_inclusion_upper_bound, iv.active_power_inclusion_upper_bound)
            else:
                for i in self.inv_ids:
                    lo += self.mgr._component_data_caches[i].get().active_power_inclusion_lower_bound  # pylint: disable=protected-access
            return dict(clo=_mw(lo), chi=_mw(hi))
        except Exception:  # pylint: disable=broad-except
            return dict(clo=-1, chi=-1)

    # -- recording endpoints -------------------------------------------------
    def _on_request(self, req) -> None:
        self.sent.append(req)
        foreign = frozenset(req.component_ids) != self.ids
        self.lines.append(dict(ev="req", k=len(self.sent), p=_mw(req.power), w=self.ow(req.power), foreign=foreign))

    def _on_report(self, key: str, rep) -> None:
        g, who = self.chan_of.get(key, ("?", 0))
        b = rep.bounds
        self.lines.append(dict(ev="rep", g=g, who=who, t=self.ow(rep.target_power),
                               lo=NONE if b is None else self.ow(b.lower), hi=NONE if b is None else self.ow(b.upper)))

    def _on_proposal(self, p):
        op = bool(p.set_operating_point)
        who = int(p.source_id.split("-")[1])
        self.lines.append(dict(ev="prop", kind="op" if op else "reg", who=who, pref=self.ow(p.preferred_power),
                               lo=self.ow(p.bounds.lower), hi=self.ow(p.bounds.upper)))
        return p

    def _on_bounds(self, b):
        i, x = b.inclusion_bounds, b.exclusion_bounds
        self.lines.append(dict(ev="bounds", has=i is not None, lo=0 if i is None else self.ow(i.lower), hi=0 if i is None else self.ow(i.upper),
                               xlo=0 if x is None else self.ow(x.lower), xhi=0 if x is None else self.ow(x.upper)))
        return b

    def _res_rec(self, ev: str, r) -> dict:
        typ = type(r).__name__
        ok = isinstance(r, (self.Success, self.PartialFailure))
        return dict(ev=ev, k=self._rid(r.request), p=_mw(r.request.power), type=typ,
                    sp=_mw(r.succeeded_power) if ok else 0, fp=_mw(getattr(r, "failed_power", 0.0)) if ok else 0,
                    ex=_mw(r.excess_power) if ok else 0)

    def _on_result_sent(self, r) -> None:
        self.lines.append(self._res_rec("res", r))

    def _on_result_got(self, r):
        self.lines.append(self._res_rec("got", r))
        return r

    # -- injections --------------------------------------------------------
    def comp(self, s: dict) -> None:
        """Component data such that the pool's bounds are [s.lo, s.hi]: every unit has half of it."""
        env = self.env
        now = datetime.now(timezone.utc)
        lo, hi = s["lo"] / NI, s["hi"] / NI
        for n, i in enumerate(self.inv_ids):
            if self.kind == "bat":
                msg = env.cdw.BatteryDataWrapper(
                    self.bat_ids[n], now, soc=self.soc[n], soc_lower_bound=10.0, soc_upper_bound=90.0, capacity=1000.0,
                    power_inclusion_lower_bound=lo, power_exclusion_lower_bound=0.0, power_exclusion_upper_bound=0.0, power_inclusion_upper_bound=hi,
                )
                self._send_now(self.api.ch[self.bat_ids[n]].new_sender().send(msg))
                imsg = env.cdw.InverterDataWrapper(
                    i, now, active_power=0.0, active_power_inclusion_lower_bound=lo, active_power_exclusion_lower_bound=0.0,
                    active_power_exclusion_upper_bound=0.0, active_power_inclusion_upper_bound=hi,
                )
            else:
                imsg = env.cdw.InverterDataWrapper(
                    i, now, active_power=0.0, component_state=env.InverterComponentState.IDLE,
                    active_power_inclusion_lower_bound=lo, active_power_inclusion_upper_bound=0.0,
                )
            self._send_now(self.api.ch[i].new_sender().send(imsg))
        self.lines.append(dict(ev="comp", lo=s["lo"], hi=s["hi"]))

    def bounds(self, r: dict) -> None:
        incl = self.Bounds(self.pw(r["lo"]), self.pw(r["hi"])) if r["has"] else None
        excl = None if (r["xlo"] == 0 and r["xhi"] == 0 and not r["has"]) else self.Bounds(self.pw(r["xlo"]), self.pw(r["xhi"]))
        self._send_now(self._bounds_s.send(self.SystemBounds(timestamp=datetime.now(tz=timezone.utc), inclusion_bounds=incl, exclusion_bounds=excl)))

    def propose(self, op: bool, r: dict) -> None:
        k = r["who"]
        p = self.Proposal(
            source_id=self.source(op, k), preferred_power=self.pw(r["pref"]), bounds=self.Bounds(self.pw(r["lo"]), self.pw(r["hi"])),
            component_ids=self.ids, priority=self.impl_prio(op, k), creation_time=self.loop.time(), set_operating_point=op,
        )
        self._send_now(self._prop_s.send(p))

    def reply(self, c: int, o: str) -> bool:
        fut = self.parked.get(c)
        if fut is None or fut.done():
            return False
        fut.set_result(o)
        return True

    def timeout(self) -> None:
        """api_power_request_timeout passes while calls are parked (nothing else is time-driven within 5.5 s
        except the manager's 1 s drop timer, which finds nothing older than 60 s)."""
        if any(not f.done() for f in self.parked.values()):
            self.loop.advance(TIMEOUT_S + 0.5)
            self.lines.append(dict(ev="idle"))

    def pump(self) -> None:
        if not self.loop.idle():
            self.loop.step()
            if self.loop.idle():
                self.lines.append(dict(ev="idle"))

    def settle(self) -> None:
        if self.loop.run_until_idle():
            self.lines.append(dict(ev="idle"))

    def drain(self) -> None:
        """The actors have stopped proposing: let everything finish (parked calls answer ok)."""
        for _ in range(200):
            self.settle()
            un = [c for c, f in sorted(self.parked.items()) if not f.done()]
            if not un:
                break
            for c in un:
                self.reply(c, "ok")
        else:
            raise RuntimeError("the system does not quiesce")
        self.lines.append(dict(ev="final"))


def execute(env: _Env, case: dict, cfg: dict) -> dict:
    rnd = random.Random(SEED * 1000003 + case["id"])
    kind = cfg["Kinds"][case["id"] % len(cfg["Kinds"])]
    soc = cfg["Socs"][(case["id"] // 2) % len(cfg["Socs"])]
    p_instant = [0.0, 0.0, 0.35, 1.0][case["id"] % 4] if cfg.get("Instant", True) else 0.0
    h = case["h"]
    if not h or h[0].get("a") != "init":
        raise RuntimeError("a behaviour starts with the initial component bounds")
    ex = Exec(env, kind, cfg["Prio"], soc, h[0], rnd, p_instant)
    try:
        for s in h[1:]:
            a = s["a"]
            if a == "bounds":
                ex.bounds(s)
            elif a == "comp":
                ex.comp(s)
            elif a == "reg":
                ex.propose(False, s)
            elif a == "op":
                ex.propose(True, s)
            elif a == "reply":
                for _ in range(8):  # the call may not have reached the client yet
                    if ex.reply(s["c"], s["o"]):
                        break
                    if ex.loop.idle():
                        break
                    ex.pump()
            elif a in ("int", "result"):
                ex.pump()
            elif a == "timeout":
                ex.timeout()
            elif a == "settle":
                ex.settle()
            else:
                raise ValueError(a)
        ex.drain()
        return dict(id=case["id"], kind=kind, soc=soc, p_instant=p_instant, h=h, lines=ex.lines)
    finally:
        ex.close()


_CFG: dict = {}


def _worker(chunk, out_path):
    from .common import use_repo

    use_repo()
    import warnings

    warnings.simplefilter("ignore")
    env = _Env()
    with open(out_path, "w") as f:
        for c in chunk:
            f.write(json.dumps(execute(env, c, _CFG), separators=(",", ":")) + "\n")


# ---------------------------------------------------------------------------
MC_INV = ["CurIsSentRequest", "SetpointsSumToRequestMinusExcess", "ResultsReferToSent", "LastSentIsTarget", "InForceWithinBounds", "ReqsAreSends",
          "FinalCommandedIsTarget", "NotStuck", "PPTypeOK", "NoDeviationInModel", "SentIsSum", "SentInBounds", "NoOverlap", "PendingIsLatest"]
EXTRA_DEFS = "NoOverlap == PD!NoOverlap\nPendingIsLatest == PD!PendingIsLatest"
ACTIONS = ["bounds", "reg", "op", "comp", "reply", "timeout", "result", "int.recv", "int.enter", "int.call", "int.finish", "int.exit", "int.callback"]
PROP = "X02"

BAT_SYS = [S(-4, 4), S(-2, 2), S(-4, 2)]
PV_SYS = [S(-4, 0), S(-2, 0)]
BASE = dict(NA=2, G=4, Prio=[1, 2], MaxAge=1, MaxClock=2, XG=0, Fixed=True, NInv=NI, MaxReqs=24, MaxBack=24, Unit=1, Tol=0)
ALPHA = dict(
    bat=dict(SysAlpha=BAT_SYS, RegAlpha=[Q(1, 3), Q(1, -3), Q(2, NONE, -1, 2), Q(2, 1, -2, 4)], OpAlpha=[Q(1, -1), Q(1, 2), Q(2, NONE, 0, 1)]),
    pv=dict(SysAlpha=PV_SYS, RegAlpha=[Q(1, -3), Q(1, -1), Q(2, NONE, -2, 0), Q(2, -4)], OpAlpha=[Q(1, -1), Q(1, 1), Q(2, NONE, -1, 0)]),
)
ALPHA_SMALL = dict(
    bat=dict(SysAlpha=[S(-4, 4), S(-2, 2)], RegAlpha=[Q(1, 3), Q(1, -3), Q(2, NONE, -1, 2)], OpAlpha=[Q(1, -1), Q(1, 2)]),
    pv=dict(SysAlpha=PV_SYS, RegAlpha=[Q(1, -3), Q(1, -1), Q(2, NONE, -2, 0)], OpAlpha=[Q(1, -1), Q(1, 1)]),
)
SOCS = [[50.0, 50.0], [40.0, 60.0], [70.0, 35.0]]

SCOPES = {
    "quick": dict(
        mc=[
            dict(name="mc", kind="bat", alpha=ALPHA_SMALL, MaxProp=2, MaxComp=1, MaxTimeout=0, live=False),
            dict(name="mc_live", kind="bat", alpha=ALPHA_SMALL, MaxProp=1, MaxComp=1, MaxTimeout=1, live=True),
        ],
        hist=dict(alpha=ALPHA_SMALL, MaxProp=3, MaxComp=1, MaxTimeout=1, MaxDepth=12, limit=1600),
        sim=dict(alpha=ALPHA, MaxProp=4, MaxComp=1, MaxTimeout=1, MaxDepth=60, num=1000),
    ),
    "thorough": dict(
        mc=[
            dict(name="mc_bat", kind="bat", alpha=ALPHA, MaxProp=2, MaxComp=1, MaxTimeout=1, live=False),
            dict(name="mc_pv", kind="pv", alpha=ALPHA, MaxProp=2, MaxComp=1, MaxTimeout=1, live=False),
            dict(name="mc_3prop", kind="bat", alpha=ALPHA_SMALL, MaxProp=3, MaxComp=0, MaxTimeout=0, live=False),
            dict(name="mc_live", kind="bat", alpha=ALPHA_SMALL, MaxProp=2, MaxComp=1, MaxTimeout=1, live=True),
        ],
        hist=dict(alpha=ALPHA, MaxProp=3, MaxComp=1, MaxTimeout=1, MaxDepth=14, limit=30000),
        sim=dict(alpha=ALPHA, MaxProp=4, MaxComp=2, MaxTimeout=2, MaxDepth=80, num=30000),
    ),
}


def _printable(consts: dict) -> dict:
    return {k: (f"{len(v)} symbols" if isinstance(v, list) and v and isinstance(v[0], dict) else v) for k, v in consts.items()}


def _trace_consts() -> dict:
    return dict(BASE, MaxClock=999, MaxDepth=0, SysAlpha=[], RegAlpha=[], OpAlpha=[], Mode="trace",
                MaxProp=0, MaxComp=0, MaxTimeout=0, MaxReqs=9999, MaxBack=9999, Unit=UNIT_MW, Tol=TOL_MW)


def _design(rep: Report, sc: dict, work: Path) -> None:
    """Design-level model checking of the composed specification, all interleavings (no history bound)."""
    consts = dict(BASE, **sc["alpha"][sc["kind"]], MaxDepth=0, Mode="mc", MaxProp=sc["MaxProp"], MaxComp=sc["MaxComp"], MaxTimeout=sc["MaxTimeout"])
    props = ["EventuallyQuiescent"] if sc["live"] else []
    res = run_tlc("PowerPath", work / sc["name"], constants=consts, spec="PPFairSpec", view="PPView", invariants=MC_INV, properties=props,
                  extra_defs=EXTRA_DEFS, timeout=6000, heap="6g")
    rep.add_mc(sc["name"], res, _printable(consts), MC_INV + props, mode="exhaustive, all interleavings" + (", liveness under weak fairness" if props else ""))
    if not res.ok:
        rep.fail(f"{PROP}.MC." + "/".join(res.violated), dict(stage=sc["name"], constants=_printable(consts)), res.counterexample[:3000])


def _witness(recs: list[dict]) -> dict:
    """How often each clause's antecedent was exercised in the recorded executions (counting only)."""
    w = dict(executions=0, requests=0, distributions=0, set_power_calls=0, results_received=0, partial_failures=0, resend_after_partial=0,
             excess_nonzero=0, requests_coalesced=0, request_while_distribution_running=0, requests_after_bounds=0, both_targets=0,
             timeouts=0, instant_replies=0, failed_calls=0, final_with_request=0, final_with_failed_power=0, final_with_excess=0,
             bounds_consumed=0, comp_changes=0, odd_split=0)
    for r in recs:
        w["executions"] += 1
        L = r["lines"]
        running = 0
        entered = set()
        last_in = None  # what the manager consumed last: the handler that is running
        rr = ro = NONE
        lastres = None
        for i, x in enumerate(L):
            e = x["ev"]
            if e in ("prop", "bounds", "got"):
                last_in = e
            if e == "req":
                w["requests"] += 1
                w["request_while_distribution_running"] += running > 0
                w["requests_after_bounds"] += last_in == "bounds"
                w["resend_after_partial"] += last_in == "got"
            elif e == "rep":
                if x["g"] == "r":
                    rr = x["t"]
                else:
                    ro = x["t"]
            elif e == "enter":
                running += 1
                entered.add(x["k"])
                w["distributions"] += 1
            elif e == "exit":
                running -= 1
            elif e == "call":
                w["set_power_calls"] += 1
                w["odd_split"] += x["p"] % 1000 != 0
                w["instant_replies"] += i + 1 < len(L) and L[i + 1]["ev"] == "reply"
            elif e == "reply":
                w["failed_calls"] += x["o"] != "ok"
                w["timeouts"] += x["o"] == "to"
            elif e == "res":
                lastres = x
                w["partial_failures"] += x["type"] == "PartialFailure"
                w["excess_nonzero"] += x["ex"] != 0
            elif e == "got":
                w["results_received"] += 1
            elif e == "bounds":
                w["bounds_consumed"] += 1
            elif e == "comp":
                w["comp_changes"] += i > 0
            elif e == "final":
                nreq = sum(1 for y in L if y["ev"] == "req")
                w["requests_coalesced"] += nreq - len(entered)
                w["final_with_request"] += nreq > 0
                if lastres is not None:
                    w["final_with_failed_power"] += lastres["fp"] != 0
                    w["final_with_excess"] += lastres["ex"] != 0
        w["both_targets"] += rr != NONE and ro != NONE
    return w


_MIN_WITNESS = ["requests", "distributions", "set_power_calls", "results_received", "partial_failures", "resend_after_partial", "excess_nonzero",
                "requests_coalesced", "request_while_distribution_running", "requests_after_bounds", "both_targets", "failed_calls",
                "final_with_request", "bounds_consumed", "comp_changes"]


def _stage(rep: Report, name: str, kind: str, sc: dict, work: Path, simulate: bool) -> None:
    """MC+GEN, RUN, VAL for one scope and one kind of pool."""
    global _CFG
    consts = dict(BASE, **sc["alpha"][kind], MaxDepth=sc["MaxDepth"], Mode="sim" if simulate else "history",
                  MaxProp=sc["MaxProp"], MaxComp=sc["MaxComp"], MaxTimeout=sc["MaxTimeout"])
    d = work / name
    d.mkdir(parents=True, exist_ok=True)
    cases_file = d / "cases.ndjson"
    sim = f"num={max(1, sc['num'] // (2 * NCPU))}" if simulate else None
    # (no -coverage: TLC's cost-model creation does not terminate on the nested operators of PowerManager.tla;
    #  per-action counts are taken from the emitted behaviours instead)
    res = run_tlc(
        "PowerPath", d, constants=consts, init="PPInit", next_="PPNext", view="PPViewD", invariants=MC_INV + (["PPSimEmit"] if simulate else []),
        env={"OUT_FILE": str(cases_file)}, simulate=sim, depth=(consts["MaxDepth"] + 2 if simulate else None),
        seed=(SEED + 23 if simulate else None), extra_defs=EXTRA_DEFS, timeout=3000,
    )
    raw = read_emitted(cases_file)
    acts = {a: 0 for a in ACTIONS}
    for hh in raw:
        for s in (hh[1:] if simulate else hh[-1:]):
            acts[s["a"] + ("." + s["n"] if s["a"] == "int" else "")] += 1
    res.coverage = acts
    rep.add_mc(name, res, _printable(consts), MC_INV, mode=("simulate " + sim) if simulate else "exhaustive to the history bound, one behaviour per transition")
    if not res.ok:
        rep.fail(f"{PROP}.MC." + "/".join(res.violated), dict(stage=name, constants=_printable(consts)), res.counterexample[:3000])
        return
    for a in ACTIONS:
        if not acts[a] and not (a == "timeout" and sc["MaxTimeout"] == 0):
            raise RuntimeError(f"vacuity: action {a} never taken in {name} ({acts})")
    raw.sort(key=lambda c: json.dumps(c, sort_keys=True))  # TLC's workers emit in a varying order
    cases = [dict(id=i + 1, h=c) for i, c in enumerate(raw)]
    total = len(cases)
    if sc.get("limit"):
        cases, cut = subsample(cases, sc["limit"])
        if cut:
            rep.exhaustive = False
    _CFG = dict(Kinds=[kind], Socs=SOCS, Prio=BASE["Prio"], Instant=True)
    tm = Timer()
    shards = replay_parallel(_worker, cases, d)
    t_run = tm.s()
    fails, done, st = validate_shards(
        "PowerPathTrace", shards, d, constants=_trace_consts(), invariants=["TraceInv"],
        unconsumed_clause=f"{PROP}.TraceNotExplainedBySpec", dfs_queue=True,
    )
    rep.validated += done
    recs = [r for p in shards for r in load_ndjson(p)]
    byid = {r["id"]: r for r in recs}
    wit = _witness(recs)
    nfail = 0
    for v in fails:
        tr = byid.get(v["tid"])
        nfail += 1
        rep.fail(v["clause"], dict(stage=name, kind=kind, trace=tr, line=v.get("l")), v.get("detail"), deviations=v.get("deviations") or [])
    if not nfail:  # vacuity guards are only meaningful when the clauses held
        for k in _MIN_WITNESS:
            if not wit[k]:
                raise RuntimeError(f"vacuity: no recorded execution of stage {name} exercised '{k}' ({wit})")
    rep.extra.setdefault("stages", []).append(dict(
        stage=name, kind=kind, cases_emitted=total, cases_replayed=len(cases), traces_validated=done, val_states=st["states"],
        transitions_per_action=acts, wall_s=dict(mc=res.wall_s, run=t_run, val=round(tm.s() - t_run, 2)),
        clause_antecedents_exercised=wit,
    ))
    if recs and len(rep.samples) < 4:
        rep.samples.append(recs[len(recs) // 2])


def run(prop: str, tier: str) -> int:
    tm = Timer()
    rep = Report(prop, tier)
    sc = SCOPES[tier]
    work = scratch(f"{prop}_{tier}")
    rep.assumptions = [
        "one pool of two units (battery pool: two batteries with one inverter each, SoC mid-range, no exclusion bounds; PV pool: two inverters); "
        "the manager's side uses integer W on a small grid, set-points are recorded as integer mW (tolerance 2 mW)",
        "real PowerManagingActor, PowerDistributingActor, BatteryManager / PVManager, Matryoshka, channels; substituted from the harness: connection "
        "manager + API client (set_power parks until resolved or answers at once), ComponentPoolStatusTracker (all components working; C16), "
        "_data_pipeline.new_battery_pool / new_pv_pool (the bounds stream: the harness sends the component data first and the pool bounds afterwards)",
        "recording Sender / Receiver / ChannelRegistry objects passed through the constructors log in program order and delegate",
        "'reported at that time' = the report of each group that the same handler sends right after the Request (else the latest before it); "
        "'bounds the pool streamed' = the latest SystemBounds the manager's bounds tracker had consumed",
        "virtual time only moves for API timeouts (5 s each, at most 2 per execution): proposals do not expire (C11 covers expiry)",
        "the distribution algorithms themselves are C01 / C02 / C15 / C17; the composed model only assumes set-points sum to the clamped request",
    ]
    for d in sc["mc"]:
        _design(rep, d, work)
    for kind in ("bat", "pv"):
        _stage(rep, f"hist_{kind}", kind, sc["hist"], work, simulate=False)
        _stage(rep, f"sim_{kind}", kind, sc["sim"], work, simulate=True)
    rep.exhaustive = False
    return rep.finish(tm.s())


def replay(prop: str, data: dict) -> int:
    """./check X02 --replay <file>: re-run the recorded behaviour on the real actors and validate it again."""
    from .common import use_repo

    use_repo()
    import warnings

    warnings.simplefilter("ignore")
    case = data.get("case") or {}
    tr = case.get("trace")
    if not tr:
        print(json.dumps(data, indent=1)[:4000])
        return 0
    cfg = dict(Kinds=[tr["kind"]], Socs=[tr["soc"]], Prio=BASE["Prio"], Instant=True)
    rec = execute(_Env(), dict(id=tr["id"], h=tr["h"]), cfg)
    d = scratch(f"{prop}_replay")
    p = d / "impl_0.ndjson"
    p.write_text(json.dumps(rec, separators=(",", ":")) + "\n")
    fails, _, _ = validate_shards("PowerPathTrace", [p], d, constants=_trace_consts(), invariants=["TraceInv"],
                                  unconsumed_clause=f"{PROP}.TraceNotExplainedBySpec", dfs_queue=True)
    for i, x in enumerate(rec["lines"], start=1):
        print(i, json.dumps(x))
    for v in fails:
        print("FALSE", v["clause"], "line", v.get("l"), json.dumps(v.get("detail"))[:300], v.get("deviations") or "")
    return 1 if fails else 0
