"""C06 / C19: FormulaSync.tla and FormulaFallback.tla.

TLC behaviours (order of deliveries on the input streams, the moment the consumer starts,
fault scripts) are injected into real Broadcast channels feeding a real FormulaEngine /
FormulaEngine3Phase / MetricFetcher-with-fallback under the manually pumped loop; the samples
the engine emitted are decoded (the formula encodes which input sample of which timestamp went
into each value) and validated by TLC against FormulaSyncTrace / FormulaFallbackTrace.
"""

from __future__ import annotations

import json
import os
import time
from datetime import timedelta
from pathlib import Path

from .common import SEED, Timer, scratch
from .pipeline import load_ndjson, replay_parallel, subsample, validate_shards
from .tlc import MachineryError, read_emitted, run_tlc
from .verdict import Report

NONE = -99
B = 16  # C06: value = sum over streams of B^s * timestamp index
VARIANTS = ("lock", "lazy", "burst")
VAL_JVMS = 6

C06_INV = ["SingleTimestamp", "ThreePhaseSingleTimestamp", "Consecutive", "ScheduleIndependent", "BacklogBounded"]
C19_INV = [
    "ReturnsToPrimary", "FallbackValueUsed", "TimestampsAligned", "EmitsEveryTimestamp",
    "SurvivesPrimaryStreamFailure", "StartupBounded", "StartupDelayBounded", "BacklogBounded",
]

SCOPES = {
    "C06": {
        "smoke": [  # small scopes used for the self-test of the binding (mutants, corrupted records)
            dict(name="single2", consts=dict(NS=2, Firsts={0, 1, 2}, Cap=2, Horizon=4, Config="single"), limit=400),
            dict(name="single3", consts=dict(NS=3, Firsts={0, 1}, Cap=2, Horizon=3, Config="single"), limit=300),
            dict(name="phase3", consts=dict(NS=3, Firsts={0, 1}, Cap=2, Horizon=3, Config="3phase"), limit=300),
        ],
        "quick": [
            dict(name="single2", consts=dict(NS=2, Firsts={0, 1, 2}, Cap=3, Horizon=5, Config="single"), limit=1500),
            dict(name="single3", consts=dict(NS=3, Firsts={0, 1, 2}, Cap=2, Horizon=4, Config="single"), limit=2100),
            dict(name="phase3", consts=dict(NS=3, Firsts={0, 1, 2}, Cap=2, Horizon=3, Config="3phase"), limit=1000),
            dict(name="sim", consts=dict(NS=3, Firsts={0, 1, 2, 3}, Cap=3, Horizon=9, Config="single", MaxDepth=70), sim=640),
        ],
        "thorough": [
            dict(name="single2", consts=dict(NS=2, Firsts={0, 1, 2}, Cap=3, Horizon=6, Config="single"), limit=None),
            dict(name="single3", consts=dict(NS=3, Firsts={0, 1, 2}, Cap=3, Horizon=5, Config="single"), limit=40000),
            dict(name="phase3", consts=dict(NS=3, Firsts={0, 1, 2}, Cap=3, Horizon=4, Config="3phase"), limit=20000),
            dict(name="sim", consts=dict(NS=3, Firsts={0, 1, 2, 3}, Cap=3, Horizon=12, Config="single", MaxDepth=110), sim=16000),
            dict(name="sim3p", consts=dict(NS=3, Firsts={0, 1, 2, 3}, Cap=3, Horizon=10, Config="3phase", MaxDepth=110), sim=8000),
        ],
    },
    "C19": {
        "smoke": [
            dict(name="gen", consts=dict(H=4, Cap=2, Lags={0, 1}, MaxGap=2, FixedSet={False, True}), limit=600, real_every=4),
        ],
        "quick": [
            dict(name="gen", consts=dict(H=4, Cap=2, Lags={0, 1, 2}, MaxGap=2, FixedSet={False, True}), limit=2000, real_every=4),
            dict(name="sim", consts=dict(H=6, Cap=3, Lags={0, 1, 2}, MaxGap=3, FixedSet={True}, MaxDepth=90), sim=800, real_every=4),
        ],
        "thorough": [
            dict(name="gen", consts=dict(H=5, Cap=3, Lags={0, 1, 2}, MaxGap=2, FixedSet={False, True}), limit=20000, real_every=4),
            dict(name="sim", consts=dict(H=7, Cap=3, Lags={0, 1, 2}, MaxGap=3, FixedSet={True}, MaxDepth=120), sim=8000, real_every=4),
        ],
    },
}


# ---------------------------------------------------------------------------
# real-code side (shared)
def _inject(coro) -> None:
    """Run a channel coroutine (send / close) that must finish without suspending."""
    try:
        coro.send(None)
    except StopIteration:
        return
    coro.close()
    raise RuntimeError("channel operation suspended; cannot inject synchronously")


class _Pump:
    """How the harness pumps the loop between injected events."""

    def __init__(self, loop, variant: str) -> None:
        self.loop = loop
        self.variant = variant
        self.forced = 0

    def after_event(self) -> None:
        if self.variant == "lock":
            self.loop.run_until_idle()

    def internal(self) -> None:
        # one spec-internal action in the behaviour = one loop iteration (lazy), nothing (burst)
        if self.variant == "lazy" and not self.loop.idle():
            self.loop.step()
        elif self.variant == "lock":
            self.loop.run_until_idle()

    def room(self, recv, cap: int, must: bool = False) -> bool:
        """The model's producers respect the receiver capacity; so does the harness."""
        if len(recv) >= cap:
            self.forced += 1
            self.loop.run_until_idle()
            if len(recv) >= cap:
                if must:
                    raise RuntimeError("receiver buffer stays full: cannot inject without losing a sample")
                return False
        return True


def _its(dt) -> int:
    from .vloop import EPOCH

    s = (dt - EPOCH).total_seconds()
    return int(s) if float(s).is_integer() else -98


# ---------------------------------------------------------------------------
# C06
def exec_c06(case: dict, cfg: dict, variant: str) -> dict:
    from frequenz.channels import Broadcast
    from frequenz.quantities import Quantity

    from frequenz.sdk.timeseries import Sample
    from frequenz.sdk.timeseries.formula_engine._formula_engine import FormulaBuilder, FormulaEngine, FormulaEngine3Phase

    from .vloop import EPOCH, ManualLoop

    ns, cap, three = cfg["NS"], cfg["Cap"], cfg["Config"] == "3phase"
    first = case["first"]
    h = list(case["h"])
    if not any(a["a"] == "start" for a in h):
        h.append(dict(a="start", s=0))
    with ManualLoop() as loop:
        pump = _Pump(loop, variant)
        chans = [Broadcast(name=f"s{i}") for i in range(ns)]
        recvs = [c.new_receiver(limit=cap) for c in chans]
        snd = [c.new_sender() for c in chans]
        if three:
            engs = tuple(FormulaEngine.from_receiver(f"phase{i}", recvs[i], Quantity) for i in range(ns))
            eng = FormulaEngine3Phase("three", Quantity, engs)
        else:
            b = FormulaBuilder("f", Quantity)
            for i in range(ns):
                if i:
                    b.push_oper("+")
                b.push_metric(f"m{i}", recvs[i], nones_are_zeros=False)
                if i:
                    b.push_oper("*")
                    b.push_constant(float(B**i))
            eng = b.build()
        out = None
        nxt = list(first)
        ev, cnt = [], []
        deferred = [0] * ns  # productions the real buffers had no room for yet (the code's
        # synchronisation blocks on one stream at a time, the TLC behaviour may have picked another)
        ndeferred = 0

        def send(i: int) -> None:
            t = nxt[i]
            nxt[i] += 1
            _inject(snd[i].send(Sample(EPOCH + timedelta(seconds=t), Quantity(float(t)))))
            pump.after_event()
            ev.append(dict(a="prod", s=i + 1))
            cnt.append(len(out) if out is not None else 0)

        def flush() -> bool:
            progress = False
            for i in range(ns):
                while deferred[i] and len(recvs[i]) < cap:
                    deferred[i] -= 1
                    send(i)
                    progress = True
            return progress

        for a in h:
            if a["a"] == "prod":
                i = a["s"] - 1
                if deferred[i] or not pump.room(recvs[i], cap):
                    deferred[i] += 1
                    ndeferred += 1
                else:
                    send(i)
            elif a["a"] == "start":
                out = eng.new_receiver(max_size=10000)
                pump.after_event()
                ev.append(dict(a="start", s=0))
                cnt.append(0)
            else:
                pump.internal()
            flush()
        loop.run_until_idle()
        while any(deferred):
            if not flush():
                raise RuntimeError("deferred deliveries cannot be injected: receiver buffers stay full")
            loop.run_until_idle()
        loop.run_until_idle()
        res = []
        while out is not None and len(out):
            s = out.consume()
            if three:
                ins = [NONE if v is None else (int(v.base_value) if float(v.base_value).is_integer() else -98) for v in (s.value_p1, s.value_p2, s.value_p3)]
            elif s.value is None or not float(s.value.base_value).is_integer():
                ins = [NONE] * ns
            else:
                v = int(s.value.base_value)
                ins = [(v // B**i) % B for i in range(ns)]
            res.append(dict(ts=_its(s.timestamp), ins=ins))
    return dict(id=case["id"], cfg=cfg["Config"], variant=variant, first=first, ev=ev, cnt=cnt, out=res, forced=pump.forced, deferred=ndeferred)


# ---------------------------------------------------------------------------
# C19
def exec_c19(case: dict, cfg: dict, variant: str, real_fetcher: bool) -> dict:
    import logging

    from frequenz.channels import Broadcast, Receiver, ReceiverError, ReceiverStoppedError
    from frequenz.client.microgrid import ComponentMetricId
    from frequenz.quantities import Power, Quantity

    from frequenz.sdk._internal._channels import ChannelRegistry
    from frequenz.sdk.microgrid._data_sourcing import ComponentMetricRequest
    from frequenz.sdk.timeseries import Sample
    from frequenz.sdk.timeseries.formula_engine import _formula_engine as fe_mod
    from frequenz.sdk.timeseries.formula_engine._formula_engine import FormulaBuilder
    from frequenz.sdk.timeseries.formula_engine._formula_generators._fallback_formula_metric_fetcher import (
        FallbackFormulaMetricFetcher,
    )
    from frequenz.sdk.timeseries.formula_engine._formula_generators._formula_generator import (
        FormulaGenerator,
        FormulaGeneratorConfig,
    )
    from frequenz.sdk.timeseries.formula_engine._formula_steps import FallbackMetricFetcher

    from .vloop import EPOCH, ManualLoop

    cap, hor = cfg["Cap"], cfg["H"]
    pseq, fseq, close_at, lag = case["pseq"], case["fseq"], case["closeAt"], case["lag"]
    kind = "closed" if case["id"] % 2 == 0 else "error"
    h = list(case["h"])
    if not any(a["a"] == "start" for a in h):
        h.append(dict(a="start", s=""))
    # complete the last ticks (input construction only): every stream gets all its samples
    n = {k: sum(1 for a in h if a["a"] == "prod" and a["s"] == k) for k in "PFR"}
    for t in range(1, hor + 1):
        for k in "PFR":
            if n[k] < t:
                h.append(dict(a="prod", s=k))
                n[k] += 1

    def missing(t: int):
        return None if (case["id"] + t) % 2 else Power.from_watts(float("nan"))

    class PrimRx(Receiver):  # the primary stream: counts what the fetcher consumed, raises as scripted
        def __init__(self, inner) -> None:
            self.inner = inner
            self.seen_bad = False

        async def ready(self) -> bool:
            return await self.inner.ready()

        def consume(self):
            try:
                m = self.inner.consume()
            except ReceiverStoppedError:
                self.seen_bad = True
                if kind == "error":
                    raise ReceiverError("primary stream failed", self) from None
                raise
            if m.value is None or m.value.isnan():
                self.seen_bad = True
            return m

    class ChanFallback(FallbackMetricFetcher):  # controllable fallback over a channel
        def __init__(self, chan) -> None:
            self.chan = chan
            self.rx = None

        @property
        def name(self) -> str:
            return "fallback"

        @property
        def is_running(self) -> bool:
            return self.rx is not None

        def start(self) -> None:
            self.rx = self.chan.new_receiver(limit=50)

        async def ready(self) -> bool:
            if self.rx is None:
                self.start()
            return await self.rx.ready()

        def consume(self):
            return self.rx.consume()

    errs: list[str] = []

    class Grab(logging.Handler):
        def emit(self, record) -> None:
            msg = record.getMessage()
            if "Formula application failed" in msg and len(errs) < 3 and msg[-90:] not in errs:
                errs.append(msg[-90:])

    grab = Grab()
    with ManualLoop() as loop:
        pump = _Pump(loop, variant)
        pch, rch = Broadcast(name="primary"), Broadcast(name="ref")
        prx = PrimRx(pch.new_receiver(limit=cap))
        rrx = rch.new_receiver(limit=cap)
        psnd, rsnd = pch.new_sender(), rch.new_sender()
        if real_fetcher:
            registry = ChannelRegistry(name="verif")
            sub = Broadcast(name="subscriptions")
            sub_rx = sub.new_receiver(limit=50)  # noqa: F841  (keeps the requests somewhere)

            class Gen(FormulaGenerator):
                def generate(self):
                    b = self._get_builder("fallback-formula", ComponentMetricId.ACTIVE_POWER, Power.from_watts)
                    b.push_component_metric(31, nones_are_zeros=False)
                    b.push_oper("+")
                    b.push_component_metric(32, nones_are_zeros=False)
                    return b.build()

            gen = Gen("verif-fb", registry, sub.new_sender(), FormulaGeneratorConfig(component_ids={31, 32}, allow_fallback=False))
            fb = FallbackFormulaMetricFetcher(gen)
            fsnd = [
                registry.get_or_create(Sample[Quantity], ComponentMetricRequest("verif-fb", cid, ComponentMetricId.ACTIVE_POWER, None).get_channel_name()).new_sender()
                for cid in (31, 32)
            ]
        else:
            fch = Broadcast(name="fallback")
            fb = ChanFallback(fch)
            fsnd = [fch.new_sender()]
        b = FormulaBuilder("f", Power.from_watts)
        b.push_metric("P", prx, nones_are_zeros=True, fallback=fb)
        b.push_oper("+")
        b.push_metric("R", rrx, nones_are_zeros=False)
        b.push_oper("*")
        b.push_constant(64.0)
        eng = b.build()
        fe_mod._logger.addHandler(grab)
        logging.disable(logging.NOTSET)
        try:
            out = None
            tick = dict(P=0, F=0, R=0)
            skip = None  # fallback samples still to be lost once the fallback runs
            fev = []
            closed = False
            n_p = 0
            pending = dict(P=0, F=0, R=0)  # productions of the behaviour not yet injected
            ndeferred = 0

            def can(k: str) -> bool:
                t = tick[k] + 1
                if min(tick.values()) < t - 1:  # tick t starts when every stream has its sample t - 1
                    return False
                if k == "P":
                    return t >= close_at or pump.room(prx.inner, cap)
                if k == "R":
                    return pump.room(rrx, cap)
                return True

            def produce(k: str) -> None:
                nonlocal skip, closed, n_p
                tick[k] += 1
                t = tick[k]
                ts = EPOCH + timedelta(seconds=t)
                if k == "P":
                    if t < close_at:
                        _inject(psnd.send(Sample(ts, Power.from_watts(float(1 + t)) if pseq[t - 1] == "v" else missing(t))))
                        n_p += 1
                    elif t == close_at:
                        _inject(pch.aclose())
                        closed = True
                elif k == "R":
                    _inject(rsnd.send(Sample(ts, Power.from_watts(float(t)))))
                else:
                    if fb.is_running and skip is None:
                        skip = lag
                    deliv = fb.is_running and skip == 0
                    if fb.is_running and skip:
                        skip -= 1
                    fev.append(dict(t=t, deliv=bool(deliv), bad=bool(prx.seen_bad)))
                    if deliv:
                        val = (Quantity(float(17 + t)) if real_fetcher else Power.from_watts(float(17 + t))) if fseq[t - 1] == "v" else None
                        if val is None and not real_fetcher:
                            val = missing(t)
                        _inject(fsnd[0].send(Sample(ts, val)))
                        if real_fetcher:
                            _inject(fsnd[1].send(Sample(ts, Quantity(0.0))))
                pump.after_event()

            def flush(first: str | None = None) -> bool:
                # inject what the real buffers have room for, the behaviour's stream first; a delivery
                # the code has no room for yet (it resolved a choice differently) waits, in stream order
                progress = False
                again = True
                while again:
                    again = False
                    for k in ([first] if first else []) + [x for x in "PFR" if x != first]:
                        if pending[k] and can(k):
                            pending[k] -= 1
                            produce(k)
                            progress = again = True
                return progress

            for a in h:
                if a["a"] == "prod":
                    pending[a["s"]] += 1
                    if not (can(a["s"]) and sum(pending.values()) == 1):
                        ndeferred += 1
                    flush(a["s"])
                elif a["a"] == "start":
                    out = eng.new_receiver(max_size=10000)
                    pump.after_event()
                    flush()
                else:
                    pump.internal()
                    flush()
            loop.run_until_idle()
            while any(pending.values()):
                if not flush():
                    break  # the consumer is blocked for good with full buffers: these streams end here
                loop.run_until_idle()
            loop.run_until_idle()
            pleft, rleft = len(prx.inner), len(rrx)
            res = []
            while out is not None and len(out):
                s = out.consume()
                if s.value is None or not float(s.value.base_value).is_integer():
                    res.append(dict(ts=_its(s.timestamp), rts=NONE, src="invalid", sts=NONE))
                    continue
                v = int(s.value.base_value)
                m, rts = v % 64, v // 64
                if m == 0:
                    res.append(dict(ts=_its(s.timestamp), rts=rts, src="none", sts=NONE))
                elif m <= 16:
                    res.append(dict(ts=_its(s.timestamp), rts=rts, src="p", sts=m - 1))
                else:
                    res.append(dict(ts=_its(s.timestamp), rts=rts, src="f", sts=m - 17))
        finally:
            fe_mod._logger.removeHandler(grab)
            logging.disable(logging.CRITICAL)
    return dict(
        id=case["id"], variant=variant, fetcher="real" if real_fetcher else "chan", kind=kind,
        pseq=pseq, fseq=fseq, closeAt=close_at, lag=lag, np=n_p, nr=tick["R"], closed=closed, pleft=pleft, rleft=rleft,
        fev=fev, out=res, forced=pump.forced, deferred=ndeferred, undelivered=sum(pending.values()), errs=errs,
    )


# ---------------------------------------------------------------------------
_CFG: dict = {}


def _worker(chunk, out_path):
    import warnings

    from .common import use_repo

    use_repo()
    warnings.simplefilter("ignore")
    import logging

    logging.getLogger().addHandler(logging.NullHandler())
    logging.lastResort = None
    cfg = _CFG
    with open(out_path, "w") as f:
        for c in chunk:
            if cfg["prop"] == "C06":
                rec = exec_c06(c["case"], cfg, c["variant"])
            else:
                rec = exec_c19(c["case"], cfg, c["variant"], c["real"])
            rec["id"] = c["id"]
            f.write(json.dumps(rec, separators=(",", ":")) + "\n")


def _quiet_loop_errors() -> None:
    """Tasks that die with an exception are expected in C19; keep asyncio from printing them."""
    import asyncio

    asyncio.base_events.BaseEventLoop.default_exception_handler = lambda self, context: None  # type: ignore[method-assign]


def _merge(fails: list[dict]) -> tuple[list[dict], dict]:
    """Book-keeping: both error-handling variants report on the same record.

    The primary variant (fixed = TRUE, the code as it is) names the deviations when it explains the
    recorded output; otherwise the names come from whichever variant explains it (none: no names).
    """
    meta: dict = {}
    for v in fails:
        if v["clause"] == "_explained":
            m = meta.setdefault(v["tid"], dict(by=[], spec={}))
            if v["ok"]:
                m["by"].append(v["fixed"])
            m["spec"][str(v["fixed"])] = v.get("spec")
    merged: dict = {}
    for v in fails:
        if v["clause"] == "_explained":
            continue
        key = (v["tid"], v["clause"], json.dumps(v.get("detail"), sort_keys=True, default=str))
        primary_explains = True in meta.get(v["tid"], dict(by=[]))["by"]
        devs = set(v.get("deviations", [])) if (v.get("fixed") or not primary_explains) else set()
        if key in merged:
            merged[key]["deviations"] = sorted(set(merged[key]["deviations"]) | devs)
        else:
            merged[key] = dict(v, deviations=sorted(devs))
    return list(merged.values()), meta


def _generate(rep: Report, prop: str, name: str, module: str, inv: list, consts: dict, sim, d: Path, cases_file: Path) -> bool:
    res = run_tlc(
        module, d, constants=consts, view="View", invariants=inv + (["SimEmit"] if sim else []),
        env={"OUT_FILE": str(cases_file)}, coverage=not sim, simulate=(f"num={max(1, sim // 16)}" if sim else None),
        depth=(consts["MaxDepth"] + 2 if sim else None), seed=(SEED + 11 if sim else None), timeout=2400,
    )
    rep.add_mc(name, res, consts, inv, mode=("simulate" if sim else "exhaustive+emit"))
    if not res.ok:
        rep.fail(f"{prop}.MC." + "/".join(res.violated), dict(stage=name), res.counterexample[:3000])
        return False
    if not sim:
        if prop == "C19":
            expected = ["InstallStep", "ProducePStep", "ProduceFStep", "ProduceRStep", "StartStep", "PrimStep", "FirstFStep",
                        "CatchUpStep", "FbOnlyStep", "RRecvStep", "RoundStep", "SyncTStep", "SyncRStep"]
        elif consts["Config"] == "single":
            expected = ["ProduceStep", "StartStep", "FetchStep", "RoundStep", "SyncWaitStep", "SyncFetchStep", "SyncDoneStep", "EmitStep"]
        else:
            expected = ["ProduceStep", "StartStep", "PhaseStep", "ZipStep"]
        for a in expected:
            if not res.coverage.get(a):
                raise RuntimeError(f"vacuity: action {a} never taken in {name} ({res.coverage})")
    return True


def _stage(rep: Report, prop: str, sc: dict, work: Path, tier: str) -> None:
    global _CFG
    name = sc["name"]
    sim = sc.get("sim")
    d = work / name
    d.mkdir(parents=True, exist_ok=True)
    cases_file = d / "cases.ndjson"
    module = "FormulaSync" if prop == "C06" else "FormulaFallback"
    inv = C06_INV if prop == "C06" else C19_INV
    consts = dict(sc["consts"])
    consts.setdefault("MaxDepth", 0)
    consts["Mode"] = "sim" if sim else "gen"
    t_mc = Timer()
    reuse = os.environ.get("VERIF_CASES_FROM")  # self-test of the binding only: skip MC+GEN, reuse its cases
    if reuse and (Path(reuse) / name / "cases.ndjson").exists():
        cases_file = Path(reuse) / name / "cases.ndjson"
        rep.notes.append(f"stage {name}: MC+GEN skipped, cases reused from {cases_file}")
    else:
        if not _generate(rep, prop, name, module, inv, consts, sim, d, cases_file):
            return
    # TLC's workers write in a run-dependent order: sort, so that ids and the seeded subsample are stable
    raw = sorted(read_emitted(cases_file), key=lambda c: json.dumps(c, sort_keys=True))
    total = len(raw)
    base = [dict(id=i + 1, **c) for i, c in enumerate(raw)]
    if sc.get("limit") and prop == "C19":
        # half of the replayed behaviours without a primary stream failure (they exercise the switching),
        # half with one (they exercise the error paths)
        def gap(c):
            return sum(1 for x in c["pseq"] if x == "n")

        calm2 = [c for c in base if c["closeAt"] > consts["H"] and gap(c) >= 2]  # long enough to use the fallback
        calm1 = [c for c in base if c["closeAt"] > consts["H"] and gap(c) < 2]
        fail = [c for c in base if c["closeAt"] <= consts["H"]]
        calm2, cut0 = subsample(calm2, sc["limit"] // 3)
        calm1, cut1 = subsample(calm1, sc["limit"] // 6)
        calm = calm2 + calm1
        cut1 = cut0 or cut1
        fail, cut2 = subsample(fail, sc["limit"] - len(calm))
        base = sorted(calm + fail, key=lambda c: c["id"])
        rep.exhaustive = rep.exhaustive and not (cut1 or cut2)
    elif sc.get("limit"):
        base, cut = subsample(base, sc["limit"])
        rep.exhaustive = rep.exhaustive and not cut
    cases = []
    for c in base:
        for vi, variant in enumerate(VARIANTS):
            real = prop == "C19" and (c["id"] + vi) % sc.get("real_every", 4) == 0
            cases.append(dict(id=c["id"] * 4 + vi, case=c, variant=variant, real=real))
    _CFG = dict(consts, prop=prop)
    t_mc_s = t_mc.s()
    t_run = Timer()
    shards = replay_parallel(_worker, cases, d)
    t_run_s = t_run.s()
    t_val = Timer()
    vconsts = dict(consts, Mode="trace")
    # fewer, larger validation inputs: a JVM start costs more than validating a few hundred traces
    vshards = []
    for k in range(VAL_JVMS):
        part = shards[k::VAL_JVMS]
        if part:
            vp = d / f"val_{k}.ndjson"
            with open(vp, "w") as f:
                for p_ in part:
                    f.write(open(p_).read())
            vshards.append(vp)
    tmod = "FormulaSyncTrace" if prop == "C06" else "FormulaFallbackTrace"
    for attempt in (1, 2, 3):
        try:
            fails, done, st = validate_shards(tmod, vshards, d, constants=vconsts, heap="2g")
            break
        except MachineryError as ex:
            # a JVM killed from outside (the machine is shared: kernel OOM killer) is retried, nothing else
            if "rc=-9" not in str(ex) or attempt == 3:
                raise
            rep.notes.append(f"stage {name}: a validation JVM was killed (rc=-9), validation repeated")
            time.sleep(20 * attempt)
    meta: dict = {}
    if prop == "C19":
        fails, meta = _merge(fails)
    rep.validated += done
    recs = {r_["id"]: r_ for p in shards for r_ in load_ndjson(p)}
    vac = _witness(rep, prop, name, recs, meta, total, len(base), st)
    rep.extra["stages"][-1]["wall_s"] = dict(mc_gen=t_mc_s, run=t_run_s, val=t_val.s())
    if recs and len(rep.samples) < 4:
        ids = sorted(recs)
        rep.samples.append(recs[ids[len(ids) // 2]])
    for v in fails:
        if not v["clause"].startswith(prop + "."):
            continue
        r_ = recs.get(v["tid"])
        rep.fail(v["clause"], dict(stage=name, constants={k: (sorted(x) if isinstance(x, (set, frozenset)) else x) for k, x in consts.items()}, trace=r_),
                 v.get("detail"), deviations=v.get("deviations", []))
    if vac and not any(v["clause"].startswith(prop + ".") for v in fails):
        # the code's outputs never exercised a clause although nothing failed: the check would be vacuous
        raise RuntimeError(vac)


def _witness(rep: Report, prop: str, name: str, recs: dict, meta: dict, total: int, replayed: int, st: dict) -> str | None:
    """Vacuity guards: how many recorded executions exercised each clause's antecedent."""
    w: dict = {}
    vac = None
    if prop == "C06":
        w = dict(samples_emitted=0, traces_with_output=0, unequal_first=0, sync_needed_and_output=0, consumer_started_late=0,
                 forced_pumps=0, deferred_deliveries=0, by_variant={v: 0 for v in VARIANTS})
        for r_ in recs.values():
            w["samples_emitted"] += len(r_["out"])
            w["traces_with_output"] += bool(r_["out"])
            uneq = len(set(r_["first"])) > 1
            w["unequal_first"] += uneq
            w["sync_needed_and_output"] += bool(uneq and r_["out"])
            w["consumer_started_late"] += bool(r_["ev"] and r_["ev"][0]["a"] == "prod")
            w["forced_pumps"] += r_["forced"]
            w["deferred_deliveries"] += r_["deferred"]
            w["by_variant"][r_["variant"]] += 1
        if not w["samples_emitted"] or not w["sync_needed_and_output"]:
            vac = f"vacuity: no output / no run that needed synchronisation in {name}: {w}"
    else:
        w = dict(records=0, fallback_used=0, returned_to_primary=0, none_both_missing=0, primary_failed=0, failed_closed=0, failed_error=0,
                 fallback_never_started=0, real_fetcher=0, real_fetcher_fallback_used=0, forced_pumps=0, deferred_deliveries=0,
                 explained_by_dead_error_path_model=0, explained_by_primary_model=0, unexplained=0, error_texts=[])
        for r_ in recs.values():
            w["records"] += len(r_["out"])
            fu = [o["rts"] for o in r_["out"] if o["src"] == "f"]
            w["fallback_used"] += bool(fu)
            w["returned_to_primary"] += bool(fu and any(o["src"] == "p" and o["rts"] > fu[0] for o in r_["out"]))
            w["none_both_missing"] += any(o["src"] == "none" and o["rts"] > 0 and r_["fseq"][o["rts"] - 1] == "n" for o in r_["out"] if 0 < o["rts"] <= len(r_["fseq"]))
            w["primary_failed"] += bool(r_["closed"])
            w["failed_closed"] += bool(r_["closed"] and r_["kind"] == "closed")
            w["failed_error"] += bool(r_["closed"] and r_["kind"] == "error")
            w["fallback_never_started"] += not any(e["deliv"] for e in r_["fev"])
            w["real_fetcher"] += r_["fetcher"] == "real"
            w["real_fetcher_fallback_used"] += bool(r_["fetcher"] == "real" and fu)
            w["forced_pumps"] += r_["forced"]
            w["deferred_deliveries"] += r_["deferred"]
            m = meta.get(r_["id"], dict(by=[]))
            w["explained_by_dead_error_path_model"] += False in m["by"]
            w["explained_by_primary_model"] += True in m["by"]
            if not m["by"]:
                w["unexplained"] += 1
                if len(rep.extra.setdefault("disagreements", [])) < 5:
                    rep.extra["disagreements"].append(dict(stage=name, trace=r_, spec=m.get("spec")))
            for e in r_["errs"]:
                if e not in w["error_texts"] and len(w["error_texts"]) < 4:
                    w["error_texts"].append(e)
        if not w["fallback_used"] or not w["returned_to_primary"] or not w["primary_failed"]:
            vac = f"vacuity: a clause antecedent was never exercised in {name}: {w}"
    rep.extra.setdefault("stages", []).append(
        dict(stage=name, cases_emitted=total, cases_replayed=replayed, traces_validated=len(recs), val_states=st["states"], witnessed=w)
    )
    return vac


def run(prop: str, tier: str) -> int:
    tm = Timer()
    rep = Report(prop, tier)
    work = scratch(f"{prop}_{tier}")
    _quiet_loop_errors()
    if prop == "C06":
        rep.assumptions = [
            "input streams are gap-free with one sample per step (what the resampler delivers); producers keep each receiver's backlog within its capacity",
            "asyncio is single-threaded: deliveries are injected between loop iterations; three pumping disciplines (after every event / one iteration per spec-internal step / not at all) realise each TLC behaviour",
            "the formula is sum_s 16^s * value_s with value = timestamp index, so every output value decodes to the per-stream timestamps it was computed from",
            "3-phase configuration: one single-stream engine per phase",
        ]
    else:
        rep.assumptions = [
            "one tick of the environment delivers the samples of one timestamp to primary, fallback and reference stream in any order; the fallback only receives what is produced after it was started, minus `lag` samples",
            "primary failure = channel closed (ReceiverStoppedError) or a wrapped receiver raising ReceiverError, permanent; fallback streams do not fail",
            "term uses nones_are_zeros=True so that a missing term is visible as 0 next to the reference timestamp in the value; missing = None or NaN",
            "a quarter of the executions use the real FallbackFormulaMetricFetcher (lazy engine over ChannelRegistry channels), the rest a FallbackMetricFetcher over one channel",
            "the trace specification also carries the model of the repaired `except ReceiverError[Any]` defect (fixed = FALSE): records only that variant explains are labelled Dev_ErrorPathDead, for which no known-findings entry exists",
        ]
    for sc in SCOPES[prop][tier]:
        _stage(rep, prop, sc, work, tier)
    if tier == "quick" or any(s.get("sim") for s in SCOPES[prop][tier]):
        rep.exhaustive = False
    return rep.finish(tm.s())
