"""C07 / C08: the resampler's timeline (ResamplerTimeline.tla) and relevance window (ResamplerWindow.tla).

MC+GEN -> RUN (real Resampler under the virtual-time loop) -> VAL (TLC evaluates every clause on the
recorded values) -> VERDICT.  Python builds inputs, drives the code, records and counts.
"""

from __future__ import annotations

import asyncio
import json
import math
from datetime import timedelta
from pathlib import Path

from .common import SEED, Timer, scratch
from .pipeline import load_ndjson, replay_parallel, subsample, validate_shards
from .tlc import run_tlc
from .verdict import Report

NONE = -99
OFFGRID = 999983  # a timestamp the real code produced that is not a whole number of ticks
TICK_S = 1.0  # one model tick = one second
SHARDS = 8  # replay processes = validation JVMs per stage (quick: JVM start-up dominates; thorough: 16)


def _ticks(ts, epoch, tick_s: float = TICK_S) -> int:
    x = (ts - epoch).total_seconds() / tick_s
    return int(x) if float(x).is_integer() and abs(x) < 100000 else OFFGRID


def _load_case_lines(path: Path, limit: int | None) -> tuple[list[tuple[int, str]], int, bool]:
    """Unique emitted lines, in a deterministic order, sub-sampled; kept as text (parsed by the workers)."""
    seen: set[str] = set()
    with open(path) as f:
        for line in f:
            line = line.strip()
            if line:
                seen.add(line)
    lines = sorted(seen)  # TLC's workers write in a racy order
    del seen
    total = len(lines)
    cut = False
    if limit and total > limit:
        lines, cut = subsample(lines, limit)
    return [(i + 1, ln) for i, ln in enumerate(lines)], total, cut


def _parse_line(line: str):
    v = json.loads(line)
    return json.loads(v) if isinstance(v, str) else v


def _replay_batched(cases: list, d: Path, batch: int = 32000) -> list[Path]:
    """replay_parallel in batches, so that shards (and the JVMs validating them) stay small."""
    shards: list[Path] = []
    for b in range(0, len(cases), batch):
        shards += replay_parallel(_worker, cases[b : b + batch], d, nproc=SHARDS, prefix=f"impl{b // batch}")
    return shards


# ===========================================================================
# C07
C07_DISAGREEMENT = ("C07.Timeline", "C07.FailureReport")  # equality with the transcription; the property clauses are the other ones
C07_INV = ["Aligned", "Consecutive", "FirstTickWindow", "SameForAllSeries", "CaughtUp", "TimerTracksWindow", "NeverEarly", "TypeOK"]
C07_ACTIONS = ["CreateStep", "AddStep", "PassStep", "FireStep", "ResampleStep", "FinishStep", "BreakStep", "RecoverStep"]

BERLIN = "Europe/Berlin"
# align_to instants (seconds after the harness epoch 2024-01-01T00:00Z, Berlin winter time, UTC+1) that lie in Berlin
# SUMMER time (UTC+2): 2024-07-01T00:00:03+02:00 (future) and 2023-07-01T00:00:04+02:00 (past)
AL_SUMMER_FUTURE = 15717603
AL_SUMMER_PAST = -15904796


# align_to = datetime(1, 1, 1, tzinfo=utc), two thousand years before the epoch: its distance does not fit the spec's
# integers, and only its phase modulo the period matters there, so the spec gets a surrogate tick value with the same
# phase (computed here with exact integer arithmetic) and the harness passes the real datetime (tz name "year1")
YEAR1 = "year1"


def _year1_surrogate(P: int) -> int:
    from datetime import datetime, timezone

    secs = (datetime(1, 1, 1, tzinfo=timezone.utc) - datetime(2024, 1, 1, tzinfo=timezone.utc)) // timedelta(seconds=1)
    return secs % P - 1000 * P


def _tzof(m: dict[int, str]):
    from .tlc import Raw

    return Raw("(" + " @@ ".join(f"{k} :> {json.dumps(v)}" for k, v in sorted(m.items())) + ")")


# stage "timeline": the schedule space (lateness, slow sinks, series added / failing) on a 4 s period
# stage "grid": where the grid comes from - align_to in other time zones (a 7 s period does not divide the hour a DST
#               change shifts wall clocks by) and creation instants a few hundred microseconds after a grid point
C07_SCOPES = {
    "quick": dict(
        timeline=dict(
            consts=dict(P=4, CreateSet=set(range(8, 12)), OffSet={0}, AlignSet={NONE, 1, 43}, NS=3, LatSet={0, 2, 9}, FailSet={2}, MaxFail=1, MaxLate=8, Horizon=16),
            tz={1: "+05:30", 43: "utc"},
            limit=3600,
        ),
        grid=dict(
            consts=dict(P=7, CreateSet={14, 17}, OffSet={0, 300, 999}, AlignSet={NONE, 0, AL_SUMMER_FUTURE, AL_SUMMER_PAST, 35, _year1_surrogate(7)}, NS=1, LatSet={0}, FailSet=set(), MaxFail=0, MaxLate=7, Horizon=22),
            tz={0: "utc", AL_SUMMER_FUTURE: BERLIN, AL_SUMMER_PAST: BERLIN, 35: "-03:30", _year1_surrogate(7): YEAR1},
            limit=1500,
        ),
    ),
    "thorough": dict(
        timeline=dict(
            consts=dict(P=4, CreateSet=set(range(8, 12)), OffSet={0}, AlignSet={NONE, 0, 1, 43}, NS=3, LatSet={0, 1, 5, 12}, FailSet={2, 3}, MaxFail=1, MaxLate=8, Horizon=20),
            tz={0: "utc", 1: "+05:30", 43: BERLIN},
            limit=100000,
        ),
        grid=dict(
            consts=dict(P=7, CreateSet=set(range(14, 21)), OffSet={0, 1, 300, 999, 500000}, AlignSet={NONE, 0, AL_SUMMER_FUTURE, AL_SUMMER_PAST, AL_SUMMER_FUTURE + 2, 35, _year1_surrogate(7)}, NS=2, LatSet={0, 8}, FailSet=set(), MaxFail=0, MaxLate=7, Horizon=29),
            tz={0: "utc", AL_SUMMER_FUTURE: BERLIN, AL_SUMMER_PAST: BERLIN, AL_SUMMER_FUTURE + 2: "America/New_York", 35: "-03:30", _year1_surrogate(7): YEAR1},
            limit=60000,
        ),
    ),
}
C07_STAGE_ACTIONS = {
    "timeline": ["CreateStep", "AddStep", "PassStep", "FireStep", "ResampleStep", "FinishStep", "BreakStep", "RecoverStep"],
    "grid": ["CreateStep", "PassStep", "FireStep", "ResampleStep", "FinishStep"],
}


def _us(ts, epoch) -> int:
    """Exact integer microseconds since the epoch (timedelta arithmetic, no floats)."""
    x = (ts - epoch) // timedelta(microseconds=1)
    return x if abs(x) < 2_000_000_000 and (ts - epoch) % timedelta(microseconds=1) == timedelta(0) else OFFGRID


def _tzinfo(name: str):
    from datetime import timezone
    from zoneinfo import ZoneInfo

    if name in ("utc", YEAR1):
        return timezone.utc
    if name[0] in "+-":
        hh, mm = name[1:].split(":")
        d = timedelta(hours=int(hh), minutes=int(mm))
        return timezone(d if name[0] == "+" else -d)
    return ZoneInfo(name)


def _run(loop) -> None:
    """run_until_idle, treating a deadline within half a microsecond of the clock as due (float sums)."""
    while True:
        loop.run_until_idle()
        d = loop.next_deadline()
        if d is None or not 0 < d - loop.time() < 5e-7:
            return
        loop.set_time(d)


def replay_timeline(case: dict, cfg: dict) -> dict:
    """Drive the real Resampler along one TLC behaviour; record what every sink was handed."""
    from frequenz.channels import Broadcast

    from frequenz.sdk.timeseries._resampling import Resampler, ResamplerConfig, ResamplingError

    from .vloop import EPOCH, ManualLoop

    steps = case["steps"]
    P = cfg["P"]
    ns = cfg["NS"]
    lats = [s["lat"] for s in steps if s["a"] == "resample"]
    rec: dict[int, list[int]] = {k: [] for k in range(1, ns + 1)}
    joined: dict[int, int] = {}
    pending = [0]
    seen_by_1: dict[int, int] = {}  # series -> len(rec[1]) when it was added
    broke_at: dict[int, int] = {}  # series -> len(rec[1]) when it broke
    sink_raises: set[int] = set()
    out = []
    c0 = steps[0]
    assert c0["a"] == "create"
    now_us = [c0["c"] * 1_000_000 + c0["off"]]  # the virtual clock, exact
    with ManualLoop(start=now_us[0] / 1e6) as loop:
        res = None
        task = None
        chans: dict[int, object] = {}
        sources: dict[int, object] = {}

        def mk_sink(k: int):
            async def sink(sample) -> None:
                if k in sink_raises:
                    raise RuntimeError(f"sink {k} refuses")
                idx = joined[k] + len(rec[k])  # index of this tick in the global timeline
                rec[k].append(_us(sample.timestamp, EPOCH))
                lat = lats[idx] if idx < len(lats) else 0
                pending[0] += 1
                try:
                    await asyncio.sleep((lat if k == 1 else lat // 2) * TICK_S)
                finally:
                    pending[0] -= 1

            return sink

        def add(k: int) -> None:
            ch = Broadcast(name=f"src-{k}")  # a source that never yields (until the harness closes it)
            chans[k] = ch
            sources[k] = ch.new_receiver()
            joined[k] = max([joined[j] + len(rec[j]) for j in joined], default=0)
            seen_by_1[k] = len(rec[1])
            assert res.add_timeseries(f"s{k}", sources[k], mk_sink(k))

        def named(exc) -> list[int]:
            if not isinstance(exc, ResamplingError):
                return []
            return sorted(k for k, src in sources.items() if src in exc.exceptions)

        def recover() -> None:
            """ComponentMetricsResamplingActor._run: remove the sources a ResamplingError names, resample() again."""
            nonlocal task
            exc = task.exception() if task.done() and not task.cancelled() else None
            if isinstance(exc, ResamplingError):
                for src in exc.exceptions:
                    res.remove_timeseries(src)
            if task.done():
                task = loop.create_task(res.resample())
                _run(loop)

        for i, s in enumerate(steps):
            a = s["a"]
            if a == "create":
                kw = {}
                if s["align"] == NONE:
                    kw["align_to"] = None
                elif s["align"] != 0 or s["tz"] != "utc" or P != 4:  # else: the default UNIX_EPOCH (EPOCH is a multiple of 4 s after it)
                    kw["align_to"] = (EPOCH + timedelta(seconds=s["align"] * TICK_S)).astimezone(_tzinfo(s["tz"]))
                if s["tz"] == YEAR1:  # the spec's value is a surrogate with the same phase modulo the period
                    from datetime import datetime

                    kw["align_to"] = datetime(1, 1, 1, tzinfo=_tzinfo("utc"))
                    assert (kw["align_to"] - EPOCH) // timedelta(seconds=1) % P == s["align"] % P
                res = Resampler(ResamplerConfig(resampling_period=timedelta(seconds=P * TICK_S), **kw))
                add(1)
                task = loop.create_task(res.resample())
                _run(loop)
            elif a == "add":
                add(s["s"])
            elif a == "pass":
                now_us[0] += 1_000_000
                loop.jump_to(now_us[0] / 1e6)  # the clock moves, the loop does not run
            elif a in ("fire", "resample", "finish"):
                _run(loop)
            elif a == "stop":
                # the source ends: close the channel and let the receiving task notice (the spec only
                # takes this step when nothing is overdue, so running the loop does nothing else)
                broke_at[s["s"]] = len(rec[1])
                ch_ = chans[s["s"]]
                loop.create_task(getattr(ch_, "aclose", ch_.close)())
                _run(loop)
            elif a == "sinkfail":
                broke_at[s["s"]] = len(rec[1])
                sink_raises.add(s["s"])
            elif a == "recover":
                recover()
            else:
                raise ValueError(a)
            err = ""
            failed: list[int] = []
            if task.done():
                ex_ = task.exception() if not task.cancelled() else None
                err = type(ex_).__name__ if ex_ is not None else ("cancelled" if task.cancelled() else "returned")
                failed = named(ex_)
            out.append(dict(s, obs=dict(
                rec=[list(rec[k]) for k in range(1, ns + 1)], dead=bool(task.done()), err=err, failed=failed, pending=pending[0],
                jn=[seen_by_1.get(k, NONE) for k in range(1, ns + 1)], lf=[broke_at.get(k, NONE) for k in range(1, ns + 1)],
            )))
            if task.done() and not (err == "ResamplingError" and any(x["a"] == "recover" for x in steps[i + 1 :])):
                # observed and recorded.  A ResamplingError is left for the behaviour's own "recover" step
                # (the real loop may have run ahead through a chain of ticks to get there); anything else
                # is recovered at once, like the actor does, so that the rest is still checked
                recover()
    return dict(id=case["id"], steps=out)


_CFG: dict = {}


def _worker(chunk, out_path):
    import warnings

    from .common import use_repo

    use_repo()
    warnings.simplefilter("ignore")
    cfg = _CFG
    fn = replay_timeline if cfg["prop"] == "C07" else replay_window
    with open(out_path, "w") as f:
        for cid, line in chunk:
            f.write(json.dumps(fn(dict(id=cid, steps=_parse_line(line)), cfg), separators=(",", ":")) + "\n")


def _byid(shards):
    d = {}
    for p in shards:
        for r_ in load_ndjson(p):
            d[r_["id"]] = r_
    return d


def _printable(consts: dict) -> dict:
    return {k: (sorted(x) if isinstance(x, (set, frozenset)) else x) for k, x in consts.items()}


def _c07_stage(rep: Report, name: str, sc: dict, work: Path) -> None:
    global _CFG
    from datetime import timezone

    from .vloop import EPOCH

    base = sc["consts"]
    consts = dict(base, TzOf=_tzof(sc["tz"]))
    shown = dict(_printable(base), TzOf=sc["tz"])
    P = base["P"]
    d = work / name
    d.mkdir(parents=True, exist_ok=True)
    cases_file = d / "cases.ndjson"
    res = run_tlc("ResamplerTimeline", d, constants=consts, view="View", invariants=C07_INV, env={"OUT_FILE": str(cases_file)}, coverage=True, timeout=3000)
    rep.add_mc(name, res, shown, C07_INV, mode="exhaustive")
    if not res.ok:
        rep.fail(f"C07.MC.{'/'.join(res.violated)}", dict(stage=name, constants=str(shown)), res.counterexample[:3000])
        return
    for a in C07_STAGE_ACTIONS[name]:
        if not res.coverage.get(a):
            raise RuntimeError(f"vacuity: action {a} never taken in stage {name} ({res.coverage})")
    cases, total, cut = _load_case_lines(cases_file, sc["limit"])
    if cut:
        rep.exhaustive = False
    # non-vacuity of the interesting regimes (counted on the behaviours TLC generated)
    if name == "timeline":
        keys = ("late_timer", "late_by_a_period_or_more", "catch_up_burst", "slow_sink_over_a_period", "series_added_while_running",
                "series_added_while_sinks_pending", "source_stopped", "sink_raised", "failing_series_recovered", "ticks_after_recovery",
                "unaligned_creation", "align_future", "align_none", "ticks_total")
    else:
        keys = ("align_to_in_dst_zone_with_other_utc_offset_than_at_creation", "align_to_with_fixed_nonzero_offset", "align_to_utc", "align_none",
                "align_to_more_than_1000_years_away_with_us_creation_offset", "created_under_1ms_after_grid_point", "created_exactly_on_grid_point", "unaligned_creation", "align_future", "late_timer", "ticks_total")
    ex = dict.fromkeys(keys, 0)

    def offset_differs(al: int, tz: str, c0: int) -> bool:
        z = _tzinfo(tz)
        at_align = (EPOCH + timedelta(seconds=al)).astimezone(z).utcoffset()
        at_creation = (EPOCH + timedelta(seconds=c0)).astimezone(z).utcoffset()
        return at_align != at_creation

    for _, line in cases:
        st = _parse_line(line)
        fires = [s for s in st if s["a"] == "fire"]
        al, c0, off, tz = st[0]["align"], st[0]["c"], st[0]["off"], st[0]["tz"]
        nticks = sum(s["a"] == "resample" for s in st)
        ex["ticks_total"] += nticks
        ex["late_timer"] += any(s["drift"] >= 1_000_000 for s in fires)
        ex["align_none"] += al == NONE
        ex["align_future"] += al != NONE and al > c0
        ex["unaligned_creation"] += al != NONE and ((c0 - al) % P != 0 or off != 0)
        if name == "timeline":
            ex["late_by_a_period_or_more"] += any(s["drift"] >= P * 1_000_000 for s in fires)
            ex["catch_up_burst"] += any(s["catchup"] for s in fires)
            ex["slow_sink_over_a_period"] += any(s["a"] == "resample" and s["lat"] > P for s in st)
            seen_tick = False
            for s in st:
                seen_tick = seen_tick or s["a"] == "resample"
                if s["a"] == "add" and seen_tick:
                    ex["series_added_while_running"] += 1
                    break
            ex["series_added_while_sinks_pending"] += any(s["a"] == "finish" and s["grown"] for s in st)
            ex["source_stopped"] += any(s["a"] == "stop" for s in st)
            ex["sink_raised"] += any(s["a"] == "sinkfail" for s in st)
            rec_at = [i for i, s in enumerate(st) if s["a"] == "recover"]
            ex["failing_series_recovered"] += bool(rec_at)
            ex["ticks_after_recovery"] += bool(rec_at) and any(s["a"] == "resample" for s in st[rec_at[0] :])
        else:
            # only behaviours in which at least one tick was handed out say anything about the grid
            has = nticks > 0
            ex["align_to_in_dst_zone_with_other_utc_offset_than_at_creation"] += has and al != NONE and tz not in ("utc", YEAR1) and tz[0] not in "+-" and offset_differs(al, tz, c0)
            ex["align_to_with_fixed_nonzero_offset"] += has and al != NONE and tz[0] in "+-"
            ex["align_to_utc"] += has and al != NONE and tz == "utc"
            ex["align_to_more_than_1000_years_away_with_us_creation_offset"] += has and tz == YEAR1 and off % 1_000_000 != 0
            ex["created_under_1ms_after_grid_point"] += has and al != NONE and (c0 - al) % P == 0 and 0 < off < 1000
            ex["created_exactly_on_grid_point"] += has and al != NONE and (c0 - al) % P == 0 and off == 0
    for k, v in ex.items():
        if not v:
            raise RuntimeError(f"vacuity: no replayed behaviour of stage {name} exercises {k}")
    _CFG = dict(base, prop="C07")
    t1 = Timer()
    shards = _replay_batched(cases, d)
    run_s = t1.s()
    t2 = Timer()
    fails, done, st = validate_shards("ResamplerTimelineTrace", shards, d, constants=consts)
    rep.validated += done
    rep.extra.setdefault("stages", []).append(dict(stage=name, cases_emitted=total, cases_replayed=len(cases), traces_validated=done, val_states=st["states"], mc_s=res.wall_s, run_s=run_s, val_s=t2.s()))
    rep.extra.setdefault("behaviours_exercising", {})[name] = ex
    if shards:
        rep.samples.append(load_ndjson(shards[0])[0])
    byid = _byid(shards) if fails else {}
    for v in fails:
        if v["clause"] in C07_DISAGREEMENT:
            dis = rep.extra.setdefault("disagreements", [])
            if len(dis) < 20:
                dis.append(dict(stage=name, trace=v["tid"], step=v["l"], detail=v["detail"]))
            rep.extra["disagreements_total"] = rep.extra.get("disagreements_total", 0) + 1
        elif v["clause"].startswith("C07."):
            rep.fail(v["clause"], dict(stage=name, constants=shown, trace=byid.get(v["tid"]), step=v["l"]), v["detail"], deviations=v.get("deviations", []))


def run_c07(rep: Report, tier: str, work: Path) -> None:
    sc = C07_SCOPES[tier]
    _c07_stage(rep, "grid", sc["grid"], work)
    _c07_stage(rep, "timeline", sc["timeline"], work)


# ===========================================================================
# C08
C08_INV = ["ImplRefinesDecl", "NoFuture", "NoStale", "NoInvalid", "NoneIffEmpty", "WindowSuffix", "InputPeriodSane", "BufIsTailOfHist", "LostIsWhatBufLacks", "Sorted", "TypeOK"]
C08_DISAGREEMENT = "C08.SourceProperties"  # estimator transcription vs code: not a property clause


def _cfgset(cfgs: list[dict]):
    from .tlc import Raw, tla_value

    return Raw("{" + ", ".join(tla_value(c) for c in cfgs) + "}")


S1 = 1_000_000  # microseconds per model tick: whole seconds ...
# ... and configurations whose resampling period is NOT a whole number of seconds: 0.75 s (3 ticks of 0.25 s),
# 1.5 s (3 ticks of 0.5 s, and 6 ticks of 0.25 s = down-sampling a 0.25 s input)
# ... and sources whose clock runs ahead of the resampler by more than a period (P = 2 ticks, lead 5; P = 4, lead 9;
# 0.75 s period, lead 4): the first samples fill the initial buffer while every tick is still <= sampling_start
AHEAD = [dict(P=2, age=1, L0=2, maxbuf=8, tick=S1, lead=5), dict(P=4, age=1, L0=2, maxbuf=8, tick=S1, lead=9), dict(P=3, age=1, L0=2, maxbuf=8, tick=250_000, lead=4)]
FRAC = [dict(P=3, age=1, L0=2, maxbuf=8, tick=250_000, lead=0), dict(P=3, age=2, L0=2, maxbuf=8, tick=500_000, lead=0), dict(P=6, age=1, L0=3, maxbuf=16, tick=250_000, lead=0)]

C08_SCOPES = {
    "quick": dict(
        history=dict(
            cfgs=[dict(P=2, age=1, L0=2, maxbuf=8, tick=S1, lead=0), dict(P=2, age=2, L0=3, maxbuf=8, tick=S1, lead=0), dict(P=4, age=1, L0=2, maxbuf=3, tick=S1, lead=0), FRAC[0], AHEAD[0]],
            consts=dict(DeltaSet={0, 1, 2, 3, 5}, Fut=2, MaxRecv=4, MaxInvalid=1, MaxTicks=3),
            limit=4000,
        ),
        sim=dict(
            cfgs=[dict(P=2, age=1, L0=2, maxbuf=8, tick=S1, lead=0), dict(P=2, age=2, L0=3, maxbuf=8, tick=S1, lead=0), dict(P=4, age=1, L0=2, maxbuf=3, tick=S1, lead=0), dict(P=4, age=2, L0=3, maxbuf=16, tick=S1, lead=0), dict(P=2, age=1, L0=3, maxbuf=4, tick=S1, lead=0)] + FRAC + AHEAD,
            consts=dict(DeltaSet={0, 1, 2, 3, 4, 5, 7, 9}, Fut=5, MaxRecv=10, MaxInvalid=3, MaxTicks=6),
            num=1600,
        ),
    ),
    "thorough": dict(
        history=dict(
            cfgs=[dict(P=2, age=1, L0=2, maxbuf=8, tick=S1, lead=0), dict(P=2, age=2, L0=3, maxbuf=8, tick=S1, lead=0), dict(P=4, age=1, L0=2, maxbuf=3, tick=S1, lead=0), dict(P=2, age=1, L0=3, maxbuf=4, tick=S1, lead=0), FRAC[0], AHEAD[0]],
            consts=dict(DeltaSet={0, 1, 2, 3, 5}, Fut=2, MaxRecv=5, MaxInvalid=1, MaxTicks=4),
            limit=120000,
        ),
        sim=dict(
            cfgs=[dict(P=2, age=1, L0=2, maxbuf=8, tick=S1, lead=0), dict(P=2, age=2, L0=3, maxbuf=8, tick=S1, lead=0), dict(P=4, age=1, L0=2, maxbuf=3, tick=S1, lead=0), dict(P=4, age=2, L0=3, maxbuf=16, tick=S1, lead=0), dict(P=2, age=1, L0=3, maxbuf=4, tick=S1, lead=0), dict(P=4, age=3, L0=2, maxbuf=32, tick=S1, lead=0)] + FRAC + AHEAD,
            consts=dict(DeltaSet={0, 1, 2, 3, 4, 5, 7, 9}, Fut=5, MaxRecv=14, MaxInvalid=4, MaxTicks=6),
            num=80000,
        ),
    ),
}


def replay_window(case: dict, cfg: dict) -> dict:
    """Feed one TLC-generated input history to a real Resampler with a recording resampling function."""
    from frequenz.channels import Broadcast
    from frequenz.quantities import Quantity

    from frequenz.sdk.timeseries._base_types import Sample
    from frequenz.sdk.timeseries._resampling import Resampler, ResamplerConfig

    from .vloop import EPOCH, ManualLoop

    steps = case["steps"]
    c = steps[0]
    tick_s = c["tick"] / 1e6  # seconds per model tick; every timedelta is built from it
    calls: list[list[list[int]]] = []
    sunk: list[tuple[int, int]] = []

    def recording(samples, _conf, _props) -> float:
        calls.append([[_ticks(x.timestamp, EPOCH, tick_s), (int(x.value.base_value) if x.value is not None and not x.value.isnan() else -1)] for x in samples])
        return float(calls[-1][-1][1]) if samples else -1.0

    async def sink(sample) -> None:
        sunk.append((_ticks(sample.timestamp, EPOCH, tick_s), NONE if sample.value is None else int(sample.value.base_value)))

    def us(td) -> int:
        return NONE if td is None else td // timedelta(microseconds=1)

    out = [c]
    with ManualLoop(start=0.0) as loop:
        conf = ResamplerConfig(
            resampling_period=timedelta(microseconds=c["P"] * c["tick"]),
            max_data_age_in_periods=float(c["age"]),
            resampling_function=recording,
            initial_buffer_len=c["L0"],
            warn_buffer_len=max(1, c["maxbuf"] - 1),
            max_buffer_len=c["maxbuf"],
        )
        res = Resampler(conf)
        chan = Broadcast(name="src")
        source = chan.new_receiver(limit=64)
        sender = chan.new_sender()
        assert res.add_timeseries("series", source, sink)
        task = loop.create_task(res.resample())
        loop.run_until_idle()

        def props() -> dict:
            p = res.get_source_properties(source)
            return dict(start=NONE if p.sampling_start is None else _ticks(p.sampling_start, EPOCH, tick_s), received=p.received_samples, period=us(p.sampling_period))

        nid = 0
        for s in steps[1:]:
            if s["a"] == "recv":
                nid += 1
                val = {"valid": Quantity(float(nid)), "none": None, "nan": Quantity(float("nan"))}[s["kind"]]
                loop.create_task(sender.send(Sample(EPOCH + timedelta(microseconds=s["ts"] * c["tick"]), val)))
                loop.run_until_idle()
                out.append(dict(s, obs=props()))
            elif s["a"] == "tick":
                n_calls, n_sunk = len(calls), len(sunk)
                loop.advance_to(s["T"] * tick_s)
                if task.done():
                    raise RuntimeError(f"resample() ended: {task.exception()!r}")
                if len(sunk) != n_sunk + 1:
                    raise RuntimeError(f"expected one resampled sample at T={s['T']}, sink got {sunk[n_sunk:]}")
                handed = calls[-1] if len(calls) > n_calls else []
                out.append(dict(s, obs=dict(props(), T=sunk[-1][0], emitted=sunk[-1][1], handed=handed, calls=len(calls) - n_calls)))
            else:
                raise ValueError(s["a"])
    return dict(id=case["id"], steps=out)


def _c08_stage(rep: Report, name: str, sc: dict, work: Path, mode: str) -> None:
    global _CFG
    consts = dict(sc["consts"], ConfigSet=_cfgset(sc["cfgs"]), Mode=mode)
    shown = dict(_printable(sc["consts"]), ConfigSet=sc["cfgs"], Mode=mode)
    d = work / name
    d.mkdir(parents=True, exist_ok=True)
    cases_file = d / "cases.ndjson"
    sim = mode == "sim"
    res = run_tlc(
        "ResamplerWindow", d, constants=consts, view="View", invariants=C08_INV + (["SimEmit"] if sim else []),
        env={"OUT_FILE": str(cases_file)}, coverage=not sim, timeout=3000,
        simulate=(f"num={max(1, sc['num'] // 16)}" if sim else None),
        depth=(sc["consts"]["MaxRecv"] + sc["consts"]["MaxTicks"] + 2 if sim else None), seed=(SEED + 23 if sim else None),
    )
    rep.add_mc(name, res, shown, C08_INV, mode=("simulate" if sim else "exhaustive"))
    if not res.ok:
        rep.fail(f"C08.MC.{'/'.join(res.violated)}", dict(stage=name, constants=str(shown)), res.counterexample[:3000])
        return
    if not sim:
        for a in ("RecvStep", "TickStep"):
            if not res.coverage.get(a):
                raise RuntimeError(f"vacuity: action {a} never taken in {name} ({res.coverage})")
    cases, total, cut = _load_case_lines(cases_file, None if sim else sc["limit"])
    if cut or sim:
        rep.exhaustive = False
    # non-vacuity: how many replayed behaviours reach the regimes the clauses are about
    ex = rep.extra.setdefault("behaviours_exercising", {})
    keys = ("estimator_ran", "buffer_resized", "upsampling_window", "buffer_evicted_samples", "future_sample_in_buffer_at_tick",
            "fractional_period_estimator_ran", "fractional_period_buffer_resized",
            "estimator_consulted_with_first_sample_stamped_at_or_after_tick", "estimated_at_first_tick_after_first_sample_stamp", "source_clock_ahead_by_more_than_a_period", "invalid_sample_received", "tick_with_nothing_handed", "tick_with_samples_handed", "sample_stamped_exactly_T", "sample_stamped_exactly_window_start")
    cnt = dict.fromkeys(keys, 0)
    for _, line in cases:
        st = _parse_line(line)
        P, age = st[0]["P"], st[0]["age"]
        ticks = [s for s in st if s["a"] == "tick"]
        recv_ts = [s["ts"] for s in st if s["a"] == "recv" and s["kind"] == "valid"]
        cnt["estimator_ran"] += any(s["est"] for s in ticks)
        g = [i for i, s in enumerate(ticks) if s["guarded"]]
        cnt["estimator_consulted_with_first_sample_stamped_at_or_after_tick"] += bool(g)
        cnt["estimated_at_first_tick_after_first_sample_stamp"] += bool(g) and any(s["est"] for s in ticks[g[0] :])
        cnt["source_clock_ahead_by_more_than_a_period"] += st[0]["lead"] > P and bool(recv_ts)
        frac = (P * st[0]["tick"]) % 1_000_000 != 0  # the resampling period is not a whole number of seconds
        cnt["fractional_period_estimator_ran"] += frac and any(s["est"] for s in ticks)
        cnt["fractional_period_buffer_resized"] += frac and any(s["resized"] for s in ticks)
        cnt["buffer_resized"] += any(s["resized"] for s in ticks)
        cnt["upsampling_window"] += any(s["upsampling"] for s in ticks)
        cnt["buffer_evicted_samples"] += any(s["evicted"] > 0 for s in ticks)
        cnt["future_sample_in_buffer_at_tick"] += any(s["nfuture"] > 0 for s in ticks)
        cnt["invalid_sample_received"] += any(s["a"] == "recv" and s["kind"] != "valid" for s in st)
        cnt["tick_with_nothing_handed"] += any(s["nhanded"] == 0 for s in ticks)
        cnt["tick_with_samples_handed"] += any(s["nhanded"] > 0 for s in ticks)
        seen: list[int] = []
        hitT = hitLo = False
        for s in st[1:]:
            if s["a"] == "recv" and s["kind"] == "valid":
                seen.append(s["ts"])
            elif s["a"] == "tick":
                hitT = hitT or s["T"] in seen
                hitLo = hitLo or (not s["upsampling"] and (s["T"] - P * age) in seen)
        cnt["sample_stamped_exactly_T"] += hitT
        cnt["sample_stamped_exactly_window_start"] += hitLo
    for k, v in cnt.items():
        if not v:
            raise RuntimeError(f"vacuity: no replayed behaviour of stage {name} exercises {k}")
    ex[name] = cnt
    _CFG = dict(prop="C08")
    t1 = Timer()
    shards = _replay_batched(cases, d)
    run_s = t1.s()
    t2 = Timer()
    fails, done, st_ = validate_shards("ResamplerWindowTrace", shards, d, constants=dict(consts, Mode="trace"))
    rep.validated += done
    rep.extra.setdefault("stages", []).append(dict(stage=name, cases_emitted=total, cases_replayed=len(cases), traces_validated=done, val_states=st_["states"], mc_s=res.wall_s, run_s=run_s, val_s=t2.s()))
    if shards and len(rep.samples) < 2:
        rep.samples.append(load_ndjson(shards[0])[0])
    byid = _byid(shards) if fails else {}
    for v in fails:
        if v["clause"] == C08_DISAGREEMENT:
            dis = rep.extra.setdefault("disagreements", [])
            if len(dis) < 20:
                dis.append(dict(stage=name, trace=v["tid"], step=v["l"], detail=v["detail"]))
            rep.extra["disagreements_total"] = rep.extra.get("disagreements_total", 0) + 1
        elif v["clause"].startswith("C08."):
            rep.fail(v["clause"], dict(stage=name, constants=shown, trace=byid.get(v["tid"]), step=v["l"]), v["detail"], deviations=v.get("deviations", []))


def run_c08(rep: Report, tier: str, work: Path) -> None:
    sc = C08_SCOPES[tier]
    rep.extra["disagreements"] = []
    _c08_stage(rep, "history", sc["history"], work, "history")
    _c08_stage(rep, "sim", sc["sim"], work, "sim")
    if rep.extra.get("disagreements_total"):
        rep.notes.append(f"{rep.extra['disagreements_total']} records where get_source_properties() differs from the transcribed estimator (not a clause of C08)")


# ===========================================================================
def run(prop: str, tier: str) -> int:
    tm = Timer()
    rep = Report(prop, tier)
    work = scratch(f"{prop}_{tier}")
    global SHARDS
    SHARDS = 8 if tier == "quick" else 16
    if prop == "C07":
        rep.assumptions = [
            "schedules on a grid of whole seconds (period 4 s, and 7 s for the grid stage); creation instants additionally 1..999 us (and 0.5 s) after a tick; instants are exact integer microseconds; other sub-tick jitter is not decided",
            "align_to in UTC, fixed-offset and DST zones (zoneinfo); the expected grid is computed from the absolute instant of align_to",
            "lateness is modelled as whole ticks during which the event loop does not run; when it runs it runs until nothing is ready",
            "sources never yield and never end; sinks never raise; remove_timeseries is not exercised",
            "the harness reads no private state: timestamps are those handed to the sinks given to add_timeseries",
        ]
        run_c07(rep, tier, work)
        if rep.extra.get("disagreements_total"):
            rep.notes.append(f"{rep.extra['disagreements_total']} records where the sinks' timestamps differ from the transcribed timeline (C07.Timeline, not a clause of C07)")
    elif prop == "C08":
        rep.assumptions = [
            "timestamps on grids of 1 s, 0.5 s and 0.25 s, periods 0.75 s, 1.5 s, 2 s and 4 s, integer max_data_age_in_periods; the estimated input period is exact to the microsecond (timedelta rounding transcribed), float effects beyond that are not decided",
            "input timestamps are non-decreasing (the property's quantifier: time-ordered input series); one source per resampler",
            "future-stamped samples occupy buffer slots: 'the most recent ones that fit the configured buffer' is read as the last maxlen valid samples RECEIVED (maxlen as adapted by the code), not the last maxlen samples of the window",
            "the harness reads no private state: recording resampling_function through ResamplerConfig, sink samples, get_source_properties()",
        ]
        run_c08(rep, tier, work)
    else:
        raise ValueError(prop)
    return rep.finish(tm.s())
