"""C07 / C08: the resampler's timeline (ResamplerTimeline.tla) and relevance window (ResamplerWindow.tla).

MC+GEN -> RUN (real Resampler under the virtual-time loop) -> VAL (TLC evaluates every clause on the
recorded values) -> VERDICT.  Python builds inputs, drives the code, records and counts.
"""

from __future__ import annotations

import asyncio
import json
import math
from datetime import timedelta
from pathlib import Path

from .common import SEED, Timer, scratch
from .pipeline import load_ndjson, replay_parallel, subsample, validate_shards
from .tlc import run_tlc
from .verdict import Report

NONE = -99
OFFGRID = 999983  # a timestamp the real code produced that is not a whole number of ticks
TICK_S = 1.0  # one model tick = one second
SHARDS = 8  # replay processes = validation JVMs per stage (quick: JVM start-up dominates; thorough: 16)


def _ticks(ts, epoch, tick_s: float = TICK_S) -> int:
    x = (ts - epoch).total_seconds() / tick_s
    return int(x) if float(x).is_integer() and abs(x) < 100000 else OFFGRID


def _load_case_lines(path: Path, limit: int | None) -> tuple[list[tuple[int, str]], int, bool]:
    """Unique emitted lines, in a deterministic order, sub-sampled; kept as text (parsed by the workers)."""
    seen: set[str] = set()
    with open(path) as f:
        for line in f:
            line = line.strip()
            if line:
                seen.add(line)
    lines = sorted(seen)  # TLC's workers write in a racy order
    del seen
    total = len(lines)
    cut = False
    if limit and total > limit:
        lines, cut = subsample(lines, limit)
    return [(i + 1, ln) for i, ln in enumerate(lines)], total, cut


def _parse_line(line: str):
    v = json.loads(line)
    return json.loads(v) if isinstance(v, str) else v


def _replay_batched(cases: list, d: Path, batch: int = 32000) -> list[Path]:
    """replay_parallel in batches, so that shards (and the JVMs validating them) stay small."""
    shards: list[Path] = []
    for b in range(0, len(cases), batch):
        shards += replay_parallel(_worker, cases[b : b + batch], d, nproc=SHARDS, prefix=f"impl{b // batch}")
    return shards


# ===========================================================================
# C07
C07_DISAGREEMENT = ("C07.Timeline", "C07.FailureReport")  # equality with the transcription; the property clauses are the other ones
C07_INV = ["Aligned", "Consecutive", "FirstTickWindow", "SameForAllSeries", "CaughtUp", "TimerTracksWindow", "NeverEarly", "TypeOK"]
C07_ACTIONS = ["CreateStep", "AddStep", "PassStep", "FireStep", "ResampleStep", "FinishStep", "BreakStep", "RecoverStep"]

C07_SCOPES = {
    "quick": dict(
        consts=dict(P=4, CreateSet=set(range(8, 12)), AlignSet={NONE, 1, 43}, NS=3, LatSet={0, 2, 9}, FailSet={2}, MaxFail=1, MaxLate=8, Horizon=16),
        limit=4000,
    ),
    "thorough": dict(
        consts=dict(P=4, CreateSet=set(range(8, 12)), AlignSet={NONE, 0, 1, 43}, NS=3, LatSet={0, 1, 5, 12}, FailSet={2, 3}, MaxFail=1, MaxLate=8, Horizon=20),
        limit=100000,
    ),
}


def replay_timeline(case: dict, cfg: dict) -> dict:
    """Drive the real Resampler along one TLC behaviour; record what every sink was handed."""
    from frequenz.channels import Broadcast

    from frequenz.sdk.timeseries._resampling import Resampler, ResamplerConfig, ResamplingError

    from .vloop import EPOCH, ManualLoop

    steps = case["steps"]
    P = cfg["P"]
    ns = cfg["NS"]
    lats = [s["lat"] for s in steps if s["a"] == "resample"]
    rec: dict[int, list[int]] = {k: [] for k in range(1, ns + 1)}
    joined: dict[int, int] = {}
    pending = [0]
    seen_by_1: dict[int, int] = {}  # series -> len(rec[1]) when it was added
    broke_at: dict[int, int] = {}  # series -> len(rec[1]) when it broke
    sink_raises: set[int] = set()
    out = []
    c0 = steps[0]
    assert c0["a"] == "create"
    with ManualLoop(start=float(c0["c"]) * TICK_S) as loop:
        res = None
        task = None
        chans: dict[int, object] = {}
        sources: dict[int, object] = {}

        def mk_sink(k: int):
            async def sink(sample) -> None:
                if k in sink_raises:
                    raise RuntimeError(f"sink {k} refuses")
                idx = joined[k] + len(rec[k])  # index of this tick in the global timeline
                rec[k].append(_ticks(sample.timestamp, EPOCH))
                lat = lats[idx] if idx < len(lats) else 0
                pending[0] += 1
                try:
                    await asyncio.sleep((lat if k == 1 else lat // 2) * TICK_S)
                finally:
                    pending[0] -= 1

            return sink

        def add(k: int) -> None:
            ch = Broadcast(name=f"src-{k}")  # a source that never yields (until the harness closes it)
            chans[k] = ch
            sources[k] = ch.new_receiver()
            joined[k] = max([joined[j] + len(rec[j]) for j in joined], default=0)
            seen_by_1[k] = len(rec[1])
            assert res.add_timeseries(f"s{k}", sources[k], mk_sink(k))

        def named(exc) -> list[int]:
            if not isinstance(exc, ResamplingError):
                return []
            return sorted(k for k, src in sources.items() if src in exc.exceptions)

        def recover() -> None:
            """ComponentMetricsResamplingActor._run: remove the sources a ResamplingError names, resample() again."""
            nonlocal task
            exc = task.exception() if task.done() and not task.cancelled() else None
            if isinstance(exc, ResamplingError):
                for src in exc.exceptions:
                    res.remove_timeseries(src)
            if task.done():
                task = loop.create_task(res.resample())
                loop.run_until_idle()

        for i, s in enumerate(steps):
            a = s["a"]
            if a == "create":
                kw = {}
                if s["align"] == NONE:
                    kw["align_to"] = None
                elif s["align"] != 0:  # 0: the default UNIX_EPOCH (EPOCH is a multiple of the period after it)
                    kw["align_to"] = EPOCH + timedelta(seconds=s["align"] * TICK_S)
                res = Resampler(ResamplerConfig(resampling_period=timedelta(seconds=P * TICK_S), **kw))
                add(1)
                task = loop.create_task(res.resample())
                loop.run_until_idle()
            elif a == "add":
                add(s["s"])
            elif a == "pass":
                loop.jump_to(loop.time() + TICK_S)  # the clock moves, the loop does not run
            elif a in ("fire", "resample", "finish"):
                loop.run_until_idle()
            elif a == "stop":
                # the source ends: close the channel and let the receiving task notice (the spec only
                # takes this step when nothing is overdue, so running the loop does nothing else)
                broke_at[s["s"]] = len(rec[1])
                ch_ = chans[s["s"]]
                loop.create_task(getattr(ch_, "aclose", ch_.close)())
                loop.run_until_idle()
            elif a == "sinkfail":
                broke_at[s["s"]] = len(rec[1])
                sink_raises.add(s["s"])
            elif a == "recover":
                recover()
            else:
                raise ValueError(a)
            err = ""
            failed: list[int] = []
            if task.done():
                ex_ = task.exception() if not task.cancelled() else None
                err = type(ex_).__name__ if ex_ is not None else ("cancelled" if task.cancelled() else "returned")
                failed = named(ex_)
            out.append(dict(s, obs=dict(
                rec=[list(rec[k]) for k in range(1, ns + 1)], dead=bool(task.done()), err=err, failed=failed, pending=pending[0],
                jn=[seen_by_1.get(k, NONE) for k in range(1, ns + 1)], lf=[broke_at.get(k, NONE) for k in range(1, ns + 1)],
            )))
            if task.done() and not (err == "ResamplingError" and any(x["a"] == "recover" for x in steps[i + 1 :])):
                # observed and recorded.  A ResamplingError is left for the behaviour's own "recover" step
                # (the real loop may have run ahead through a chain of ticks to get there); anything else
                # is recovered at once, like the actor does, so that the rest is still checked
                recover()
    return dict(id=case["id"], steps=out)


_CFG: dict = {}


def _worker(chunk, out_path):
    import warnings

    from .common import use_repo

    use_repo()
    warnings.simplefilter("ignore")
    cfg = _CFG
    fn = replay_timeline if cfg["prop"] == "C07" else replay_window
    with open(out_path, "w") as f:
        for cid, line in chunk:
            f.write(json.dumps(fn(dict(id=cid, steps=_parse_line(line)), cfg), separators=(",", ":")) + "\n")


def _byid(shards):
    d = {}
    for p in shards:
        for r_ in load_ndjson(p):
            d[r_["id"]] = r_
    return d


def _printable(consts: dict) -> dict:
    return {k: (sorted(x) if isinstance(x, (set, frozenset)) else x) for k, x in consts.items()}


def run_c07(rep: Report, tier: str, work: Path) -> None:
    global _CFG
    sc = C07_SCOPES[tier]
    consts = sc["consts"]
    d = work / "timeline"
    d.mkdir(parents=True, exist_ok=True)
    cases_file = d / "cases.ndjson"
    res = run_tlc("ResamplerTimeline", d, constants=consts, view="View", invariants=C07_INV, env={"OUT_FILE": str(cases_file)}, coverage=True, timeout=3000)
    rep.add_mc("timeline", res, _printable(consts), C07_INV, mode="exhaustive")
    if not res.ok:
        rep.fail(f"C07.MC.{'/'.join(res.violated)}", dict(stage="timeline", constants=str(consts)), res.counterexample[:3000])
        return
    for a in C07_ACTIONS:
        if not res.coverage.get(a):
            raise RuntimeError(f"vacuity: action {a} never taken ({res.coverage})")
    cases, total, cut = _load_case_lines(cases_file, sc["limit"])
    if cut:
        rep.exhaustive = False
    # non-vacuity of the interesting regimes (counted on the behaviours TLC generated)
    ex = dict(late_timer=0, late_by_a_period_or_more=0, catch_up_burst=0, slow_sink_over_a_period=0, series_added_while_running=0, series_added_while_sinks_pending=0, source_stopped=0, sink_raised=0, failing_series_recovered=0, ticks_after_recovery=0, unaligned_creation=0, align_future=0, align_none=0, ticks_total=0)
    for _, line in cases:
        st = _parse_line(line)
        fires = [s for s in st if s["a"] == "fire"]
        ex["late_timer"] += any(s["drift"] > 0 for s in fires)
        ex["late_by_a_period_or_more"] += any(s["drift"] >= consts["P"] for s in fires)
        ex["catch_up_burst"] += any(s["catchup"] for s in fires)
        ex["slow_sink_over_a_period"] += any(s["a"] == "resample" and s["lat"] > consts["P"] for s in st)
        seen_tick = False
        for s in st:
            if s["a"] == "resample":
                seen_tick = True
                ex["ticks_total"] += 1
            if s["a"] == "add" and seen_tick:
                ex["series_added_while_running"] += 1
                break
        ex["series_added_while_sinks_pending"] += any(s["a"] == "finish" and s["grown"] for s in st)
        ex["source_stopped"] += any(s["a"] == "stop" for s in st)
        ex["sink_raised"] += any(s["a"] == "sinkfail" for s in st)
        rec_at = [i for i, s in enumerate(st) if s["a"] == "recover"]
        ex["failing_series_recovered"] += bool(rec_at)
        ex["ticks_after_recovery"] += bool(rec_at) and any(s["a"] == "resample" for s in st[rec_at[0]:])
        al, c0 = st[0]["align"], st[0]["c"]
        ex["align_none"] += al == NONE
        ex["align_future"] += al != NONE and al > c0
        ex["unaligned_creation"] += al != NONE and (c0 - al) % consts["P"] != 0
    for k, v in ex.items():
        if not v:
            raise RuntimeError(f"vacuity: no replayed behaviour exercises {k}")
    _CFG = dict(consts, prop="C07")
    t1 = Timer()
    shards = _replay_batched(cases, d)
    run_s = t1.s()
    t2 = Timer()
    fails, done, st = validate_shards("ResamplerTimelineTrace", shards, d, constants=consts)
    rep.validated += done
    rep.extra["stages"] = [dict(stage="timeline", cases_emitted=total, cases_replayed=len(cases), traces_validated=done, val_states=st["states"], mc_s=res.wall_s, run_s=run_s, val_s=t2.s())]
    rep.extra["behaviours_exercising"] = ex
    if shards:
        rep.samples.append(load_ndjson(shards[0])[0])
    byid = _byid(shards) if fails else {}
    for v in fails:
        if v["clause"] in C07_DISAGREEMENT:
            dis = rep.extra.setdefault("disagreements", [])
            if len(dis) < 20:
                dis.append(dict(trace=v["tid"], step=v["l"], detail=v["detail"]))
            rep.extra["disagreements_total"] = rep.extra.get("disagreements_total", 0) + 1
        elif v["clause"].startswith("C07."):
            rep.fail(v["clause"], dict(stage="timeline", constants=_printable(consts), trace=byid.get(v["tid"]), step=v["l"]), v["detail"], deviations=v.get("deviations", []))


# ===========================================================================
# C08
C08_INV = ["ImplRefinesDecl", "NoFuture", "NoStale", "NoInvalid", "NoneIffEmpty", "WindowSuffix", "InputPeriodSane", "BufIsTailOfHist", "LostIsWhatBufLacks", "Sorted", "TypeOK"]
C08_DISAGREEMENT = "C08.SourceProperties"  # estimator transcription vs code: not a property clause


def _cfgset(cfgs: list[dict]):
    from .tlc import Raw, tla_value

    return Raw("{" + ", ".join(tla_value(c) for c in cfgs) + "}")


S1 = 1_000_000  # microseconds per model tick: whole seconds ...
# ... and configurations whose resampling period is NOT a whole number of seconds: 0.75 s (3 ticks of 0.25 s),
# 1.5 s (3 ticks of 0.5 s, and 6 ticks of 0.25 s = down-sampling a 0.25 s input)
# ... and sources whose clock runs ahead of the resampler by more than a period (P = 2 ticks, lead 5; P = 4, lead 9;
# 0.75 s period, lead 4): the first samples fill the initial buffer while every tick is still <= sampling_start
AHEAD = [dict(P=2, age=1, L0=2, maxbuf=8, tick=S1, lead=5), dict(P=4, age=1, L0=2, maxbuf=8, tick=S1, lead=9), dict(P=3, age=1, L0=2, maxbuf=8, tick=250_000, lead=4)]
FRAC = [dict(P=3, age=1, L0=2, maxbuf=8, tick=250_000, lead=0), dict(P=3, age=2, L0=2, maxbuf=8, tick=500_000, lead=0), dict(P=6, age=1, L0=3, maxbuf=16, tick=250_000, lead=0)]

C08_SCOPES = {
    "quick": dict(
        history=dict(
            cfgs=[dict(P=2, age=1, L0=2, maxbuf=8, tick=S1, lead=0), dict(P=2, age=2, L0=3, maxbuf=8, tick=S1, lead=0), dict(P=4, age=1, L0=2, maxbuf=3, tick=S1, lead=0), FRAC[0], AHEAD[0]],
            consts=dict(DeltaSet={0, 1, 2, 3, 5}, Fut=2, MaxRecv=4, MaxInvalid=1, MaxTicks=3),
            limit=4000,
        ),
        sim=dict(
            cfgs=[dict(P=2, age=1, L0=2, maxbuf=8, tick=S1, lead=0), dict(P=2, age=2, L0=3, maxbuf=8, tick=S1, lead=0), dict(P=4, age=1, L0=2, maxbuf=3, tick=S1, lead=0), dict(P=4, age=2, L0=3, maxbuf=16, tick=S1, lead=0), dict(P=2, age=1, L0=3, maxbuf=4, tick=S1, lead=0)] + FRAC + AHEAD,
            consts=dict(DeltaSet={0, 1, 2, 3, 4, 5, 7, 9}, Fut=5, MaxRecv=10, MaxInvalid=3, MaxTicks=6),
            num=1600,
        ),
    ),
    "thorough": dict(
        history=dict(
            cfgs=[dict(P=2, age=1, L0=2, maxbuf=8, tick=S1, lead=0), dict(P=2, age=2, L0=3, maxbuf=8, tick=S1, lead=0), dict(P=4, age=1, L0=2, maxbuf=3, tick=S1, lead=0), dict(P=2, age=1, L0=3, maxbuf=4, tick=S1, lead=0), FRAC[0], AHEAD[0]],
            consts=dict(DeltaSet={0, 1, 2, 3, 5}, Fut=2, MaxRecv=5, MaxInvalid=1, MaxTicks=4),
            limit=120000,
        ),
        sim=dict(
            cfgs=[dict(P=2, age=1, L0=2, maxbuf=8, tick=S1, lead=0), dict(P=2, age=2, L0=3, maxbuf=8, tick=S1, lead=0), dict(P=4, age=1, L0=2, maxbuf=3, tick=S1, lead=0), dict(P=4, age=2, L0=3, maxbuf=16, tick=S1, lead=0), dict(P=2, age=1, L0=3, maxbuf=4, tick=S1, lead=0), dict(P=4, age=3, L0=2, maxbuf=32, tick=S1, lead=0)] + FRAC + AHEAD,
            consts=dict(DeltaSet={0, 1, 2, 3, 4, 5, 7, 9}, Fut=5, MaxRecv=14, MaxInvalid=4, MaxTicks=6),
            num=80000,
        ),
    ),
}


def replay_window(case: dict, cfg: dict) -> dict:
    """Feed one TLC-generated input history to a real Resampler with a recording resampling function."""
    from frequenz.channels import Broadcast
    from frequenz.quantities import Quantity

    from frequenz.sdk.timeseries._base_types import Sample
    from frequenz.sdk.timeseries._resampling import Resampler, ResamplerConfig

    from .vloop import EPOCH, ManualLoop

    steps = case["steps"]
    c = steps[0]
    tick_s = c["tick"] / 1e6  # seconds per model tick; every timedelta is built from it
    calls: list[list[list[int]]] = []
    sunk: list[tuple[int, int]] = []

    def recording(samples, _conf, _props) -> float:
        calls.append([[_ticks(x.timestamp, EPOCH, tick_s), (int(x.value.base_value) if x.value is not None and not x.value.isnan() else -1)] for x in samples])
        return float(calls[-1][-1][1]) if samples else -1.0

    async def sink(sample) -> None:
        sunk.append((_ticks(sample.timestamp, EPOCH, tick_s), NONE if sample.value is None else int(sample.value.base_value)))

    def us(td) -> int:
        return NONE if td is None else td // timedelta(microseconds=1)

    out = [c]
    with ManualLoop(start=0.0) as loop:
        conf = ResamplerConfig(
            resampling_period=timedelta(microseconds=c["P"] * c["tick"]),
            max_data_age_in_periods=float(c["age"]),
            resampling_function=recording,
            initial_buffer_len=c["L0"],
            warn_buffer_len=max(1, c["maxbuf"] - 1),
            max_buffer_len=c["maxbuf"],
        )
        res = Resampler(conf)
        chan = Broadcast(name="src")
        source = chan.new_receiver(limit=64)
        sender = chan.new_sender()
        assert res.add_timeseries("series", source, sink)
        task = loop.create_task(res.resample())
        loop.run_until_idle()

        def props() -> dict:
            p = res.get_source_properties(source)
            return dict(start=NONE if p.sampling_start is None else _ticks(p.sampling_start, EPOCH, tick_s), received=p.received_samples, period=us(p.sampling_period))

        nid = 0
        for s in steps[1:]:
            if s["a"] == "recv":
                nid += 1
                val = {"valid": Quantity(float(nid)), "none": None, "nan": Quantity(float("nan"))}[s["kind"]]
                loop.create_task(sender.send(Sample(EPOCH + timedelta(microseconds=s["ts"] * c["tick"]), val)))
                loop.run_until_idle()
                out.append(dict(s, obs=props()))
            elif s["a"] == "tick":
                n_calls, n_sunk = len(calls), len(sunk)
                loop.advance_to(s["T"] * tick_s)
                if task.done():
                    raise RuntimeError(f"resample() ended: {task.exception()!r}")
                if len(sunk) != n_sunk + 1:
                    raise RuntimeError(f"expected one resampled sample at T={s['T']}, sink got {sunk[n_sunk:]}")
                handed = calls[-1] if len(calls) > n_calls else []
                out.append(dict(s, obs=dict(props(), T=sunk[-1][0], emitted=sunk[-1][1], handed=handed, calls=len(calls) - n_calls)))
            else:
                raise ValueError(s["a"])
    return dict(id=case["id"], steps=out)


def _c08_stage(rep: Report, name: str, sc: dict, work: Path, mode: str) -> None:
    global _CFG
    consts = dict(sc["consts"], ConfigSet=_cfgset(sc["cfgs"]), Mode=mode)
    shown = dict(_printable(sc["consts"]), ConfigSet=sc["cfgs"], Mode=mode)
    d = work / name
    d.mkdir(parents=True, exist_ok=True)
    cases_file = d / "cases.ndjson"
    sim = mode == "sim"
    res = run_tlc(
        "ResamplerWindow", d, constants=consts, view="View", invariants=C08_INV + (["SimEmit"] if sim else []),
        env={"OUT_FILE": str(cases_file)}, coverage=not sim, timeout=3000,
        simulate=(f"num={max(1, sc['num'] // 16)}" if sim else None),
        depth=(sc["consts"]["MaxRecv"] + sc["consts"]["MaxTicks"] + 2 if sim else None), seed=(SEED + 23 if sim else None),
    )
    rep.add_mc(name, res, shown, C08_INV, mode=("simulate" if sim else "exhaustive"))
    if not res.ok:
        rep.fail(f"C08.MC.{'/'.join(res.violated)}", dict(stage=name, constants=str(shown)), res.counterexample[:3000])
        return
    if not sim:
        for a in ("RecvStep", "TickStep"):
            if not res.coverage.get(a):
                raise RuntimeError(f"vacuity: action {a} never taken in {name} ({res.coverage})")
    cases, total, cut = _load_case_lines(cases_file, None if sim else sc["limit"])
    if cut or sim:
        rep.exhaustive = False
    # non-vacuity: how many replayed behaviours reach the regimes the clauses are about
    ex = rep.extra.setdefault("behaviours_exercising", {})
    keys = ("estimator_ran", "buffer_resized", "upsampling_window", "buffer_evicted_samples", "future_sample_in_buffer_at_tick",
            "fractional_period_estimator_ran", "fractional_period_buffer_resized",
            "estimator_consulted_with_first_sample_stamped_at_or_after_tick", "estimated_at_first_tick_after_first_sample_stamp", "source_clock_ahead_by_more_than_a_period", "invalid_sample_received", "tick_with_nothing_handed", "tick_with_samples_handed", "sample_stamped_exactly_T", "sample_stamped_exactly_window_start")
    cnt = dict.fromkeys(keys, 0)
    for _, line in cases:
        st = _parse_line(line)
        P, age = st[0]["P"], st[0]["age"]
        ticks = [s for s in st if s["a"] == "tick"]
        recv_ts = [s["ts"] for s in st if s["a"] == "recv" and s["kind"] == "valid"]
        cnt["estimator_ran"] += any(s["est"] for s in ticks)
        g = [i for i, s in enumerate(ticks) if s["guarded"]]
        cnt["estimator_consulted_with_first_sample_stamped_at_or_after_tick"] += bool(g)
        cnt["estimated_at_first_tick_after_first_sample_stamp"] += bool(g) and any(s["est"] for s in ticks[g[0] :])
        cnt["source_clock_ahead_by_more_than_a_period"] += st[0]["lead"] > P and bool(recv_ts)
        frac = (P * st[0]["tick"]) % 1_000_000 != 0  # the resampling period is not a whole number of seconds
        cnt["fractional_period_estimator_ran"] += frac and any(s["est"] for s in ticks)
        cnt["fractional_period_buffer_resized"] += frac and any(s["resized"] for s in ticks)
        cnt["buffer_resized"] += any(s["resized"] for s in ticks)
        cnt["upsampling_window"] += any(s["upsampling"] for s in ticks)
        cnt["buffer_evicted_samples"] += any(s["evicted"] > 0 for s in ticks)
        cnt["future_sample_in_buffer_at_tick"] += any(s["nfuture"] > 0 for s in ticks)
        cnt["invalid_sample_received"] += any(s["a"] == "recv" and s["kind"] != "valid" for s in st)
        cnt["tick_with_nothing_handed"] += any(s["nhanded"] == 0 for s in ticks)
        cnt["tick_with_samples_handed"] += any(s["nhanded"] > 0 for s in ticks)
        seen: list[int] = []
        hitT = hitLo = False
        for s in st[1:]:
            if s["a"] == "recv" and s["kind"] == "valid":
                seen.append(s["ts"])
            elif s["a"] == "tick":
                hitT = hitT or s["T"] in seen
                hitLo = hitLo or (not s["upsampling"] and (s["T"] - P * age) in seen)
        cnt["sample_stamped_exactly_T"] += hitT
        cnt["sample_stamped_exactly_window_start"] += hitLo
    for k, v in cnt.items():
        if not v:
            raise RuntimeError(f"vacuity: no replayed behaviour of stage {name} exercises {k}")
    ex[name] = cnt
    _CFG = dict(prop="C08")
    t1 = Timer()
    shards = _replay_batched(cases, d)
    run_s = t1.s()
    t2 = Timer()
    fails, done, st_ = validate_shards("ResamplerWindowTrace", shards, d, constants=dict(consts, Mode="trace"))
    rep.validated += done
    rep.extra.setdefault("stages", []).append(dict(stage=name, cases_emitted=total, cases_replayed=len(cases), traces_validated=done, val_states=st_["states"], mc_s=res.wall_s, run_s=run_s, val_s=t2.s()))
    if shards and len(rep.samples) < 2:
        rep.samples.append(load_ndjson(shards[0])[0])
    byid = _byid(shards) if fails else {}
    for v in fails:
        if v["clause"] == C08_DISAGREEMENT:
            dis = rep.extra.setdefault("disagreements", [])
            if len(dis) < 20:
                dis.append(dict(stage=name, trace=v["tid"], step=v["l"], detail=v["detail"]))
            rep.extra["disagreements_total"] = rep.extra.get("disagreements_total", 0) + 1
        elif v["clause"].startswith("C08."):
            rep.fail(v["clause"], dict(stage=name, constants=shown, trace=byid.get(v["tid"]), step=v["l"]), v["detail"], deviations=v.get("deviations", []))


def run_c08(rep: Report, tier: str, work: Path) -> None:
    sc = C08_SCOPES[tier]
    rep.extra["disagreements"] = []
    _c08_stage(rep, "history", sc["history"], work, "history")
    _c08_stage(rep, "sim", sc["sim"], work, "sim")
    if rep.extra.get("disagreements_total"):
        rep.notes.append(f"{rep.extra['disagreements_total']} records where get_source_properties() differs from the transcribed estimator (not a clause of C08)")


# ===========================================================================
def run(prop: str, tier: str) -> int:
    tm = Timer()
    rep = Report(prop, tier)
    work = scratch(f"{prop}_{tier}")
    global SHARDS
    SHARDS = 8 if tier == "quick" else 16
    if prop == "C07":
        rep.assumptions = [
            "time on a grid of quarter periods (1 tick = 1 s, period 4 s): sub-tick jitter and float rounding of the loop clock are not decided",
            "lateness is modelled as whole ticks during which the event loop does not run; when it runs it runs until nothing is ready",
            "sources never yield and never end; sinks never raise; remove_timeseries is not exercised",
            "the harness reads no private state: timestamps are those handed to the sinks given to add_timeseries",
        ]
        run_c07(rep, tier, work)
        if rep.extra.get("disagreements_total"):
            rep.notes.append(f"{rep.extra['disagreements_total']} records where the sinks' timestamps differ from the transcribed timeline (C07.Timeline, not a clause of C07)")
    elif prop == "C08":
        rep.assumptions = [
            "timestamps on grids of 1 s, 0.5 s and 0.25 s, periods 0.75 s, 1.5 s, 2 s and 4 s, integer max_data_age_in_periods; the estimated input period is exact to the microsecond (timedelta rounding transcribed), float effects beyond that are not decided",
            "input timestamps are non-decreasing (the property's quantifier: time-ordered input series); one source per resampler",
            "future-stamped samples occupy buffer slots: 'the most recent ones that fit the configured buffer' is read as the last maxlen valid samples RECEIVED (maxlen as adapted by the code), not the last maxlen samples of the window",
            "the harness reads no private state: recording resampling_function through ResamplerConfig, sink samples, get_source_properties()",
        ]
        run_c08(rep, tier, work)
    else:
        raise ValueError(prop)
    return rep.finish(tm.s())
