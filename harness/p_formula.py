"""C05 / C13: FormulaCompile.tla model checking, programs built for real, trace validation.

MC+GEN  TLC explores every expression tree of the scope through every front end (string formula
        with minimal / full parentheses, FormulaBuilder push API, composition API), checks the
        design-level invariants on the transcription and emits one case per built program with
        the intended value and the transcription's outcome for every environment.
RUN     each program is built ONCE with the real classes and all environments are pushed through
        it as consecutive timestamps on a manually pumped loop; outputs are read from
        engine.new_receiver() and compared (float vs TLC's exact rational) with Fraction.
VAL     FormulaCompileTrace re-executes the spec actions on the recorded arguments and evaluates
        every clause on the recorded observations.
"""

from __future__ import annotations

import itertools
import json
import math
import os
import random
from datetime import datetime, timedelta, timezone
from fractions import Fraction
from pathlib import Path

from .common import SEED, Timer, scratch
from .pipeline import load_ndjson, replay_parallel, subsample, validate_shards
from .tlc import read_emitted, run_tlc
from .verdict import Report

NONE, NAN, PINF, NINF = -99, -98, -97, -96
SPECIALS = [NONE, NAN, PINF, NINF]
ALL_BIN = {"+", "-", "*", "/", "max", "min"}
ALL_UN = {"consumption", "production"}
ALL_FRONTS = {"smin", "sfull", "push", "ho"}

MC_INV = {
    "C05": ["CompileCorrect", "RenderFaithful", "SharedFetcher", "StepwiseEqualsFold"],
    "C13": ["NoneIff", "ZeroWhenConfigured", "SampleAlways"],
}
ACTIONS = ["PickStep", "PushOperStep", "PushMetricStep", "PushConstantStep", "PushClipperStep", "FinalizeStep", "RoundStep"]
# bounds offered to push_clipper (front end "push"): [lo, hi], NONE = bound absent
CLIPS = [[0, NONE], [NONE, 1], [-1, 2]]


def env_product(nm: int, values: list[int], limit: int | None = None, seed: int = SEED) -> list[list[int]]:
    """All environments over `values` (inputs, not an oracle); seeded sample when limited."""
    envs = [list(e) for e in itertools.product(values, repeat=nm)]
    if limit and len(envs) > limit:
        rnd = random.Random(seed + 5)
        keep = sorted(rnd.sample(range(len(envs)), limit))
        envs = [envs[i] for i in keep]
    return envs


G4 = [-2, 0, 1, 3]
G5 = [-2, 0, 1, 3, 5]
G3 = [-2, 0, 1]


def _st(mode="exh", nm=2, depth=1, fronts=ALL_FRONTS, kvals=(2,), zmode="none", values=G4, env_limit=None,
        limit=None, sim_num=0, sim_depth=3, binset=ALL_BIN, unset=ALL_UN, cov=False, clips=CLIPS):
    return dict(clips=[list(c) for c in clips], mode=mode, nm=nm, depth=depth, fronts=set(fronts), kvals=set(kvals), zmode=zmode, values=list(values),
                env_limit=env_limit, limit=limit, sim_num=sim_num, sim_depth=sim_depth, binset=set(binset),
                unset=set(unset), cov=cov)


SCOPES = {
    ("C05", "quick"): {
        "d1": _st(depth=1, kvals=(2, -3), cov=True),
        "str2": _st(depth=2, fronts={"smin", "sfull"}),
        "push2": _st(depth=2, fronts={"push"}, limit=1500),
        "ho2": _st(depth=2, fronts={"ho"}, limit=2000),
        "sim3": _st(mode="sim", nm=3, sim_depth=3, kvals=(2, -3), values=G4, env_limit=24, sim_num=1000),
    },
    ("C05", "thorough"): {
        "d1": _st(nm=3, depth=1, kvals=(2, -3), cov=True),
        "str2": _st(nm=3, depth=2, fronts={"smin", "sfull"}, values=G5),
        "push2": _st(nm=2, depth=2, fronts={"push"}, kvals=(2, -3)),
        "ho2": _st(nm=3, depth=2, fronts={"ho"}, values=[-2, 0, 3]),
        "sim3": _st(mode="sim", nm=3, sim_depth=3, kvals=(2, -3), values=G5, env_limit=60, sim_num=12000),
        "sim4": _st(mode="sim", nm=3, sim_depth=4, kvals=(2, -3), values=G4, env_limit=40, sim_num=4000),
    },
    ("C13", "quick"): {
        "d1": _st(depth=1, zmode="all", values=G3 + SPECIALS, cov=True),
        "str2": _st(depth=2, fronts={"smin", "sfull"}, zmode="all", values=G3 + SPECIALS, limit=2500),
        "sim3": _st(mode="sim", nm=2, sim_depth=3, zmode="all", values=G3 + SPECIALS, sim_num=2400),
    },
    ("C13", "thorough"): {
        "d1": _st(nm=3, depth=1, zmode="all", values=G3 + SPECIALS, cov=True),
        "str2": _st(depth=2, fronts={"smin", "sfull"}, zmode="all", values=G4 + SPECIALS),
        "push2": _st(depth=2, fronts={"push"}, zmode="all", values=G3 + SPECIALS),
        "ho2": _st(depth=2, fronts={"ho"}, kvals=(), zmode="all", values=[0, 1] + SPECIALS),
        "sim3": _st(mode="sim", nm=3, sim_depth=3, kvals=(2, -3), zmode="all", values=G3 + SPECIALS, env_limit=80, sim_num=8000),
        "sim4": _st(mode="sim", nm=2, sim_depth=4, zmode="all", values=G3 + SPECIALS, sim_num=4000),
    },
}


def _consts(st: dict, envs: list[list[int]], mode: str) -> dict:
    seeds: set[int] = set()
    if mode == "sim":  # seeds only; TLC decodes a program from each (FormulaCompile.tla, GenRoot)
        rnd = random.Random(SEED + 23)
        seeds = set(rnd.sample(range(1, 65537), min(st["sim_num"], 60000)))
    return dict(NM=st["nm"], KVals=st["kvals"], Clips=st["clips"], Depth=st["depth"], Fronts=st["fronts"], BinSet=st["binset"],
                UnSet=st["unset"], EnvSeq=envs, ZMode=st["zmode"], SimDepth=st["sim_depth"], Seeds=seeds, Mode=mode)


# ---------------------------------------------------------------------------
# real-code side
T0 = datetime(2024, 1, 1, tzinfo=timezone.utc)
CID = {1: 1, 2: 20, 3: 300, 4: 4000}  # component ids of m1.. (multi-digit ids exercise the tokenizer)
def _formula_text(toks: list[dict], variant: int) -> str:
    """The formula string for a token list, in one of four whitespace layouts."""
    words = [f"#{CID[t['n']]}" if t["t"] == "m" else t["s"] for t in toks]
    if variant == 0:  # no whitespace at all
        return "".join(words)
    if variant == 1:  # single blanks everywhere, leading and trailing blank
        return " " + " ".join(words) + " "
    if variant == 2:  # every kind of whitespace the tokenizer skips
        seps = ["  ", "\t", "\n", " \r\n "]
        return "\t" + "".join(w + seps[i % 4] for i, w in enumerate(words))
    return "".join(f" {w} " if w in ("+", "-", "*", "/") else w for w in words).strip()  # around operators only


def _close(x: float, n: int, d: int) -> bool:
    if d == 0 or not math.isfinite(x):
        return False
    e = Fraction(n, d)
    return abs(Fraction(x) - e) <= Fraction(1, 10**9) * max(1, abs(e))


class _Rig:
    """One program built with the real classes, its input senders and its output stream."""

    def __init__(self, case: dict, nm: int) -> None:
        import frequenz.sdk.microgrid  # noqa: F401  (import order: breaks a cycle in the package)
        from frequenz.channels import Broadcast
        from frequenz.client.microgrid import ComponentMetricId
        from frequenz.quantities import Power, Quantity

        from frequenz.sdk._internal._channels import ChannelRegistry
        from frequenz.sdk.microgrid._data_sourcing import ComponentMetricRequest
        from frequenz.sdk.timeseries import Sample
        from frequenz.sdk.timeseries.formula_engine._formula_engine import FormulaEngine
        from frequenz.sdk.timeseries.formula_engine._resampled_formula_builder import ResampledFormulaBuilder

        self.Sample = Sample
        front, z, toks = case["front"], case["z"], case["toks"]
        self.text = ""
        self.rtoks: list = []
        self.hob = None
        if front in ("smin", "sfull", "push"):
            self.q = Quantity
            reg = ChannelRegistry(name="verif")
            req = Broadcast[ComponentMetricRequest](name="requests")
            self._req_rx = req.new_receiver(limit=1000)
            builder = ResampledFormulaBuilder("ns", "formula", reg, req.new_sender(), ComponentMetricId.ACTIVE_POWER, Quantity)
            if front == "push":
                for t in toks:
                    if t["t"] == "m":
                        builder.push_component_metric(CID[t["n"]], nones_are_zeros=bool(z["leaf"][t["n"] - 1]))
                    elif t["t"] == "c":
                        builder.push_constant(float(t["n"]))
                    elif t["t"] == "clip":
                        lo, hi = _CFG["clips"][t["n"] - 1]
                        builder.push_clipper(None if lo == NONE else float(lo), None if hi == NONE else float(hi))
                    else:
                        builder.push_oper(t["s"])
                self.engine = builder.build()
            else:
                self.text = _formula_text(toks, case["id"] % 4)
                self.engine = builder.from_string(self.text, nones_are_zeros=bool(z["glob"]))
            self.senders = {}
            for i in range(1, nm + 1):
                name = ComponentMetricRequest("ns", CID[i], ComponentMetricId.ACTIVE_POWER, None).get_channel_name()
                self.senders[i] = reg.get_or_create(Sample[Quantity], name).new_sender()
        else:
            self.q = Power.from_watts
            chans = {i: Broadcast[Sample[Power]](name=f"m{i}") for i in range(1, nm + 1)}
            self.senders = {i: c.new_sender() for i, c in chans.items()}
            leaves: dict[int, FormulaEngine] = {}

            def leaf(i: int):
                if i not in leaves:  # one engine per stream, used wherever the metric occurs
                    leaves[i] = FormulaEngine.from_receiver(
                        f"m{i}", chans[i].new_receiver(), Power.from_watts, nones_are_zeros=bool(z["leaf"][i - 1])
                    )
                return leaves[i]

            def const(op: str, v: int):
                return float(v) if op in ("*", "/") else Power.from_watts(float(v))

            def build(e: dict):
                # every sub-expression object is created exactly once (builders are mutated in place)
                if e["k"] == "m":
                    return leaf(e["i"])
                if e["k"] == "u":
                    return getattr(build(e["a"]), e["op"])()
                lhs = build(e["l"])
                rhs = const(e["op"], e["r"]["v"]) if e["r"]["k"] == "c" else build(e["r"])
                op = e["op"]
                if op == "+":
                    return lhs + rhs
                if op == "-":
                    return lhs - rhs
                if op == "*":
                    return lhs * rhs
                if op == "/":
                    return lhs / rhs
                return getattr(lhs, op)(rhs)

            self.hob = build(case["tree"])
            self.engine = self.hob.build("composed", nones_are_zeros=bool(z["glob"]))
            self.rtoks = self._real_tokens()
        self.rsteps, self.nfetch = self._real_program()

    # -- enrichment from private attributes named in the anchors (absent -> not bound) --------
    def _real_tokens(self) -> list:
        try:
            out = []
            for typ, val in self.hob._steps:  # pylint: disable=protected-access
                if typ.name == "OPER":
                    out.append(dict(t="op", s=str(val), n=0))
                elif typ.name == "COMPONENT_METRIC":
                    out.append(dict(t="m", s="m", n=int(val._name[1:])))  # pylint: disable=protected-access
                else:
                    v = val.base_value if hasattr(val, "base_value") else val
                    out.append(dict(t="c", s="c", n=int(v) if float(v).is_integer() else 12345))
            return out
        except Exception:  # pylint: disable=broad-except
            return []

    def _real_program(self) -> tuple[list, int]:
        try:
            from frequenz.sdk.timeseries.formula_engine._formula_steps import Clipper, ConstantValue, MetricFetcher

            inv = {f"#{c}": i for i, c in CID.items()}
            inv.update({f"m{i}": i for i in CID})
            b = self.engine._builder  # pylint: disable=protected-access
            out = []
            for s in b._steps:  # pylint: disable=protected-access
                if isinstance(s, MetricFetcher):
                    out.append(dict(t="m", s="m", n=inv[repr(s)]))
                elif isinstance(s, ConstantValue):
                    out.append(dict(t="c", s="c", n=int(s.value) if float(s.value).is_integer() else 12345))
                elif isinstance(s, Clipper):
                    key = [NONE if v is None else int(v) for v in (s.min_value, s.max_value)]
                    out.append(dict(t="clip", s="clip", n=_CFG["clips"].index(key) + 1 if key in _CFG["clips"] else 0))
                else:
                    out.append(dict(t="op", s=repr(s), n=0))
            return out, len(b._metric_fetchers)  # pylint: disable=protected-access
        except Exception:  # pylint: disable=broad-except
            return [], -1

    def sample(self, ts: datetime, code: int):
        if code == NONE:
            return self.Sample(ts, None)
        v = {NAN: math.nan, PINF: math.inf, NINF: -math.inf}.get(code, float(code))
        return self.Sample(ts, self.q(v))


def replay_case(case: dict, envs: list[list[int]], nm: int) -> dict:
    from .vloop import ManualLoop

    with ManualLoop(wall=False) as loop:
        rig = _Rig(case, nm)
        got: list = []
        rx = rig.engine.new_receiver(max_size=100000)

        async def collect() -> None:
            async for s in rx:
                got.append(s)

        loop.create_task(collect())
        loop.run_until_idle()
        for k, env in enumerate(envs):
            ts = T0 + timedelta(seconds=k)
            for i in range(1, nm + 1):
                loop.create_task(rig.senders[i].send(rig.sample(ts, env[i - 1])))
            loop.run_until_idle()
        by_ts: dict[int, list] = {}
        stray = 0
        for s in got:
            k = (s.timestamp - T0).total_seconds()
            if k != int(k) or not 0 <= int(k) < len(envs):
                stray += 1
            else:
                by_ts.setdefault(int(k), []).append(s)
        rounds = []
        for k, env in enumerate(envs):
            ss = by_ts.get(k, [])
            exp, mod = case["exp"][k], case["mod"][k]
            x = None
            if not ss:
                cls = "nosample"
            elif ss[0].value is None:
                cls = "none"
            else:
                cls = "num"
                x = float(ss[0].value.base_value)
            eq = bool(cls == "num" and _close(x, exp[0], exp[1]))
            eqm = bool(cls == "num" and mod[0] == 1 and _close(x, mod[1], mod[2]))
            vi = int(round(x * 1000)) if x is not None and abs(x) < 2e6 else 0
            rounds.append(dict(inp=env, cnt=len(ss), cls=cls, eq=eq, eqm=eqm, exp=exp, mod=mod, vi=vi))
    return dict(id=case["id"], front=case["front"], z=case["z"], tree=case["tree"], toks=case["toks"],
                formula=rig.text, rsteps=rig.rsteps, rtoks=rig.rtoks, nfetch=rig.nfetch, stray=stray, sent=len(envs), rounds=rounds)


_CFG: dict = {}
# recursive operators over long token streams (depth-4 programs) need more than the default thread stack
JVM_ENV = {"_JAVA_OPTIONS": "-Xss64m"}
WATCHDOG_S = 300


class _Hang(KeyboardInterrupt):
    """Raised by the per-case watchdog (KeyboardInterrupt: neither the engine nor asyncio swallow it)."""


def _alarm(*_):
    raise _Hang()


def _worker(chunk, out_path):
    import signal

    from .common import use_repo

    use_repo()
    envs, nm = _CFG["envs"], _CFG["nm"]
    signal.signal(signal.SIGALRM, _alarm)
    with open(out_path, "w") as f:
        for c in chunk:
            signal.setitimer(signal.ITIMER_REAL, WATCHDOG_S)
            try:
                rec = replay_case(c, envs, nm)
            except _Hang:
                raise RuntimeError(f"case {c['id']} ({c['front']}, {json.dumps(c['tree'])}) kept the event loop busy for {WATCHDOG_S}s") from None
            finally:
                signal.setitimer(signal.ITIMER_REAL, 0)
            f.write(json.dumps(rec, separators=(",", ":")) + "\n")


# ---------------------------------------------------------------------------
def _brief(rec: dict | None, step: int):
    if rec is None:
        return None
    out = {k: rec[k] for k in ("id", "front", "z", "tree", "formula", "rsteps", "nfetch", "stray")}
    out["toks_list"] = rec["toks"]
    out["toks"] = " ".join((f"m{t['n']}" if t["t"] == "m" else str(t["n"]) if t["t"] == "c" else f"clip#{t['n']}" if t["t"] == "clip" else t["s"]) for t in rec["toks"])
    k = step - 2
    if 0 <= k < len(rec["rounds"]):
        out["round"] = dict(rec["rounds"][k], timestamp=k)
    return out


def _stage(rep: Report, prop: str, name: str, st: dict, work: Path, totals: dict) -> None:
    """MC+GEN, RUN, VAL for one scope."""
    global _CFG
    d = work / name
    d.mkdir(parents=True, exist_ok=True)
    envs = env_product(st["nm"], st["values"], st["env_limit"])
    sim = st["mode"] == "sim"
    consts = _consts(st, envs, st["mode"])
    cases_file = d / "cases.ndjson"
    inv = list(MC_INV[prop]) + (["LegacyDiffersOnlyByCauses"] if st["cov"] and prop == "C13" else [])
    res = run_tlc("FormulaCompile", d, constants=consts, invariants=inv, env={"OUT_FILE": str(cases_file), **JVM_ENV},
                  coverage=st["cov"], timeout=6000)
    shown = {k: (sorted(v) if isinstance(v, set) else v) for k, v in consts.items() if k not in ("EnvSeq", "Seeds")}
    shown["values"], shown["envs"], shown["seeds"] = st["values"], len(envs), len(consts["Seeds"])
    rep.add_mc(name, res, shown, inv, mode=("exhaustive over %d seed-decoded programs" % len(consts["Seeds"])) if sim else "exhaustive")
    if not res.ok:
        rep.fail(f"{prop}.MC.{'/'.join(res.violated)}", dict(stage=name, constants=shown), res.counterexample[:3000])
        return
    if st["cov"]:
        for a in ACTIONS:
            if a == "PushConstantStep" and not st["kvals"]:
                continue
            if not res.coverage.get(a):
                raise RuntimeError(f"vacuity: action {a} never taken in {name} ({res.coverage})")
        totals["actions"] = {a: res.coverage.get(a, 0) for a in ACTIONS}
    cases = read_emitted(cases_file)
    for i, c in enumerate(cases):
        c["id"] = i + 1
    total = len(cases)
    if total == 0:
        raise RuntimeError(f"vacuity: no case emitted in stage {name}")
    if st["limit"]:
        cases, cut = subsample(cases, st["limit"])
        if cut:
            rep.exhaustive = False
    if sim:
        rep.exhaustive = False
    _CFG = dict(envs=envs, nm=st["nm"], clips=st["clips"])
    # small stages: fewer shards (every shard costs a JVM start in VAL, ~8 CPU seconds)
    shards = replay_parallel(_worker, cases, d, nproc=max(1, min(16, len(cases) // 150)))
    fails, done, vst = validate_shards("FormulaCompileTrace", shards, d, constants=_consts(st, [], "trace"), heap="4g", extra_env=JVM_ENV)
    rep.validated += done
    # per-trace counters written by TLC with each "done" line: how often each clause's antecedent held
    acc: dict = {}
    cov: set = set()
    for p in shards:
        for v in read_emitted(d / f"verdict_{p.stem}.ndjson"):
            if v.get("done"):
                for k, n in v["acc"].items():
                    if isinstance(n, int):
                        acc[k] = acc.get(k, 0) + n
                cov.update(v.get("cov", []))
    for k, n in acc.items():
        totals["exercised"][k] = totals["exercised"].get(k, 0) + n
    totals["cov"].update(cov)
    fronts = {}
    for c in cases:
        fronts[c["front"]] = fronts.get(c["front"], 0) + 1
    rep.extra.setdefault("stages", []).append(dict(
        stage=name, cases_emitted=total, cases_replayed=len(cases), by_front=fronts, timestamps_per_case=len(envs),
        traces_validated=done, val_states=vst["states"], exercised=acc))
    byid = None
    n_dev = 0
    for v in fails:
        cl = v["clause"]
        if not (cl.startswith(prop + ".") or cl.startswith("BIND.") or cl.startswith("DIS.")):
            totals["other"] = totals.get("other", 0) + 1
            continue
        if byid is None:
            byid = {}
            for p in shards:
                for r_ in load_ndjson(p):
                    byid[r_["id"]] = r_
        info = dict(stage=name, constants=shown, case=_brief(byid.get(v["tid"]), v["l"]))
        if v.get("deviations") and n_dev >= 200:  # (known deviations come by the hundred thousand: keep few in full)
            info = dict(stage=name, case=dict(id=v["tid"], toks=info["case"]["toks"] if info["case"] else None))
        n_dev += 1 if v.get("deviations") else 0
        if cl.startswith("DIS."):
            dis = rep.extra.setdefault("disagreements", dict(count=0, examples=[]))
            dis["count"] += 1
            if len(dis["examples"]) < 5:
                dis["examples"].append(dict(clause=cl, **info, detail=v["detail"]))
        elif cl.startswith("BIND."):
            rep.fail(f"{prop}.Binding.{cl[5:]}", info, v["detail"])
        else:
            rep.fail(cl, info, v["detail"], deviations=v.get("deviations", []))
    if cases and len(rep.samples) < 4:
        rec = load_ndjson(shards[0])[0]
        rec["rounds"] = rec["rounds"][:6]
        rep.samples.append(rec)


NEED = {
    "C05": ["c05", "sample", "clipact"],
    # causeminmax / causediv0: inputs on which a min/max step meets a NaN second operand / a division
    # meets a zero divisor (where the two former defects would show), counted on the CURRENT model
    # clipnan: a missing value reached a clipper
    "C13": ["noneiff", "wantnone", "zero", "twin", "sample", "causeminmax", "causediv0", "clipnan"],
}
NEED_COV = {"C13": [f"{op}:{pos}" for op in sorted(ALL_BIN) for pos in "LR"] + [f"{op}:A" for op in sorted(ALL_UN)] + ["clip:A"]}


def run(prop: str, tier: str) -> int:
    tm = Timer()
    t_cpu = os.times()
    rep = Report(prop, tier)
    work = scratch(f"{prop}_{tier}")
    rep.assumptions = [
        "input values on a small integer grid (plus None / NaN / +-inf for C13); constants are small integers",
        "float results are compared with TLC's exact rational within 1e-9 relative; behaviour that exists only "
        "because of rounding or overflow is not decided",
        "all input streams carry the same timestamps (synchronisation is C06); no fallback fetchers (C19); Clipper not covered",
        "composition API: every builder object is used once (builders are mutated in place); a leaf engine object is shared "
        "by all occurrences of its metric",
        "private attributes (_steps, _metric_fetchers) are read only to report transcription drift; verdicts use new_receiver() output",
    ]
    totals: dict = dict(exercised={}, cov=set())
    only = [x for x in os.environ.get("VERIF_FORMULA_STAGES", "").split(",") if x]  # debugging aid
    for name, st in SCOPES[(prop, tier)].items():
        if only and name not in only:
            continue
        _stage(rep, prop, name, st, work, totals)
    rep.extra["exercised"] = totals["exercised"]
    rep.extra["operator_position_with_missing_operand"] = sorted(totals["cov"])
    rep.extra["actions"] = totals.get("actions")
    rep.extra["lines_of_other_property"] = totals.get("other", 0)
    t1 = os.times()  # CPU seconds of this process and all its (TLC / replay worker) children
    rep.extra["cpu_s"] = round(sum(t1[:4]) - sum(t_cpu[:4]), 1)
    print(f"{prop} {tier}: cpu={rep.extra['cpu_s']}s (all processes)")
    if not any(f["clause"].startswith(f"{prop}.MC.") for f in rep.failures):
        for k in NEED[prop]:
            if not totals["exercised"].get(k):
                raise RuntimeError(f"vacuity: no record exercised '{k}' ({totals['exercised']})")
        missing = [k for k in NEED_COV.get(prop, []) if k not in totals["cov"]]
        if missing:
            raise RuntimeError(f"vacuity: operator/position never met a missing operand: {missing}")
    return rep.finish(tm.s())


def replay(prop: str, data: dict) -> int:
    """./check <prop> --replay <file>: rebuild the recorded program with the real classes, feed the
    recorded inputs of the failing timestamp again and let TLC evaluate the clauses on what happens now."""
    global _CFG
    from .common import dump_ndjson, use_repo

    info = data["case"]
    case, consts = info["case"], info["constants"]
    rnd = case.get("round")
    envs = [rnd["inp"]] if rnd else []
    c = dict(id=1, front=case["front"], z=case["z"], tree=case["tree"], toks=case["toks_list"],
             exp=[rnd["exp"]] if rnd else [], mod=[rnd["mod"]] if rnd else [])
    use_repo()
    rec = replay_case(c, envs, consts["NM"])
    d = scratch(f"{prop}_replay")
    shard = d / "impl_0.ndjson"
    dump_ndjson(shard, [rec])
    _CFG = dict(clips=consts["Clips"])
    tc = dict(NM=consts["NM"], KVals=set(consts["KVals"]), Clips=consts["Clips"], Depth=consts["Depth"], Fronts=set(consts["Fronts"]),
              BinSet=set(consts["BinSet"]), UnSet=set(consts["UnSet"]), EnvSeq=[], ZMode=consts["ZMode"],
              SimDepth=consts["SimDepth"], Seeds=set(), Mode="trace")
    fails, _, _ = validate_shards("FormulaCompileTrace", [shard], d, constants=tc, extra_env=JVM_ENV)
    print(f"program ({case['front']}): {case['toks']}   formula={rec['formula']!r}  nones_are_zeros={case['z']}")
    print(f"real post-fix program: {' '.join(str(t['n']) if t['t'] == 'c' else ('m%d' % t['n'] if t['t'] == 'm' else t['s']) for t in rec['rsteps'])}")
    for r in rec["rounds"]:
        print(f"inputs {r['inp']} -> samples={r['cnt']} class={r['cls']} value*1000={r['vi']}  intended={r['exp']} transcription={r['mod']}")
    bad = 0
    for v in fails:
        cl = v["clause"]
        if cl.startswith("DIS.") or not (cl.startswith(prop + ".") or cl.startswith("BIND.")):
            continue
        known = bool(v.get("deviations"))
        print(("KNOWN-DEVIATION " if known else "VIOLATION ") + f"clause={cl} deviations={v.get('deviations')} detail={json.dumps(v['detail'])[:300]}")
        bad += 0 if known else 1
    if not bad:
        print("no violated clause on this replay")
    return 1 if bad else 0
