#!/bin/sh
# Nothing to build: specs are interpreted by TLC, the harness is plain Python run by /venv/bin/python.
cd "$(dirname "$0")" || exit 1
mkdir -p out evidence
java -version >/dev/null 2>&1 || { echo "java missing"; exit 1; }
test -f /opt/veriftools/tla/tla2tools.jar || { echo "tla2tools.jar missing"; exit 1; }
/venv/bin/python -c "import frequenz.channels, time_machine" || exit 1
echo "setup ok"
