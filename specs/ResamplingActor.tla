--------------------------- MODULE ResamplingActor ---------------------------
(* X01 - microgrid/_resampling.py:ComponentMetricsResamplingActor on top of    *)
(* timeseries/_resampling.py:Resampler.                                        *)
(*                                                                             *)
(* The actor serves every distinct ComponentMetricRequest exactly once         *)
(* (one subscription at the data-sourcing actor, one timeseries in its         *)
(* Resampler, samples published on the channel named by the request), ignores  *)
(* repeated requests, removes ONLY the timeseries whose source stopped or      *)
(* whose sink failed, and keeps resampling everything else on the same         *)
(* aligned, gap-free timeline while it keeps running itself; a request that    *)
(* arrives while a resampling round is in progress is served from the next     *)
(* tick on without disturbing the round.                                       *)
(*                                                                             *)
(* Time is counted in whole seconds after an instant that is a multiple of     *)
(* every period used (the harness' epoch); align_to is the default UNIX epoch. *)
(* One action per critical section of the code (the stretch between two        *)
(* awaits of one task):                                                        *)
(*  environment                                                                *)
(*   Request(r)     a client puts request r on the resampling request channel  *)
(*   SourceStops(s) the data-sourcing side closes the source channel of s      *)
(*   SinkFails(s)   the output channel of s is closed: sender.send raises      *)
(*   TimePass       one second passes (only when the loop has nothing to do)   *)
(*  subscriptions task  (_process_resampling_requests / _subscribe)            *)
(*   ActorTake      `async for request`: channel name in _active_req_channels  *)
(*                  -> nothing; else add it, build the ":Source" request       *)
(*   ActorSend      await data_sourcing_request_sender.send(...)               *)
(*   ActorAdd       receiver + sender from the registry, add_timeseries        *)
(*  per-timeseries receiving task (_StreamingHelper._receive_samples)          *)
(*   RecvNotice(s)  the `async for` over a closed source ends: the task is done*)
(*  resampling task  (Resampler.resample)                                      *)
(*   TimerFire      the timer is due: next deadline += period (TriggerAllMissed)*)
(*   RoundStart     resampler_sources = list(_resamplers); gather(...) built   *)
(*   HelperRun(s)   _StreamingHelper.resample(window_end) of one series of the *)
(*                  round: SourceStoppedError / the sink's error / one sample  *)
(*   Finish         gather returned: window_end += period, results paired with *)
(*                  the sources of the round (repair 9f8dfea); exceptions ->   *)
(*                  raise ResamplingError naming exactly the failed series     *)
(*  _run (asyncio.wait FIRST_COMPLETED loop)                                   *)
(*   Recover        _log_resampling_task_error: remove_timeseries for every    *)
(*                  source named, then resample() is started again             *)
(* The two tasks interleave freely: ActorAdd may happen between RoundStart and *)
(* Finish (the race the repair was about).  Dev_AddDuringGather names that     *)
(* situation; the trace specification attaches it to a resample() that ended   *)
(* with anything but ResamplingError, so the old defect is recognised.         *)
EXTENDS Integers, Sequences, FiniteSets, TLC, Json, CSV, IOUtils

CONSTANTS P,          \* resampling period (seconds)
          CreateSet,  \* instants at which the actor (and its Resampler) may be created
          Reqs,       \* distinct requests 1..NR (component ids; same namespace / metric / start)
          MaxReq,     \* requests sent in one behaviour (duplicates included)
          MaxFail,    \* series that may break in one behaviour
          Horizon,    \* the clock stops at created + Horizon
          MaxDepth,   \* bound on the emitted history (Mode = "env")
          Mode        \* "mc" | "env" | "trace"

None == -99

VARIABLES now, created, windowEnd, nextTick,
          reqq,       \* resampling request channel
          nreq, asked,
          active,     \* _active_req_channels
          sub,        \* subscriptions task: <<"idle", 0>> | <<"send", r>> | <<"add", r>>
          fwd,        \* requests forwarded to the data-sourcing actor, in order
          series,     \* keys of Resampler._resamplers
          removed,    \* series removed after a ResamplingError
          srcOpen, sinkOk,   \* environment: source channel open / output channel open
          recvDone,   \* the receiving task of the series has ended
          rt,         \* resampling task: "sleep" | "fired" | "gather" | "raised" | "crashed"
          round,      \* series of the pending gather
          todo,       \* those of them whose helper has not run yet
          failed,     \* those of them whose helper raised
          ticks,      \* window ends handed out so far
          out,        \* r -> timestamps published on the channel named by r
          joined,     \* r -> Len(ticks) when the timeseries was added (None: not added)
          late,       \* r -> it was added while a round was in progress (ghost)
          brokeAt,    \* r -> clock when it broke (None: healthy)
          h

vars == <<now, created, windowEnd, nextTick, reqq, nreq, asked, active, sub, fwd, series, removed, srcOpen, sinkOk,
          recvDone, rt, round, todo, failed, ticks, out, joined, late, brokeAt, h>>
View == <<now, created, windowEnd, nextTick, reqq, nreq, asked, active, sub, fwd, series, removed, srcOpen, sinkOk,
          recvDone, rt, round, todo, failed, ticks, out, joined, late, brokeAt>>

EmitOn == "OUT_FILE" \in DOMAIN IOEnv
Emit(v) == IF EmitOn THEN CSVWrite("%1$s", <<ToJson(v)>>, IOEnv.OUT_FILE) ELSE TRUE

IntOn == Mode # "env"          \* "env": only the environment's event orders are enumerated
Range(s) == {s[i] : i \in 1..Len(s)}
Count(s, x) == Cardinality({i \in 1..Len(s) : s[i] = x})
Idle == <<"idle", 0>>
Broken(r) == ~srcOpen[r] \/ ~sinkOk[r]

\* Resampler._calculate_window_end with align_to = UNIX epoch: first window end for creation at c
FirstTick(c) == IF c % P = 0 THEN c + P ELSE c + 2 * P - (c % P)

Init ==
    /\ created \in CreateSet /\ now = created
    /\ windowEnd = FirstTick(created) /\ nextTick = FirstTick(created)   \* loop.time() + period + start_delay
    /\ reqq = <<>> /\ nreq = 0 /\ asked = {} /\ active = {} /\ sub = Idle /\ fwd = <<>>
    /\ series = {} /\ removed = {}
    /\ srcOpen = [r \in Reqs |-> TRUE] /\ sinkOk = [r \in Reqs |-> TRUE] /\ recvDone = [r \in Reqs |-> FALSE]
    /\ rt = "sleep" /\ round = {} /\ todo = {} /\ failed = {}
    /\ ticks = <<>> /\ out = [r \in Reqs |-> <<>>]
    /\ joined = [r \in Reqs |-> None] /\ late = [r \in Reqs |-> FALSE] /\ brokeAt = [r \in Reqs |-> None]
    /\ h = <<[a |-> "create", r |-> created]>>

----------------------------------------------------------------------------
(* environment *)
Request(r) ==
    /\ nreq < MaxReq
    /\ \A q \in Reqs : q < r => q \in asked          \* new requests appear in the order 1, 2, .. (symmetry)
    /\ nreq' = nreq + 1 /\ asked' = asked \cup {r}
    /\ reqq' = Append(reqq, r)
    /\ UNCHANGED <<now, created, windowEnd, nextTick, active, sub, fwd, series, removed, srcOpen, sinkOk, recvDone,
                   rt, round, todo, failed, ticks, out, joined, late, brokeAt>>

NBroken == Cardinality({r \in Reqs : Broken(r)})

\* the data-sourcing side can only close a stream it has been asked for
SourceStops(s) ==
    /\ IF IntOn THEN s \in Range(fwd) ELSE s \in asked
    /\ ~Broken(s) /\ NBroken < MaxFail
    /\ srcOpen' = [srcOpen EXCEPT ![s] = FALSE]
    /\ brokeAt' = [brokeAt EXCEPT ![s] = now]
    /\ UNCHANGED <<now, created, windowEnd, nextTick, reqq, nreq, asked, active, sub, fwd, series, removed, sinkOk, recvDone,
                   rt, round, todo, failed, ticks, out, joined, late>>

\* the consumer created the output channel when it sent the request, so it can be closed from then on
SinkFails(s) ==
    /\ s \in asked
    /\ ~Broken(s) /\ NBroken < MaxFail
    /\ sinkOk' = [sinkOk EXCEPT ![s] = FALSE]
    /\ brokeAt' = [brokeAt EXCEPT ![s] = now]
    /\ UNCHANGED <<now, created, windowEnd, nextTick, reqq, nreq, asked, active, sub, fwd, series, removed, srcOpen, recvDone,
                   rt, round, todo, failed, ticks, out, joined, late>>

\* nothing internal is enabled: the loop is idle
Quiescent ==
    /\ reqq = <<>> /\ sub = Idle
    /\ rt = "sleep" /\ now < nextTick
    /\ \A s \in series \cup removed : ~srcOpen[s] => recvDone[s]

TimePass ==
    /\ IntOn => Quiescent
    /\ now < created + Horizon
    /\ now' = now + 1
    /\ UNCHANGED <<created, windowEnd, nextTick, reqq, nreq, asked, active, sub, fwd, series, removed, srcOpen, sinkOk, recvDone,
                   rt, round, todo, failed, ticks, out, joined, late, brokeAt>>

----------------------------------------------------------------------------
(* subscriptions task *)
ActorTake ==
    /\ sub = Idle /\ reqq # <<>>
    /\ reqq' = Tail(reqq)
    /\ IF Head(reqq) \in active
       THEN UNCHANGED <<active, sub>>                 \* already handling this request: nothing to do
       ELSE /\ active' = active \cup {Head(reqq)}
            /\ sub' = <<"send", Head(reqq)>>
    /\ UNCHANGED <<now, created, windowEnd, nextTick, nreq, asked, fwd, series, removed, srcOpen, sinkOk, recvDone,
                   rt, round, todo, failed, ticks, out, joined, late, brokeAt>>

ActorSend ==
    /\ sub[1] = "send"
    /\ fwd' = Append(fwd, sub[2])
    /\ sub' = <<"add", sub[2]>>
    /\ UNCHANGED <<now, created, windowEnd, nextTick, reqq, nreq, asked, active, series, removed, srcOpen, sinkOk, recvDone,
                   rt, round, todo, failed, ticks, out, joined, late, brokeAt>>

ActorAdd ==
    /\ sub[1] = "add"
    /\ series' = series \cup {sub[2]}
    /\ joined' = [joined EXCEPT ![sub[2]] = Len(ticks)]
    /\ late' = [late EXCEPT ![sub[2]] = (rt = "gather")]
    /\ sub' = Idle
    /\ UNCHANGED <<now, created, windowEnd, nextTick, reqq, nreq, asked, active, fwd, removed, srcOpen, sinkOk, recvDone,
                   rt, round, todo, failed, ticks, out, brokeAt>>

(* receiving task of one series *)
RecvNotice(s) ==
    /\ s \in series \cup removed /\ ~srcOpen[s] /\ ~recvDone[s]
    /\ recvDone' = [recvDone EXCEPT ![s] = TRUE]
    /\ UNCHANGED <<now, created, windowEnd, nextTick, reqq, nreq, asked, active, sub, fwd, series, removed, srcOpen, sinkOk,
                   rt, round, todo, failed, ticks, out, joined, late, brokeAt>>

(* resampling task *)
TimerFire ==
    /\ rt = "sleep" /\ now >= nextTick
    /\ nextTick' = nextTick + P
    /\ rt' = "fired"
    /\ UNCHANGED <<now, created, windowEnd, reqq, nreq, asked, active, sub, fwd, series, removed, srcOpen, sinkOk, recvDone,
                   round, todo, failed, ticks, out, joined, late, brokeAt>>

RoundStart ==
    /\ rt = "fired"
    /\ round' = series /\ todo' = series /\ failed' = {}
    /\ ticks' = Append(ticks, windowEnd)
    /\ rt' = "gather"
    /\ UNCHANGED <<now, created, windowEnd, nextTick, reqq, nreq, asked, active, sub, fwd, series, removed, srcOpen, sinkOk,
                   recvDone, out, joined, late, brokeAt>>

\* whether the helper of s raises: SourceStoppedError when its receiving task is done, else the sink's error
Raises(s) == recvDone[s] \/ ~sinkOk[s]

HelperRun(s) ==
    /\ rt = "gather" /\ s \in todo
    /\ todo' = todo \ {s}
    /\ IF Raises(s) THEN failed' = failed \cup {s} /\ out' = out
       ELSE failed' = failed /\ out' = [out EXCEPT ![s] = Append(@, windowEnd)]
    /\ UNCHANGED <<now, created, windowEnd, nextTick, reqq, nreq, asked, active, sub, fwd, series, removed, srcOpen, sinkOk,
                   recvDone, rt, round, ticks, joined, late, brokeAt>>

\* cause predicate of the defect repaired in /repo 9f8dfea: _resamplers grew while the gather was pending
Dev_AddDuringGather == rt = "gather" /\ series # round

Finish ==
    /\ rt = "gather" /\ todo = {}
    /\ windowEnd' = windowEnd + P                    \* before the results are inspected
    /\ rt' = IF failed = {} THEN "sleep" ELSE "raised"   \* raise ResamplingError(exceptions)
    /\ UNCHANGED <<now, created, nextTick, reqq, nreq, asked, active, sub, fwd, series, removed, srcOpen, sinkOk, recvDone,
                   round, todo, failed, ticks, out, joined, late, brokeAt>>

(* _run *)
Recover ==
    /\ rt = "raised"
    /\ series' = series \ failed                     \* remove_timeseries(source) for every source named
    /\ removed' = removed \cup failed
    /\ failed' = {} /\ round' = {}
    /\ rt' = "sleep"                                 \* resample() again
    /\ UNCHANGED <<now, created, windowEnd, nextTick, reqq, nreq, asked, active, sub, fwd, srcOpen, sinkOk, recvDone,
                   todo, ticks, out, joined, late, brokeAt>>

----------------------------------------------------------------------------
Rec(a, r) == [a |-> a, r |-> r]
Gen == (Mode = "env") => Len(h) < MaxDepth
Log(x) == h' = (IF Mode = "env" THEN Append(h, x) ELSE h)
EmitRule == (Mode = "env") => Emit(h')

ReqStep == Gen /\ (\E r \in Reqs : Request(r) /\ Log(Rec("req", r))) /\ EmitRule
StopStep == Gen /\ (\E s \in Reqs : SourceStops(s) /\ Log(Rec("stop", s))) /\ EmitRule
SinkFailStep == Gen /\ (\E s \in Reqs : SinkFails(s) /\ Log(Rec("sinkfail", s))) /\ EmitRule
PassStep == Gen /\ TimePass /\ Log(Rec("pass", 0)) /\ EmitRule
TakeStep == IntOn /\ ActorTake /\ UNCHANGED h
SendStep == IntOn /\ ActorSend /\ UNCHANGED h
AddStep == IntOn /\ ActorAdd /\ UNCHANGED h
NoticeStep == IntOn /\ (\E s \in Reqs : RecvNotice(s)) /\ UNCHANGED h
FireStep == IntOn /\ TimerFire /\ UNCHANGED h
RoundStep == IntOn /\ RoundStart /\ UNCHANGED h
HelperStep == IntOn /\ (\E s \in Reqs : HelperRun(s)) /\ UNCHANGED h
FinishStep == IntOn /\ Finish /\ UNCHANGED h
RecoverStep == IntOn /\ Recover /\ UNCHANGED h

Next == ReqStep \/ StopStep \/ SinkFailStep \/ PassStep \/ TakeStep \/ SendStep \/ AddStep \/ NoticeStep
        \/ FireStep \/ RoundStep \/ HelperStep \/ FinishStep \/ RecoverStep

Spec == Init /\ [][Next]_vars

----------------------------------------------------------------------------
(* X01: the clauses on the design.  The sequence operators are shared with    *)
(* the trace specification, which evaluates them on what the code published.  *)

AlignedSeq(sq) == \A i \in 1..Len(sq) : sq[i] % P = 0
ConsecutiveSeq(sq) == \A i \in 1..(Len(sq) - 1) : sq[i + 1] = sq[i] + P
\* two series that are resampled together receive the same timestamps
SameSpan(a, b) ==
    \A i \in 1..Len(a) : (Len(b) > 0 /\ b[1] <= a[i] /\ a[i] <= b[Len(b)]) => \E j \in 1..Len(b) : b[j] = a[i]
\* smallest grid point of the resampler's timeline that is > t
NextGridAfter(t, c) == LET g == (t - (t % P)) + P IN IF g < FirstTick(c) THEN FirstTick(c) ELSE g

\* a subscription at the data-sourcing actor and a timeseries exist for exactly the requests taken
ServedExactlyOnce ==
    /\ \A r \in Reqs : Count(fwd, r) = (IF r \in active /\ sub # <<"send", r>> THEN 1 ELSE 0)
    /\ series \cup removed = {r \in active : sub[2] # r}
    /\ series \cap removed = {}
    /\ \A r \in Reqs : r \notin active => out[r] = <<>>

\* what series r has been handed, plus what the pending round still owes it
Owed(r) == out[r] \o (IF rt = "gather" /\ r \in todo /\ ~Raises(r) THEN <<windowEnd>> ELSE <<>>)
\* every series that has not broken gets every tick made since it was added: aligned, consecutive,
\* the same timestamps as everybody else, whatever happened to the other series meanwhile
SurvivorsTimelineIntact ==
    /\ \A r \in Reqs : AlignedSeq(out[r]) /\ ConsecutiveSeq(out[r])
    /\ \A r \in series : ~Broken(r) =>
          Owed(r) = SubSeq(ticks, joined[r] + 1, Len(ticks))
    /\ \A r, q \in Reqs : SameSpan(out[r], out[q])
    /\ AlignedSeq(ticks) /\ ConsecutiveSeq(ticks)

\* only series that broke are ever removed, and a broken one does not survive a whole later round
FailedOnlyRemoved ==
    /\ removed \subseteq {r \in Reqs : Broken(r)}
    /\ failed \subseteq {r \in Reqs : Broken(r)}
    /\ Quiescent => \A r \in series : (Broken(r) /\ joined[r] < Len(ticks)) => ticks[Len(ticks)] <= brokeAt[r]
    /\ \A r \in Reqs : (Broken(r) /\ out[r] # <<>>) => out[r][Len(out[r])] <= brokeAt[r]

\* the loop has caught up whenever it is idle: no tick is withheld from the survivors
ActorAlive ==
    /\ rt # "crashed"
    /\ Quiescent => (IF ticks = <<>> THEN now < FirstTick(created) ELSE ticks[Len(ticks)] + P > now)

\* a request that arrives while a round is in progress is served from the next tick on
LateRequestServedFromNextTick ==
    \A r \in Reqs : (late[r] /\ out[r] # <<>>) => out[r][1] = ticks[joined[r]] + P

TypeOK ==
    /\ rt \in {"sleep", "fired", "gather", "raised"}
    /\ sub[1] \in {"idle", "send", "add"}
    /\ todo \subseteq round /\ failed \subseteq round \ todo
    /\ (rt \in {"sleep", "raised"}) => nextTick = windowEnd
    /\ (rt \in {"fired", "gather"}) => nextTick = windowEnd + P

(* action properties *)
\* a repeated identical request changes nothing but the queue it is taken from
DuplicateNoEffect ==
    [][(sub = Idle /\ reqq # <<>> /\ reqq' = Tail(reqq) /\ nreq' = nreq /\ Head(reqq) \in active) =>
          UNCHANGED <<active, sub, fwd, series, removed, rt, round, todo, failed, ticks, out, joined, windowEnd, nextTick>>]_vars
\* serving a request does not touch the round in progress, and removing the failed series touches nobody else
RoundUndisturbed ==
    [][/\ (sub # sub') => UNCHANGED <<rt, round, todo, failed, ticks, out, windowEnd, nextTick>>
       /\ (rt = "raised" /\ rt' = "sleep") => (series' = series \ failed /\ failed # {} /\ UNCHANGED <<out, ticks, windowEnd, nextTick, active>>)]_vars
=============================================================================
