------------------------ MODULE ActorLifecycleTrace ------------------------
(* Validates executions recorded from the real Actor / BackgroundService /    *)
(* run() (probe Actor subclass, loop pumped one iteration at a time, virtual  *)
(* clock moved in 1 s ticks) against ActorLifecycle.tla.                      *)
(*                                                                            *)
(* One trace per ndjson line: [id, lim, lines]; lim = restart limit per actor *)
(* (-1 = None).  Every line carries what the harness saw AFTER it:            *)
(*   snap[a] = [isr  |-> actor.is_running, nt |-> len(actor.tasks),           *)
(*              ts   |-> state of every task of the current generation:       *)
(*                       [a, n |-> "loop"|"extra", s |-> "alive"|"ret"|"exc"| *)
(*                        "base"|"cancelled", cn |-> task.cancelling(),       *)
(*                        own |-> task in actor.tasks]]                       *)
(*   idle    = nothing ready and no timer due                                 *)
(* Lines:                                                                     *)
(*   [ev |-> "start", a, ts (before), n = number of new task objects]         *)
(*   [ev |-> "cancel", a]   [ev |-> "addx", a]   [ev |-> "tick"] (clock + 1 s)*)
(*   [ev |-> "iter", obs]   one loop iteration, or (pumped = FALSE) the       *)
(*        synchronous part of a stop()/wait()/run() call; obs = events in     *)
(*        execution order [k, a, v, c, n, res, ts]:                           *)
(*          enter (v = "")  point  exit (v = kind, c = what _run did with a   *)
(*          CancelledError or "")  xexit  stop_call / wait_call (ts at call)  *)
(*          stop_ret / wait_ret (res = what was raised, ts at that moment)    *)
(*          run_call, start (c = "run": what run() did to actor a), run_ret   *)
(*   [ev |-> "final"]       everything drained                                *)
(* (a) ObsChecks: every C10 clause as a pure function of the recorded events  *)
(* (b) existential validation: some interleaving of the spec's actions        *)
(*     explains every line; at idle points nothing internal may be enabled.   *)
EXTENDS ActorLifecycle, SequencesExt

VARIABLES tid, l, oi, ph
tvars == <<vars, tid, l, oi, ph>>

TraceLog == ndJsonDeserialize(IOEnv.TRACE_FILE)
Tr == TraceLog[tid]
Line == Tr.lines[l]
NL == Len(Tr.lines)

Say(v) == CSVWrite("%1$s", <<ToJson(v)>>, IOEnv.VERDICT_FILE)
Check(ok, clause, detail, devs) ==
    IF ok THEN TRUE ELSE Say([tid |-> Tr.id, l |-> 0, clause |-> clause, detail |-> detail, deviations |-> devs])

----------------------------------------------------------------------------
(* (a) observation-only clauses *)
LineEvents(x) ==
    IF x.ev = "final" THEN <<[k |-> "final", a |-> 0]>>
    ELSE (IF x.ev = "iter" THEN x.obs
          ELSE <<[k |-> x.ev, a |-> x.a, v |-> "", c |-> "", n |-> x.n, res |-> <<>>, ts |-> x.ts]>>)
         \o <<[k |-> "snap", a |-> 0, snap |-> x.snap, idle |-> x.idle, pumped |-> x.pumped]>>
RECURSIVE FlatFrom(_)
FlatFrom(k) == IF k > NL THEN <<>> ELSE LineEvents(Tr.lines[k]) \o FlatFrom(k + 1)

Lim(a) == Tr.lim[a]
SeqSet(s) == {s[m] : m \in 1..Len(s)}
\* (every operator below is total on whatever was recorded: verdicts never depend on an execution
\* having the expected shape; 0 stands for "no such event")
MaxOf(S) == IF S = {} THEN 0 ELSE CHOOSE j \in S : \A m \in S : m <= j
Idx(F, i, K, a) == {j \in 1..(i - 1) : F[j].k \in K /\ F[j].a = a}
AnyAlive(ts) == \E m \in 1..Len(ts) : ts[m].s = "alive"
OfActor(ts, a) == SelectSeq(ts, LAMBDA e : e.a = a)
\* a start() / run() that created a loop task
Fresh(F, i, a) == {j \in Idx(F, i, {"start"}, a) : F[j].n > 0}
LastFresh(F, i, a) == IF Fresh(F, i, a) = {} THEN 0 ELSE MaxOf(Fresh(F, i, a))
ExcSince(F, i, a) == Cardinality({j \in Idx(F, i, {"exit"}, a) : j > LastFresh(F, i, a) /\ F[j].v = "exc"})
Ticks(F, p, i) == Cardinality({j \in (p + 1)..(i - 1) : F[j].k = "tick"})
CancelsBetween(F, p, i, a) == {j \in (p + 1)..(i - 1) : F[j].k \in {"cancel", "stop_call"} /\ F[j].a = a}
ErrOf(e) == ErrName(e.n, e.s)
\* errors (not cancellations) of the finished tasks listed in ts
TaskErrs(ts) == {ErrOf(ts[m]) : m \in {q \in 1..Len(ts) : ts[q].s \in {"exc", "base"}}}
MinOf(S) == IF S = {} THEN 0 ELSE CHOOSE j \in S : \A m \in S : j <= m
NextSnapIdx(F, i) == MinOf({j \in (i + 1)..Len(F) : F[j].k = "snap"})
NoSnap == [k |-> "snap", a |-> 0, snap |-> [a \in Actors |-> [isr |-> FALSE, nt |-> -1, ts |-> <<>>]], idle |-> FALSE, pumped |-> FALSE]
NextSnap(F, i) == IF NextSnapIdx(F, i) = 0 THEN NoSnap ELSE F[NextSnapIdx(F, i)]
Pending(F, i, call, ret, a) == Cardinality(Idx(F, i, {call}, a)) > Cardinality(Idx(F, i, {ret}, a))

EnterChecks(F, i) ==
    LET a == F[i].a
        P == {j \in 1..(i - 1) : F[j].a = a /\ (F[j].k = "exit" \/ (F[j].k = "start" /\ F[j].n > 0))}
        p == IF P = {} THEN 0 ELSE MaxOf(P)
        d == <<"actor", a, "enter event", i, "previous event", p>>
    IN
    /\ Check(Cardinality(Idx(F, i, {"enter"}, a)) = Cardinality(Idx(F, i, {"exit"}, a)), "C10.AtMostOneRun", d, <<>>)
    /\ Check(p # 0 /\ (F[p].k = "start" \/ F[p].v \notin {"ret", "cancelled", "base"}), "C10.NoRerunAfterReturnOrCancel", d, <<>>)
    /\ p # 0 => Check(CancelsBetween(F, p, i, a) = {}, "C10.NoRerunAfterReturnOrCancel", d \o <<"cancel requested at", CancelsBetween(F, p, i, a)>>, <<>>)
    /\ (p # 0 /\ F[p].k = "exit" /\ F[p].v = "exc") =>
          /\ Check(Ticks(F, p, i) >= RestartDelay, "C10.RerunOnlyAfterException", d \o <<"seconds since the exception", Ticks(F, p, i)>>, <<>>)
          /\ Check(Lim(a) = Unlimited \/ ExcSince(F, i, a) <= Lim(a), "C10.RestartCountExact",
                   d \o <<"limit", Lim(a), "exceptions since start", ExcSince(F, i, a)>>, <<>>)

StartChecks(F, i) ==
    LET e == F[i]  was == AnyAlive(e.ts)  after == NextSnap(F, i).snap[e.a] IN
    /\ Check(was => e.n = 0, "C10.StartIdempotent", <<"actor", e.a, "start() while running created tasks", e.n>>, <<>>)
    /\ Check(~was => (e.n = 1 /\ after.nt = 1), "C10.StartIdempotent", <<"actor", e.a, "start() while not running: new tasks", e.n, "len(tasks)", after.nt>>, <<>>)

StopCallChecks(F, i) ==
    LET e == F[i]  after == NextSnap(F, i).snap[e.a].ts IN
    \A m \in 1..Len(e.ts) :
        e.ts[m].s = "alive" =>
            Check(m <= Len(after) /\ (after[m].s # "alive" \/ after[m].cn > e.ts[m].cn), "C10.StopCancelsEverything",
                  <<"actor", e.a, "task", e.ts[m].n, "no cancellation requested by stop()">>, <<>>)

\* a stop()/wait() returned.  q = its call event; S = fresh starts of the service while it was in
\* flight (the generation it was called on ended at the first of them, with the task states
\* recorded there); nb = number of tasks when the call took its batch.
\* Cause of the defect repaired in 799638e on the recorded events (Dev_LateTaskAbandoned): the batch held a task that did
\* not return normally, and every offending task was added to _tasks after the batch was taken.
\* The call owes the errors of the tasks that were in _tasks when it took its batch and (unless the
\* generation was ended by a fresh start, which drops them) of the tasks added later.
RetChecks(F, i) ==
    LET e == F[i]  a == e.a  isStop == e.k = "stop_ret"
        C == Idx(F, i, {IF isStop THEN "stop_call" ELSE "wait_call"}, a)
        q == IF C = {} THEN 0 ELSE MaxOf(C)
        S == {j \in Fresh(F, i, a) : j > q}
        g == IF S = {} THEN i ELSE MinOf(S)
        gts == IF S = {} THEN e.ts ELSE F[g].ts
        res == SeqSet(e.res)
        may == TaskErrs(e.ts) \cup UNION {TaskErrs(F[j].ts) : j \in S}
        nb == IF q = 0 THEN 0 ELSE Len(F[q].ts)
        batchFailed == \E m \in 1..Len(e.ts) : m <= nb /\ e.ts[m].s \notin {"alive", "ret"}
        alive == {m \in 1..Len(e.ts) : e.ts[m].s = "alive"}
        owed(m) == IF m > nb THEN S = {} ELSE F[q].ts[m].own   \* in _tasks when the call took its batch, or added later
        kept == {m \in 1..Len(gts) : gts[m].s \in {"exc", "base"} /\ owed(m) /\ ErrOf(gts[m]) \notin res}
        Dev(M) == IF S = {} /\ batchFailed /\ \A m \in M : m > nb THEN <<"Dev_LateTaskAbandoned">> ELSE <<>>
    IN
    /\ (isStop /\ S = {}) => Check(alive = {}, "C10.StopReturnsOnlyWhenAllDone",
                                    <<"actor", a, "stop() returned while tasks are alive", e.ts>>, Dev(alive))
    /\ isStop => Check("cancelled" \notin res, "C10.StopSurfacesErrors", <<"actor", a, "stop() raised a cancellation", e.res>>, <<>>)
    /\ Check(kept = {}, "C10.StopSurfacesErrors",
             <<"actor", a, e.k, "raised", e.res, "finished tasks", gts, "errors not raised: tasks", kept>>, Dev(kept))
    /\ Check((res \ {"cancelled"}) \subseteq may, "C10.StopSurfacesErrors", <<"actor", a, e.k, "raised", e.res, "errors of finished tasks", may>>, <<>>)

\* run() returned: no actor is running, except one that was started again after run() was called.
\* The wait() task run() created for an actor takes its batch in the first loop iteration after the
\* call (pumped snapshot j1; the tasks are those of the snapshot before it); same cause predicate.
RunRetChecks(F, i) ==
    LET q == MaxOf(Idx(F, i, {"run_call"}, 0))
        j1 == MinOf({j \in (q + 1)..(i - 1) : F[j].k = "snap" /\ F[j].pumped})   \* 0: run() returned before any iteration
        j0 == IF j1 = 0 THEN 0 ELSE MaxOf({j \in (q + 1)..(j1 - 1) : F[j].k = "snap"})
    IN
    \A a \in Actors :
        LET ts == OfActor(F[i].ts, a)
            nb == IF j0 = 0 THEN 0 ELSE Len(F[j0].snap[a].ts)
            alive == {m \in 1..Len(ts) : ts[m].s = "alive"}
            restarted == \E j \in Fresh(F, i, a) : j > q /\ F[j].c # "run"
            dev == /\ j0 # 0
                   /\ \A m \in alive : m > nb
                   /\ \E m \in 1..Len(ts) : m <= nb /\ ts[m].s \notin {"alive", "ret"}
        IN Check(alive = {} \/ restarted, "C10.RunReturnsIffAllFinished", <<"run() returned while actor", a, "is running", F[i].ts>>,
                 IF dev THEN <<"Dev_LateTaskAbandoned">> ELSE <<>>)

IdleChecks(F, i) ==
    LET e == F[i] IN
    /\ \A a \in Actors :
         LET s == e.snap[a]
             P == {j \in 1..(i - 1) : F[j].a = a /\ (F[j].k \in {"exit", "enter"} \/ (F[j].k = "start" /\ F[j].n > 0))}
             p == IF P = {} THEN 0 ELSE MaxOf(P)
         IN
         /\ Check(s.isr = AnyAlive(s.ts), "C10.IsRunningAccurate", <<"actor", a, "is_running", s.isr, "tasks", s.ts>>, <<>>)
         /\ e.idle => Check(~(Pending(F, i, "stop_call", "stop_ret", a) /\ ~AnyAlive(s.ts)), "C10.StopLeadsToReturn",
                            <<"actor", a, "all tasks finished, loop idle, stop() has not returned">>, <<>>)
         /\ (e.idle /\ p # 0 /\ F[p].k = "exit" /\ F[p].v = "exc") =>
              Check(~(/\ (Lim(a) = Unlimited \/ ExcSince(F, i, a) <= Lim(a))
                      /\ CancelsBetween(F, p, i, a) = {}
                      /\ Ticks(F, p, i) >= RestartDelay),
                    "C10.RestartAfterException", <<"actor", a, "exception at event", p, "no new _run although the delay elapsed and the limit allows it">>, <<>>)
    /\ e.idle => Check(~(/\ Cardinality(Idx(F, i, {"run_call"}, 0)) > Cardinality(Idx(F, i, {"run_ret"}, 0))
                         /\ \A a \in Actors : ~AnyAlive(e.snap[a].ts)),
                       "C10.RunReturnsIffAllFinished", <<"all actors finished, loop idle, run() has not returned">>, <<>>)

ObsChecks ==
    LET F == FlatFrom(1) IN
    \A i \in 1..Len(F) :
        /\ F[i].k = "enter" => EnterChecks(F, i)
        /\ F[i].k = "start" => StartChecks(F, i)
        /\ F[i].k = "stop_call" => StopCallChecks(F, i)
        /\ F[i].k \in {"stop_ret", "wait_ret"} => RetChecks(F, i)
        /\ F[i].k = "run_ret" => RunRetChecks(F, i)
        /\ F[i].k = "snap" => IdleChecks(F, i)

----------------------------------------------------------------------------
(* (b) existential validation against the specification *)
TInit ==
    /\ tid \in 1..Len(TraceLog)
    /\ l = 1 /\ oi = 0 /\ ph = 0
    /\ InitWith(Tr.lim)
    /\ ObsChecks

Progress == Say([tid |-> Tr.id, at |-> l'])
KeepH == h' = h

Entries(ts, name) == SelectSeq(ts, LAMBDA e : e.n = name)
TaskMatches(a, t, E) ==
    /\ Len(E) <= 1
    /\ (Len(E) = 0) = ((IF t = "loop" THEN loop[a].st ELSE extra[a].st) = "none")
    /\ Len(E) = 1 => IF E[1].s = "alive" THEN Alive(a, t) ELSE (TaskDone(a, t) /\ KindOf(a, t) = E[1].s)
Matches(x) ==
    \A a \in Actors :
        LET s == x.snap[a] IN
        /\ s.isr = IsRunning(a)
        /\ s.nt = Cardinality(owned[a])
        /\ TaskMatches(a, "loop", Entries(s.ts, "loop"))
        /\ TaskMatches(a, "extra", Entries(s.ts, "extra"))

\* the harness calls start() / cancel() / adds a task / moves the clock
Inject ==
    /\ l <= NL /\ ph = 0 /\ Line.ev \in {"start", "cancel", "addx", "tick"}
    /\ \/ Line.ev = "start" /\ Start(Line.a)
       \/ Line.ev = "cancel" /\ CallCancel(Line.a)
       \/ Line.ev = "addx" /\ AddExtra(Line.a)
       \/ Line.ev = "tick" /\ TimePass
    /\ KeepH /\ ph' = 1 /\ UNCHANGED <<tid, l, oi>>

\* steps that leave no probe event: a cancellation reaching a task outside user code, a wake-up of
\* wait() that goes on waiting, the wait() tasks of run()
Silent ==
    /\ l <= NL /\ Line.ev = "iter"
    /\ \E a \in Actors :
         \/ loop[a].st \in {"created", "delaying"} /\ CancelLoop(a, "prop")
         \/ CancelExtra(a, "prop")
         \* a wake-up of _wait() that goes on to the tasks added meanwhile (stop(): cancelling them)
         \/ \E c \in {"stop", "wait"} : ~Returns(a, c, FALSE) /\ CallRound(a, c, FALSE)
         \* tolerated: the same without cancelling again (the property does not determine this step)
         \/ ~Returns(a, "stop", TRUE) /\ CallRound(a, "stop", TRUE)
         \/ RWaitBegin(a)
         \/ CallRound(a, "rwait", FALSE)
         \/ Returns(a, "rwait", TRUE) /\ CallRound(a, "rwait", TRUE)
    /\ KeepH /\ UNCHANGED <<tid, l, oi, ph>>

\* a return is matched whether it comes when nothing is left (current design) or as soon as the
\* batch failed (behaviour before 799638e): the clauses (a) decide, with the cause named
RetObserved(o, c) ==
    /\ Returns(o.a, c, TRUE)
    /\ SeqSet(o.res) = Surfaced(c, Errs(o.a, c))
    /\ CallRound(o.a, c, TRUE)

\* `if not self._tasks: return`: the call event is directly followed by its return
ImmRet(o, c, callk) ==
    /\ oi >= 1 /\ Line.obs[oi].k = callk /\ Line.obs[oi].a = o.a
    /\ calls[o.a][c].st = "returned" /\ o.res = <<>>
    /\ UNCHANGED <<limit, loop, extra, owned, nRestarts, nRuns, totRuns, inRun, delayLeft, lastOut, excSince, calls, runc>>

Observed ==
    /\ l <= NL /\ Line.ev = "iter" /\ oi < Len(Line.obs)
    /\ LET o == Line.obs[oi + 1] IN
         \/ o.k = "enter" /\ (LoopBegin(o.a) \/ DelayElapsed(o.a))
         \/ o.k = "point" /\ RunContinue(o.a)
         \/ o.k = "exit" /\ o.c = "" /\ RunOutcome(o.a, o.v)
         \/ o.k = "exit" /\ o.c # "" /\ loop[o.a].st = "running" /\ o.v = (IF o.c = "prop" THEN "cancelled" ELSE o.c) /\ CancelLoop(o.a, o.c)
         \/ o.k = "xexit" /\ o.c = "" /\ ExtraOutcome(o.a, o.v)
         \/ o.k = "xexit" /\ o.c # "" /\ o.v = (IF o.c = "prop" THEN "cancelled" ELSE o.c) /\ CancelExtra(o.a, o.c)
         \/ o.k = "stop_call" /\ CallStop(o.a)
         \/ o.k = "wait_call" /\ CallWait(o.a)
         \/ o.k = "stop_ret" /\ (RetObserved(o, "stop") \/ ImmRet(o, "stop", "stop_call"))
         \/ o.k = "wait_ret" /\ (RetObserved(o, "wait") \/ ImmRet(o, "wait", "wait_call"))
         \/ o.k = "run_call" /\ CallRun
         \/ o.k = "start" /\ UNCHANGED <<limit, loop, extra, owned, nRestarts, nRuns, totRuns, inRun, delayLeft, lastOut, excSince, calls, runc>>
         \/ o.k = "run_ret" /\ RunReturn
    /\ KeepH /\ oi' = oi + 1 /\ UNCHANGED <<tid, l, ph>>

EndLine ==
    /\ l <= NL /\ Line.ev # "final"
    /\ IF Line.ev = "iter" THEN oi = Len(Line.obs) ELSE ph = 1
    /\ Matches(Line)
    /\ Line.idle => Quiescent
    /\ l' = l + 1 /\ oi' = 0 /\ ph' = 0 /\ UNCHANGED <<vars, tid>> /\ Progress

ConsumeFinal ==
    /\ l <= NL /\ Line.ev = "final"
    /\ Quiescent
    /\ \A a \in Actors : ~IsRunning(a) /\ NoCallInFlight(a)
    /\ runc # "waiting"
    /\ l' = l + 1 /\ oi' = 0 /\ ph' = 0 /\ UNCHANGED <<vars, tid>> /\ Progress
    /\ (l' > NL) => Say([tid |-> Tr.id, done |-> TRUE])

TNext == Inject \/ Silent \/ Observed \/ EndLine \/ ConsumeFinal

\* the spec's own state invariants are evaluated in every state of every matching behaviour
TraceInv == AtMostOneRun /\ RestartCountExact /\ AliveOwned /\ NoRunWhenDone
=============================================================================
