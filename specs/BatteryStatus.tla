--------------------------- MODULE BatteryStatus ---------------------------
(* BatteryStatusTracker (+ ComponentPoolStatus aggregate): a battery is       *)
(* reported usable only while the latest battery AND inverter messages prove  *)
(* it healthy and fresh; exponential back-off after failed power commands.    *)
(*                                                                            *)
(* Structured like _battery_status_tracker.py: ONE select() result is handled *)
(* per action, each handler ends in _get_new_status_if_changed + send:        *)
(*   BatMsg / InvMsg   _handle_status_battery / _inverter  (+ timer.reset())  *)
(*   Res               _handle_status_set_power_result (block / unblock)      *)
(*   BatTimer/InvTimer the data_recv_timer of a stream fires                  *)
(*   BatLate / InvLate the timer tick was already selected when a message of  *)
(*                     the same stream was handled first ("arrived late",     *)
(*                     the `continue` branch)                                 *)
(*   Tick              1 s passes (only when every due timer was processed)   *)
(* Same-instant races: after Tick a due timer may fire before or after a      *)
(* message injected at the same instant (the message then resets it).         *)
(*                                                                            *)
(* Time unit 1 s.  Message kinds: ok | stale (timestamp MaxAge+1 old) |       *)
(* edge (timestamp exactly MaxAge old) | state | relay | crit | nan, and the  *)
(* extension kind lag (timestamp 2 s old: lagged but not stale).              *)
EXTENDS Integers, Sequences, FiniteSets, TLC, Json, CSV, IOUtils

CONSTANTS Bats,        \* set of batteries 1..N (N = 2 for the pool aggregate)
          MaxAge,      \* max_data_age
          MinBlock,    \* BlockingStatus.min_duration
          MaxBlock,    \* max_blocking_duration
          Horizon,     \* last instant
          MaxEvents,   \* bound on environment events (messages, set-power results)
          MaxDepth,    \* history length at which a simulated behaviour is emitted
          BatKinds, InvKinds,   \* message kinds the environment may send
          TickW,       \* weight of Tick in simulation (copies of the successor)
          Mode         \* "mc" (unbounded) | "mcb" (bounded) | "gen" | "sim" | "trace"

VARIABLES now,
          bat, inv,    \* b -> [ok, ts, arr, q]: last_msg_correct, last_msg_timestamp; ghost: arrival, qualifies
          tmr,         \* b -> [bt, it]: next tick of the two data_recv_timers
          late,        \* b -> [bt, it]: a selected-but-unhandled timer tick overtaken by a message
          blk,         \* b -> [until, dur]: BlockingStatus.blocked_until / last_blocking_duration
          st,          \* b -> _last_status
          nf,          \* ghost: b -> number of consecutive effective failures behind the current block
          rst,         \* ghost: b -> why the failure count was last reset ("init" | "okIdle" | "okBlocked" |
                       \*        "okExpiredUN" / "okExpiredWK": success after the block had expired, status still
                       \*        UNCERTAIN / already WORKING again | "recovery"); "none" once blocked
                       \*        again.  In VIEW, so that histories THROUGH each kind of reset are emitted.
          fresh,       \* ghost: b -> status was (re)evaluated at the current instant
          nev,         \* environment events so far
          sent,        \* b -> sequence of statuses put on the status channel (hidden by VIEW)
          h            \* history of actions (hidden by VIEW)

vars == <<now, bat, inv, tmr, late, blk, st, nf, rst, fresh, nev, sent, h>>

None == -99
Min2(a, b) == IF a <= b THEN a ELSE b
Max2(a, b) == IF a >= b THEN a ELSE b
NfCap == 8
Bounded == Mode \in {"gen", "sim", "mcb"}   \* bound time and events (histories are emitted / pool scope)

(* VIEW: the state relative to `now` (ages, remaining times; everything beyond the horizon of a  *)
(* comparison is capped).  Two states with the same view have the same futures up to a time     *)
(* shift, so the quotient graph is finite and is explored WITHOUT a bound on time or events in  *)
(* Mode "mc"; in "gen" the bounds only limit the length of the emitted histories.               *)
RelS(s) == IF s.arr = None THEN <<s.ok>> ELSE <<s.ok, s.q, s.arr - s.ts, Min2(now - s.arr, MaxAge)>>
\* an expired block is remembered for ExpMem more seconds (then all alike): histories in which the next
\* failure arrives LATER than the previous expiry are emitted, not only the shortest one (at the expiry)
ExpMem == 2
RelK(k) == <<IF k.until = None THEN None ELSE Max2(k.until - now, 0 - ExpMem), k.dur>>
View == [b \in Bats |-> <<RelS(bat[b]), RelS(inv[b]), tmr[b].bt - now, tmr[b].it - now, late[b],
                          RelK(blk[b]), st[b], Min2(nf[b], 4), rst[b], fresh[b]>>]

EmitOn == "OUT_FILE" \in DOMAIN IOEnv
Emit(v) == IF EmitOn THEN CSVWrite("%1$s", <<ToJson(v)>>, IOEnv.OUT_FILE) ELSE TRUE

----------------------------------------------------------------------------
(* message classes *)
Lag(kind) == CASE kind = "stale" -> MaxAge + 1
               [] kind = "edge" -> MaxAge
               [] kind = "lag" -> 2
               [] OTHER -> 0
ContentOk(kind) == kind \in {"ok", "stale", "edge", "lag"}   \* state, relay, errors, capacity all fine
\* _is_timestamp_outdated: `now - timestamp >= max_data_age` is outdated (the same age the data timers
\* use).  Until /repo d120239 the code tested `>` and ACCEPTED an age of exactly MaxAge; that behaviour is
\* kept as the named deviation Dev_EdgeAgeAccepted: the model itself (mc / gen / sim) only has the repaired
\* behaviour acc = FALSE; when a recorded trace is validated the deviating step acc = TRUE is admitted too,
\* so that a regression is recognised as THIS deviation (and the clauses then fail with its name).
Accs(kind) == IF Lag(kind) = MaxAge /\ Mode = "trace" THEN BOOLEAN ELSE {FALSE}
Reliable(kind, acc) == Lag(kind) < MaxAge \/ (Lag(kind) = MaxAge /\ acc)
Correct(kind, acc) == Reliable(kind, acc) /\ ContentOk(kind)
\* the property: the message is younger than the maximum data age and shows a healthy component
Qualifies(kind) == ContentOk(kind) /\ Lag(kind) < MaxAge

NoMsg == [ok |-> FALSE, ts |-> None, arr |-> None, q |-> FALSE]
NewMsg(kind, acc) == [ok |-> Correct(kind, acc), ts |-> now - Lag(kind), arr |-> now, q |-> Qualifies(kind)]

----------------------------------------------------------------------------
(* BlockingStatus *)
Blocked(k, t) == k.until # None /\ k.until > t
Unblock(k) == [k EXCEPT !.until = None]
Block(k) ==
    IF k.until = None THEN [until |-> now + MinBlock, dur |-> MinBlock]
    ELSE IF k.until > now THEN k                                  \* still blocked: do nothing
    ELSE LET d == Min2(2 * k.dur, MaxBlock) IN [until |-> now + d, dur |-> d]
\* the property's wording: the n-th consecutive failure blocks for min(2^(n-1) * min, max)
BackoffDur(n) == IF n < 1 THEN 0 ELSE Min2((2 ^ (n - 1)) * MinBlock, MaxBlock)
BlockCount(k, n) == IF k.until = None THEN 1 ELSE IF k.until > now THEN n ELSE Min2(n + 1, NfCap)

(* _get_current_status with _last_status = s *)
Eval(s, bok, iok, k) ==
    IF ~(bok /\ iok) THEN [s |-> "NW", k |-> k, rec |-> FALSE]
    ELSE IF s = "NW" THEN [s |-> "WK", k |-> Unblock(k), rec |-> TRUE]
    ELSE IF Blocked(k, now) THEN [s |-> "UN", k |-> k, rec |-> FALSE]
    ELSE [s |-> "WK", k |-> k, rec |-> FALSE]

(* common tail of every handler of tracker b: re-evaluate, notify on change *)
Settle(b, nb, ni, k, n) ==
    LET e == Eval(st[b], nb.ok, ni.ok, k) IN
    /\ bat' = [bat EXCEPT ![b] = nb]
    /\ inv' = [inv EXCEPT ![b] = ni]
    /\ blk' = [blk EXCEPT ![b] = e.k]
    /\ st' = [st EXCEPT ![b] = e.s]
    /\ nf' = [nf EXCEPT ![b] = IF e.rec THEN 0 ELSE n]
    /\ rst' = [rst EXCEPT ![b] = IF e.rec THEN "recovery" ELSE @]
    /\ fresh' = [fresh EXCEPT ![b] = TRUE]
    /\ sent' = [sent EXCEPT ![b] = IF e.s # st[b] THEN Append(@, e.s) ELSE @]

----------------------------------------------------------------------------
Init ==
    /\ now = 0
    /\ bat = [b \in Bats |-> NoMsg]
    /\ inv = [b \in Bats |-> NoMsg]
    /\ tmr = [b \in Bats |-> [bt |-> MaxAge, it |-> MaxAge]]
    /\ late = [b \in Bats |-> [bt |-> FALSE, it |-> FALSE]]
    /\ blk = [b \in Bats |-> [until |-> None, dur |-> MinBlock]]
    /\ st = [b \in Bats |-> "NW"]
    /\ nf = [b \in Bats |-> 0]
    /\ rst = [b \in Bats |-> "init"]
    /\ fresh = [b \in Bats |-> FALSE]
    /\ nev = 0
    /\ sent = [b \in Bats |-> <<>>]
    /\ h = <<>>

\* every due timer tick has been handled
Quiescent == \A b \in Bats : tmr[b].bt > now /\ tmr[b].it > now /\ ~late[b].bt /\ ~late[b].it

Tick ==
    /\ Quiescent /\ (Bounded => now < Horizon)
    /\ now' = now + 1
    /\ fresh' = [b \in Bats |-> FALSE]
    /\ UNCHANGED <<bat, inv, tmr, late, blk, st, nf, rst, nev, sent>>

\* lt: the timer tick of the stream had already been selected (pre-empted and late) or not (reset in time)
BatMsg(b, kind, lt, acc) ==
    /\ ~late[b].bt
    /\ lt => tmr[b].bt <= now
    /\ tmr' = [tmr EXCEPT ![b].bt = now + MaxAge]
    /\ late' = [late EXCEPT ![b].bt = lt]
    /\ nev' = nev + 1
    /\ Settle(b, NewMsg(kind, acc), inv[b], blk[b], nf[b])
    /\ UNCHANGED now

InvMsg(b, kind, lt, acc) ==
    /\ ~late[b].it
    /\ lt => tmr[b].it <= now
    /\ tmr' = [tmr EXCEPT ![b].it = now + MaxAge]
    /\ late' = [late EXCEPT ![b].it = lt]
    /\ nev' = nev + 1
    /\ Settle(b, bat[b], NewMsg(kind, acc), blk[b], nf[b])
    /\ UNCHANGED now

\* one SetPowerResult, f[b] \in {"ok", "fail", "none"}; every tracker handles it
Res(f) ==
    LET hit(b) == f[b] = "fail" /\ st[b] # "NW"
        k1 == [b \in Bats |-> IF f[b] = "ok" THEN Unblock(blk[b]) ELSE IF hit(b) THEN Block(blk[b]) ELSE blk[b]]
        n1 == [b \in Bats |-> IF f[b] = "ok" THEN 0 ELSE IF hit(b) THEN BlockCount(blk[b], nf[b]) ELSE nf[b]]
        e == [b \in Bats |-> Eval(st[b], bat[b].ok, inv[b].ok, k1[b])]
    IN /\ blk' = [b \in Bats |-> e[b].k]
       /\ st' = [b \in Bats |-> e[b].s]
       /\ nf' = [b \in Bats |-> IF e[b].rec THEN 0 ELSE n1[b]]
       /\ rst' = [b \in Bats |->
                   IF e[b].rec THEN "recovery"
                   ELSE IF f[b] = "ok" THEN (IF blk[b].until = None THEN (IF rst[b] = "init" THEN "init" ELSE "okIdle")
                                             ELSE IF blk[b].until > now THEN "okBlocked"
                                             ELSE IF st[b] = "WK" THEN "okExpiredWK" ELSE "okExpiredUN")
                   ELSE IF hit(b) /\ ~Blocked(blk[b], now) THEN "none"
                   ELSE rst[b]]
       /\ fresh' = [b \in Bats |-> TRUE]
       /\ sent' = [b \in Bats |-> IF e[b].s # st[b] THEN Append(sent[b], e[b].s) ELSE sent[b]]
       /\ nev' = nev + 1
       /\ UNCHANGED <<now, bat, inv, tmr, late>>

\* body of the two timer branches of the select loop for stream record s (bat or inv)
TimerIgnored(s) == s.ts # None /\ now - s.ts < MaxAge        \* `continue`: no re-evaluation

BatTimer(b) ==
    /\ tmr[b].bt <= now /\ ~late[b].bt
    /\ tmr' = [tmr EXCEPT ![b].bt = @ + MaxAge]
    /\ IF TimerIgnored(bat[b]) THEN UNCHANGED <<bat, inv, blk, st, nf, rst, fresh, sent>>
       ELSE Settle(b, [bat[b] EXCEPT !.ok = FALSE], inv[b], blk[b], nf[b])
    /\ UNCHANGED <<now, late, nev>>

InvTimer(b) ==
    /\ tmr[b].it <= now /\ ~late[b].it
    /\ tmr' = [tmr EXCEPT ![b].it = @ + MaxAge]
    /\ IF TimerIgnored(inv[b]) THEN UNCHANGED <<bat, inv, blk, st, nf, rst, fresh, sent>>
       ELSE Settle(b, bat[b], [inv[b] EXCEPT !.ok = FALSE], blk[b], nf[b])
    /\ UNCHANGED <<now, late, nev>>

BatLate(b) ==
    /\ late[b].bt
    /\ late' = [late EXCEPT ![b].bt = FALSE]
    /\ IF TimerIgnored(bat[b]) THEN UNCHANGED <<bat, inv, blk, st, nf, rst, fresh, sent>>
       ELSE Settle(b, [bat[b] EXCEPT !.ok = FALSE], inv[b], blk[b], nf[b])
    /\ UNCHANGED <<now, tmr, nev>>

InvLate(b) ==
    /\ late[b].it
    /\ late' = [late EXCEPT ![b].it = FALSE]
    /\ IF TimerIgnored(inv[b]) THEN UNCHANGED <<bat, inv, blk, st, nf, rst, fresh, sent>>
       ELSE Settle(b, bat[b], [inv[b] EXCEPT !.ok = FALSE], blk[b], nf[b])
    /\ UNCHANGED <<now, tmr, nev>>

----------------------------------------------------------------------------
Hist == Mode \in {"gen", "sim"}
EnvOk == Bounded => nev < MaxEvents
Log(r) == h' = (IF Hist THEN Append(h, r) ELSE h)
EmitRule == Mode = "gen" => Emit(h')
Lates == BOOLEAN
ResultSets == [Bats -> {"ok", "fail", "none"}]
AsSeq(f) == [b \in 1..Cardinality(Bats) |-> f[b]]

\* pre: the message overtook a due timer tick of its own stream
TickStep == /\ \E w \in 1..(IF Mode = "sim" THEN TickW ELSE 1) : Tick /\ Log([a |-> "tick", w |-> w])
            /\ EmitRule
BatMsgStep == /\ EnvOk
              /\ \E b \in Bats, kind \in BatKinds, lt \in Lates : \E acc \in Accs(kind) :
                   BatMsg(b, kind, lt, acc) /\ Log([a |-> "bat", b |-> b, kind |-> kind, late |-> lt, acc |-> acc, pre |-> tmr[b].bt <= now])
              /\ EmitRule
InvMsgStep == /\ EnvOk
              /\ \E b \in Bats, kind \in InvKinds, lt \in Lates : \E acc \in Accs(kind) :
                   InvMsg(b, kind, lt, acc) /\ Log([a |-> "inv", b |-> b, kind |-> kind, late |-> lt, acc |-> acc, pre |-> tmr[b].it <= now])
              /\ EmitRule
ResStep == /\ EnvOk
           /\ \E f \in ResultSets : Res(f) /\ Log([a |-> "res", f |-> AsSeq(f)])
           /\ EmitRule
BatTimerStep == (\E b \in Bats : BatTimer(b) /\ Log([a |-> "btimer", b |-> b])) /\ EmitRule
InvTimerStep == (\E b \in Bats : InvTimer(b) /\ Log([a |-> "itimer", b |-> b])) /\ EmitRule
BatLateStep == (\E b \in Bats : BatLate(b) /\ Log([a |-> "blate", b |-> b])) /\ EmitRule
InvLateStep == (\E b \in Bats : InvLate(b) /\ Log([a |-> "ilate", b |-> b])) /\ EmitRule

Next == TickStep \/ BatMsgStep \/ InvMsgStep \/ ResStep \/ BatTimerStep \/ InvTimerStep \/ BatLateStep \/ InvLateStep
Spec == Init /\ [][Next]_vars

SimEmit == (Mode = "sim" /\ Len(h) = MaxDepth) => Emit(h)

----------------------------------------------------------------------------
(* C16 *)
\* what the latest message of a stream proves, measured from its arrival
Proves(s) == s.q /\ now - s.arr < MaxAge
Healthy(b) == Proves(bat[b]) /\ Proves(inv[b])

\* Named deviation (repaired in /repo d120239, kept so that a regression is reported under its name): a
\* message whose timestamp is EXACTLY MaxAge old at arrival is not "younger than the maximum data age", yet
\* it is held as correct (`>` instead of `>=` in _is_timestamp_outdated).
Dev_EdgeAgeAccepted(s) == s.ok /\ s.ts # None /\ s.arr - s.ts = MaxAge /\ now - s.arr < MaxAge
\* the model itself never takes the deviating step
DeviationFree == \A b \in Bats : ~Dev_EdgeAgeAccepted(bat[b]) /\ ~Dev_EdgeAgeAccepted(inv[b])

ChanStatus(b) == IF sent[b] = <<>> THEN "NW" ELSE sent[b][Len(sent[b])]

WorkingImpliesHealthyAndFresh ==
    Quiescent => \A b \in Bats : st[b] \in {"WK", "UN"} => Healthy(b)
\* as soon as a condition fails / data stopped for MaxAge, NOT_WORKING is what the channel says
NotWorkingWhenDisqualified ==
    Quiescent => \A b \in Bats : ~Healthy(b) => ChanStatus(b) = "NW"
ChannelIsStatus == \A b \in Bats : ChanStatus(b) = st[b]
NotifyOnlyOnChange ==
    [][\A b \in Bats : sent'[b] # sent[b] =>
          /\ Len(sent'[b]) = Len(sent[b]) + 1
          /\ sent'[b][Len(sent'[b])] # ChanStatus(b)]_vars
BackoffDoubles ==
    \A b \in Bats :
       /\ (blk[b].until = None) <=> (nf[b] = 0)
       /\ (blk[b].until = None) <=> (rst[b] # "none")      \* every success / recovery resets, blocked or not
       /\ blk[b].until # None => /\ blk[b].dur = BackoffDur(nf[b])
                                 /\ blk[b].until <= now + blk[b].dur
       /\ (st[b] # "NW" /\ Blocked(blk[b], now)) => st[b] = "UN"              \* UNCERTAIN during the block
       /\ (fresh[b] /\ st[b] # "NW") => (st[b] = "UN" <=> Blocked(blk[b], now)) \* WORKING at the first evaluation after it
       /\ st[b] = "UN" => blk[b].until # None

\* ComponentPoolStatus.get_working_components over the statuses the trackers reported
Working == {b \in Bats : st[b] = "WK"}
Uncertain == {b \in Bats : st[b] = "UN"}
GetWorking(S) == IF Working \cap S # {} THEN Working \cap S ELSE Uncertain \cap S
UncertainOnlyAsFallback ==
    \A S \in SUBSET Bats : \A b \in GetWorking(S) :
       /\ st[b] # "NW"
       /\ st[b] = "UN" => Working \cap S = {}
       /\ Quiescent => Healthy(b)

TypeOK ==
    /\ now >= 0
    /\ \A b \in Bats : st[b] \in {"NW", "UN", "WK"} /\ blk[b].dur \in MinBlock..MaxBlock
=============================================================================
