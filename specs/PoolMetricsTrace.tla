-------------------------- MODULE PoolMetricsTrace --------------------------
(* Conformance of the real SoCCalculator / CapacityCalculator / fetcher /     *)
(* SendOnUpdate with PoolMetrics.tla; every C18 clause is evaluated by TLC on *)
(* values the CODE produced.                                                  *)
(*                                                                            *)
(* Input (ndjson, IOEnv.TRACE_FILE), one object per line:                     *)
(*  kind "state": a case TLC emitted (data, w, exp, expc, inc, scale) plus    *)
(*     obs = [soc, cap    results of the two real calculators on <data, w>    *)
(*            psoc, pcap  results when every non-qualifying battery is removed *)
(*                        from metrics_data and from the working set          *)
(*            inc[i]      SoC result when battery inc[i].b reports inc[i].soc  *)
(*            scale[i]    SoC result with all capacities times scale[i].k]     *)
(*  kind "hist": steps = the history TLC emitted, each step extended with     *)
(*     obs = [soc, cap    latest samples published by two real SendOnUpdate   *)
(*                        aggregators (SoC / capacity) fed through real       *)
(*                        LatestBatteryMetricsFetchers from fake API channels  *)
(*            hascache, cache, cachec   projection of their _cached_metrics]   *)
(*  kind "pool": steps = a wrapper-layer history TLC emitted (status / use /   *)
(*     msg / tick), each step extended with obs = [soc, cap] = the latest      *)
(*     sample delivered by the receivers obtained from the real                *)
(*     BatteryPool.soc / BatteryPool.capacity of a real BatteryPool over a     *)
(*     real BatteryPoolReferenceStore fed by a status channel; st "off" = the  *)
(*     metric has not been requested, "nopub" = requested, nothing delivered.  *)
(* An SoC observation is [st, fp, c0, c100, eq]: st "none" | "val" | "nan" |  *)
(* "err" (the call raised); fp the value in micro-percent (rounded); c0/c100  *)
(* the exact three-way comparison of the float with 0 and with 100; eq = the  *)
(* float equals the rational TLC emitted (exp) within 1e-9, compared with     *)
(* fractions.Fraction.  A capacity observation is [st, fp, eq], fp in 1e-5    *)
(* capacity units.  TLC recomputes every expectation from the recorded input  *)
(* (M18.Binding: the emitted expectation Python compared against is that      *)
(* value; a mismatch means the record is not a faithful case -> machinery).   *)
(* A false clause is written to IOEnv.VERDICT_FILE; the trace continues.      *)
(* Clause names: C18.* property clauses (a false one is a violation);          *)
(* X18.* agreement with the transcription where C18 leaves the value open or   *)
(* concerns private state (reported as disagreement, never a violation);       *)
(* M18.* integrity of the record itself (machinery).                           *)
EXTENDS PoolMetrics

VARIABLES tid, l, ex
tvars == <<vars, tid, l, ex>>

TraceLog == ndJsonDeserialize(IOEnv.TRACE_FILE)
Tr == TraceLog[tid]

Say(v) == CSVWrite("%1$s", <<ToJson(v)>>, IOEnv.VERDICT_FILE)
Fail(clause, detail) == Say([tid |-> Tr.id, l |-> l, clause |-> clause, detail |-> detail])
Check(ok, clause, detail) == IF ok THEN TRUE ELSE Fail(clause, detail)

FP == 1000000     \* SoC fixed point: micro-percent
CFP == 100000     \* capacity fixed point: 1e-5 capacity units

DataOf(s) == [b \in Bats |-> [p |-> s[b].p, cap |-> s[b].cap, soc |-> s[b].soc, lo |-> s[b].lo, hi |-> s[b].hi]]
WOf(s) == {b \in Bats : s[b]}
Tup3(s) == <<s[1], s[2], s[3]>>
Norm(d) == IF d.cap = None /\ d.soc = None /\ d.lo = None /\ d.hi = None THEN Absent ELSE d
NormData(dt) == [b \in Bats |-> Norm(dt[b])]
B2N(x) == IF x THEN 1 ELSE 0

\* clauses on one SoC observation o of the code for input <<dt, W>>
\* (e = DocSoC of that input, Q = its qualifying batteries)
SoCChecksE(o, e, Q, what) ==
    /\ Check(o.st \in {"none", "val", "nan"} /\ ((o.st = "none") <=> (Q = {})),
             "C18.NoneIffNoQualifier", <<what, "soc result", o.st, "qualifying", Q>>)
    /\ Check(o.st \in {"none", "err"} \/
               (o.st = "val" /\ o.c0 >= 0 /\ o.c100 <= 0 /\ o.fp >= 0 /\ o.fp <= 100 * FP),
             "C18.Range", <<what, "st", o.st, "micro_pct", o.fp, "cmp0", o.c0, "cmp100", o.c100>>)
    /\ Check((o.st = "val" /\ e[1] = 2) =>
                (o.eq /\ Abs((o.fp \div 1000) * e[3] - 1000 * e[2]) <= 2 * e[3]),
             "C18.WeightedMean", <<what, "micro_pct", o.fp, "expected", <<e[2], e[3]>>, "eq", o.eq>>)
    /\ Check((o.st = "val" /\ e[1] = 1) => o.fp = 0,
             "X18.ZeroTotalIsZero", <<what, "micro_pct", o.fp>>)

SoCChecks(o, dt, W, what) == SoCChecksE(o, DocSoC(dt, W), QSoC(dt, W), what)

CapChecks(c, dt, W, what) ==
    LET e == DocCap(dt, W) IN
    /\ Check(c.st \in {"none", "val", "nan"} /\ ((c.st = "none") <=> (QCap(dt, W) = {})),
             "C18.NoneIffNoQualifier", <<what, "capacity result", c.st, "qualifying", QCap(dt, W)>>)
    /\ Check((c.st \in {"val", "nan"} /\ e[1] = 2) => (c.st = "val" /\ c.eq /\ c.fp * e[3] = CFP * e[2]),
             "C18.CapacityIsSum", <<what, "st", c.st, "got_1e-5_units", c.fp, "expected", <<e[2], e[3]>>, "eq", c.eq>>)

\* relation between two SoC observations: a = reference, b = variation
SameNone(a, b) == (a.st = "none") <=> (b.st = "none")
BothVal(a, b) == a.st = "val" /\ b.st = "val"

StateChecks ==
    LET dt == TLCEval(DataOf(Tr.data))
        W == WOf(Tr.w)
        o == Tr.obs.soc
        incs == IncList(dt, W)
        scs == ScaleList(dt, W)
    IN
    /\ Check(/\ Tup3(Tr.exp) = DocSoC(dt, W) /\ Tup3(Tr.expc) = DocCap(dt, W)
             /\ Len(Tr.inc) = Len(incs) /\ Len(Tr.obs.inc) = Len(incs)
             /\ \A i \in 1..Len(incs) : Tr.inc[i].b = incs[i].b /\ Tr.inc[i].soc = incs[i].soc /\ Tup3(Tr.inc[i].exp) = incs[i].exp
             /\ Len(Tr.scale) = Len(scs) /\ Len(Tr.obs.scale) = Len(scs)
             /\ \A i \in 1..Len(scs) : Tr.scale[i].k = scs[i].k /\ Tup3(Tr.scale[i].exp) = scs[i].exp,
             "M18.Binding", <<"recorded case differs from the case of this input", Tr.exp, DocSoC(dt, W), Tr.expc, DocCap(dt, W)>>)
    /\ SoCChecks(o, dt, W, <<"base">>)
    /\ CapChecks(Tr.obs.cap, dt, W, <<"base">>)
    \* exclusion: removing every battery that does not qualify changes nothing
    /\ SoCChecks(Tr.obs.psoc, PruneSoC(dt, W), QSoC(dt, W), <<"pruned">>)
    /\ CapChecks(Tr.obs.pcap, PruneCap(dt, W), QCap(dt, W), <<"pruned">>)
    /\ Check(/\ SameNone(o, Tr.obs.psoc) /\ (BothVal(o, Tr.obs.psoc) => Abs(o.fp - Tr.obs.psoc.fp) <= 1)
             /\ Tr.obs.cap.st = Tr.obs.pcap.st /\ (Tr.obs.cap.st = "val" => Abs(Tr.obs.cap.fp - Tr.obs.pcap.fp) <= 1),
             "C18.Excluded", <<"soc", o.st, o.fp, "pruned", Tr.obs.psoc.st, Tr.obs.psoc.fp,
                               "cap", Tr.obs.cap.fp, "pruned", Tr.obs.pcap.fp>>)
    /\ \A i \in 1..Min2(Len(incs), Len(Tr.obs.inc)) :
          LET oi == Tr.obs.inc[i]  b == incs[i].b  s == incs[i].soc IN
          /\ SoCChecksE(oi, incs[i].exp, QSoC(dt, W), <<"inc", b, s>>)
          /\ Check(SameNone(o, oi) /\ (BothVal(o, oi) => oi.fp + 1 >= o.fp),
                   "C18.Monotone", <<"battery", b, "soc", dt[b].soc, "->", s, "pool micro_pct", o.fp, "->", oi.fp>>)
    /\ \A i \in 1..Min2(Len(scs), Len(Tr.obs.scale)) :
          LET oi == Tr.obs.scale[i]  k == scs[i].k IN
          /\ SoCChecksE(oi, scs[i].exp, QSoC(dt, W), <<"scale", k>>)
          /\ Check(SameNone(o, oi) /\ (BothVal(o, oi) => Abs(oi.fp - o.fp) <= 1),
                   "C18.ScaleInvariant", <<"factor", k, "pool micro_pct", o.fp, "->", oi.fp>>)

\* how many records exercised the antecedent of each clause (vacuity guard, counted by TLC)
ZeroEx == [wm |-> 0, zerototal |-> 0, none |-> 0, mono |-> 0, scale |-> 0, excluded |-> 0, eqlim |-> 0,
           outside |-> 0, missing |-> 0, notworking |-> 0, cap |-> 0, evict |-> 0, nandrop |-> 0, timeout |-> 0,
           cachecmp |-> 0, resume |-> 0, lateuse |-> 0, latepub |-> 0, usenostatus |-> 0, poolpub |-> 0]
DataEx(dt, W, o, c) ==
    LET e == DocSoC(dt, W)  Q == QSoC(dt, W) IN
    [ZeroEx EXCEPT
       !.wm = B2N(e[1] = 2 /\ o.st = "val"),
       !.zerototal = B2N(e[1] = 1),
       !.none = B2N(e[1] = 0),
       !.cap = B2N(DocCap(dt, W)[1] = 2 /\ c.st = "val"),
       !.excluded = B2N(\E b \in Bats : dt[b].p /\ b \notin Q),
       !.eqlim = B2N(\E b \in Q : dt[b].lo = dt[b].hi),
       !.outside = B2N(\E b \in Q : dt[b].soc < dt[b].lo \/ dt[b].soc > dt[b].hi),
       !.missing = B2N(\E b \in W : dt[b].p /\ NMissing(dt[b]) > 0),
       !.notworking = B2N(\E b \in Bats \ W : SoCQual(dt[b]))]
AddEx(a, b) == [k \in DOMAIN a |-> a[k] + b[k]]

TInit ==
    /\ tid \in 1..Len(TraceLog)
    /\ l = 1
    /\ ex = ZeroEx
    /\ data = [b \in Bats |-> Empty] /\ working = Bats /\ installed = NB
    /\ due = [b \in Bats |-> MaxAge] /\ old = [b \in Bats |-> FALSE]
    /\ pub = Pub(data, working) /\ nticks = 0 /\ h = <<>>
    /\ refW = {} /\ seen = FALSE /\ agg = [m \in Metrics |-> AggOff]

Done == Say([tid |-> Tr.id, done |-> TRUE, ex |-> ex'])

StateStep ==
    /\ Tr.kind = "state" /\ l = 1
    /\ StateChecks
    /\ LET dt == TLCEval(DataOf(Tr.data))  W == WOf(Tr.w)  o == Tr.obs.soc IN
       ex' = [DataEx(dt, W, o, Tr.obs.cap) EXCEPT
                !.mono = Cardinality({i \in 1..Len(Tr.obs.inc) : BothVal(o, Tr.obs.inc[i])}),
                !.scale = Cardinality({i \in 1..Len(Tr.obs.scale) : BothVal(o, Tr.obs.scale[i])})]
    /\ l' = 2 /\ UNCHANGED <<vars, tid>>
    /\ Done

HistStep ==
    /\ Tr.kind = "hist" /\ l <= Len(Tr.steps)
    /\ LET r == Tr.steps[l] IN
       /\ IF l = 1 THEN r.a = "init" /\ UNCHANGED vars
          ELSE IF r.a = "msg" THEN Msg(r.b, [cap |-> r.cap, soc |-> r.soc, lo |-> r.lo, hi |-> r.hi])
          ELSE IF r.a = "work" THEN
                 IF WOf(r.w) = working THEN UNCHANGED vars ELSE SetWorking(WOf(r.w))
          ELSE IF r.a = "tick" THEN Tick
          ELSE FALSE
       /\ Check(Tup3(r.exp) = DocSoC(data', working') /\ Tup3(r.expc) = DocCap(data', working'),
                "M18.Binding", <<"recorded expectation differs", r.exp, DocSoC(data', working'), r.expc, DocCap(data', working')>>)
       /\ SoCChecks(r.obs.soc, data', working', <<"step", r.a>>)
       /\ CapChecks(r.obs.cap, data', working', <<"step", r.a>>)
       \* state conformance (enrichment, private attribute): the aggregators' caches equal the
       \* specification's cache up to "absent = present without any metric".  Reported as a
       \* disagreement (X18), not as a violation: what C18 demands is judged on the published values.
       /\ r.obs.hascache =>
            /\ Check(NormData(DataOf(r.obs.cache)) = NormData(data'), "X18.CacheConform",
                     <<"soc aggregator cache after", r.a, "got", r.obs.cache, "expected", data'>>)
            /\ Check(NormData(DataOf(r.obs.cachec)) = NormData([b \in Bats |-> [data'[b] EXCEPT !.soc = None]]),
                     "X18.CacheConform",
                     <<"capacity aggregator cache after", r.a, "got", r.obs.cachec, "expected", data'>>)
       /\ ex' = AddEx(ex, [DataEx(data', working', r.obs.soc, r.obs.cap) EXCEPT
                  !.evict = B2N(r.a = "work" /\ \E b \in working \ working' : data[b].p),
                  !.nandrop = B2N(r.a = "msg" /\ NaN \in {r.cap, r.soc, r.lo, r.hi}),
                  !.timeout = B2N(r.a = "tick" /\ \E b \in Bats : due[b] = 1 /\ data[b] # Empty),
                  !.cachecmp = B2N(r.obs.hascache),
                  \* a battery comes back without a fresh message: its evicted metrics must not count
                  !.resume = B2N(r.a = "work" /\ \E b \in working' \ working : ~data'[b].p)])
    /\ l' = l + 1 /\ UNCHANGED tid
    /\ (l' > Len(Tr.steps)) => Done

\* wrapper layer: the public streams of BatteryPool.soc / .capacity against the aggregator the
\* specification says exists (created at first use from the store's working set at that moment)
PoolStep ==
    /\ Tr.kind = "pool" /\ l <= Len(Tr.steps)
    /\ LET r == Tr.steps[l] IN
       /\ IF l = 1 THEN r.a = "init" /\ UNCHANGED vars
          ELSE IF r.a = "status" THEN StatusUpdate(WOf(r.w))
          ELSE IF r.a = "use" THEN FirstUse(r.m)
          ELSE IF r.a = "msg" THEN PoolMsg(r.b, [cap |-> r.cap, soc |-> r.soc, lo |-> r.lo, hi |-> r.hi])
          ELSE IF r.a = "tick" THEN PoolTick
          ELSE FALSE
       /\ LET as == agg'["soc"]  ac == agg'["cap"]  e == PExps(agg') IN
          /\ Check(Tup3(r.exp) = e.exp /\ Tup3(r.expc) = e.expc,
                   "M18.Binding", <<"recorded expectation differs", r.exp, e.exp, r.expc, e.expc>>)
          /\ IF Publishing(as) THEN SoCChecks(r.obs.soc, as.data, as.w, <<"pool.soc after", r.a>>)
             ELSE Check(r.obs.soc.st = (IF as.on THEN "nopub" ELSE "off"), "X18.NoResultBeforeWarmUp",
                        <<"pool.soc after", r.a, r.obs.soc.st>>)
          /\ IF Publishing(ac) THEN CapChecks(r.obs.cap, ac.data, ac.w, <<"pool.capacity after", r.a>>)
             ELSE Check(r.obs.cap.st = (IF ac.on THEN "nopub" ELSE "off"), "X18.NoResultBeforeWarmUp",
                        <<"pool.capacity after", r.a, r.obs.cap.st>>)
          /\ ex' = AddEx(ex, [ZeroEx EXCEPT
                 !.wm = B2N(Publishing(as) /\ DocSoC(as.data, as.w)[1] = 2 /\ r.obs.soc.st = "val"),
                 !.cap = B2N(Publishing(ac) /\ DocCap(ac.data, ac.w)[1] = 2 /\ r.obs.cap.st = "val"),
                 !.poolpub = B2N(Publishing(as)) + B2N(Publishing(ac)),
                 \* the metric is requested for the first time after the store has learnt that a battery
                 \* is not working
                 !.lateuse = B2N(r.a = "use" /\ seen /\ refW # Bats),
                 !.usenostatus = B2N(r.a = "use" /\ ~seen),
                 \* ... and such an aggregator publishes while a battery outside its working set has
                 \* complete data (the value shows whether that battery is counted)
                 !.latepub = B2N(\E m \in Metrics : Publishing(agg'[m]) /\
                                   \E b \in Bats \ agg'[m].w : CapQual(agg'[m].data[b]))])
    /\ l' = l + 1 /\ UNCHANGED tid
    /\ (l' > Len(Tr.steps)) => Done

TNext == HistStep \/ StateStep \/ PoolStep
=============================================================================
