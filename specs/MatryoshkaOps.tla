--------------------------- MODULE MatryoshkaOps ---------------------------
(* Pure operators of the Matryoshka priority resolver.                        *)
(*                                                                            *)
(* Transcribes  src/frequenz/sdk/microgrid/_power_managing/_bounds.py  and    *)
(* Matryoshka._calc_target_power / get_status, keeping the code's structure:  *)
(* one operator per helper function, the descending-priority sweep as a      *)
(* recursive operator carrying the running [lower, upper] and the target.    *)
(*                                                                            *)
(* Next to the transcription stands an independently written DECLARATIVE     *)
(* definition of what C03 / C04 demand (Usable, Adm, Closest ...).  TLC checks *)
(* the two against each other (Matryoshka.tla) and the trace specification    *)
(* evaluates the declarative predicates on what the real code returned.      *)
EXTENDS Integers, Sequences, FiniteSets

CONSTANTS NA,      \* number of actors; actor i has rank i (higher index sweeps first)
          G,       \* value grid is -G..G
          Prio     \* Prio[i] = priority of actor i, non-decreasing in i

None == -99
Grid == -G..G
OptGrid == Grid \cup {None}
Actors == 1..NA

NoProp == [pref |-> None, lo |-> None, hi |-> None, live |-> FALSE, t |-> 0]

Max2(a, b) == IF a > b THEN a ELSE b
Min2(a, b) == IF a < b THEN a ELSE b
Abs(x) == IF x < 0 THEN -x ELSE x

(* system bounds record: [has, lo, hi, xlo, xhi]; has = FALSE means the       *)
(* inclusion bounds are unavailable (code narrows to [0, 0]).                 *)
SLo(s) == IF s.has THEN s.lo ELSE 0
SHi(s) == IF s.has THEN s.hi ELSE 0

----------------------------------------------------------------------------
(* _bounds.py *)
HasExcl(s) == s.xlo # 0 \/ s.xhi # 0

\* check_exclusion_bounds_overlap
Overlap(lo, hi, s) ==
    IF ~HasExcl(s) THEN <<FALSE, FALSE>>
    ELSE << s.xlo < lo /\ lo < s.xhi, s.xlo < hi /\ hi < s.xhi >>

\* adjust_exclusion_bounds
Adjust(lo, hi, s) ==
    LET o == Overlap(lo, hi, s) IN
    IF ~HasExcl(s) THEN <<lo, hi>>
    ELSE IF o[1] /\ o[2] THEN <<0, 0>>
    ELSE IF ~o[1] /\ o[2] THEN <<lo, s.xlo>>
    ELSE IF o[1] /\ ~o[2] THEN <<s.xhi, hi>>
    ELSE <<lo, hi>>

\* clamp_to_bounds: returns <<low option, high option>>
Clamp(v, lo, hi, s) ==
    LET o == Overlap(lo, hi, s) IN
    IF HasExcl(s) /\ o[1] /\ o[2] THEN <<None, None>>
    ELSE IF HasExcl(s) /\ o[1] /\ ~o[2] /\ v < s.xhi THEN <<None, s.xhi>>
    ELSE IF HasExcl(s) /\ ~o[1] /\ o[2] /\ v > s.xlo THEN <<s.xlo, None>>
    ELSE IF v < lo THEN <<lo, None>>
    ELSE IF v > hi THEN <<None, hi>>
    ELSE IF HasExcl(s) /\ v # 0 /\ s.xlo < v /\ v < s.xhi THEN <<s.xlo, s.xhi>>
    ELSE <<v, v>>

----------------------------------------------------------------------------
(* Matryoshka._calc_target_power: sweep from the highest rank down.           *)
RECURSIVE Sweep(_, _, _, _, _, _)
Sweep(i, lo, hi, tgt, p, s) ==
    IF i = 0 THEN tgt
    ELSE IF ~p[i].live THEN Sweep(i - 1, lo, hi, tgt, p, s)
    ELSE IF hi < lo THEN tgt                                   \* break
    ELSE LET pr == p[i]
             c == IF pr.pref = None THEN <<None, None>> ELSE Clamp(pr.pref, lo, hi, s)
             t2 == IF pr.pref = None THEN tgt
                   ELSE IF c[1] = None /\ c[2] # None THEN c[2]
                   ELSE IF c[1] # None /\ c[2] = None THEN c[1]
                   ELSE IF c[1] # None /\ c[2] # None THEN
                          (IF c[2] - pr.pref < pr.pref - c[1] THEN c[2] ELSE c[1])
                   ELSE tgt
             plo == IF pr.lo = None THEN lo ELSE pr.lo
             phi == IF pr.hi = None THEN hi ELSE pr.hi
             o == Overlap(plo, phi, s)
         IN IF HasExcl(s) /\ o[1] /\ o[2] THEN Sweep(i - 1, lo, hi, t2, p, s)   \* continue
            ELSE LET a == Adjust(Max2(lo, plo), Min2(hi, phi), s)
                 IN Sweep(i - 1, a[1], a[2], t2, p, s)

Target(p, s) == Sweep(NA, SLo(s), SHi(s), 0, p, s)

(* Matryoshka.get_status: bounds available to an actor of priority k.         *)
RECURSIVE StatusSweep(_, _, _, _, _, _)
StatusSweep(i, lo, hi, k, p, s) ==
    IF i = 0 THEN <<lo, hi>>
    ELSE IF ~p[i].live THEN StatusSweep(i - 1, lo, hi, k, p, s)
    ELSE IF Prio[i] <= k THEN <<lo, hi>>                        \* break
    ELSE LET pr == p[i]
             plo == IF pr.lo = None THEN lo ELSE pr.lo
             phi == IF pr.hi = None THEN hi ELSE pr.hi
             o == Overlap(plo, phi, s)
         IN IF HasExcl(s) /\ o[1] /\ o[2] THEN StatusSweep(i - 1, lo, hi, k, p, s)
            ELSE LET clo == Max2(lo, plo)
                     chi == Min2(hi, phi)
                 IN IF clo <= chi
                    THEN LET a == Adjust(clo, chi, s) IN StatusSweep(i - 1, a[1], a[2], k, p, s)
                    ELSE <<lo, hi>>                             \* break

\* <<None, None>> when the system has no inclusion bounds (report carries no bounds)
StatusBounds(p, s, k) == IF s.has THEN StatusSweep(NA, s.lo, s.hi, k, p, s) ELSE <<None, None>>

\* _Report.adjust_to_bounds(x) for a report with inclusion bounds b
AdjustToBounds(x, b, s) == IF b[1] = None THEN <<None, None>> ELSE Clamp(x, b[1], b[2], s)

----------------------------------------------------------------------------
(* Declarative side: what C03 / C04 ask for.                                  *)
InZone(v, s) == s.xlo < v /\ v < s.xhi
Usable(v, s) == /\ SLo(s) <= v /\ v <= SHi(s)
                /\ (v = 0 \/ ~InZone(v, s))

Live(p) == {i \in Actors : p[i].live}
WithPref(p) == {i \in Live(p) : p[i].pref # None}
MinOf(S) == CHOOSE x \in S : \A y \in S : x <= y
LoOf(pr, d) == IF pr.lo = None THEN d ELSE pr.lo
HiOf(pr, d) == IF pr.hi = None THEN d ELSE pr.hi

\* v lies in the system inclusion bounds and in the bounds of every live actor ranked above k
InI(v, p, s, k) == /\ SLo(s) <= v /\ v <= SHi(s)
                   /\ \A i \in Live(p) : i > k => (LoOf(p[i], -G - 1) <= v /\ v <= HiOf(p[i], G + 1))
Adm(p, s, k) == {v \in Grid : InI(v, p, s, k) /\ ~InZone(v, s)}
ConflictFree(p, s, astar) == \A k \in astar..NA : Adm(p, s, k) # {}
Closest(p, s) ==
    LET a == MinOf(WithPref(p))
        pref == p[a].pref
        A == Adm(p, s, a)
    IN {v \in A : \A w \in A : Abs(v - pref) <= Abs(w - pref)}
         \cup (IF pref = 0 /\ InI(0, p, s, a) THEN {0} ELSE {})

\* the C04 clause on an arbitrary candidate target (spec's own or the code's)
ClosestAdmissibleOf(tgt, p, s) ==
    (WithPref(p) # {} /\ ConflictFree(p, s, MinOf(WithPref(p)))) => tgt \in Closest(p, s)
NoPrefZeroOf(tgt, p) == WithPref(p) = {} => tgt = 0

\* proposal set seen by a hypothetical preference x of actor a with nobody below stating one
WithOnlyPref(p, a, x) ==
    [i \in Actors |-> IF i = a THEN [p[i] EXCEPT !.pref = x, !.live = TRUE]
                      ELSE IF i < a /\ Prio[i] < Prio[a] THEN [p[i] EXCEPT !.pref = None]
                      ELSE p[i]]

\* Zero inside the exclusion zone: C03 allows a zero target, C04 speaks of "minus the exclusion
\* zone".  Where the zone lies inside the inclusion bounds (the documented SystemBounds shape)
\* the design adopts a zero preference and the clauses pin that; where the inclusion bounds end
\* inside the zone either outcome is accepted (weakest reading).
StandardSys(s) == ~s.has \/ (s.lo <= s.xlo /\ s.xhi <= s.hi)
ZeroUndetermined(x, s) == x = 0 /\ InZone(0, s) /\ ~(s.lo <= s.xlo /\ s.xhi <= s.hi)

\* "x is adopted unchanged" predicate of the reported range b = <<lo, hi>> for actor a
InReported(x, b, s) == b[1] # None /\ b[1] <= x /\ x <= b[2] /\ (x = 0 \/ ~InZone(x, s))

\* the values an actor may rely on being adopted unchanged, as a set (two reports are
\* equivalent iff these sets are equal)
ReportedSet(b, s) == {x \in Grid : InReported(x, b, s) /\ ~ZeroUndetermined(x, s)}

=============================================================================
