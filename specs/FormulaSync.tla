----------------------------- MODULE FormulaSync -----------------------------
(* C06: a formula engine reads one sample per round from every input stream,  *)
(* aligns the streams once (first run) and then stamps each result with "an"  *)
(* input's timestamp.                                                         *)
(*                                                                            *)
(* Structured like the code (one action per await):                           *)
(*   Produce(s)     a producer sends the next sample of stream s              *)
(*                  (Broadcast receiver buffer of capacity Cap)               *)
(*   StartConsumer  engine.new_receiver(): the _run task is created           *)
(*   Fetch(s)       MetricFetcher.fetch_next of one input (task of apply())   *)
(*   FetchRound     asyncio.wait(ALL_COMPLETED) returns; first run -> sync,   *)
(*                  later: timestamp := that of an ARBITRARY input            *)
(*   SyncWait(s)    _synchronize_metric_timestamps issues the re-fetch of one *)
(*                  stream that is behind the latest first timestamp ...      *)
(*   SyncFetch      ... and blocks on it until that stream delivers           *)
(*   SyncDone       all streams at the latest first timestamp                 *)
(*   EmitOut        evaluate + sender.send                                    *)
(* Config "3phase": FormulaEngine3Phase._run: three single-stream engines     *)
(*   PhaseEngine(p) one complete apply()+send of the per-phase engine         *)
(*   ZipRecv        phase_k = await phase_k_rx.receive(), k = 1, 2, 3, then   *)
(*                  Sample3Phase(phase_1.timestamp, v1, v2, v3) is sent       *)
(*                                                                            *)
(* C06 clauses: SingleTimestamp, Consecutive, ScheduleIndependent,            *)
(*              ThreePhaseSingleTimestamp (\/ Dev_ThreePhaseNotAligned)       *)
EXTENDS Integers, Sequences, FiniteSets, TLC, Json, CSV, IOUtils

CONSTANTS NS,        \* number of input streams (3 in config "3phase")
          Firsts,    \* set of possible first timestamps of a stream
          Cap,       \* receiver buffer capacity
          Horizon,   \* last timestamp any producer sends
          Config,    \* "single" | "3phase"
          MaxDepth,  \* history bound ("sim" only)
          Mode       \* "mc" | "gen" | "sim" | "trace"

VARIABLES first,     \* s -> first timestamp of stream s
          next,      \* s -> next timestamp the producer of s sends
          q,         \* s -> receiver buffer (sequence of timestamps)
          started,   \* the consumer task exists
          firstRun,  \* FormulaEvaluator._first_run
          pc,        \* "fetch" | "sync" | "emit"
          cur,       \* s -> timestamp of the sample fetched this round (None: not yet)
          latest,    \* sync target (latest of the first timestamps seen)
          syn,       \* stream whose re-fetch the synchronisation is blocked on (0: none)
          ts,        \* timestamp chosen for the sample being emitted
          mid,       \* 3phase: p -> output channel of the per-phase engine
          zi,        \* 3phase: index of the phase the zip is waiting for (1..3)
          out,       \* emitted samples: sequence of [ts, ins]
          h          \* history of actions (hidden by VIEW)

vars == <<first, next, q, started, firstRun, pc, cur, latest, syn, ts, mid, zi, out, h>>
View == <<first, next, q, started, firstRun, pc, cur, latest, syn, ts, mid, zi, out>>

None == -99
Streams == 1..NS
AllNone == [s \in Streams |-> None]

EmitOn == "OUT_FILE" \in DOMAIN IOEnv
Emit(v) == IF EmitOn THEN CSVWrite("%1$s", <<ToJson(v)>>, IOEnv.OUT_FILE) ELSE TRUE

SetMax(S) == CHOOSE x \in S : \A y \in S : y <= x
SetMin(S) == CHOOSE x \in S : \A y \in S : x <= y
Rec(t, ins) == [ts |-> t, ins |-> ins]

Init ==
    /\ first \in [Streams -> Firsts]
    /\ next = first
    /\ q = [s \in Streams |-> <<>>]
    /\ started = FALSE /\ firstRun = TRUE /\ pc = "fetch"
    /\ cur = AllNone /\ latest = None /\ syn = 0 /\ ts = None
    /\ mid = [s \in Streams |-> <<>>] /\ zi = 1
    /\ out = <<>>
    /\ h = <<>>

----------------------------------------------------------------------------
(* environment *)
Produce(s) ==
    /\ next[s] <= Horizon
    /\ Len(q[s]) < Cap
    /\ q' = [q EXCEPT ![s] = Append(@, next[s])]
    /\ next' = [next EXCEPT ![s] = @ + 1]
    /\ UNCHANGED <<first, started, firstRun, pc, cur, latest, syn, ts, mid, zi, out>>

StartConsumer ==
    /\ ~started
    /\ started' = TRUE
    /\ UNCHANGED <<first, next, q, firstRun, pc, cur, latest, syn, ts, mid, zi, out>>

----------------------------------------------------------------------------
(* config "single": FormulaEngine._run / FormulaEvaluator.apply *)
CanFetch(s) == Config = "single" /\ started /\ pc = "fetch" /\ cur[s] = None /\ q[s] # <<>>
Fetch(s) ==
    /\ CanFetch(s)
    /\ cur' = [cur EXCEPT ![s] = Head(q[s])]
    /\ q' = [q EXCEPT ![s] = Tail(@)]
    /\ UNCHANGED <<first, next, started, firstRun, pc, latest, syn, ts, mid, zi, out>>

CanRound == Config = "single" /\ started /\ pc = "fetch" /\ \A s \in Streams : cur[s] # None
\* `k` is the input whose timestamp apply() happens to take (next(iter(ready_metrics)))
FetchRound(k) ==
    /\ CanRound
    /\ IF firstRun
       THEN /\ latest' = SetMax({cur[s] : s \in Streams})
            /\ pc' = "sync"
            /\ UNCHANGED ts
       ELSE /\ ts' = cur[k]
            /\ pc' = "emit"
            /\ UNCHANGED latest
    /\ UNCHANGED <<first, next, q, started, firstRun, cur, syn, mid, zi, out>>

\* the synchronisation re-fetches one lagging stream at a time and blocks on it
CanSyncWait(s) == Config = "single" /\ pc = "sync" /\ syn = 0 /\ cur[s] < latest
SyncWait(s) ==
    /\ CanSyncWait(s)
    /\ syn' = s
    /\ UNCHANGED <<first, next, q, started, firstRun, pc, cur, latest, ts, mid, zi, out>>

CanSync == Config = "single" /\ pc = "sync" /\ syn # 0 /\ q[syn] # <<>>
SyncFetch ==
    /\ CanSync
    /\ cur' = [cur EXCEPT ![syn] = Head(q[syn])]
    /\ q' = [q EXCEPT ![syn] = Tail(@)]
    /\ syn' = 0
    /\ UNCHANGED <<first, next, started, firstRun, pc, latest, ts, mid, zi, out>>

CanSyncDone == Config = "single" /\ pc = "sync" /\ syn = 0 /\ \A s \in Streams : cur[s] >= latest
SyncDone ==
    /\ CanSyncDone
    /\ firstRun' = FALSE
    /\ ts' = latest
    /\ pc' = "emit"
    /\ UNCHANGED <<first, next, q, started, cur, latest, syn, mid, zi, out>>

CanEmit == Config = "single" /\ pc = "emit"
EmitOut ==
    /\ CanEmit
    /\ out' = Append(out, Rec(ts, cur))
    /\ cur' = AllNone /\ pc' = "fetch" /\ ts' = None
    /\ UNCHANGED <<first, next, q, started, firstRun, latest, syn, mid, zi>>

----------------------------------------------------------------------------
(* config "3phase": three single-stream engines zipped by FormulaEngine3Phase._run *)
CanPhase(p) == Config = "3phase" /\ started /\ q[p] # <<>>
PhaseEngine(p) ==
    /\ CanPhase(p)
    /\ mid' = [mid EXCEPT ![p] = Append(@, Head(q[p]))]
    /\ q' = [q EXCEPT ![p] = Tail(@)]
    /\ UNCHANGED <<first, next, started, firstRun, pc, cur, latest, syn, ts, zi, out>>

CanZip == Config = "3phase" /\ started /\ mid[zi] # <<>>
ZipRecv ==
    /\ CanZip
    /\ LET c2 == [cur EXCEPT ![zi] = Head(mid[zi])] IN
         IF zi = NS
         THEN /\ out' = Append(out, Rec(c2[1], c2))      \* Sample3Phase(phase_1.timestamp, ...)
              /\ cur' = AllNone /\ zi' = 1
         ELSE /\ cur' = c2 /\ zi' = zi + 1 /\ UNCHANGED out
    /\ mid' = [mid EXCEPT ![zi] = Tail(@)]
    /\ UNCHANGED <<first, next, q, started, firstRun, pc, latest, syn, ts>>

ConsumerEnabled ==
    \/ \E s \in Streams : CanFetch(s) \/ CanSyncWait(s) \/ CanPhase(s)
    \/ CanSync \/ CanRound \/ CanSyncDone \/ CanEmit \/ CanZip

----------------------------------------------------------------------------
HRec(a, s) == [a |-> a, s |-> s]
Gen == Mode = "sim" => Len(h) < MaxDepth
Log(r) == h' = (IF Mode \in {"gen", "sim"} THEN Append(h, r) ELSE h)
\* one case per explored transition into a state in which every producer has finished
EmitRule == (Mode = "gen" /\ \A s \in Streams : next'[s] > Horizon) => Emit([first |-> first, h |-> h'])

ProduceStep == Gen /\ (\E s \in Streams : Produce(s) /\ Log(HRec("prod", s))) /\ EmitRule
StartStep == Gen /\ StartConsumer /\ Log(HRec("start", 0)) /\ EmitRule
FetchStep == Gen /\ (\E s \in Streams : Fetch(s) /\ Log(HRec("int", s))) /\ EmitRule
RoundStep == Gen /\ (\E k \in Streams : FetchRound(k)) /\ Log(HRec("int", 0)) /\ EmitRule
SyncWaitStep == Gen /\ (\E s \in Streams : SyncWait(s) /\ Log(HRec("int", s))) /\ EmitRule
SyncFetchStep == Gen /\ SyncFetch /\ Log(HRec("int", 0)) /\ EmitRule
SyncDoneStep == Gen /\ SyncDone /\ Log(HRec("int", 0)) /\ EmitRule
EmitStep == Gen /\ EmitOut /\ Log(HRec("int", 0)) /\ EmitRule
PhaseStep == Gen /\ (\E p \in Streams : PhaseEngine(p) /\ Log(HRec("int", p))) /\ EmitRule
ZipStep == Gen /\ ZipRecv /\ Log(HRec("int", 0)) /\ EmitRule

Next == ProduceStep \/ StartStep \/ FetchStep \/ RoundStep \/ SyncWaitStep \/ SyncFetchStep \/ SyncDoneStep
        \/ EmitStep \/ PhaseStep \/ ZipStep

----------------------------------------------------------------------------
(* C06 *)
MaxFirst == SetMax({first[s] : s \in Streams})
Aligned(r) == \A s \in Streams : r.ins[s] = r.ts

\* what an unaligned zip of the three phase streams emits as its i-th sample
ZipRec(i) == Rec(first[1] + i - 1, [s \in Streams |-> first[s] + i - 1])
\* named deviation (known finding): FormulaEngine3Phase pairs the i-th outputs of its three
\* per-phase engines without comparing their timestamps, and those engines started at
\* different timestamps
Dev_ThreePhaseNotAligned(i, r) ==
    /\ Config = "3phase"
    /\ \E a, b \in Streams : first[a] # first[b]
    /\ r = ZipRec(i)

\* every emitted sample is computed from the inputs stamped with its own timestamp
SingleTimestampOf(o) == \A i \in 1..Len(o) : Aligned(o[i])
ThreePhaseSingleTimestampOf(o) == \A i \in 1..Len(o) : Aligned(o[i]) \/ Dev_ThreePhaseNotAligned(i, o[i])
\* from the first timestamp every stream has, one step at a time, none skipped/repeated/reordered
ConsecutiveOf(o) ==
    /\ (Config = "single" /\ o # <<>>) => o[1].ts = MaxFirst
    /\ \A i \in 1..(Len(o) - 1) : o[i + 1].ts = o[i].ts + 1
\* the output is a function of the input streams only (Kahn network): at every moment a prefix of
\* the one possible output sequence, and all of it once nothing more can happen
Expected(last) ==
    IF Config = "3phase" /\ (\E a, b \in Streams : first[a] # first[b])
    THEN [i \in 1..(IF last < MaxFirst THEN 0 ELSE last - MaxFirst + 1) |-> ZipRec(i)]
    ELSE [i \in 1..(IF last < MaxFirst THEN 0 ELSE last - MaxFirst + 1) |->
             Rec(MaxFirst + i - 1, [s \in Streams |-> MaxFirst + i - 1])]
IsPrefix(a, b) == Len(a) <= Len(b) /\ \A i \in 1..Len(a) : a[i] = b[i]
Terminal == started /\ (\A s \in Streams : next[s] > Horizon) /\ ~ConsumerEnabled

SingleTimestamp == Config = "single" => SingleTimestampOf(out)
ThreePhaseSingleTimestamp == Config = "3phase" => ThreePhaseSingleTimestampOf(out)
Consecutive == ConsecutiveOf(out)
ScheduleIndependent ==
    /\ IsPrefix(out, Expected(Horizon))
    /\ Terminal => out = Expected(Horizon)
\* the receiver buffers never exceed their capacity (the producers respect the backlog bound)
BacklogBounded == \A s \in Streams : Len(q[s]) <= Cap

\* simulation: the history is written by an invariant evaluated on the chosen states only
SimEmit == (Mode = "sim" /\ (Len(h) = MaxDepth \/ Terminal)) => Emit([first |-> first, h |-> h])

=============================================================================
