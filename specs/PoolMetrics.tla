------------------------------ MODULE PoolMetrics ------------------------------
(* C18  Pool SoC and capacity are the documented aggregates of working        *)
(*      batteries.                                                            *)
(*                                                                            *)
(* The battery pool publishes two aggregates that are functions of            *)
(*   data    : per battery the cached ComponentMetricsData (absent, or a      *)
(*             record in which each of capacity / soc / soc_lower_bound /     *)
(*             soc_upper_bound is a value or missing), and                    *)
(*   working : the set of working batteries.                                  *)
(* The module contains                                                        *)
(*   (a) a transcription of SoCCalculator.calculate / CapacityCalculator.     *)
(*       calculate (_metric_calculator.py) with exact rationals, keeping the  *)
(*       code's loop, its equal-limits branch, its clamp and its zero-total   *)
(*       guard (ImplSoC, ImplCap),                                            *)
(*   (b) an independently written declarative definition of what C18 and the  *)
(*       docstrings of BatteryPool.soc / .capacity demand (DocSoC, DocCap),   *)
(*   (c) the state machine around the calculators: the fetcher's NaN drop     *)
(*       (_component_metric_fetcher.py fetch_next), its silence time-out,     *)
(*       SendOnUpdate.update_working_batteries' cache eviction and the        *)
(*       recalculation after every change (_methods.py),                      *)
(*   (d) the BatteryPool wrapper layer (_battery_pool.py, _battery_pool_       *)
(*       reference_store.py): the reference store follows the status channel, *)
(*       the aggregator of a metric is created lazily at the first use of     *)
(*       BatteryPool.soc / .capacity from the store's CURRENT working set and  *)
(*       follows every later status update (modes "pool" / "poolsim").        *)
(* TLC checks (a) against (b) and the relational clauses (Range, Monotone,    *)
(* ScaleInvariant, Excluded ...) over every data set of the scope; the trace  *)
(* specification PoolMetricsTrace evaluates the same clauses on values the    *)
(* real code produced.                                                        *)
EXTENDS Integers, Sequences, FiniteSets, TLC, Json, CSV, IOUtils

CONSTANTS NB,          \* number of batteries of the pool
          Caps,        \* capacity grid (capacity units)
          Pct,         \* percent grid of soc, soc_lower_bound, soc_upper_bound
          MaxMissing,  \* "states": at most this many of the four metrics missing per battery
          Factors,     \* common capacity factors of ScaleInvariant
          Mode,        \* "states"  every data set x working subset as a state, no history
                       \* "history" explore Msg / SetWorking / Tick, emit one history per transition
                       \* "sim"     like history, random arguments, emit only full-length histories
                       \* "trace"   (PoolMetricsTrace)
          HMsgs,       \* message alphabet of "history": set of [cap, soc, lo, hi] (NaN allowed)
          MaxDepth,    \* bound on the history length
          MaxTicks,    \* bound on the number of Tick actions in a history
          MaxAge,      \* ticks of silence after which the fetcher reports "no metrics"
          Warm         \* "pool": ticks a new SendOnUpdate waits before its first result
                       \*   "pool" explore StatusUpdate / FirstUse / PoolMsg / PoolTick, one history per transition
                       \*   "poolsim" the same with random arguments, full-length histories only

VARIABLES data,       \* battery -> [p, cap, soc, lo, hi]   (SendOnUpdate._cached_metrics)
          working,    \* set of working batteries           (SendOnUpdate._working_batteries)
          installed,  \* "states": number of batteries whose data has been chosen
          due,        \* battery -> ticks until its fetch_next times out
          old,        \* ghost: data[b] was received before b last left the working set
          pub,        \* [soc, cap] last published results  (what _send_on_update sent)
          nticks,
          refW,       \* "pool": BatteryPoolReferenceStore._working_batteries
          seen,       \* "pool": a status message has been received
          agg,        \* "pool": metric -> [on, w, data, due, warm]  the lazily created SendOnUpdate
          h           \* history of actions (hidden by VIEW)

vars == <<data, working, installed, due, old, pub, nticks, refW, seen, agg, h>>
View == <<data, working, installed, due, old, pub, nticks, refW, seen, agg>>
pvars == <<refW, seen, agg>>                                 \* wrapper layer
cvars == <<data, working, installed, due, old, pub>>         \* single-aggregator machine

None == -99          \* metric missing / result None
NaN  == -98          \* a NaN field of an API message
Bats == 1..NB

----------------------------------------------------------------------------
(* exact rationals <<n, d>>, d > 0, normalised *)
Abs(x) == IF x < 0 THEN -x ELSE x
Min2(a, b) == IF a < b THEN a ELSE b
Max2(a, b) == IF a > b THEN a ELSE b
RECURSIVE Gcd(_, _)
Gcd(a, b) == IF b = 0 THEN a ELSE Gcd(b, a % b)
RNorm(n, d) == IF n = 0 THEN <<0, 1>> ELSE LET g == Gcd(Abs(n), d) IN <<n \div g, d \div g>>
RInt(k) == <<k, 1>>
RAdd(a, b) == RNorm(a[1] * b[2] + b[1] * a[2], a[2] * b[2])
RMulInt(k, a) == RNorm(k * a[1], a[2])
RDivInt(a, k) == RNorm(a[1], a[2] * k)          \* k > 0
RLe(a, b) == a[1] * b[2] <= b[1] * a[2]
RMin(a, b) == IF RLe(a, b) THEN a ELSE b
RMax(a, b) == IF RLe(a, b) THEN b ELSE a
NoneR == <<None, 1>>

RECURSIVE SumF(_, _)
SumF(f, S) == IF S = {} THEN 0 ELSE LET x == CHOOSE x \in S : TRUE IN f[x] + SumF(f, S \ {x})
RECURSIVE SeqOfSet(_)
SeqOfSet(S) == IF S = {} THEN <<>>
               ELSE LET m == CHOOSE x \in S : \A y \in S : x <= y IN <<m>> \o SeqOfSet(S \ {m})
RECURSIVE ConcatTo(_, _)
ConcatTo(f, k) == IF k = 0 THEN <<>> ELSE ConcatTo(f, k - 1) \o f[k]

----------------------------------------------------------------------------
(* data records *)
Absent == [p |-> FALSE, cap |-> None, soc |-> None, lo |-> None, hi |-> None]  \* id not in metrics_data
Empty  == [p |-> TRUE,  cap |-> None, soc |-> None, lo |-> None, hi |-> None]  \* ComponentMetricsData(id, now, {})

Opt(S) == S \cup {None}
NMissing(d) == (IF d.cap = None THEN 1 ELSE 0) + (IF d.soc = None THEN 1 ELSE 0)
             + (IF d.lo = None THEN 1 ELSE 0) + (IF d.hi = None THEN 1 ELSE 0)
\* quantifier of C18: capacity >= 0, SoC inside or outside its limits, limits equal or
\* distinct (lower <= upper), any metric missing
BatSet == {Absent} \cup
          {d \in [p : {TRUE}, cap : Opt(Caps), soc : Opt(Pct), lo : Opt(Pct), hi : Opt(Pct)] :
              /\ (d.lo # None /\ d.hi # None) => d.lo <= d.hi
              /\ NMissing(d) <= MaxMissing}

\* API messages: every field a grid value or NaN
OptN(S) == S \cup {NaN}
MsgSet == {m \in [cap : OptN(Caps), soc : OptN(Pct), lo : OptN(Pct), hi : OptN(Pct)] :
              (m.lo # NaN /\ m.hi # NaN) => m.lo <= m.hi}

----------------------------------------------------------------------------
(* (a) transcription of _metric_calculator.py *)
SoCQual(d) == d.p /\ d.cap # None /\ d.lo # None /\ d.hi # None /\ d.soc # None
CapQual(d) == d.p /\ d.cap # None /\ d.lo # None /\ d.hi # None

\* soc_scaled of one battery (a rational): equal-limits branch, rescale, clamp
ScaledImpl(d) ==
    LET raw == IF d.hi = d.lo
               THEN (IF d.soc < d.lo THEN RInt(0) ELSE RInt(100))
               ELSE RNorm((d.soc - d.lo) * 100, d.hi - d.lo)
    IN RMin(RMax(raw, RInt(0)), RInt(100))

\* the for-loop over working_batteries; acc = [used, total, any]; any <=> timestamp was set
RECURSIVE SoCLoop(_, _, _, _)
SoCLoop(dt, W, b, acc) ==
    IF b > NB THEN acc
    ELSE IF b \notin W \/ ~SoCQual(dt[b]) THEN SoCLoop(dt, W, b + 1, acc)
    ELSE LET d == dt[b]
             usable == d.cap * (d.hi - d.lo)                       \* usable_capacity_x100
         IN SoCLoop(dt, W, b + 1, [used  |-> RAdd(acc.used, RMulInt(usable, ScaledImpl(d))),
                                   total |-> acc.total + usable,
                                   any   |-> TRUE])
ImplSoC(dt, W) ==
    LET a == SoCLoop(dt, W, 1, [used |-> RInt(0), total |-> 0, any |-> FALSE]) IN
    IF ~a.any THEN NoneR
    ELSE IF a.total = 0 THEN RInt(0)                                \* is_close_to_zero guard
    ELSE RDivInt(a.used, a.total)

\* capacity in hundredths of a capacity unit (capacity * (upper - lower), before the /100)
RECURSIVE CapLoop(_, _, _, _)
CapLoop(dt, W, b, acc) ==
    IF b > NB THEN acc
    ELSE IF b \notin W \/ ~CapQual(dt[b]) THEN CapLoop(dt, W, b + 1, acc)
    ELSE CapLoop(dt, W, b + 1, [total |-> acc.total + dt[b].cap * (dt[b].hi - dt[b].lo), any |-> TRUE])
ImplCap(dt, W) ==
    LET a == CapLoop(dt, W, 1, [total |-> 0, any |-> FALSE]) IN
    IF ~a.any THEN NoneR ELSE RNorm(a.total, 100)

----------------------------------------------------------------------------
(* (b) what C18 / the docstrings demand *)
QSoC(dt, W) == {b \in W : SoCQual(dt[b])}       \* qualifying batteries
QCap(dt, W) == {b \in W : CapQual(dt[b])}
Weight(d) == d.cap * (d.hi - d.lo)              \* usable capacity (x100)
\* soc_scaled * (hi - lo) = min(max(0, (soc - lo) * 100), 100 * (hi - lo)); a battery with equal
\* limits has weight 0 and contributes nothing whatever its rescaled SoC is taken to be
ClampNum(d) == Min2(Max2(0, (d.soc - d.lo) * 100), 100 * (d.hi - d.lo))
DocTotal(dt, W) == SumF([b \in Bats |-> Weight(dt[b])], QSoC(dt, W))
DocUsed(dt, W)  == SumF([b \in Bats |-> dt[b].cap * ClampNum(dt[b])], QSoC(dt, W))
\* expectation triples <<kind, n, d>>: kind 0 = None, 1 = a value the property leaves open
\* (weighted mean with zero total weight), 2 = exactly n/d
DocSoC(dt, W) ==
    IF QSoC(dt, W) = {} THEN <<0, 0, 1>>
    ELSE IF DocTotal(dt, W) = 0 THEN <<1, 0, 1>>
    ELSE LET r == RNorm(DocUsed(dt, W), DocTotal(dt, W)) IN <<2, r[1], r[2]>>
DocCap(dt, W) ==
    IF QCap(dt, W) = {} THEN <<0, 0, 1>>
    ELSE LET r == RNorm(SumF([b \in Bats |-> Weight(dt[b])], QCap(dt, W)), 100) IN <<2, r[1], r[2]>>

\* variations of a data set used by the relational clauses
WithSoc(dt, b, s) == [dt EXCEPT ![b].soc = s]
Scaled(dt, k) == [b \in Bats |-> IF dt[b].cap = None THEN dt[b] ELSE [dt[b] EXCEPT !.cap = k * dt[b].cap]]
PruneSoC(dt, W) == [b \in Bats |-> IF b \in QSoC(dt, W) THEN dt[b] ELSE Absent]
PruneCap(dt, W) == [b \in Bats |-> IF b \in QCap(dt, W) THEN dt[b] ELSE Absent]
IncSet(dt, b) == IF dt[b].p /\ dt[b].soc # None THEN {s \in Pct : s > dt[b].soc} ELSE {}

\* clauses as predicates of a data set (the invariants below instantiate them on the state)
RangeOf(dt, W) == LET r == ImplSoC(dt, W) IN r = NoneR \/ (RLe(RInt(0), r) /\ RLe(r, RInt(100)))
NoneIffOf(dt, W) == /\ (ImplSoC(dt, W) = NoneR) <=> (QSoC(dt, W) = {})
                    /\ (ImplCap(dt, W) = NoneR) <=> (QCap(dt, W) = {})
WeightedMeanOf(dt, W) ==
    LET e == DocSoC(dt, W)  r == ImplSoC(dt, W) IN
    /\ (e[1] = 0) <=> (r = NoneR)
    /\ (e[1] = 2) => r = <<e[2], e[3]>>
CapacityIsSumOf(dt, W) ==
    LET e == DocCap(dt, W)  r == ImplCap(dt, W) IN
    IF e[1] = 0 THEN r = NoneR ELSE r = <<e[2], e[3]>>
MonotoneOf(dt, W) ==
    \A b \in Bats : \A s \in IncSet(dt, b) :
       LET r == ImplSoC(dt, W)  r2 == ImplSoC(WithSoc(dt, b, s), W) IN
       IF r = NoneR THEN r2 = NoneR ELSE (r2 # NoneR /\ RLe(r, r2))
ScaleInvariantOf(dt, W) == \A k \in Factors : ImplSoC(Scaled(dt, k), W) = ImplSoC(dt, W)
ExcludedOf(dt, W) ==
    /\ ImplSoC(PruneSoC(dt, W), QSoC(dt, W)) = ImplSoC(dt, W)
    /\ ImplCap(PruneCap(dt, W), QCap(dt, W)) = ImplCap(dt, W)

----------------------------------------------------------------------------
(* (c) the state machine *)
EmitOn == "OUT_FILE" \in DOMAIN IOEnv
Emit(v) == IF EmitOn THEN CSVWrite("%1$s", <<ToJson(v)>>, IOEnv.OUT_FILE) ELSE TRUE

WSeq(W) == [b \in Bats |-> b \in W]
Pub(dt, W) == [soc |-> ImplSoC(dt, W), cap |-> ImplCap(dt, W)]
Exps(dt, W) == [exp |-> DocSoC(dt, W), expc |-> DocCap(dt, W)]

\* the relational probes of one data set, as sequences (for the replay)
IncList(dt, W) ==
    ConcatTo([b \in Bats |-> LET ss == SeqOfSet(IncSet(dt, b)) IN
                 [i \in 1..Len(ss) |-> [b |-> b, soc |-> ss[i], exp |-> DocSoC(WithSoc(dt, b, ss[i]), W)]]], NB)
ScaleList(dt, W) ==
    LET ks == SeqOfSet(Factors) IN [i \in 1..Len(ks) |-> [k |-> ks[i], exp |-> DocSoC(Scaled(dt, ks[i]), W)]]
Case(dt, W) == [data |-> dt, w |-> WSeq(W), exp |-> DocSoC(dt, W), expc |-> DocCap(dt, W),
                inc |-> IncList(dt, W), scale |-> ScaleList(dt, W)]

\* LatestMetricsFetcher.fetch_next: a NaN field is dropped, i.e. the metric is missing
FetchDrop(m) == [p |-> TRUE,
                 cap |-> IF m.cap = NaN THEN None ELSE m.cap, soc |-> IF m.soc = NaN THEN None ELSE m.soc,
                 lo  |-> IF m.lo  = NaN THEN None ELSE m.lo,  hi  |-> IF m.hi  = NaN THEN None ELSE m.hi]

\* ---- (d) wrapper layer -------------------------------------------------------
IsPool == Mode \in {"pool", "poolsim"}
Metrics == {"soc", "cap"}
AggOff == [on |-> FALSE, w |-> {}, data |-> [b \in Bats |-> Absent], due |-> [b \in Bats |-> MaxAge], warm |-> 0]
\* one SendOnUpdate: a message, a new working set (eviction), one tick (time-outs, warm-up)
AggMsg(a, b, m) == [a EXCEPT !.data[b] = FetchDrop(m), !.due[b] = MaxAge]
AggSetW(a, W) == [a EXCEPT !.w = W, !.data = [b \in Bats |-> IF b \in a.w \ W THEN Absent ELSE a.data[b]]]
AggTick(a) == [a EXCEPT !.data = [b \in Bats |-> IF a.due[b] = 1 THEN Empty ELSE a.data[b]],
                        !.due = [b \in Bats |-> IF a.due[b] = 1 THEN MaxAge ELSE a.due[b] - 1],
                        !.warm = Max2(0, a.warm - 1)]
Publishing(a) == a.on /\ a.warm = 0
\* expectation triples of the two public streams; kind 3 = nothing published (not requested / warming up)
PExps(ag) == [exp  |-> IF Publishing(ag["soc"]) THEN DocSoC(ag["soc"].data, ag["soc"].w) ELSE <<3, 0, 1>>,
              expc |-> IF Publishing(ag["cap"]) THEN DocCap(ag["cap"].data, ag["cap"].w) ELSE <<3, 0, 1>>]

Init ==
    /\ data = [b \in Bats |-> IF Mode = "states" THEN Absent ELSE Empty]
    /\ working \in (IF Mode = "states" THEN SUBSET Bats ELSE {Bats})
    /\ installed = IF Mode = "states" THEN 0 ELSE NB
    /\ due = [b \in Bats |-> MaxAge]
    /\ old = [b \in Bats |-> FALSE]
    /\ pub = Pub(data, working)
    /\ nticks = 0
    /\ refW = {} /\ seen = FALSE /\ agg = [m \in Metrics |-> AggOff]
    /\ h = <<[a |-> "init", w |-> WSeq(working)] @@ (IF IsPool THEN PExps(agg) ELSE Exps(data, working))>>

Ready == installed = NB

\* "states": choose the data of the next battery (one level per battery so that TLC's workers
\* share the enumeration)
Install(d) ==
    /\ Mode = "states" /\ installed < NB
    /\ installed' = installed + 1
    /\ data' = [data EXCEPT ![installed + 1] = d]
    /\ pub' = Pub(data', working)
    /\ UNCHANGED <<working, due, old, nticks, h, pvars>>

\* an API message of battery b travels through fetch_next into _cached_metrics; recalculation
Msg(b, m) ==
    /\ data' = [data EXCEPT ![b] = FetchDrop(m)]
    /\ due' = [due EXCEPT ![b] = MaxAge]
    /\ old' = [old EXCEPT ![b] = FALSE]
    /\ pub' = Pub(data', working)
    /\ UNCHANGED <<working, installed, nticks, pvars>>
    /\ h' = Append(h, [a |-> "msg", b |-> b, cap |-> m.cap, soc |-> m.soc, lo |-> m.lo, hi |-> m.hi]
                      @@ Exps(data', working))

\* SendOnUpdate.update_working_batteries: cached metrics of batteries that stop working are
\* removed; recalculation
SetWorking(W) ==
    /\ W # working
    /\ working' = W
    /\ data' = [b \in Bats |-> IF b \in working \ W THEN Absent ELSE data[b]]
    /\ old' = [b \in Bats |-> IF b \in working \ W THEN data'[b].p ELSE old[b]]
    /\ pub' = Pub(data', working')
    /\ UNCHANGED <<installed, due, nticks, pvars>>
    /\ h' = Append(h, [a |-> "work", w |-> WSeq(W)] @@ Exps(data', working'))

\* one tick of silence: a fetch_next that has waited MaxAge ticks reports the battery without
\* any metric (asyncio.TimeoutError branch) and starts waiting again
Tick ==
    /\ nticks < MaxTicks
    /\ nticks' = nticks + 1
    /\ data' = [b \in Bats |-> IF due[b] = 1 THEN Empty ELSE data[b]]
    /\ due' = [b \in Bats |-> IF due[b] = 1 THEN MaxAge ELSE due[b] - 1]
    /\ old' = [b \in Bats |-> IF due[b] = 1 THEN FALSE ELSE old[b]]
    /\ pub' = Pub(data', working)
    /\ UNCHANGED <<working, installed, pvars>>
    /\ h' = Append(h, [a |-> "tick"] @@ Exps(data', working))

\* BatteryPoolReferenceStore._update_battery_status: the store takes the working set of the status
\* message and hands it to every aggregator that exists
StatusUpdate(W) ==
    /\ refW' = W /\ seen' = TRUE
    /\ agg' = [m \in Metrics |-> IF agg[m].on THEN AggSetW(agg[m], W) ELSE agg[m]]
    /\ UNCHANGED <<cvars, nticks>>
    /\ h' = Append(h, [a |-> "status", w |-> WSeq(W)] @@ PExps(agg'))

\* first access of BatteryPool.soc / .capacity: SendOnUpdate(working_batteries = the store's current
\* working set), empty cache, fetchers start waiting, warm-up before the first result
FirstUse(m) ==
    /\ ~agg[m].on
    /\ agg' = [agg EXCEPT ![m] = [on |-> TRUE, w |-> refW, data |-> [b \in Bats |-> Absent],
                                   due |-> [b \in Bats |-> MaxAge], warm |-> Warm]]
    /\ UNCHANGED <<cvars, nticks, refW, seen>>
    /\ h' = Append(h, [a |-> "use", m |-> m] @@ PExps(agg'))

PoolMsg(b, m) ==
    /\ agg' = [k \in Metrics |-> IF agg[k].on THEN AggMsg(agg[k], b, m) ELSE agg[k]]
    /\ UNCHANGED <<cvars, nticks, refW, seen>>
    /\ h' = Append(h, [a |-> "msg", b |-> b, cap |-> m.cap, soc |-> m.soc, lo |-> m.lo, hi |-> m.hi] @@ PExps(agg'))

PoolTick ==
    /\ nticks < MaxTicks
    /\ nticks' = nticks + 1
    /\ agg' = [k \in Metrics |-> IF agg[k].on THEN AggTick(agg[k]) ELSE agg[k]]
    /\ UNCHANGED <<cvars, refW, seen>>
    /\ h' = Append(h, [a |-> "tick"] @@ PExps(agg'))

Guard == Mode \in {"history", "sim"} /\ Len(h) < MaxDepth
PGuard == IsPool /\ Len(h) < MaxDepth
EmitRule == Mode \in {"history", "pool"} => Emit(h')
StatusStep == /\ PGuard
              /\ IF Mode = "poolsim" THEN LET W == RandomElement(SUBSET Bats) IN StatusUpdate(W)
                 ELSE \E W \in SUBSET Bats : W # refW /\ StatusUpdate(W)
              /\ EmitRule
UseStep == /\ PGuard
           /\ IF Mode = "poolsim" THEN LET m == RandomElement(Metrics) IN FirstUse(m)
              ELSE \E m \in Metrics : FirstUse(m)
           /\ EmitRule
PoolMsgStep == /\ PGuard
               /\ \E m \in Metrics : agg[m].on                   \* nobody listens before the first use
               /\ IF Mode = "poolsim" THEN LET b == RandomElement(Bats)  m == RandomElement(MsgSet) IN PoolMsg(b, m)
                  ELSE \E b \in Bats, m \in HMsgs : PoolMsg(b, m)
               /\ EmitRule
PoolTickStep == PGuard /\ PoolTick /\ EmitRule
InstallStep == /\ Mode = "states" /\ installed < NB       \* (repeated here so that finished states cost nothing)
               /\ \E d \in BatSet : Install(d)
               /\ (installed' = NB) => Emit(Case(data', working))
MsgStep == /\ Guard
           /\ IF Mode = "sim"
              THEN LET b == RandomElement(Bats)  m == RandomElement(MsgSet) IN Msg(b, m)
              ELSE \E b \in Bats, m \in HMsgs : Msg(b, m)
           /\ EmitRule
WorkStep == /\ Guard
            /\ IF Mode = "sim"
               THEN LET W == RandomElement(SUBSET Bats \ {working}) IN SetWorking(W)
               ELSE \E W \in SUBSET Bats : SetWorking(W)
            /\ EmitRule
TickStep == Guard /\ Tick /\ EmitRule
SimEmit == (Mode \in {"sim", "poolsim"} /\ Len(h) = MaxDepth) => Emit(h)

Next == InstallStep \/ MsgStep \/ WorkStep \/ TickStep \/ StatusStep \/ UseStep \/ PoolMsgStep \/ PoolTickStep
Spec == Init /\ [][Next]_vars

----------------------------------------------------------------------------
(* invariants checked by TLC on the model *)
TypeOK == /\ working \subseteq Bats
          /\ \A b \in Bats : data[b].p \in BOOLEAN /\ due[b] \in 1..MaxAge
Range == Ready => RangeOf(data, working)
NoneIffNoQualifier == Ready => NoneIffOf(data, working)
WeightedMean == Ready => WeightedMeanOf(data, working)
CapacityIsSum == Ready => CapacityIsSumOf(data, working)
Monotone == Ready => MonotoneOf(data, working)
ScaleInvariant == Ready => ScaleInvariantOf(data, working)
Excluded == Ready => ExcludedOf(data, working)
\* the state machine: what is published is the aggregate of the current cache and working set,
\* NaN never reaches the calculators, and nothing received before a battery stopped working
\* survives in the cache
PublishedIsCurrent == pub = Pub(data, working)
CacheNoNaN == \A b \in Bats : NaN \notin {data[b].cap, data[b].soc, data[b].lo, data[b].hi}
NoStaleData == \A b \in Bats : ~old[b]
\* wrapper layer: every aggregator that exists works on the store's current working set (whenever it
\* was created), holds no NaN, and keeps nothing of a battery outside that set that it had before
AggFollowsStore == \A m \in Metrics : agg[m].on => agg[m].w = refW
AggCacheNoNaN == \A m \in Metrics, b \in Bats :
                    NaN \notin {agg[m].data[b].cap, agg[m].data[b].soc, agg[m].data[b].lo, agg[m].data[b].hi}

=============================================================================
