------------------------- MODULE FormulaCompileTrace -------------------------
(* Conformance of the real formula engine with FormulaCompile.tla and          *)
(* evaluation of every C05 / C13 clause, by TLC, on what the real code did.    *)
(*                                                                              *)
(* Input (ndjson, IOEnv.TRACE_FILE): one object per CASE = one program built    *)
(* for real once (ResampledFormulaBuilder.from_string / push API /              *)
(* FormulaEngine.from_receiver + operator methods + HigherOrderFormulaBuilder   *)
(* .build) and fed all environments as consecutive timestamps:                  *)
(*   id, front, z, tree, toks      the case TLC generated                       *)
(*   rsteps   post-fix program found in the real builder (<<>> if unavailable)  *)
(*   rtoks    token deque of the real HigherOrderFormulaBuilder (front "ho")    *)
(*   nfetch   number of metric fetchers of the real builder (-1 if unavailable) *)
(*   stray    samples received with a timestamp that was never sent             *)
(*   sent     number of timestamps sent                                         *)
(*   rounds   per timestamp: inp (value codes sent), cnt (samples received for   *)
(*            that timestamp), cls ("num" | "none" | "nosample"), exp / mod      *)
(*            (the rationals of the generated case the float was compared       *)
(*            with), eq / eqm (float = exp / mod within 1e-9), vi (value*1000)   *)
(* The spec actions are re-executed on the recorded arguments (Pick, the token  *)
(* pushes, Finalize, one Round per timestamp); the clauses are evaluated on the *)
(* recorded observations.  A false clause is written to IOEnv.VERDICT_FILE and  *)
(* the trace continues.  The transcription follows the repaired step classes;   *)
(* a failing record that came out exactly as the LEGACY semantics of a step     *)
(* class give it, on an input where that class met its cause (NaN second        *)
(* operand of min/max, zero divisor), carries the name of that former defect    *)
(* in `deviations` (Dev_MinMaxDropsNaNOperand, Dev_DivisionByZeroDropsSample).  *)
EXTENDS FormulaCompile

VARIABLES tid, l, acc
tvars == <<vars, tid, l, acc>>

TraceLog == ndJsonDeserialize(IOEnv.TRACE_FILE)
Tr == TraceLog[tid]

Say(v) == CSVWrite("%1$s", <<ToJson(v)>>, IOEnv.VERDICT_FILE)
Fail(clause, detail, devs) ==
    Say([tid |-> Tr.id, l |-> l, clause |-> clause, detail |-> detail, deviations |-> devs])
\* always TRUE; reports when the clause is false
Check(ok, clause, detail, devs) == IF ok THEN TRUE ELSE Fail(clause, detail, devs)

Acc0 == [c05 |-> 0, noneiff |-> 0, wantnone |-> 0, zero |-> 0, twin |-> 0, sample |-> 0,
         causeminmax |-> 0, causediv0 |-> 0, clipnan |-> 0, clipact |-> 0, cov |-> {}]

ZOf(z) == [leaf |-> z.leaf, glob |-> z.glob]

TInit ==
    /\ tid \in 1..Len(TraceLog)
    /\ l = 0 /\ acc = Acc0
    /\ Init

Done == Say([tid |-> Tr.id, done |-> TRUE, acc |-> [acc' EXCEPT !.cov = {}], cov |-> acc'.cov])

\* the program is written down through the recorded front end
TPick ==
    /\ l = 0
    /\ Pick(Tr.tree, Tr.front, ZOf(Tr.z))
    /\ Check(toks' = Tr.toks, "BIND.Tokens", <<"rendered", toks', "recorded", Tr.toks>>, <<>>)
    /\ l' = 1 /\ UNCHANGED <<tid, acc>>

\* FormulaBuilder consumes the tokens one by one (not observable one by one on the real
\* builder: silent steps, deterministic)
TPush ==
    /\ l = 1
    /\ (PushOperStep \/ PushMetricStep \/ PushConstantStep \/ PushClipperStep)
    /\ UNCHANGED <<tid, l, acc>>

TFinalize ==
    /\ l = 1
    /\ FinalizeStep
    /\ Check(Tr.rsteps = <<>> \/ Tr.rsteps = b'.steps, "DIS.PostfixConform",
             <<"real", Tr.rsteps, "transcription", b'.steps>>, <<>>)
    /\ Check(Tr.rtoks = <<>> \/ Tr.rtoks = toks, "DIS.TokensConform",
             <<"real", Tr.rtoks, "RenderHO", toks>>, <<>>)
    /\ Check(Tr.nfetch = -1 \/ Tr.nfetch = Cardinality(MetricsOf(prog)), "C05.SharedFetcher",
             <<"fetchers", Tr.nfetch, "metrics", MetricsOf(prog)>>, <<>>)
    /\ Check(Tr.stray = 0, "C13.SampleForEveryTimestamp", <<"samples with a timestamp never sent", Tr.stray>>, <<>>)
    /\ Check(Len(Tr.rounds) = Tr.sent, "BIND.Rounds", <<"timestamps sent", Tr.sent, "rounds recorded", Len(Tr.rounds)>>, <<>>)
    /\ l' = 2 /\ UNCHANGED <<tid, acc>>
    /\ (Len(Tr.rounds) = 0) => Done

\* root-level operator / operand position whose only missing input is this operand
CovKeys(env) ==
    LET miss(e) == e.k = "m" /\ Missing(env[e.i]) /\ ~ZEff(front, zc, e.i)
        ok(e) == e.k = "c" \/ (e.k = "m" /\ ~Missing(env[e.i])) IN
    IF prog.k = "b" /\ miss(prog.l) /\ ok(prog.r) THEN {prog.op \o ":L"}
    ELSE IF prog.k = "b" /\ ok(prog.l) /\ miss(prog.r) THEN {prog.op \o ":R"}
    ELSE IF prog.k = "u" /\ miss(prog.a) THEN {prog.op \o ":A"}
    ELSE IF prog.k = "cl" /\ miss(prog.a) THEN {"clip:A"}
    ELSE {}

TRound ==
    /\ l >= 2 /\ l - 1 <= Len(Tr.rounds)
    /\ LET r == Tr.rounds[l - 1]
           env == r.inp
       IN
       /\ Round(env)
       /\ UNCHANGED hist
       /\ LET W == want'
              mo == last'
              used == MetricsOf(prog)
              obsNone == r.cls = "none"
              obsNum == r.cls = "num"
              conform == /\ r.cnt = mo.cnt
                         /\ mo.cnt = 1 => (IF IsNaN(mo.v) THEN obsNone ELSE obsNum /\ r.eqm)
              \* the recorded outcome is what outcome o of a legacy run says (numbers through vi)
              nearVi(v) == /\ Abs(r.vi) < 1000000 /\ v[2] < 1000 /\ Abs(v[1]) < 1000000
                           /\ Abs(r.vi * v[2] - 1000 * v[1]) <= v[2]
              asLegacy(o) == /\ r.cnt = o.cnt
                             /\ o.cnt = 1 => (IF IsNaN(o.v) THEN obsNone ELSE obsNum /\ nearVi(o.v))
              leg(lg) == RoundOfSem(front, zc, b, env, lg)
              devMinMax == \E lg \in {LegMinMax, LegBoth} : leg(lg).drop /\ asLegacy(leg(lg))
              devDiv0 == \E lg \in {LegDiv, LegBoth} : leg(lg).div0 /\ asLegacy(leg(lg))
              devs == IF conform THEN <<>>
                      ELSE (IF devMinMax THEN <<"Dev_MinMaxDropsNaNOperand">> ELSE <<>>) \o
                           (IF devDiv0 THEN <<"Dev_DivisionByZeroDropsSample">> ELSE <<>>)
              what == <<"inp", env, "cnt", r.cnt, "cls", r.cls, "vi", r.vi, "intended", W,
                        "transcription", <<mo.cnt, mo.v, mo.exc>>>>
              a05 == Finite(env, used) /\ ~IsNaN(W)
              aNone == r.cnt >= 1
              aZero == HasMissing(env, used) /\ \A i \in used : Missing(env[i]) => ZEff(front, zc, i)
              twins == {k \in 1..Len(Tr.rounds) : Tr.rounds[k].inp = Zeroed(env)}
              valueOK == r.cnt = 1 /\ obsNum /\ r.eq
           IN
           \* the float was compared with the rationals this specification computes for this input
           /\ Check(r.exp = W /\ r.mod = <<mo.cnt, mo.v[1], mo.v[2]>>, "BIND.Expected",
                    <<"recorded", r.exp, r.mod, "computed", W, mo.cnt, mo.v>>, <<>>)
           /\ Check(a05 => valueOK, "C05.ValueEqualsArithmetic", what, devs)
           /\ Check(aNone => (obsNone <=> IsNaN(W)), "C13.NoneIffMissingOrUndefined", what, devs)
           /\ Check((aZero /\ ~IsNaN(W)) => valueOK, "C13.ZeroWhenConfigured", what, devs)
           /\ Check(aZero => \A k \in twins : /\ Tr.rounds[k].cnt = r.cnt
                                              /\ Tr.rounds[k].cls = r.cls
                                              /\ Tr.rounds[k].vi = r.vi,
                    "C13.ZeroWhenConfigured", <<"differs from the round with zeros instead", what>>, devs)
           /\ Check(r.cnt = 1, "C13.SampleForEveryTimestamp", what, devs)
           /\ Check(conform, "DIS.RoundConform", what, <<>>)
           /\ acc' = [acc EXCEPT
                        !.c05 = @ + (IF a05 THEN 1 ELSE 0),
                        !.noneiff = @ + (IF aNone THEN 1 ELSE 0),
                        !.wantnone = @ + (IF aNone /\ IsNaN(W) THEN 1 ELSE 0),
                        !.zero = @ + (IF aZero /\ ~IsNaN(W) THEN 1 ELSE 0),
                        !.twin = @ + (IF aZero THEN Cardinality(twins) ELSE 0),
                        !.sample = @ + 1,
                        !.causeminmax = @ + (IF mo.drop THEN 1 ELSE 0),
                        !.causediv0 = @ + (IF mo.div0 THEN 1 ELSE 0),
                        !.clipnan = @ + (IF mo.clipnan THEN 1 ELSE 0),     \* a missing value reached a clipper
                        !.clipact = @ + (IF mo.clipact THEN 1 ELSE 0),     \* a clipper changed a number
                        !.cov = @ \cup CovKeys(env)]
    /\ l' = l + 1 /\ UNCHANGED tid
    /\ (l' - 1 > Len(Tr.rounds)) => Done

TNext == TPick \/ TPush \/ TFinalize \/ TRound
=============================================================================
