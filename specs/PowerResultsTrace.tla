------------------------- MODULE PowerResultsTrace -------------------------
(* Conformance of the real PVManager / BatteryManager with PowerResults.tla   *)
(* and evaluation of every C15 clause on what the real code did.              *)
(*                                                                            *)
(* Input (ndjson, IOEnv.TRACE_FILE), one object per processed request:        *)
(*   id, kind ("pv" | "bat"), forced (battery: the distribution was handed to *)
(*   the manager by the harness instead of being computed by the real         *)
(*   algorithm), n, topo (inverter index -> array of component indices        *)
(*   behind it), bd (PV: lower bounds, model units), req (model units),       *)
(*   out (scripted outcome per inverter), s / r (forced distribution), bad    *)
(*   (battery index -> "ok" | "nw" | "nan": how the harness made it unusable), *)
(*   and                                                                       *)
(*   ev = the events observed on the fake API client / results channel, in    *)
(*   order, powers as integer mW:                                             *)
(*     [e |-> "config"]                manager built over this microgrid      *)
(*     [e |-> "request", req]          the Request handed to distribute_power *)
(*     [e |-> "dist", s, r]            battery: DistributionResult returned   *)
(*                                     by the distribution algorithm          *)
(*     [e |-> "call", c, p]            set_power(c, p) reached the client     *)
(*     [e |-> "reply", c, o]           the client returned / raised           *)
(*     [e |-> "timeout"]               the clock passed the request timeout   *)
(*     [e |-> "cancel", c]             the pending call was cancelled         *)
(*     [e |-> "result", type, sp, fp, ex, succ, failed]   Result received     *)
(*     [e |-> "noresult", why]         nothing arrived on the results channel *)
(* Every event re-executes the corresponding action of PowerResults on the    *)
(* recorded arguments (guards become CONF.* reports, the step itself is       *)
(* total), internal actions (PVDistribute, Collected, Parse, Send) run as     *)
(* soon as they are enabled.  Clause verdicts go to IOEnv.VERDICT_FILE:       *)
(*   C15.*   property clauses, on recorded values only                        *)
(*   AUX.*   auxiliary observations (not part of the property)                *)
(*   CONF.*  the code differs from the transcription (spec drift)             *)
EXTENDS PowerResults

VARIABLES tid, l
tvars == <<vars, tid, l>>

TraceLog == ndJsonDeserialize(IOEnv.TRACE_FILE)
Tr == TraceLog[tid]
NE == Len(Tr.ev)
E == Tr.ev[l]

ToSet(s) == {s[i] : i \in DOMAIN s}
Say(v) == CSVWrite("%1$s", <<ToJson(v)>>, IOEnv.VERDICT_FILE)
Fail(clause, detail, devs) == Say([tid |-> Tr.id, l |-> l, clause |-> clause, detail |-> detail, deviations |-> devs])
Check(ok, clause, detail) == IF ok THEN TRUE ELSE Fail(clause, detail, <<>>)
CheckDev(ok, clause, detail, devs) == IF ok THEN TRUE ELSE Fail(clause, detail, devs)
Done == Say([tid |-> Tr.id, done |-> TRUE])

\* the outcome the API really gave to the call for inverter c: its reply, else no reply in time
EvOutcome(c) ==
    LET R == {k \in 1..NE : Tr.ev[k].e = "reply" /\ Tr.ev[k].c = c}
    IN IF R = {} THEN "to" ELSE Tr.ev[CHOOSE k \in R : TRUE].o
RecCalls == [k \in DOMAIN calls |-> [c |-> calls[k].c, p |-> calls[k].p, o |-> EvOutcome(calls[k].c)]]

TraceCase ==
    [kind |-> Tr.kind, n |-> Tr.n, topo |-> [i \in 1..Tr.n |-> ToSet(Tr.topo[i])],
     bd |-> [i \in DOMAIN Tr.bd |-> Tr.bd[i] * Unit], req |-> 0, out |-> <<>>, prof |-> Tr.prof, bad |-> Tr.bad]

\* internal actions of the specification that are enabled: they run before the next event is read
SilentEnabled ==
    \/ pc = "requested" /\ cs.kind = "pv"
    \/ pc \in {"waiting", "cancelling"} /\ \A c \in Invs : task[c] # "pending"
    \/ pc \in {"collected", "parsed"}
Silent ==
    /\ l <= NE
    /\ (PVDistribute \/ Collected \/ Parse \/ Send)
    /\ UNCHANGED <<tid, l>>

Advance == l' = l + 1 /\ UNCHANGED tid /\ ((l' > NE) => Done)
At(e) == l <= NE /\ ~SilentEnabled /\ E.e = e

ConsumeConfig ==
    /\ At("config")
    /\ Check(pc = "idle", "CONF.ConfiguredOnce", <<"pc", pc>>)
    /\ Configure(TraceCase) /\ KeepH
    /\ Advance

ConsumeRequest ==
    /\ At("request")
    /\ Check(E.req = Tr.req * Unit, "CONF.RequestAsGenerated", <<"sent", E.req, "case", Tr.req>>)
    /\ Request(E.req, Tr.out) /\ KeepH
    /\ Advance

\* E.s has one entry per inverter; E.missing lists the inverters the distribution does not contain
ConsumeDist ==
    /\ At("dist")
    /\ LET act == (1..cs.n) \ ToSet(E.missing) IN
         /\ Check(act = ActiveInvs(cs.topo, cs.bad), "CONF.AddressedGroupsMatchTranscription",
                  <<"distribution over", act, "transcription", ActiveInvs(cs.topo, cs.bad)>>)
         /\ Check(Len(E.s) = cs.n /\ (Tr.forced => (E.r = Tr.r * Unit /\ \A i \in act : E.s[i] = Tr.s[i] * Unit)),
                  "CONF.ForcedDistributionUsed", <<"dist", E.s, E.r>>)
         /\ GivenDistribution([i \in act |-> E.s[i]], E.r) /\ KeepH
    /\ Advance

ConsumeCall ==
    /\ At("call")
    /\ Check(pc = "distributed" /\ E.c \in DOMAIN alloc /\ task[E.c] = "none" /\ Near(E.p, alloc[E.c]),
             "CONF.CallMatchesDistribution", <<"call", E.c, E.p, "distribution", alloc>>)
    /\ (cs.kind = "pv") =>
         Check(E.c \in DOMAIN cs.bd /\ cs.bd[E.c] - Tol <= E.p /\ E.p <= Tol, "C15.PVSetpointsWithinBounds",
               <<"inverter", E.c, "set-point", E.p, "bounds", cs.bd>>)
    /\ SetPowerUpd(E.c, E.p)
    /\ UNCHANGED <<cs, alloc, rem, ord, target, parsed, res, h>>
    /\ Advance

ConsumeReply ==
    /\ At("reply")
    /\ Check(ReplyGuard(E.c, E.o), "CONF.ReplyAsScripted", <<"reply", E.c, E.o>>)
    /\ ReplyUpd(E.c, E.o)
    /\ UNCHANGED <<pc, cs, alloc, rem, ord, calls, target, parsed, res, h>>
    /\ Advance

ConsumeTimeout ==
    /\ At("timeout")
    /\ Check(TimeoutGuard, "CONF.TimeoutWithPendingCalls", <<"pc", pc, "tasks", task>>)
    /\ pc' = "cancelling"
    /\ UNCHANGED <<cs, alloc, rem, ord, calls, task, target, parsed, res, h>>
    /\ Advance

ConsumeCancel ==
    /\ At("cancel")
    /\ Check(CancelGuard(E.c), "CONF.CancelOfPendingCall", <<"cancel", E.c, "pc", pc>>)
    /\ CancelUpd(E.c)
    /\ UNCHANGED <<pc, cs, alloc, rem, ord, calls, target, parsed, res, h>>
    /\ Advance

\* the Result the real manager put on the results channel
RecRes == [type |-> E.type, sp |-> E.sp, fp |-> E.fp, ex |-> E.ex, succ |-> ToSet(E.succ), failed |-> ToSet(E.failed)]
ResultConforms(r) ==
    /\ pc = "sent" /\ r.type = res.type /\ r.succ = res.succ /\ r.failed = res.failed
    /\ Near(r.sp, res.sp) /\ Near(r.fp, res.fp) /\ Near(r.ex, res.ex)
\* cause predicates over the spec's own intermediate values (alloc, rem, target) for this very input;
\* the lost-power label additionally needs the code's result to equal the transcription's
FiredDevs(r) ==
    (IF pc = "sent" /\ Dev_PVSucceededPowerFromStaleTarget(r) THEN <<"Dev_PVSucceededPowerFromStaleTarget">> ELSE <<>>)
    \o (IF ResultConforms(r) /\ Dev_DistributionLostPower THEN <<"Dev_DistributionLostPower">> ELSE <<>>)

ConsumeResult ==
    /\ At("result")
    /\ LET r == RecRes
           cl == RecCalls
           reported == r.type \in {"Success", "PartialFailure"}
           devs == FiredDevs(r)
       IN /\ Check(reported \/ Len(cl) = 0, "C15.ResultReported",
                   <<"set_power was called but the result is", r.type>>)
          /\ reported =>
               /\ CheckDev(C_SumsToRequested(r, cs.req), "C15.SumsToRequested",
                           <<"succeeded", r.sp, "failed", r.fp, "excess", r.ex, "requested", cs.req>>,
                           SelectSeq(devs, LAMBDA d : d = "Dev_PVSucceededPowerFromStaleTarget"))
               /\ Check(C_FailedPowerIsFailedSetpoints(r, cl), "C15.FailedPowerIsFailedSetpoints",
                        <<"failed_power", r.fp, "calls", cl>>)
               /\ Check(C_SetsDisjoint(r), "C15.SetsDisjoint", <<"succeeded", r.succ, "failed", r.failed>>)
               /\ Check(C_SetsCoverAddressed(r, cl, cs.topo), "C15.SetsCoverAddressed",
                        <<"succeeded", r.succ, "failed", r.failed, "addressed", Addressed(cl, cs.topo)>>)
               /\ Check(C_FailedSetIsFailedCalls(r, cl, cs.topo), "C15.FailedSetIsFailedCalls",
                        <<"type", r.type, "succeeded", r.succ, "failed", r.failed, "calls", cl>>)
               /\ CheckDev(A_SucceededIsSucceededSetpoints(r, cl), "AUX.SucceededIsSucceededSetpoints",
                           <<"succeeded_power", r.sp, "calls", cl>>, devs)
               /\ CheckDev(A_ConservesRequest(cl, r.ex, cs.req), "AUX.SetpointsPlusExcessIsRequest",
                           <<"calls", cl, "excess", r.ex, "requested", cs.req>>, devs)
               /\ Check(ResultConforms(r), "CONF.ResultMatchesTranscription", <<"code", r, "spec", res, "pc", pc>>)
          /\ ~reported => Check(Len(cl) = 0, "AUX.RejectedRequestSetsNothing", <<"type", r.type, "calls", cl>>)
    /\ UNCHANGED vars
    /\ Advance

ConsumeNoResult ==
    /\ At("noresult")
    /\ Check(FALSE, "C15.ResultReported", <<"no Result on the results channel", E.why, "calls", RecCalls>>)
    /\ UNCHANGED vars
    /\ Advance

TInit ==
    /\ tid \in 1..Len(TraceLog)
    /\ l = 1
    /\ Init

TNext == Silent \/ ConsumeConfig \/ ConsumeRequest \/ ConsumeDist \/ ConsumeCall \/ ConsumeReply \/ ConsumeTimeout
         \/ ConsumeCancel \/ ConsumeResult \/ ConsumeNoResult
=============================================================================
