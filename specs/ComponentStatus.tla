--------------------------- MODULE ComponentStatus ---------------------------
(* X03 (part 1) - EVChargerStatusTracker / PVInverterStatusTracker: a charger  *)
(* or PV inverter is reported usable only while its latest data message proves *)
(* it healthy and fresh; back-off after failed power commands.                 *)
(*                                                                             *)
(* Both trackers have the same shape (_ev_charger_status_tracker.py,           *)
(* _pv_inverter_status_tracker.py); they differ in what a healthy message is   *)
(* (CompKind: "ev" = cable state EV_PLUGGED/EV_LOCKED and component state      *)
(* READY/CHARGING/DISCHARGING; "pv" = component state DISCHARGING/CHARGING/    *)
(* IDLE/STANDBY).  ONE select() result is handled per action; every handler    *)
(* computes a status from the EVENT ALONE (the trackers keep no data), turns   *)
(* it into UNCERTAIN while blocked, and notifies on change:                    *)
(*   Data    _handle_ev_data / _handle_pv_inverter_data (+ timer.reset())      *)
(*   Res     _handle_set_power_result                                          *)
(*   Timer   missing_data_timer fired: NOT_WORKING                             *)
(*   Late    the timer tick had already been selected when a message of the    *)
(*           same instant was handled first: NOT_WORKING all the same (these   *)
(*           trackers have no "arrived late" check)                            *)
(*   Tick    1 s passes (only when every due timer was processed)              *)
(*                                                                             *)
(* Time unit 1 s.  Message kinds: ok | cable (ev only) | state | stale         *)
(* (timestamp MaxAge+1 old) | edge (timestamp exactly MaxAge old) and the      *)
(* extension kind lag (timestamp 2 s old: lagged but not stale).               *)
(*                                                                             *)
(* The code as it is deviates from the statement in four named ways; every     *)
(* deviating branch is guarded by a repair name in the set `fx` handed to the  *)
(* handler (Fixes in the model; in Mode "trace" any subset, so that the        *)
(* unrepaired, a partly repaired and the repaired tracker are all explained):  *)
(*   "edge"         Dev_EdgeAgeAccepted      `now - ts > max_age`: a message   *)
(*                  exactly MaxAge old counts as fresh (the battery tracker    *)
(*                  was repaired in /repo d120239, these two were not)         *)
(*   "override"     Dev_ResultOverridesData  a SetPowerResult sets WORKING /   *)
(*                  UNCERTAIN (and blocks) although the status is NOT_WORKING, *)
(*                  i.e. without any data proving the component healthy        *)
(*   "unblock"      Dev_SuccessDoesNotUnblock  a success never calls unblock():*)
(*                  the block stays in force and the duration keeps doubling   *)
(*   "unmentioned"  Dev_UnmentionedBlocked   a result that names the component *)
(*                  neither as succeeded nor as failed blocks it               *)
(* MC runs: Fixes = AllFixes (repaired design, strict clauses, DeviationFree)  *)
(* and Fixes = {} (the code as it is, clauses of the form Clause \/ Dev_x).    *)
EXTENDS Integers, Sequences, FiniteSets, TLC, Json, CSV, IOUtils

CONSTANTS CompKind,    \* "ev" | "pv" (documentation only: the kinds differ)
          MaxAge,      \* max_data_age
          MinBlock,    \* BlockingStatus.min_duration (1 s in both trackers)
          MaxBlock,    \* max_blocking_duration
          Horizon,     \* last instant (bounded modes)
          MaxEvents,   \* bound on environment events (bounded modes)
          MaxDepth,    \* history length at which a simulated behaviour is emitted
          Kinds,       \* message kinds the environment may send
          TickW,       \* weight of Tick in simulation
          Mode,        \* "mc" (unbounded) | "gen" | "sim" | "trace"
          Regular,     \* TRUE: the environment avoids what triggers the named deviations (no exactly-max-age message, results
                       \* only for a component reported usable and naming it, a success only while nothing was ever blocked):
                       \* on such behaviours the unrepaired code must satisfy every clause strictly
          Fixes        \* repairs applied to the model (subset of AllFixes)

VARIABLES now,
          msg,     \* ghost: the latest data message [q, ok, lag, arr]: qualifies / handler said WORKING / age at arrival / arrival
          tmr,     \* next tick of missing_data_timer
          late,    \* a selected-but-unhandled timer tick overtaken by a message
          blk,     \* BlockingStatus [until, dur]
          st,      \* _last_status
          ib,      \* ghost: the block the STATEMENT prescribes [act, n, t0]: n-th consecutive failure at t0
          lift,    \* ghost: the status was raised from NOT_WORKING by a set-power result and no data/timer handler ran since
          dev,     \* ghost: [S, U, O] a deviating branch changed the blocking state (sticky)
          last,    \* ghost: the handler that ran last ("init" | "data" | "res" | "timer" | "late")
          fresh,   \* ghost: the status was (re)evaluated at the current instant
          nev,     \* environment events so far
          sent,    \* statuses put on the status channel (hidden by VIEW)
          h        \* history of actions (hidden by VIEW)

vars == <<now, msg, tmr, late, blk, st, ib, lift, dev, last, fresh, nev, sent, h>>

None == -99
AllFixes == {"edge", "override", "unblock", "unmentioned"}
Min2(a, b) == IF a <= b THEN a ELSE b
Max2(a, b) == IF a >= b THEN a ELSE b
NfCap == 8
Bounded == Mode \in {"gen", "sim"}

EmitOn == "OUT_FILE" \in DOMAIN IOEnv
Emit(v) == IF EmitOn THEN CSVWrite("%1$s", <<ToJson(v)>>, IOEnv.OUT_FILE) ELSE TRUE

----------------------------------------------------------------------------
(* message classes *)
Lag(kind) == CASE kind = "stale" -> MaxAge + 1
               [] kind = "edge" -> MaxAge
               [] kind = "lag" -> 2
               [] OTHER -> 0
ContentOk(kind) == kind \in {"ok", "stale", "edge", "lag"}     \* _is_working(data)
\* the statement: younger than the maximum data age and a healthy component (and cable) state
Qualifies(kind) == ContentOk(kind) /\ Lag(kind) < MaxAge
\* _is_stale: `now - timestamp > max_data_age`; repaired ("edge"): `>=`
Stale(kind, fx) == IF "edge" \in fx THEN Lag(kind) >= MaxAge ELSE Lag(kind) > MaxAge

NoMsg == [q |-> FALSE, ok |-> FALSE, lag |-> 0, arr |-> None]

----------------------------------------------------------------------------
(* BlockingStatus *)
Blocked(k, t) == k.until # None /\ k.until > t
Unblock(k) == [k EXCEPT !.until = None]
BlockAt(k, t) ==
    IF k.until = None THEN [until |-> t + MinBlock, dur |-> MinBlock]
    ELSE IF k.until > t THEN k                                     \* still blocked: do nothing
    ELSE LET d == Min2(2 * k.dur, MaxBlock) IN [until |-> t + d, dur |-> d]
Block(k) == BlockAt(k, now)

\* the statement: the n-th consecutive failure blocks for min(2^(n-1) * min, max); a success resets
BackoffDur(n) == IF n < 1 THEN 0 ELSE Min2((2 ^ (n - 1)) * MinBlock, MaxBlock)
IUntil(i) == i.t0 + BackoffDur(i.n)
IBlocked(i, t) == i.act /\ IUntil(i) > t
\* a failed command counts when the component was reported usable and no block is in force
IdealAfter(i, f, s, t) ==
    IF f = "ok" THEN [act |-> FALSE, n |-> 0, t0 |-> 0]
    ELSE IF f = "fail" /\ s # "NW" /\ ~IBlocked(i, t)
         THEN [act |-> TRUE, n |-> IF i.act THEN Min2(i.n + 1, NfCap) ELSE 1, t0 |-> t]
         ELSE i

----------------------------------------------------------------------------
(* common tail of every handler: UNCERTAIN while blocked, notify on change *)
Finish(base, k) ==
    LET new == IF Blocked(k, now) /\ base # "NW" THEN "UN" ELSE base IN
    /\ blk' = k
    /\ st' = new
    /\ fresh' = TRUE
    /\ sent' = IF new # st THEN Append(sent, new) ELSE sent

Init ==
    /\ now = 0
    /\ msg = NoMsg
    /\ tmr = MaxAge
    /\ late = FALSE
    /\ blk = [until |-> None, dur |-> MinBlock]
    /\ st = "NW"
    /\ ib = [act |-> FALSE, n |-> 0, t0 |-> 0]
    /\ lift = FALSE
    /\ dev = [S |-> FALSE, U |-> FALSE, O |-> FALSE]
    /\ last = "init"
    /\ fresh = FALSE
    /\ nev = 0
    /\ sent = <<"NW">>          \* "Send initial status"
    /\ h = <<>>

\* every due timer tick has been handled
Quiescent == tmr > now /\ ~late

Tick ==
    /\ Quiescent /\ (Bounded => now < Horizon)
    /\ now' = now + 1
    /\ fresh' = FALSE
    /\ UNCHANGED <<msg, tmr, late, blk, st, ib, lift, dev, last, nev, sent>>

\* lt: the timer tick had already been selected when the message is handled (it will still be handled: Late)
Data(kind, lt, fx) ==
    LET base == IF ~Stale(kind, fx) /\ ContentOk(kind) THEN "WK" ELSE "NW" IN
    /\ ~late
    /\ lt => tmr <= now
    /\ tmr' = now + MaxAge                       \* missing_data_timer.reset()
    /\ late' = lt
    /\ msg' = [q |-> Qualifies(kind), ok |-> base = "WK", lag |-> Lag(kind), arr |-> now]
    /\ lift' = FALSE
    /\ last' = "data"
    /\ nev' = nev + 1
    /\ Finish(base, blk)
    /\ UNCHANGED <<now, ib, dev>>

\* one SetPowerResult; f = "ok" (in succeeded) | "fail" (in failed) | "none" (not mentioned)
Res(f, fx) ==
    LET guard == "override" \in fx /\ st = "NW"                   \* repaired: a result cannot raise NOT_WORKING
        hit == f = "fail" \/ (f = "none" /\ "unmentioned" \notin fx)   \* the handler treats it as a failure
        k1 == IF f = "ok" THEN (IF "unblock" \in fx THEN Unblock(blk) ELSE blk)
              ELSE IF hit /\ ~guard THEN Block(blk) ELSE blk
        base == IF guard THEN "NW"
                ELSE IF f = "ok" THEN "WK"
                ELSE IF hit THEN "UN"
                ELSE IF st = "NW" THEN "NW" ELSE "WK"
        new == IF Blocked(k1, now) /\ base # "NW" THEN "UN" ELSE base
    IN /\ ib' = IdealAfter(ib, f, st, now)
       /\ lift' = (lift \/ (st = "NW" /\ new # "NW"))
       /\ dev' = [S |-> dev.S \/ (f = "ok" /\ k1.until # None),
                  U |-> dev.U \/ (f = "none" /\ k1 # blk),
                  O |-> dev.O \/ (st = "NW" /\ f # "ok" /\ k1 # blk)]
       /\ last' = "res"
       /\ nev' = nev + 1
       /\ Finish(base, k1)
       /\ UNCHANGED <<now, msg, tmr, late>>

Timer ==
    /\ tmr <= now /\ ~late
    /\ tmr' = tmr + MaxAge
    /\ lift' = FALSE
    /\ last' = "timer"
    /\ Finish("NW", blk)
    /\ UNCHANGED <<now, msg, late, ib, dev, nev>>

Late ==
    /\ late
    /\ late' = FALSE
    /\ lift' = FALSE
    /\ last' = "late"
    /\ Finish("NW", blk)
    /\ UNCHANGED <<now, msg, tmr, ib, dev, nev>>

----------------------------------------------------------------------------
Hist == Mode \in {"gen", "sim"}
EnvOk == Bounded => nev < MaxEvents
Log(r) == h' = (IF Hist THEN Append(h, r) ELSE h)
EmitRule == Mode = "gen" => Emit(h')
\* which repairs a handler may show: the model's own, in Mode "trace" any
FxData == IF Mode = "trace" THEN {{}, {"edge"}} ELSE {Fixes \cap {"edge"}}
FxRes == IF Mode = "trace" THEN SUBSET {"override", "unblock", "unmentioned"}
         ELSE {Fixes \cap {"override", "unblock", "unmentioned"}}

TickStep == /\ \E w \in 1..(IF Mode = "sim" THEN TickW ELSE 1) : Tick /\ Log([a |-> "tick", w |-> w])
            /\ EmitRule
DataStep == /\ EnvOk
            /\ \E kind \in (IF Regular THEN Kinds \ {"edge"} ELSE Kinds), lt \in BOOLEAN, fx \in FxData :
                 Data(kind, lt, fx) /\ Log([a |-> "msg", kind |-> kind, late |-> lt, pre |-> tmr <= now])
            /\ EmitRule
ResStep == /\ EnvOk
           /\ \E f \in {"ok", "fail", "none"}, fx \in FxRes :
                /\ Regular => (st # "NW" /\ f # "none" /\ (f = "ok" => blk.until = None))
                /\ Res(f, fx) /\ Log([a |-> "res", f |-> f])
           /\ EmitRule
TimerStep == Timer /\ Log([a |-> "timer"]) /\ EmitRule
LateStep == Late /\ Log([a |-> "late"]) /\ EmitRule

Next == TickStep \/ DataStep \/ ResStep \/ TimerStep \/ LateStep
Spec == Init /\ [][Next]_vars

SimEmit == (Mode = "sim" /\ Len(h) = MaxDepth) => Emit(h)

(* VIEW: the state relative to `now`; the future of a block depends on its remaining time and on  *)
(* the duration the next failure would get, so the quotient is finite and Mode "mc" is unbounded. *)
RelM == IF msg.arr = None THEN <<msg.ok>> ELSE <<msg.q, msg.ok, msg.lag, Min2(now - msg.arr, MaxAge)>>
RelK == <<IF blk.until = None THEN None ELSE Max2(blk.until - now, 0), blk.dur>>
RelI == <<ib.act, IF ib.act THEN Max2(IUntil(ib) - now, 0) ELSE 0, BackoffDur(ib.n)>>
View == <<RelM, tmr - now, late, RelK, st, RelI, lift, dev, last, fresh>>

----------------------------------------------------------------------------
(* X03, tracker clauses *)
\* what the latest message proves, measured from its arrival
Proves == msg.arr # None /\ msg.q /\ now - msg.arr < MaxAge
ChanStatus == sent[Len(sent)]

\* named deviations (cause predicates over the model's own state)
Dev_EdgeAgeAccepted == msg.arr # None /\ msg.ok /\ msg.lag = MaxAge /\ now - msg.arr < MaxAge
Dev_ResultOverridesData == lift          \* the reported status rests on a result, not on data
Dev_ResultBlocksNotWorking == dev.O      \* same cause seen in the blocking state (one finding, one name in the verdicts)
Dev_SuccessDoesNotUnblock == dev.S
Dev_UnmentionedBlocked == dev.U
DeviationFree == ~Dev_EdgeAgeAccepted /\ ~lift /\ ~dev.S /\ ~dev.U /\ ~dev.O

WorkingImpliesHealthyAndFresh == Quiescent => (st \in {"WK", "UN"} => Proves)
NotWorkingWhenDisqualified == Quiescent => (~Proves => ChanStatus = "NW")
\* documented ("reports WORKING when an EV is connected and power can be allocated to it"): a qualifying
\* message that was handled last leaves the component usable
WorkingWhenHealthy == (last = "data" /\ msg.q /\ msg.arr = now) => st # "NW"
ChannelIsStatus == ChanStatus = st
NotifyOnlyOnChange ==
    [][sent' # sent => /\ Len(sent') = Len(sent) + 1
                       /\ sent'[Len(sent')] # ChanStatus]_vars
BackoffDoubles ==
    /\ (blk.until = None) <=> ~ib.act
    /\ ib.act => (blk.dur = BackoffDur(ib.n) /\ blk.until = IUntil(ib))
    /\ (st # "NW" /\ IBlocked(ib, now)) => st = "UN"                    \* UNCERTAIN during the block
    /\ (fresh /\ st # "NW") => (st = "UN" <=> IBlocked(ib, now))        \* WORKING at the first evaluation after it
    /\ st = "UN" => ib.act

\* the code as it is: every clause holds or a named deviation explains the state
WorkingImpliesHealthyAndFreshOrDev ==
    WorkingImpliesHealthyAndFresh \/ Dev_EdgeAgeAccepted \/ Dev_ResultOverridesData
NotWorkingWhenDisqualifiedOrDev ==
    NotWorkingWhenDisqualified \/ Dev_EdgeAgeAccepted \/ Dev_ResultOverridesData
BackoffDoublesOrDev ==
    BackoffDoubles \/ Dev_SuccessDoesNotUnblock \/ Dev_UnmentionedBlocked \/ Dev_ResultBlocksNotWorking

TypeOK ==
    /\ now >= 0 /\ st \in {"NW", "UN", "WK"} /\ blk.dur \in MinBlock..MaxBlock
    /\ CompKind \in {"ev", "pv"} /\ Fixes \subseteq AllFixes /\ Regular \in BOOLEAN
=============================================================================
