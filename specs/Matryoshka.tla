----------------------------- MODULE Matryoshka -----------------------------
(* State machine of one component group's bucket in the power manager's      *)
(* Matryoshka algorithm: proposals arrive, replace, age and expire; system   *)
(* bounds change; after every step the target is (re)computed.               *)
(*                                                                            *)
(* C03  Envelope, ExpiredDoNotCount, MemoConsistent (history-freedom is       *)
(*      structural here: the target is an operator of <<bucket, sys>>; the    *)
(*      conformance replay shows the CODE has the same shape)                 *)
(* C04  ClosestAdmissible, NoPrefZero, ReportedRangeIsHonoured,               *)
(*      AdjustToBoundsAgrees, EmptyProposalIsNoProposal                       *)
EXTENDS MatryoshkaOps, TLC, Json, CSV, IOUtils

CONSTANTS MaxAge,     \* proposals older than this (strictly) are dropped
          MaxClock,   \* bound on the clock (state constraint of the model only)
          MaxDepth,   \* bound on history length
          XG,         \* exclusion bounds range over -XG..0 and 0..XG
          Shards, Shard, \* "states" mode explores the system bounds with Pick(s) = Shard (Shards = 1: all)
          ExclInside, \* restrict system bounds to exclusion zone inside inclusion bounds
          HPref, HLo, HHi,  \* alphabet of proposals in "history" mode (subsets of OptGrid)
          Mode        \* "sim": like history, full alphabet, emit only full-length histories
                      \* "states": every bucket/bounds as an initial state, no steps
                      \* "history": start empty, explore actions, emit one history per transition

VARIABLES bucket,   \* actor -> proposal [pref, lo, hi, live, t]
          created,  \* the code's bucket dict has an entry for the group
          sys,      \* current system bounds
          clock,
          memo,     \* last target handed out (None before the first)
          h         \* history of actions (hidden by VIEW)

vars == <<bucket, created, sys, clock, memo, h>>
View == <<bucket, created, sys, clock, memo>>

\* C03 quantifies over every system bounds with lower <= 0 <= upper and an exclusion zone containing 0;
\* the zone need not lie inside the inclusion bounds (ExclInside = TRUE restricts to that case)
SysSet == {s \in [has : BOOLEAN, lo : -G..0, hi : 0..G, xlo : -XG..0, xhi : 0..XG] :
             /\ ((s.has /\ ExclInside) => s.lo <= s.xlo /\ s.xhi <= s.hi)
             /\ (~s.has => s.lo = 0 /\ s.hi = 0)}
PropSet == {q \in [pref : OptGrid, lo : OptGrid, hi : OptGrid, live : {TRUE}, t : {0}] :
              (q.lo # None /\ q.hi # None) => q.lo <= q.hi}
PropSetH == IF Mode = "history"
            THEN {q \in PropSet : q.pref \in HPref /\ q.lo \in HLo /\ q.hi \in HHi}
            ELSE PropSet
SysPick(s) == ((s.lo + G) * 7 + s.hi * 5 + (s.xlo + XG) * 3 + s.xhi + (IF s.has THEN 1 ELSE 0)) % Shards = Shard
SysSetH == IF Mode = "states" THEN {s \in SysSet : SysPick(s)} ELSE IF Mode = "history" THEN {s \in SysSet : s.has => (s.lo = -G /\ s.hi = G)} ELSE SysSet
SysRec(s) == [a |-> "bounds", has |-> s.has, lo |-> s.lo, hi |-> s.hi, xlo |-> s.xlo, xhi |-> s.xhi]
NoSys(s) == ~s.has /\ ~HasExcl(s)

EmitOn == "OUT_FILE" \in DOMAIN IOEnv
Emit(v) == IF EmitOn THEN CSVWrite("%1$s", <<ToJson(v)>>, IOEnv.OUT_FILE) ELSE TRUE

----------------------------------------------------------------------------
EmptyBucket == [a \in Actors |-> NoProp]

Init ==
    /\ clock = 0
    /\ bucket = EmptyBucket /\ sys \in SysSetH /\ created = FALSE /\ memo = None
    /\ h = <<SysRec(sys)>>

\* "states" mode: one step from every system-bounds value to every bucket (the second level
\* is what TLC's workers share; enumerating everything in Init would be single-threaded)
InstallAll ==
    /\ Mode = "states" /\ ~created
    /\ bucket' \in [Actors -> PropSet \cup {NoProp}]
    /\ created' = TRUE
    /\ memo' = Target(bucket', sys)
    /\ UNCHANGED <<sys, clock, h>>

\* calculate_target_power(ids, proposal, sys, must_return_power=TRUE)
Propose(a, q) ==
    /\ IF ~created /\ NoSys(sys)
       THEN UNCHANGED <<bucket, created, memo>>            \* _validate_component_ids fails
       ELSE /\ bucket' = [bucket EXCEPT ![a] = [q EXCEPT !.t = clock]]
            /\ created' = TRUE
            /\ memo' = Target(bucket', sys)
    /\ UNCHANGED <<sys, clock>>
    /\ h' = Append(h, [a |-> "propose", who |-> a, pref |-> q.pref, lo |-> q.lo, hi |-> q.hi])

SetBounds(s) ==
    /\ s # sys
    /\ sys' = s
    /\ memo' = IF created THEN Target(bucket, s) ELSE memo
    /\ UNCHANGED <<bucket, created, clock>>
    /\ h' = Append(h, SysRec(s))

Tick ==
    /\ clock < MaxClock
    /\ clock' = clock + 1
    /\ UNCHANGED <<bucket, created, sys, memo>>
    /\ h' = Append(h, [a |-> "tick"])

\* drop_old_proposals(loop_time) followed by a recalculation (what the actor does)
DropOld ==
    /\ bucket' = [a \in Actors |-> IF bucket[a].live /\ clock - bucket[a].t > MaxAge THEN NoProp ELSE bucket[a]]
    /\ bucket' # bucket
    /\ memo' = Target(bucket', sys)
    /\ UNCHANGED <<created, sys, clock>>
    /\ h' = Append(h, [a |-> "drop"])

Guard == Mode \in {"history", "sim"} /\ Len(h) < MaxDepth
EmitRule == Mode = "history" => Emit(h')
\* in "sim" mode (tlc -simulate) the generator draws the arguments itself: TLC's simulator
\* evaluates Next for every candidate successor, so the fan-out is kept small and the finished
\* history is written by the invariant SimEmit (evaluated on the chosen states only)
ProposeStep == /\ Guard
               /\ IF Mode = "sim"
                  THEN LET a == RandomElement(Actors)  q == RandomElement(PropSet) IN Propose(a, q)
                  ELSE \E a \in Actors, q \in PropSetH : Propose(a, q)
               /\ EmitRule
BoundsStep == /\ Guard
              /\ IF Mode = "sim"
                 THEN LET s == RandomElement(SysSet) IN SetBounds(s)
                 ELSE \E s \in SysSetH : SetBounds(s)
              /\ EmitRule
SimEmit == (Mode = "sim" /\ Len(h) = MaxDepth) => Emit(h)
TickStep == Guard /\ Tick /\ EmitRule
DropStep == Guard /\ DropOld /\ EmitRule
InstallStep == InstallAll /\ ((Mode = "states" /\ EmitOn) => Emit([sys |-> sys, bucket |-> bucket']))

Next == InstallStep \/ ProposeStep \/ BoundsStep \/ TickStep \/ DropStep

Spec == Init /\ [][Next]_vars

----------------------------------------------------------------------------
(* C03 *)
T == Target(bucket, sys)
Envelope == Usable(T, sys)
MemoConsistent == created => memo = T
\* an expired proposal has the same effect as no proposal: structural, but checked as
\* "dropping changes the target only through the live set"
ExpiredDoNotCount ==
    LET pruned == [a \in Actors |-> IF bucket[a].live THEN bucket[a] ELSE NoProp] IN
    Target(pruned, sys) = T

(* C04 *)
ClosestAdmissible == ClosestAdmissibleOf(T, bucket, sys)
NoPrefZero == NoPrefZeroOf(T, bucket)

ReportedRangeIsHonoured ==
    \A a \in Actors, x \in Grid :
       LET p2 == WithOnlyPref(bucket, a, x)
           b == StatusBounds(bucket, sys, Prio[a])
       IN (sys.has /\ ConflictFree(p2, sys, a) /\ ~ZeroUndetermined(x, sys)) =>
             (InReported(x, b, sys) <=> Target(p2, sys) = x)

\* adjust_to_bounds returns x itself exactly for the values that are adopted unchanged,
\* and otherwise only values that would be adopted unchanged
AdjustToBoundsAgrees ==
    \A a \in Actors, x \in Grid :
       LET b == StatusBounds(bucket, sys, Prio[a])
           c == AdjustToBounds(x, b, sys)
       IN (sys.has /\ ~ZeroUndetermined(x, sys)) =>
            /\ (InReported(x, b, sys) <=> c = <<x, x>>)
            /\ \A j \in 1..2 : (c[j] # None /\ b[1] <= b[2]) => InReported(c[j], b, sys)

\* a live proposal with neither power nor bounds behaves like no proposal
EmptyProposalIsNoProposal ==
    \* C04 states this for mutually compatible bounds.  In the documented SystemBounds shape (zone
    \* inside the inclusion bounds) the design satisfies it for every proposal set, and that is
    \* pinned; where the inclusion bounds end inside the zone it is demanded for conflict-free
    \* sets only (with conflicting bounds the extra Adjust step an empty proposal triggers can
    \* move the point at which the sweep stops).
    \A a \in Actors :
       (/\ bucket[a].live /\ bucket[a].pref = None /\ bucket[a].lo = None /\ bucket[a].hi = None
        /\ (StandardSys(sys) \/ ConflictFree(bucket, sys, 1))) =>
          LET p2 == [bucket EXCEPT ![a] = NoProp] IN
          /\ Target(p2, sys) = T
          /\ \A k \in Actors : ReportedSet(StatusBounds(p2, sys, Prio[k]), sys) = ReportedSet(StatusBounds(bucket, sys, Prio[k]), sys)

=============================================================================
