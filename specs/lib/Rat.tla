-------------------------------- MODULE Rat --------------------------------
(* Exact rational arithmetic for TLC.                                        *)
(* A rational is a pair <<n, d>> with d > 0 and gcd(|n|, d) = 1 (so equal     *)
(* rationals are equal TLA+ values; zero is <<0, 1>>).  All products are      *)
(* 32-bit Java ints inside TLC: callers keep numerators/denominators small    *)
(* (a few thousand); every result is normalised immediately.                  *)
EXTENDS Integers

LOCAL AbsI(x) == IF x < 0 THEN -x ELSE x

RECURSIVE RGcd(_, _)
RGcd(a, b) == IF b = 0 THEN a ELSE RGcd(b, a % b)

\* Norm(n, d) with d # 0
Norm(n, d) ==
    IF n = 0 THEN <<0, 1>>
    ELSE LET g == RGcd(AbsI(n), AbsI(d))
             s == IF d < 0 THEN -1 ELSE 1
         IN <<(s * n) \div g, (s * d) \div g>>

R(i) == <<i, 1>>
Zero == <<0, 1>>
One == <<1, 1>>

\* Common factors are cancelled BEFORE multiplying, so intermediate products stay as small as the
\* (normalised) result allows.
RAdd(a, b) == IF a[2] = b[2] THEN Norm(a[1] + b[1], a[2])
              ELSE LET g == RGcd(a[2], b[2]) IN
                   Norm(a[1] * (b[2] \div g) + b[1] * (a[2] \div g), (a[2] \div g) * b[2])
RNeg(a) == <<-a[1], a[2]>>
RSub(a, b) == RAdd(a, RNeg(b))
\* a, b normalised: after cross-cancellation the product is normalised as well
RMul(a, b) == IF a[1] = 0 \/ b[1] = 0 THEN <<0, 1>>
              ELSE LET g1 == RGcd(AbsI(a[1]), b[2])
                       g2 == RGcd(AbsI(b[1]), a[2])
                   IN <<(a[1] \div g1) * (b[1] \div g2), (a[2] \div g2) * (b[2] \div g1)>>
RInv(b) == IF b[1] < 0 THEN <<-b[2], -b[1]>> ELSE <<b[2], b[1]>>      \* b # 0
RDiv(a, b) == RMul(a, RInv(b))                                        \* b # 0
RLt(a, b) == LET g == RGcd(a[2], b[2]) IN a[1] * (b[2] \div g) < b[1] * (a[2] \div g)
RLe(a, b) == LET g == RGcd(a[2], b[2]) IN a[1] * (b[2] \div g) <= b[1] * (a[2] \div g)
RIsZero(a) == a[1] = 0
RIsNeg(a) == a[1] < 0
RIsPos(a) == a[1] > 0
RMax(a, b) == IF RLt(a, b) THEN b ELSE a
RMin(a, b) == IF RLt(b, a) THEN b ELSE a
RAbs(a) == <<AbsI(a[1]), a[2]>>

\* a^k for a natural k, with Python's pow(0, 0) = 1
RECURSIVE RPow(_, _)
RPow(a, k) == IF k = 0 THEN One ELSE RMul(a, RPow(a, k - 1))

RECURSIVE Pow10(_)
Pow10(k) == IF k = 0 THEN 1 ELSE 10 * Pow10(k - 1)

\* floor(r * 10^k / d) for 0 <= r < d by long division (no intermediate exceeds 10 * d)
RECURSIVE RFrac(_, _, _)
RFrac(r, d, k) == IF k = 0 THEN 0
                  ELSE LET t == r * 10 IN (t \div d) * Pow10(k - 1) + RFrac(t % d, d, k - 1)

\* fixed-point image of a rational: a * 10^k truncated towards zero (error < 1)
RFix(a, k) ==
    LET n == AbsI(a[1])
        v == (n \div a[2]) * Pow10(k) + RFrac(n % a[2], a[2], k)
    IN IF a[1] < 0 THEN -v ELSE v
=============================================================================
