---------------------------- MODULE PowerResults ----------------------------
(* C15 - distribution results truthfully account for the requested power.    *)
(*                                                                            *)
(* One processed request of a component manager of the power distributor,    *)
(* from the distribution to the Result on the results channel:               *)
(*                                                                            *)
(*   PVManager.distribute_power      water-filling over the inverters'       *)
(*                                   inclusion lower bounds  (PVDistribute)  *)
(*   PVManager._set_api_power        one set_power task per allocation, wait *)
(*                                   with timeout, cancel the pending ones,  *)
(*                                   classify, build Success/PartialFailure  *)
(*   BatteryManager._distribute_power / _set_distributed_power /             *)
(*   _parse_result                   same shape on top of a GIVEN            *)
(*                                   distribution (inverter -> set-point,    *)
(*                                   remaining power): the algorithm that    *)
(*                                   computes it is C01/C02/C17              *)
(*                                   (BatteryPower.tla), not this module     *)
(*                                                                            *)
(* Every set_power call ends in one of five ways (Outcomes).  Powers are     *)
(* integers; the unit is whatever the caller uses (model: 100 W; recorded    *)
(* values: mW, Unit = 100000, equalities up to Tol).                          *)
(*                                                                            *)
(* Clauses (operators C_*, used as invariants of the model here and          *)
(* evaluated on the values recorded from the real managers in                *)
(* PowerResultsTrace):                                                        *)
(*   C15.SumsToRequested              succeeded + failed + excess = requested *)
(*   C15.FailedPowerIsFailedSetpoints failed = sum of set-points of the calls *)
(*                                    that were rejected / errored / timed out*)
(*   C15.SetsDisjoint                 succeeded /\ failed = {}                *)
(*   C15.SetsCoverAddressed           succeeded \/ failed = components behind *)
(*                                    the inverters set_power was called for  *)
(*   C15.FailedSetIsFailedCalls       failed = the components behind the calls *)
(*                                    that did not succeed (whatever their     *)
(*                                    set-point, 0 W included), succeeded = the*)
(*                                    other addressed ones, Success iff no call*)
(*                                    failed                                   *)
(*   C15.PVSetpointsWithinBounds      PV: bound <= set-point <= 0             *)
(* Named cause predicates (deviations):                                      *)
(*   Dev_PVSucceededPowerFromStaleTarget(r)   the reported succeeded_power    *)
(*        equals what the formula used before /repo 8493bc4 gives             *)
(*        (self._target_power [- failed_power], _target_power never assigned) *)
(*        and that is not the distributed power.  The primary model is the    *)
(*        repaired accounting; the predicate only labels failing records if   *)
(*        the old behaviour returns.                                          *)
(*   Dev_DistributionLostPower   the given battery distribution does not      *)
(*        conserve the request (C01 findings); it cannot break the C15        *)
(*        clauses, only the auxiliary SucceededIsSucceededSetpoints           *)
EXTENDS Integers, Sequences, FiniteSets, TLC, Json, CSV, IOUtils

CONSTANTS Mode,      \* "pv" | "bat": model-check and emit cases; "batreal": emit cases only
                     \* (distribution comes from the real algorithm); "trace": PowerResultsTrace
          MaxN,      \* at most this many inverters (= set_power calls) per request
          PVBounds,  \* PV: inclusion lower bounds an inverter may report (<= 0, multiples of lcm(1..MaxN))
          PVSorted,  \* PV: TRUE = for MaxN inverters only non-increasing bound tuples (smaller quick scope)
          PVReqs,    \* PV: requested powers (<= 0, such that every division of the water-filling is exact)
          Topos,     \* battery: set of topologies, each a sequence (index = inverter) of battery sets
          SetGrid,   \* battery: set-points a given distribution may contain
          RemGrid,   \* battery: remaining (excess) power of a given distribution
          LostGrid,  \* battery: request - sum(set-points) - remaining; {0} = conserving distributions only
          BadKinds,  \* battery: ways a requested battery can be unusable: "nw" (status tracker does not list it
                     \* as working), "nan" (its data has a NaN in a crucial metric)
          MaxBad,    \* battery: at most this many unusable batteries per configuration
          Profiles,  \* batreal: number of component-data profiles (built by the harness)
          RealReqs,  \* batreal: requested powers
          Orders,    \* "index": replies arrive in call order; "any": every interleaving
          Unit,      \* recorded value of one model unit (1 in the model)
          Tol        \* tolerance of power equalities on recorded values (0 in the model)

Outcomes == {"ok", "oor", "err", "exc", "to"}
\* ok: set_power returned; oor: OperationOutOfRange; err: another ApiClientError;
\* exc: any other exception; to: no reply before api_power_request_timeout

VARIABLES pc,      \* idle -> configured -> requested -> distributed -> waiting [-> cancelling] -> collected -> parsed -> sent
          cs,      \* the request and its environment: kind, n, topo, bd, req, out, prof, bad (battery -> "ok"|"nw"|"nan")
          alloc,   \* inverter -> set-point (PV: allocations; battery: distribution.distribution)
          rem,     \* remaining_power
          ord,     \* order in which the calls are issued (dict order)
          calls,   \* set_power calls issued so far: sequence of [c, p]
          task,    \* inverter -> "none" | "pending" | "ok" | "oor" | "err" | "exc" | "cancelled"
          target,  \* PVManager._target_power (assigned in __init__ only; not used for the Result since 8493bc4)
          parsed,  \* [fp, failed, succ] computed by the classification loop
          res,     \* the Result sent
          h        \* emitted case (hidden by VIEW)

vars == <<pc, cs, alloc, rem, ord, calls, task, target, parsed, res, h>>
View == <<pc, cs, alloc, rem, ord, calls, task, target, parsed, res>>

EmitOn == "OUT_FILE" \in DOMAIN IOEnv
Emit(v) == IF EmitOn THEN CSVWrite("%1$s", <<ToJson(v)>>, IOEnv.OUT_FILE) ELSE TRUE

----------------------------------------------------------------------------
(* helpers *)
RECURSIVE SumOver(_, _)
SumOver(f, S) == IF S = {} THEN 0 ELSE LET x == CHOOSE y \in S : TRUE IN f[x] + SumOver(f, S \ {x})
SumSeq(s) == SumOver(s, DOMAIN s)
Near(a, b) == a - b <= Tol /\ b - a <= Tol
Max3(a, b, c) == IF a >= b /\ a >= c THEN a ELSE IF b >= c THEN b ELSE c
Invs == 1..cs.n
NoRes == [type |-> "none", sp |-> 0, fp |-> 0, ex |-> 0, succ |-> {}, failed |-> {}]
NoParsed == [fp |-> 0, failed |-> {}, succ |-> {}]
NoCase == [kind |-> "none", n |-> 0, topo |-> <<>>, bd |-> <<>>, req |-> 0, out |-> <<>>, prof |-> 0, bad |-> <<>>]
MinOf(S) == CHOOSE x \in S : \A y \in S : x <= y
MaxOf(S) == CHOOSE x \in S : \A y \in S : x >= y
RECURSIVE SortedSeq(_)
SortedSeq(S) == IF S = {} THEN <<>> ELSE LET m == MinOf(S) IN <<m>> \o SortedSeq(S \ {m})

----------------------------------------------------------------------------
(* BatteryManager._get_components_data: which inverters take part in the distribution.        *)
(* The request names every battery of the topology; a battery set (bat_bats_map of a WORKING  *)
(* battery) is used unless one of its batteries has NaN data; its inverters are addressed.     *)
(* (In the topologies used here every inverter of a set is adjacent to each of its batteries.) *)
Bats(t) == UNION {t[i] : i \in DOMAIN t}
BatBats(t, b) == UNION {t[i] : i \in {j \in DOMAIN t : b \in t[j]}}
ActiveInvs(t, bad) ==
    LET working == {b \in Bats(t) : bad[b] # "nw"}            \* get_working_components(request.component_ids)
        sets == {BatBats(t, b) : b \in working}               \* battery_sets
        good == {G \in sets : \A b \in G : bad[b] # "nan"}    \* _get_battery_inverter_data(...) is not None
    IN {i \in DOMAIN t : \E G \in good : t[i] \cap G # {}}
BadAssignments(t) ==
    {f \in [Bats(t) -> {"ok"} \cup BadKinds] : Cardinality({b \in Bats(t) : f[b] # "ok"}) <= MaxBad}

----------------------------------------------------------------------------
(* PVManager.distribute_power: the water-filling *)

\* working_components.sort(key=lower bound, reverse=True): stable, so equal bounds keep
\* their original order (ascending ids in the harness)
PVOrder(bd) ==
    LET n == Len(bd)
        Before(i, j) == bd[i] > bd[j] \/ (bd[i] = bd[j] /\ i < j)
        Rank(i) == Cardinality({j \in 1..n : Before(j, i)}) + 1
    IN [k \in 1..n |-> CHOOSE i \in 1..n : Rank(i) = k]

\* the for-loop; idx is the 0-based loop index, rm the remaining power, acc the allocations.
\* `remaining_power > 0 or is_close_to_zero(remaining_power)` is exact `>= 0` here.
RECURSIVE PVFill(_, _, _, _, _, _)
PVFill(o, idx, rm, bd, acc, exact) ==
    IF idx = Len(o) THEN [alloc |-> acc, rem |-> rm, exact |-> exact]
    ELSE LET c == o[idx + 1]
             k == Len(o) - idx
         IN IF rm >= 0 THEN PVFill(o, idx + 1, rm, bd, (c :> 0) @@ acc, exact)
            ELSE LET d == rm \div k                       \* remaining_power / float(num_components - idx)
                     a == Max3(rm, bd[c], d)              \* all three are <= 0: least absolute value
                 IN PVFill(o, idx + 1, rm - a, bd, (c :> a) @@ acc, exact /\ rm % k = 0)
PVWaterFill(bd, rq) == PVFill(PVOrder(bd), 0, rq, bd, <<>>, TRUE)

----------------------------------------------------------------------------
(* actions *)

PVCase(n, b, r, o) == [kind |-> "pv", n |-> n, topo |-> [i \in 1..n |-> {i}], bd |-> b, req |-> r, out |-> o, prof |-> 0, bad |-> <<>>]
BatCase(t, r, o, p, f) == [kind |-> "bat", n |-> Len(t), topo |-> t, bd |-> <<>>, req |-> r, out |-> o, prof |-> p, bad |-> f]
\* requests for which some given distribution of the grid can exist
BatReqs == LET lo == MinOf({0, MaxN * MinOf(SetGrid)}) + MinOf(RemGrid) + MinOf(LostGrid)
               hi == MaxOf({0, MaxN * MaxOf(SetGrid)}) + MaxOf(RemGrid) + MaxOf(LostGrid)
           IN lo..hi

Init ==
    /\ pc = "idle" /\ cs = NoCase /\ alloc = <<>> /\ rem = 0 /\ ord = <<>> /\ calls = <<>>
    /\ task = <<>> /\ target = 0 /\ parsed = NoParsed /\ res = NoRes /\ h = <<>>

\* the microgrid: which inverters exist, what is behind them, what they report
Configure(c) ==
    /\ pc = "idle"
    /\ cs' = c /\ pc' = "configured"
    /\ task' = [i \in 1..c.n |-> "none"]
    /\ UNCHANGED <<alloc, rem, ord, calls, target, parsed, res>>

\* a Request arrives at distribute_power; o is how the API will answer each call made for it
Request(r, o) ==
    /\ pc = "configured"
    /\ cs' = [cs EXCEPT !.req = r, !.out = o] /\ pc' = "requested"
    /\ UNCHANGED <<alloc, rem, ord, calls, task, target, parsed, res>>

\* PVManager.distribute_power up to the call of _set_api_power.  self._target_power is neither
\* read nor written here (it is assigned only in __init__, to zero).
PVDistribute ==
    /\ pc = "requested" /\ cs.kind = "pv"
    /\ LET w == PVWaterFill(cs.bd, cs.req) IN
         /\ alloc' = w.alloc /\ rem' = w.rem /\ ord' = PVOrder(cs.bd)
    /\ pc' = "distributed"
    /\ UNCHANGED <<cs, calls, task, target, parsed, res, h>>

\* BatteryManager._get_distribution returned DistributionResult(distribution = s, remaining = r);
\* s is a function over the inverters that take part (ActiveInvs)
GivenDistribution(s, r) ==
    /\ pc = "requested" /\ cs.kind = "bat"
    /\ alloc' = s /\ rem' = r /\ ord' = SortedSeq(DOMAIN s)
    /\ pc' = "distributed"
    /\ UNCHANGED <<cs, calls, task, target, parsed, res>>

\* asyncio.create_task(api.set_power(c, p)) reaching the client
SetPowerGuard(c, p) == pc = "distributed" /\ Len(calls) < Len(ord) /\ c = ord[Len(calls) + 1] /\ p = alloc[c]
SetPowerUpd(c, p) ==
    /\ calls' = Append(calls, [c |-> c, p |-> p])
    /\ task' = [task EXCEPT ![c] = "pending"]
    /\ pc' = IF pc = "distributed" /\ Len(calls') >= Len(ord) THEN "waiting" ELSE pc

\* the client answers (returns or raises)
ReplyGuard(c, o) ==
    /\ pc \in {"distributed", "waiting"} /\ c \in Invs /\ task[c] = "pending" /\ o = cs.out[c] /\ o # "to"
    /\ Orders = "index" => \A d \in DOMAIN alloc : (d < c /\ cs.out[d] # "to") => task[d] \notin {"none", "pending"}
ReplyUpd(c, o) == task' = [task EXCEPT ![c] = o]

\* asyncio.wait(..., timeout) returns with tasks pending: every call still pending never answers
TimeoutGuard == /\ pc = "waiting"
                /\ (\E c \in Invs : task[c] = "pending")
                /\ (\A d \in Invs : task[d] = "pending" => cs.out[d] = "to")
\* task.cancel() + gather(return_exceptions=True) for one pending task
CancelGuard(c) == pc = "cancelling" /\ c \in Invs /\ task[c] = "pending"
CancelUpd(c) == task' = [task EXCEPT ![c] = "cancelled"]

\* asyncio.wait / the gather over the cancelled tasks is over: no task is pending
Collected ==
    /\ pc \in {"waiting", "cancelling"} /\ \A c \in Invs : task[c] # "pending"
    /\ pc' = "collected"
    /\ UNCHANGED <<cs, alloc, rem, ord, calls, task, target, parsed, res, h>>

\* try: task.result() / except OperationOutOfRange / ApiClientError / CancelledError / Exception
TaskFailed(s) ==
    CASE s = "ok" -> FALSE
      [] s = "oor" -> TRUE       \* battery: own branch; PV: caught as ApiClientError
      [] s = "err" -> TRUE
      [] s = "cancelled" -> TRUE
      [] s = "exc" -> TRUE
      [] OTHER -> TRUE           \* "none"/"pending": task.result() raises InvalidStateError -> Exception branch

\* BatteryManager._parse_result  /  the classification loop of PVManager._set_api_power
Parse ==
    /\ pc = "collected"
    /\ LET F == {i \in DOMAIN alloc : TaskFailed(task[i])} IN
         parsed' = IF cs.kind = "bat"
                   THEN [fp |-> SumOver(alloc, F), failed |-> UNION {cs.topo[i] : i \in F}, succ |-> {}]
                   ELSE [fp |-> SumOver(alloc, F), failed |-> F, succ |-> DOMAIN alloc \ F]
    /\ pc' = "parsed"
    /\ UNCHANGED <<cs, alloc, rem, ord, calls, task, target, res, h>>

\* construction of the Result and results_sender.send
BatResult ==
    LET distributed == cs.req - rem                                 \* distributed_power_value
        keys == UNION {cs.topo[i] : i \in DOMAIN alloc}             \* battery_distribution.keys()
    IN IF parsed.failed # {}
       THEN [type |-> "PartialFailure", sp |-> distributed - parsed.fp, fp |-> parsed.fp, ex |-> rem,
             succ |-> keys \ parsed.failed, failed |-> parsed.failed]
       ELSE [type |-> "Success", sp |-> distributed, fp |-> 0, ex |-> rem, succ |-> keys, failed |-> {}]
\* succeeded_power = request.power - remaining_power [- failed_power]   (/repo 8493bc4)
PVResult ==
    IF parsed.failed # {}
    THEN [type |-> "PartialFailure", sp |-> (cs.req - rem) - parsed.fp, fp |-> parsed.fp, ex |-> rem,
          succ |-> parsed.succ, failed |-> parsed.failed]
    ELSE [type |-> "Success", sp |-> cs.req - rem, fp |-> 0, ex |-> rem, succ |-> parsed.succ, failed |-> {}]
Send ==
    /\ pc = "parsed"
    /\ res' = IF cs.kind = "bat" THEN BatResult ELSE PVResult
    /\ pc' = "sent"
    /\ UNCHANGED <<cs, alloc, rem, ord, calls, task, target, parsed, h>>

----------------------------------------------------------------------------
(* model: Next *)
KeepH == h' = h
\* two levels (configuration, then request) so that TLC's workers share the enumeration;
\* nested quantifiers instead of sets of records: TLC enumerates them lazily
ConfigureStep ==
    /\ pc = "idle" /\ KeepH
    /\ \/ /\ Mode = "pv"
          /\ \E n \in 1..MaxN : \E b \in [1..n -> PVBounds] :
                /\ (PVSorted /\ n = MaxN) => \A i \in 1..(n - 1) : b[i] >= b[i + 1]
                /\ Configure(PVCase(n, b, 0, <<>>))
       \/ /\ Mode = "bat"
          /\ \E t \in Topos : \E f \in BadAssignments(t) :
                ActiveInvs(t, f) # {} /\ Configure(BatCase(t, 0, <<>>, 0, f))
       \/ /\ Mode = "batreal"
          /\ \E t \in Topos, p \in 1..Profiles : \E f \in BadAssignments(t) :
                ActiveInvs(t, f) # {} /\ Configure(BatCase(t, 0, <<>>, p, f))
RequestStep ==
    /\ pc = "configured"
    /\ \E r \in (IF Mode = "pv" THEN PVReqs ELSE IF Mode = "bat" THEN BatReqs ELSE RealReqs),
          o \in [1..cs.n -> Outcomes] :
         /\ Request(r, o)
         /\ IF Mode = "bat" THEN KeepH ELSE h' = cs' /\ Emit(h')
PVDistributeStep == Mode = "pv" /\ PVDistribute
BatDistributeStep ==
    /\ Mode = "bat"
    /\ \E s \in [ActiveInvs(cs.topo, cs.bad) -> SetGrid], r \in RemGrid :
         /\ (cs.req - SumSeq(s) - r) \in LostGrid
         /\ GivenDistribution(s, r)
         /\ h' = [kind |-> "bat", n |-> cs.n, topo |-> cs.topo, bd |-> <<>>, req |-> cs.req, out |-> cs.out,
                  prof |-> 0, bad |-> cs.bad, act |-> DOMAIN s,
                  s |-> [i \in 1..cs.n |-> IF i \in DOMAIN s THEN s[i] ELSE 0], r |-> r]
         /\ Emit(h')
SetPowerStep == Mode # "batreal" /\ \E c \in DOMAIN alloc : SetPowerGuard(c, alloc[c]) /\ SetPowerUpd(c, alloc[c])
                /\ UNCHANGED <<cs, alloc, rem, ord, target, parsed, res, h>>
ReplyStep == \E c \in Invs : ReplyGuard(c, cs.out[c]) /\ ReplyUpd(c, cs.out[c])
             /\ UNCHANGED <<pc, cs, alloc, rem, ord, calls, target, parsed, res, h>>
TimeoutStep == TimeoutGuard /\ pc' = "cancelling"
               /\ UNCHANGED <<cs, alloc, rem, ord, calls, task, target, parsed, res, h>>
CancelStep == \E c \in Invs : CancelGuard(c) /\ CancelUpd(c)
              /\ UNCHANGED <<pc, cs, alloc, rem, ord, calls, target, parsed, res, h>>
CollectedStep == Collected
ParseStep == Parse
SendStep == Send

Next == ConfigureStep \/ RequestStep \/ PVDistributeStep \/ BatDistributeStep \/ SetPowerStep \/ ReplyStep \/ TimeoutStep
        \/ CancelStep \/ CollectedStep \/ ParseStep \/ SendStep

----------------------------------------------------------------------------
(* clauses: r = result record, cl = calls with their real outcome [c, p, o], rq = requested,  *)
(* tp = topology (inverter -> components behind it), bd = PV bounds                            *)
FailedCalls(cl) == {k \in DOMAIN cl : cl[k].o # "ok"}
OkCalls(cl) == {k \in DOMAIN cl : cl[k].o = "ok"}
SetPoints(cl) == [k \in DOMAIN cl |-> cl[k].p]
Addressed(cl, tp) == UNION {tp[cl[k].c] : k \in DOMAIN cl}

C_SumsToRequested(r, rq) == Near(r.sp + r.fp + r.ex, rq)
C_FailedPowerIsFailedSetpoints(r, cl) == Near(r.fp, SumOver(SetPoints(cl), FailedCalls(cl)))
C_SetsDisjoint(r) == r.succ \cap r.failed = {}
C_SetsCoverAddressed(r, cl, tp) == r.succ \cup r.failed = Addressed(cl, tp)
C_FailedSetIsFailedCalls(r, cl, tp) ==
    LET F == UNION {tp[cl[k].c] : k \in FailedCalls(cl)} IN
    /\ r.failed = F
    /\ r.succ = Addressed(cl, tp) \ F
    /\ (r.type = "Success") <=> (FailedCalls(cl) = {})
C_PVSetpointsWithinBounds(cl, bd) == \A k \in DOMAIN cl : bd[cl[k].c] - Tol <= cl[k].p /\ cl[k].p <= Tol
\* auxiliary (not part of the property statement): the succeeded power is what was really set
A_SucceededIsSucceededSetpoints(r, cl) == Near(r.sp, SumOver(SetPoints(cl), OkCalls(cl)))
A_ConservesRequest(cl, rm, rq) == Near(SumSeq(SetPoints(cl)) + rm, rq)

\* deviations, over the model's own intermediate values
\* r = a reported result: its succeeded_power is what `self._target_power [- failed_power]` gives
\* (Success carries fp = 0) although the stale target is not the power distributed for this request
Dev_PVSucceededPowerFromStaleTarget(r) ==
    cs.kind = "pv" /\ Near(r.sp, target - r.fp) /\ ~Near(target, cs.req - rem)
Dev_DistributionLostPower == cs.kind = "bat" /\ pc \notin {"idle", "configured", "requested"} /\ ~Near(SumSeq(alloc) + rem, cs.req)

CallsO == [k \in DOMAIN calls |-> [c |-> calls[k].c, p |-> calls[k].p, o |-> cs.out[calls[k].c]]]
Sent == pc = "sent"

SumsToRequested == Sent => C_SumsToRequested(res, cs.req)
FailedPowerIsFailedSetpoints == Sent => C_FailedPowerIsFailedSetpoints(res, CallsO)
SetsDisjoint == Sent => C_SetsDisjoint(res)
SetsCoverAddressed == Sent => C_SetsCoverAddressed(res, CallsO, cs.topo)
FailedSetIsFailedCalls == Sent => C_FailedSetIsFailedCalls(res, CallsO, cs.topo)
PVSetpointsWithinBounds == cs.kind = "pv" => C_PVSetpointsWithinBounds(CallsO, cs.bd)
SucceededIsSucceededSetpoints ==
    Sent => (A_SucceededIsSucceededSetpoints(res, CallsO) \/ Dev_DistributionLostPower)
\* design-level sanity of the model itself
WaterFillExact == (cs.kind = "pv" /\ pc = "requested") => PVWaterFill(cs.bd, cs.req).exact
WaterFillConserves == (cs.kind = "pv" /\ pc \notin {"idle", "configured", "requested"}) => SumSeq(alloc) + rem = cs.req
EveryAllocationIsCalled == Sent => {calls[k].c : k \in DOMAIN calls} = DOMAIN alloc /\ Len(calls) = Cardinality(DOMAIN alloc)
\* a requested battery that takes no part in the distribution is reported neither as succeeded nor as failed
UnaddressedNotReported ==
    (Sent /\ cs.kind = "bat") =>
        (res.succ \cup res.failed) \cap (Bats(cs.topo) \ UNION {cs.topo[i] : i \in ActiveInvs(cs.topo, cs.bad)}) = {}
TypeOfResult == Sent => (res.type = "Success" <=> \A k \in DOMAIN CallsO : CallsO[k].o = "ok")
\* the cause predicate is exact: the pre-8493bc4 formula breaks the identity precisely when it fires
StaleFormulaIsDetected ==
    (Sent /\ cs.kind = "pv") =>
        LET stale == [res EXCEPT !.sp = target - res.fp] IN
        /\ Dev_PVSucceededPowerFromStaleTarget(stale) <=> ~C_SumsToRequested(stale, cs.req)
        /\ ~Dev_PVSucceededPowerFromStaleTarget(res)
=============================================================================
