------------------------ MODULE ResamplingActorTrace ------------------------
(* Validates executions recorded from the real ComponentMetricsResamplingActor *)
(* (real ChannelRegistry, real Resampler, loop pumped one iteration at a time; *)
(* the harness plays the data-sourcing actor and the consumers) against        *)
(* ResamplingActor.tla.                                                        *)
(*                                                                             *)
(* One trace per ndjson line: [id, P, c, probe, lines]; every line carries     *)
(* t = the loop clock in seconds:                                              *)
(*   [ev |-> "req", r]        request r was put on the resampling request channel*)
(*   [ev |-> "stop", r]       the harness closed the source channel of r       *)
(*   [ev |-> "sinkfail", r]   the harness closed the output channel of r       *)
(*   [ev |-> "pass"]          the clock moved one second (the loop was idle)   *)
(*   [ev |-> "iter", obs, names, we, alive, runs, idle]   one loop iteration;  *)
(*        obs = what became visible in it:                                     *)
(*        [k |-> "take", r]          the actor took request r off its receiver *)
(*        [k |-> "fwd", r, ok]       the data-sourcing side received a request *)
(*             for component r; ok = it is the request with namespace +":Source"*)
(*        [k |-> "dlv", r, ts, val]  a sample stamped ts arrived on the channel*)
(*             named by request r (val = its value, None = -99)                *)
(*        [k |-> "rsend", err, named] Resampler.resample() ended with err,     *)
(*             naming the series `named` (probe; only when Tr.probe)           *)
(*        names = ids of the timeseries in the Resampler (<<-1>>: unavailable),*)
(*        we = its window end (-1: unavailable), alive = actor.is_running,     *)
(*        runs = how often _run was entered (-1: unavailable)                  *)
(*   [ev |-> "final", names, alive, runs]   loop idle after the last event     *)
(* (a) clause checks that are pure functions of the recorded events            *)
(* (b) existential validation: some interleaving of the specification's        *)
(*     actions explains every iteration, its invariants hold in every state,   *)
(*     whenever the loop is idle nothing internal is left enabled.             *)
EXTENDS ResamplingActor, SequencesExt, TLCExt

VARIABLES tid, l, oi,
          crashed     \* a resample() that ended abnormally has been reported for this trace
tvars == <<vars, tid, l, oi, crashed>>

TraceLog == TLCEval(ndJsonDeserialize(IOEnv.TRACE_FILE))
Tr == TraceLog[tid]
Line == Tr.lines[l]
NL == Len(Tr.lines)

Say(v) == CSVWrite("%1$s", <<ToJson(v)>>, IOEnv.VERDICT_FILE)
Fail(clause, detail, devs) == Say([tid |-> Tr.id, l |-> l, clause |-> clause, detail |-> detail, deviations |-> devs])
Check(ok, clause, detail) == IF ok THEN TRUE ELSE Fail(clause, detail, <<>>)

----------------------------------------------------------------------------
(* (a) observation-only clauses *)
Ev(k, r, ts, val, t, aux) == [k |-> k, r |-> r, ts |-> ts, val |-> val, t |-> t, aux |-> aux]
B(b) == IF b THEN 1 ELSE 0
ObsEv(o, t) ==
    IF o.k = "rsend" THEN Ev("rsend", 0, 0, 0, t, <<o.err, o.named>>)
    ELSE IF o.k = "fwd" THEN Ev("fwd", o.r, 0, B(o.ok), t, <<>>)
    ELSE Ev(o.k, o.r, o.ts, o.val, t, <<>>)
LineEvents(x) ==
    IF x.ev \in {"req", "stop", "sinkfail"} THEN <<Ev(x.ev, x.r, 0, 0, x.t, <<>>)>>
    ELSE IF x.ev = "pass" THEN <<Ev("pass", 0, 0, 0, x.t, <<>>)>>
    ELSE IF x.ev = "iter" THEN
        [j \in 1..Len(x.obs) |-> ObsEv(x.obs[j], x.t)]
        \o <<Ev("end", B(x.idle), B(x.alive), x.runs, x.t, <<x.names, x.we>>)>>
    ELSE <<Ev("final", 1, B(x.alive), x.runs, x.t, <<x.names, -1>>)>>
RECURSIVE FlatFrom(_)
FlatFrom(k) == IF k > NL THEN <<>> ELSE LineEvents(Tr.lines[k]) \o FlatFrom(k + 1)

SeqSet(s) == {s[i] : i \in 1..Len(s)}
NoDupSeq(s) == \A i, j \in 1..Len(s) : i # j => s[i] # s[j]

ObsChecks ==
    LET F == TLCEval(FlatFrom(1))
        N == Len(F)
        Idx(k, r) == {i \in 1..N : F[i].k = k /\ F[i].r = r}
        First(S) == IF S = {} THEN 0 ELSE CHOOSE i \in S : \A j \in S : i <= j
        TakeIdx(r) == First(Idx("take", r))
        BreakIdx(r) == First(Idx("stop", r) \cup Idx("sinkfail", r))
        \* timestamps published on the channel of r among the first i - 1 events
        D(r, i) == LET S == SelectSeq(SubSeq(F, 1, i - 1), LAMBDA e : e.k = "dlv" /\ e.r = r)
                   IN [j \in 1..Len(S) |-> S[j].ts]
        Ends == {i \in 1..N : F[i].k \in {"end", "final"}}
        Names(i) == F[i].aux[1]
        HasNames(i) == Names(i) # <<-1>>
        PrevEnds(i) == {j \in Ends : j < i}
        Taken == {r \in Reqs : TakeIdx(r) # 0}
    IN
    \* ---- ServedExactlyOnce: one subscription at the data-sourcing actor per distinct request taken, it is
    \*      the ":Source" twin of the request; nothing for a request never taken; one timeseries per request;
    \*      what is published on the channel of r was resampled from the source of r
    /\ \A r \in Reqs :
         Check(IF r \in Taken
               THEN Cardinality(Idx("fwd", r)) = 1 /\ First(Idx("fwd", r)) > TakeIdx(r) /\ F[First(Idx("fwd", r))].val = 1
               ELSE Idx("fwd", r) = {} /\ Idx("dlv", r) = {},
               "X01.ServedExactlyOnce",
               <<"request", r, "taken", r \in Taken, "forwarded to data sourcing", Cardinality(Idx("fwd", r)), "times; well-formed",
                 IF Idx("fwd", r) = {} THEN -1 ELSE F[First(Idx("fwd", r))].val>>)
    /\ \A i \in 1..N : (F[i].k = "fwd" /\ F[i].r \notin Reqs) =>
         Check(FALSE, "X01.ServedExactlyOnce", <<"data sourcing was asked for an unknown component", F[i].r>>)
    /\ \A i \in 1..N : F[i].k = "dlv" =>
         Check(F[i].r \in Taken /\ First(Idx("fwd", F[i].r)) < i /\ (F[i].val = None \/ F[i].val \div 100 = F[i].r),
               "X01.ServedExactlyOnce", <<"sample on the channel of request", F[i].r, "stamped", F[i].ts, "value", F[i].val>>)
    /\ \A i \in Ends : HasNames(i) =>
         Check(NoDupSeq(Names(i)) /\ SeqSet(Names(i)) \subseteq {r \in Taken : TakeIdx(r) < i},
               "X01.ServedExactlyOnce", <<"timeseries in the resampler", Names(i), "requests taken", {r \in Taken : TakeIdx(r) < i}>>)
    \* ---- DuplicateNoEffect: after a repeated request nothing more is forwarded, no second timeseries publishes
    /\ \A i \in 1..N : (F[i].k = "take" /\ TakeIdx(F[i].r) < i) =>
         LET r == F[i].r  all == D(r, N + 1) IN
         /\ Check({j \in Idx("fwd", r) : j > i} = {}, "X01.DuplicateNoEffect", <<"request", r, "forwarded again after its duplicate">>)
         /\ Check(NoDupSeq(all), "X01.DuplicateNoEffect", <<"request", r, "published", all>>)
         /\ \A e \in Ends : (e > i /\ HasNames(e)) =>
              Check(Cardinality({x \in 1..Len(Names(e)) : Names(e)[x] = r}) <= 1, "X01.DuplicateNoEffect",
                    <<"request", r, "timeseries", Names(e)>>)
    \* ---- SurvivorsTimelineIntact
    /\ \A r \in Reqs :
         LET all == D(r, N + 1) IN
         /\ Check(AlignedSeq(all), "X01.SurvivorsTimelineIntact", <<"request", r, "not on the period grid", all>>)
         /\ Check(ConsecutiveSeq(all), "X01.SurvivorsTimelineIntact", <<"request", r, "tick skipped, duplicated or reordered", all>>)
         /\ \A q \in Reqs : Check(SameSpan(all, D(q, N + 1)), "X01.SurvivorsTimelineIntact",
                                  <<"requests", r, q, "resampled together got different timestamps", all, D(q, N + 1)>>)
    \* whenever the loop is idle every series that has not broken has received every tick that was due since
    \* the actor took its request - whatever happened to other series and whoever subscribed meanwhile
    /\ \A i \in Ends : F[i].r = 1 =>
         \A r \in Taken : (TakeIdx(r) < i /\ (BreakIdx(r) = 0 \/ BreakIdx(r) > i)) =>
            LET got == D(r, i)  t == F[i].t  tr == F[TakeIdx(r)].t IN
            Check(IF got = <<>> THEN NextGridAfter(tr, Tr.c) > t
                  ELSE got[Len(got)] + P > t,
                  "X01.SurvivorsTimelineIntact", <<"request", r, "taken at", tr, "idle at", t, "received so far", got>>)
    \* ---- LateRequestServedFromNextTick
    \* the first sample is for a window that ends no earlier than the request was taken and no later than the
    \* next tick after that
    /\ \A r \in Taken :
         LET all == D(r, N + 1)  tr == F[TakeIdx(r)].t IN
         all # <<>> => Check(tr <= all[1] /\ all[1] <= NextGridAfter(tr, Tr.c), "X01.LateRequestServedFromNextTick",
                             <<"request", r, "taken at", tr, "first sample stamped", all[1]>>)
    \* a request taken while the round for its instant was already handing out samples gets the next tick
    /\ \A r \in Taken :
         LET i == TakeIdx(r)  all == D(r, N + 1) IN
         (\E j \in 1..(i - 1) : F[j].k = "dlv" /\ F[j].ts = F[i].t) =>
            Check(all = <<>> \/ all[1] > F[i].t, "X01.LateRequestServedFromNextTick",
                  <<"request", r, "taken during the round of", F[i].t, "got", all>>)
    \* ... and the round is not disturbed: resample() ends only to report failed series
    /\ \A i \in 1..N : F[i].k = "rsend" =>
         /\ (F[i].aux[1] = "ResamplingError") =>
              Check(F[i].aux[2] # <<>> /\ \A x \in SeqSet(F[i].aux[2]) : BreakIdx(x) # 0 /\ BreakIdx(x) < i,
                    "X01.FailedOnlyRemoved", <<"ResamplingError names", F[i].aux[2], "broken so far", {x \in Reqs : BreakIdx(x) # 0 /\ BreakIdx(x) < i}>>)
    \* ---- FailedOnlyRemoved: a timeseries leaves the resampler only after it broke; a broken one is gone once
    \*      a later tick has been processed; nothing is published for it after it broke
    /\ \A i \in Ends : HasNames(i) =>
         /\ \A j \in PrevEnds(i) : HasNames(j) =>
              \A r \in SeqSet(Names(j)) \ SeqSet(Names(i)) :
                 Check(BreakIdx(r) # 0 /\ BreakIdx(r) < i, "X01.FailedOnlyRemoved",
                       <<"timeseries", r, "left the resampler without having broken; before", Names(j), "after", Names(i)>>)
         /\ F[i].r = 1 =>
              \A r \in SeqSet(Names(i)) : (BreakIdx(r) # 0 /\ BreakIdx(r) < i) =>
                 \* it was in the resampler before the last tick that has been processed
                 LET tb == F[BreakIdx(r)].t  t == F[i].t  lastg == t - (t % P) IN
                 Check(~(tb < lastg /\ lastg >= FirstTick(Tr.c) /\ TakeIdx(r) # 0 /\ F[TakeIdx(r)].t < lastg), "X01.FailedOnlyRemoved",
                       <<"timeseries", r, "broke at", tb, "still in the resampler at idle instant", t>>)
    /\ \A r \in Reqs : BreakIdx(r) # 0 =>
         LET all == D(r, N + 1) IN
         Check(all = <<>> \/ all[Len(all)] <= F[BreakIdx(r)].t, "X01.FailedOnlyRemoved",
               <<"request", r, "broke at", F[BreakIdx(r)].t, "published", all>>)
    \* ---- ActorAlive: the actor runs, _run was entered once, every request sent was taken
    /\ \A i \in Ends :
         Check(F[i].ts = 1 /\ F[i].val \in {1, -1}, "X01.ActorAlive", <<"is_running", F[i].ts, "_run entered", F[i].val, "at", F[i].t>>)
    /\ \A i \in 1..N : F[i].k = "final" =>
         Check(Cardinality({j \in 1..N : F[j].k = "take"}) = Cardinality({j \in 1..N : F[j].k = "req"}), "X01.ActorAlive",
               <<"requests sent", Cardinality({j \in 1..N : F[j].k = "req"}), "taken", Cardinality({j \in 1..N : F[j].k = "take"})>>)

----------------------------------------------------------------------------
(* (b) existential validation against the specification *)
TInit ==
    /\ tid \in 1..Len(TraceLog)
    /\ l = 1 /\ oi = {} /\ crashed = FALSE
    /\ Init /\ created = Tr.c
    /\ ObsChecks

Progress == Say([tid |-> Tr.id, at |-> l'])
KeepH == h' = h

ConsumeEnv ==
    /\ l <= NL /\ Line.ev \in {"req", "stop", "sinkfail", "pass"}
    /\ \/ Line.ev = "req" /\ Line.r \in Reqs /\ Request(Line.r)
       \/ Line.ev = "stop" /\ Line.r \in Reqs /\ SourceStops(Line.r)
       \/ Line.ev = "sinkfail" /\ Line.r \in Reqs /\ SinkFails(Line.r)
       \/ Line.ev = "pass" /\ TimePass /\ now' = Line.t
    /\ KeepH
    /\ l' = l + 1 /\ oi' = {} /\ UNCHANGED <<tid, crashed>> /\ Progress

\* resample() ended with something else than ResamplingError: not an action of the design.  It is reported
\* (with the cause, when a timeseries had been added to the pending gather) and, like the actor does, the
\* task is started again so that the rest of the execution is still validated.
FinishCrash(err) ==
    /\ rt = "gather"
    /\ Fail(IF Dev_AddDuringGather THEN "X01.LateRequestServedFromNextTick" ELSE "X01.ActorAlive",
            <<"resample() ended with", err, "round", round, "timeseries", series>>,
            IF Dev_AddDuringGather THEN <<"Dev_AddDuringGather">> ELSE <<>>)
    /\ windowEnd' = IF todo = {} THEN windowEnd + P ELSE windowEnd
    /\ rt' = "sleep" /\ todo' = {} /\ failed' = {} /\ round' = {}
    /\ UNCHANGED <<now, created, nextTick, reqq, nreq, asked, active, sub, fwd, series, removed, srcOpen, sinkOk, recvDone,
                   ticks, out, joined, late, brokeAt>>

IterSilent ==
    /\ l <= NL /\ Line.ev = "iter"
    /\ \/ ActorAdd \/ TimerFire \/ RoundStart \/ Recover
       \/ \E s \in Reqs : RecvNotice(s)
       \/ \E s \in Reqs : Raises(s) /\ HelperRun(s)
       \/ Finish /\ (failed = {} \/ ~Tr.probe)
    /\ KeepH
    /\ UNCHANGED <<tid, l, oi, crashed>>

\* the observations of one iteration are consumed in any order that keeps the order per kind and request
Eligible(j) == /\ j \in 1..Len(Line.obs) /\ j \notin oi
               /\ \A i \in 1..(j - 1) : (Line.obs[i].k = Line.obs[j].k /\ Line.obs[i].r = Line.obs[j].r) => i \in oi

IterObserved ==
    /\ l <= NL /\ Line.ev = "iter"
    /\ \E j \in 1..Len(Line.obs) :
         /\ Eligible(j)
         /\ LET o == Line.obs[j] IN
              \/ o.k = "take" /\ reqq # <<>> /\ Head(reqq) = o.r /\ ActorTake
              \/ o.k = "fwd" /\ sub = <<"send", o.r>> /\ ActorSend
              \/ o.k = "dlv" /\ o.r \in Reqs /\ ~Raises(o.r) /\ HelperRun(o.r) /\ windowEnd = o.ts
              \/ o.k = "rsend" /\ o.err = "ResamplingError" /\ Finish /\ failed # {} /\ failed = SeqSet(o.named)
              \/ o.k = "rsend" /\ o.err # "ResamplingError" /\ FinishCrash(o.err)
         /\ oi' = oi \cup {j}
         /\ crashed' = (crashed \/ (Line.obs[j].k = "rsend" /\ Line.obs[j].err # "ResamplingError"))
    /\ KeepH
    /\ UNCHANGED <<tid, l>>

Matches(x) ==
    /\ x.names # <<-1>> => SeqSet(x.names) = series
    /\ x.we # -1 => x.we = windowEnd

IterEnd ==
    /\ l <= NL /\ Line.ev = "iter" /\ oi = 1..Len(Line.obs)
    /\ Matches(Line)
    /\ Line.idle => Quiescent
    /\ l' = l + 1 /\ oi' = {} /\ UNCHANGED <<vars, tid, crashed>> /\ Progress

ConsumeFinal ==
    /\ l <= NL /\ Line.ev = "final"
    /\ Quiescent
    /\ Line.names # <<-1>> => SeqSet(Line.names) = series
    /\ l' = l + 1 /\ oi' = {} /\ UNCHANGED <<vars, tid, crashed>> /\ Progress
    /\ (l' > NL) => Say([tid |-> Tr.id, done |-> TRUE])

TNext == ConsumeEnv \/ IterSilent \/ IterObserved \/ IterEnd \/ ConsumeFinal

\* the specification's own clauses are evaluated in every state of every matching behaviour
\* (not after an abnormal end of resample() was reported: that is not a state of the design)
TraceInv == crashed \/ (ServedExactlyOnce /\ SurvivorsTimelineIntact /\ FailedOnlyRemoved /\ ActorAlive /\ LateRequestServedFromNextTick)
=============================================================================
