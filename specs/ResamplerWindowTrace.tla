----------------------- MODULE ResamplerWindowTrace -----------------------
(* Conformance of the real Resampler (one source) with ResamplerWindow.tla   *)
(* (C08).                                                                     *)
(*                                                                            *)
(* Input (ndjson, IOEnv.TRACE_FILE), one object per line: id, steps = the     *)
(* history TLC generated; steps[1] is the configuration, every other step is  *)
(*   recv: ts, kind            + obs = [start, received, period]              *)
(*   tick: T                   + obs = [start, received, period, T, handed,   *)
(*                                      emitted, calls]                       *)
(* where start / received / period (microseconds) are what                    *)
(* get_source_properties() reported after the step, handed is the sequence    *)
(* of <<timestamp, id>> the recording resampling function (given through      *)
(* ResamplerConfig) was called with for this tick (empty when it was not      *)
(* called), calls how often it was called, T and emitted the Sample the sink  *)
(* received (value None = -99).                                               *)
(* The spec actions are re-executed on the recorded arguments and every       *)
(* clause of C08 is evaluated by TLC on what the CODE handed out.             *)
EXTENDS ResamplerWindow, TLCExt

VARIABLES tid, l
tvars == <<vars, tid, l>>

\* TLCEval: parse the file once (a lazily evaluated definition would re-read it at every use)
TraceLog == TLCEval(ndJsonDeserialize(IOEnv.TRACE_FILE))
Tr == TraceLog[tid]

Say(v) == CSVWrite("%1$s", <<ToJson(v)>>, IOEnv.VERDICT_FILE)
Fail(clause, detail) == Say([tid |-> Tr.id, l |-> l, clause |-> clause, detail |-> detail])
Check(ok, clause, detail) == IF ok THEN TRUE ELSE Fail(clause, detail)

Pairs(sq) == [i \in 1..Len(sq) |-> [ts |-> sq[i][1], id |-> sq[i][2]]]

\* the estimator transcription against what the code reports (a disagreement, not a clause)
PropsCheck(o, st, rc, pus) ==
    Check(o.start = st /\ o.received = rc /\ o.period = pus, "C08.SourceProperties",
          <<"got", o.start, o.received, o.period, "transcription", st, rc, pus>>)

TInit ==
    /\ tid \in 1..Len(TraceLog)
    /\ l = 2
    /\ cfg = [P |-> Tr.steps[1].P, age |-> Tr.steps[1].age, L0 |-> Tr.steps[1].L0, maxbuf |-> Tr.steps[1].maxbuf,
              tick |-> Tr.steps[1].tick, lead |-> Tr.steps[1].lead]
    /\ buf = <<>> /\ maxlen = cfg.L0
    /\ start = None /\ received = 0 /\ periodUs = None
    /\ hist = <<>> /\ lost = 0
    /\ all = <<>> /\ lastTs = cfg.lead /\ nextT = cfg.P /\ nticks = 0
    /\ lastT = None /\ winLoUs = None /\ handed = <<>> /\ declared = <<>> /\ emitted = None
    /\ h = <<>>

Done == Say([tid |-> Tr.id, done |-> TRUE])

RecvT(r) ==
    /\ Recv(r.ts, r.kind)
    /\ PropsCheck(r.obs, start', received', periodUs')

TickT(r) ==
    LET o == r.obs
        \* the code's estimator outcome: the period it reports now, if it had none before
        estRaw == IF periodUs = None /\ o.period # None THEN o.period ELSE None
        \* only a sane estimate is adopted; with an insane one (negative, or made at a tick that is
        \* not later than the first sample) the buffer keeps its length in the spec, so the window
        \* clauses below show what the code's resize lost
        estObs == IF InputPeriodSaneOf(estRaw, o.start, r.T) THEN estRaw ELSE None
        got == Pairs(o.handed)
    IN
    /\ r.T = nextT
    /\ TickWith(r.T, estObs)
    /\ Check(Estimate(r.T) = estRaw, "C08.SourceProperties",
             <<"period estimated at", r.T, "got", estRaw, "transcription", Estimate(r.T)>>)
    /\ PropsCheck(o, start', received', periodUs')
    \* whatever estimator the code uses: a period estimated at this tick is positive and this tick is
    \* later than the first sample's stamp (the trace binds the code's own estimate, so a negative or
    \* premature one would otherwise silently size the buffer)
    /\ Check(InputPeriodSaneOf(estRaw, o.start, r.T) /\ (o.period # None => o.period > 0), "C08.InputPeriodSane",
             <<"T", r.T, "first sample stamped", o.start, "reported input period (us)", o.period>>)
    /\ Check(o.T = r.T, "C08.EmittedAtT", <<"sink got timestamp", o.T, "tick", r.T>>)
    /\ Check(got = declared', "C08.ExactWindow",
             <<"T", r.T, "window_lo_us", winLoUs', "buffer_len", maxlen', "handed", o.handed, "expected", declared'>>)
    /\ Check(got = handed', "C08.ImplRefinesDecl", <<"handed", o.handed, "transcription", handed'>>)
    /\ Check(NoFutureOf(got, r.T), "C08.NoFuture", <<"T", r.T, "handed", o.handed>>)
    /\ Check(NoStaleOf(got, winLoUs'), "C08.NoStale", <<"T", r.T, "window_lo_us", winLoUs', "handed", o.handed>>)
    /\ Check(NoInvalidOf(got), "C08.NoInvalid", <<"handed", o.handed, "received", all>>)
    /\ Check(WindowSuffixOf(got, winLoUs', r.T) /\ CompleteWhenFitsOf(got, winLoUs', r.T, lost'), "C08.WindowSuffix",
             <<"T", r.T, "handed", o.handed, "full_window", FullWindow(winLoUs', r.T), "lost", lost'>>)
    /\ Check((o.emitted = None) <=> (declared' = <<>>), "C08.NoneIffEmpty",
             <<"T", r.T, "emitted", o.emitted, "expected_handed", declared'>>)
    /\ Check(o.emitted = (IF got = <<>> THEN None ELSE got[Len(got)].id) /\ o.calls = (IF got = <<>> THEN 0 ELSE 1),
             "C08.ValueFromHanded", <<"emitted", o.emitted, "handed", o.handed, "calls", o.calls>>)

TStep ==
    /\ l <= Len(Tr.steps)
    /\ LET r == Tr.steps[l] IN
       IF r.a = "recv" THEN RecvT(r) ELSE IF r.a = "tick" THEN TickT(r) ELSE FALSE
    /\ UNCHANGED h
    /\ l' = l + 1 /\ UNCHANGED tid
    /\ (l' > Len(Tr.steps)) => Done

TNext == TStep
=============================================================================
