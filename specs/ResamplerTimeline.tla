------------------------- MODULE ResamplerTimeline -------------------------
(* C07 - the timeline of timeseries/_resampling.py:Resampler.                *)
(*                                                                            *)
(* Time is counted in integer ticks (the harness maps 1 tick = 1 s and the    *)
(* resampling period P = 4 ticks, so creation instants between grid points    *)
(* and lateness of exactly one period exist).  Wall clock and loop clock are  *)
(* the same variable `now` (the harness slaves datetime.now() to the loop).   *)
(*                                                                            *)
(* One action per critical section of the code:                               *)
(*   Create      Resampler.__init__: _calculate_window_end + the timer hack   *)
(*   AddSeries   Resampler.add_timeseries                                     *)
(*   TimePass    the clock advances one tick and the event loop does NOT run  *)
(*               (somebody else holds it): this is where lateness comes from  *)
(*   TimerFire   Timer.ready() returns: drift = now - nextTick,               *)
(*               TriggerAllMissed => nextTick += P whatever `now` is          *)
(*   Resample    the gather over all series: every sink receives windowEnd;   *)
(*               the sinks take `lat` ticks                                   *)
(*   Finish      the gather returned: windowEnd += P, back to the timer.      *)
(*               The results are paired with the list of sources taken when   *)
(*               the gather was built, so a series added meanwhile does not   *)
(*               matter.  (Before /repo 9f8dfea they were paired with         *)
(*               enumerate(_resamplers); when the dict had grown that raised  *)
(*               IndexError and ended resample().  The cause is kept as the   *)
(*               named predicate Dev_AddDuringGather: the trace specification *)
(*               attaches it to a failing C07.LoopAlive record, so the old    *)
(*               behaviour is recognised if it ever returns.)                 *)
(* When the loop runs it runs until nothing is ready, so the states `fired`,  *)
(* `done0` (sinks without latency) and `due` (a tick already missed when the  *)
(* gather returns) are transient: no time passes and no series is added in    *)
(* them.  Quiescent phases are `sleep` (waiting for the timer, possibly       *)
(* overdue = late wake-up) and `busy` (waiting for slow sinks, possibly       *)
(* overdue).                                                                  *)
EXTENDS Integers, Sequences, FiniteSets, TLC, Json, CSV, IOUtils

CONSTANTS P,          \* resampling period in ticks
          CreateSet,  \* creation instants (absolute ticks); covers all phases of the grid
          AlignSet,   \* align_to values (absolute ticks, before and after creation) and None
          NS,         \* series are 1..NS; series 1 is added together with the resampler
          LatSet,     \* sink latencies (ticks) TLC may choose for a tick
          MaxLate,    \* bound on how overdue a timer / a finished gather may become
          Horizon     \* the model stops the clock at created + Horizon

None == -99
Series == 1..NS

VARIABLES now, created, alignTo, windowEnd, nextTick, phase, busyUntil,
          drift,      \* what the timer reported for the current tick (only logged by the code)
          gathered,   \* number of series in the pending gather (None when there is none)
          joined,     \* series -> number of ticks already made when it was added, None = not added
          ticks,      \* the timeline: window ends handed out so far, in order
          h           \* history of actions, hidden by VIEW

vars == <<now, created, alignTo, windowEnd, nextTick, phase, busyUntil, drift, gathered, joined, ticks, h>>
View == <<now, created, alignTo, windowEnd, nextTick, phase, busyUntil, drift, gathered, joined, ticks>>

EmitOn == "OUT_FILE" \in DOMAIN IOEnv
Emit(v) == IF EmitOn THEN CSVWrite("%1$s", <<ToJson(v)>>, IOEnv.OUT_FILE) ELSE TRUE

Quiescent(ph) == ph \in {"sleep", "busy"}

\* what series s has been sent so far
EmittedOf(tk, jn, s) == IF jn[s] = None THEN <<>> ELSE SubSeq(tk, jn[s] + 1, Len(tk))
emitted == [s \in Series |-> EmittedOf(ticks, joined, s)]
NSeries == Cardinality({s \in Series : joined[s] # None})

----------------------------------------------------------------------------
(* _calculate_window_end: <<window_end, start_delay>> for creation instant c *)
CalcWindowEnd(c, al) ==
    IF al = None THEN <<c + P, 0>>
    ELSE LET elapsed == (c - al) % P IN          \* Python's % on timedelta: never negative
         IF elapsed = 0 THEN <<c + P, 0>>
         ELSE <<c + 2 * P - elapsed, P - elapsed>>

Init ==
    /\ now = 0 /\ created = None /\ alignTo = None /\ windowEnd = None /\ nextTick = None
    /\ phase = "none" /\ busyUntil = None /\ drift = None /\ gathered = None
    /\ joined = [s \in Series |-> None] /\ ticks = <<>> /\ h = <<>>

Create(c, al) ==
    /\ phase = "none"
    /\ now' = c /\ created' = c /\ alignTo' = al
    /\ LET we == CalcWindowEnd(c, al) IN
       /\ windowEnd' = we[1]
       /\ nextTick' = c + P + we[2]              \* loop.time() + period + start_delay
    /\ phase' = "sleep"
    /\ joined' = [joined EXCEPT ![1] = 0]
    /\ UNCHANGED <<busyUntil, drift, gathered, ticks>>
    /\ h' = <<[a |-> "create", c |-> c, align |-> al]>>

AddSeries(s) ==
    /\ Quiescent(phase) /\ joined[s] = None
    /\ joined' = [joined EXCEPT ![s] = Len(ticks)]
    /\ UNCHANGED <<now, created, alignTo, windowEnd, nextTick, phase, busyUntil, drift, gathered, ticks>>
    /\ h' = Append(h, [a |-> "add", s |-> s])

\* how overdue the thing the loop is waiting for would be after one more tick
Overdue(t) == IF phase = "sleep" THEN t - nextTick ELSE t - busyUntil

TimePass ==
    /\ Quiescent(phase)
    /\ now < created + Horizon
    /\ Overdue(now + 1) <= MaxLate
    /\ now' = now + 1
    /\ UNCHANGED <<created, alignTo, windowEnd, nextTick, phase, busyUntil, drift, gathered, joined, ticks>>
    /\ h' = Append(h, [a |-> "pass"])

TimerFire ==
    /\ phase \in {"sleep", "due"} /\ now >= nextTick
    /\ drift' = now - nextTick
    /\ nextTick' = nextTick + P                  \* TriggerAllMissed
    /\ phase' = "fired"
    /\ UNCHANGED <<now, created, alignTo, windowEnd, busyUntil, gathered, joined, ticks>>
    /\ h' = Append(h, [a |-> "fire", drift |-> now - nextTick, catchup |-> (phase = "due")])

Resample(lat) ==
    /\ phase = "fired"
    /\ ticks' = Append(ticks, windowEnd)         \* every series present gets Sample(windowEnd, ..)
    /\ busyUntil' = now + lat
    /\ gathered' = NSeries
    /\ phase' = IF lat = 0 THEN "done0" ELSE "busy"
    /\ UNCHANGED <<now, created, alignTo, windowEnd, nextTick, drift, joined>>
    /\ h' = Append(h, [a |-> "resample", lat |-> lat])

\* cause predicate of the repaired defect: _resamplers grew while the gather was pending
Dev_AddDuringGather == gathered # None /\ NSeries > gathered

Finish ==
    /\ phase \in {"busy", "done0"} /\ now >= busyUntil
    /\ windowEnd' = windowEnd + P
    /\ phase' = IF now >= nextTick THEN "due" ELSE "sleep"
    /\ gathered' = None
    /\ UNCHANGED <<now, created, alignTo, nextTick, busyUntil, drift, joined, ticks>>
    /\ h' = Append(h, [a |-> "finish", grown |-> Dev_AddDuringGather])

\* a history is handed to the harness whenever it ends in a quiescent state
EmitRule == Quiescent(phase') => Emit(h')

CreateStep == (\E c \in CreateSet, al \in AlignSet : Create(c, al)) /\ EmitRule
AddStep == (\E s \in Series : AddSeries(s)) /\ EmitRule
PassStep == TimePass /\ EmitRule
FireStep == TimerFire /\ EmitRule
ResampleStep == (\E lat \in LatSet : Resample(lat)) /\ EmitRule
FinishStep == Finish /\ EmitRule

Next == CreateStep \/ AddStep \/ PassStep \/ FireStep \/ ResampleStep \/ FinishStep

Spec == Init /\ [][Next]_vars

----------------------------------------------------------------------------
(* The clauses of C07, as operators over a recorded sequence so that the     *)
(* trace specification evaluates the very same text on what the sinks got.   *)

AlignRef(al, c) == IF al = None THEN c ELSE al

\* every timestamp is align_to + k * period for an integer k
AlignedSeq(sq, ref) == \A i \in 1..Len(sq) : (sq[i] - ref) % P = 0

\* consecutive k: none skipped, duplicated or reordered
ConsecutiveSeq(sq) == \A i \in 1..(Len(sq) - 1) : sq[i + 1] = sq[i] + P

\* the timeline starts no earlier than the creation and no later than two periods after it
FirstTickWindowSeq(sq, c) == Len(sq) > 0 => (c <= sq[1] /\ sq[1] <= c + 2 * P)

IsSuffix(a, b) == Len(a) <= Len(b) /\ a = SubSeq(b, Len(b) - Len(a) + 1, Len(b))
\* series resampled together receive the same timestamps
SameForAll(em) == \A s, t \in DOMAIN em : IsSuffix(em[s], em[t]) \/ IsSuffix(em[t], em[s])

\* no tick is withheld: once the loop has caught up (it waits for a timer that is not yet due)
\* every grid point from the first tick up to `now` has been handed out, and the first tick is
\* not overdue either
CaughtUpSeq(sq, c, t) == IF Len(sq) = 0 THEN t < c + 2 * P ELSE sq[Len(sq)] + P > t

Aligned == phase # "none" => \A s \in Series : AlignedSeq(emitted[s], AlignRef(alignTo, created))
Consecutive == \A s \in Series : ConsecutiveSeq(emitted[s])
FirstTickWindow == phase # "none" => FirstTickWindowSeq(ticks, created) /\ FirstTickWindowSeq(emitted[1], created)
SameForAllSeries == SameForAll(emitted)
CaughtUp == (phase = "sleep" /\ now < nextTick) => CaughtUpSeq(ticks, created, now)

\* C07.LoopAlive (resample() keeps running, otherwise every later tick is skipped) has no
\* counterpart in the model: no action of the design ends the loop.  It is a clause of the
\* trace specification, evaluated on the observed task.

(* design-level invariants that explain WHY the clauses hold *)
\* the timer deadline and the window end advance together: between two ticks they are equal,
\* while a tick is being processed the timer is exactly one period ahead
TimerTracksWindow ==
    phase # "none" =>
       IF phase \in {"sleep", "due"} THEN nextTick = windowEnd ELSE nextTick = windowEnd + P
\* a tick is never handed out before its window has ended
NeverEarly == phase = "fired" => windowEnd <= now
TypeOK ==
    /\ phase \in {"none", "sleep", "fired", "busy", "done0", "due"}
    /\ \A s \in Series : joined[s] = None \/ joined[s] \in 0..Len(ticks)

=============================================================================
