------------------------- MODULE ResamplerTimeline -------------------------
(* C07 - the timeline of timeseries/_resampling.py:Resampler.                *)
(*                                                                            *)
(* The scopes are given in ticks (1 tick = U microseconds = 1 s; P = 4 or 7   *)
(* ticks, so creation instants between grid points and lateness of exactly    *)
(* one period exist), but every instant the model keeps - now, created,       *)
(* windowEnd, nextTick, busyUntil and the emitted timestamps - is an integer  *)
(* number of MICROSECONDS since the harness's epoch, because a resampler may   *)
(* be created a few hundred microseconds after a grid point (OffSet) and the  *)
(* code treats ANY non-zero elapsed time as "not in sync".  align_to is an     *)
(* absolute instant in ticks (it may be half a year away, which does not fit  *)
(* 32 bits in microseconds): only its phase modulo the period matters.  The   *)
(* tzinfo align_to is expressed in (TzOf) does not change that instant; it is *)
(* passed to the real code by the harness and recorded in the history.        *)
(* Wall clock and loop clock are the same variable `now` (the harness slaves  *)
(* datetime.now() to the loop).                                               *)
(*                                                                            *)
(* One action per critical section of the code:                               *)
(*   Create      Resampler.__init__: _calculate_window_end + the timer hack   *)
(*   AddSeries   Resampler.add_timeseries                                     *)
(*   TimePass    the clock advances one tick and the event loop does NOT run  *)
(*               (somebody else holds it): this is where lateness comes from  *)
(*   TimerFire   Timer.ready() returns: drift = now - nextTick,               *)
(*               TriggerAllMissed => nextTick += P whatever `now` is          *)
(*   Resample    the gather over all series: every sink receives windowEnd;   *)
(*               the sinks take `lat` ticks                                   *)
(*   Finish      the gather returned: windowEnd += P, back to the timer.      *)
(*               The results are paired with the list of sources taken when   *)
(*               the gather was built, so a series added meanwhile does not   *)
(*               matter.  (Before /repo 9f8dfea they were paired with         *)
(*               enumerate(_resamplers); when the dict had grown that raised  *)
(*               IndexError and ended resample().  The cause is kept as the   *)
(*               named predicate Dev_AddDuringGather: the trace specification *)
(*               attaches it to a failing C07.LoopAlive record, so the old    *)
(*               behaviour is recognised if it ever returns.)                 *)
(*   SourceStops(s) / SinkRaises(s)                                           *)
(*               series s breaks: its source ends (the receiving task is     *)
(*               done, _StreamingHelper.resample raises SourceStoppedError    *)
(*               before the sink is called) or its sink raises from now on.   *)
(*               Either way s is handed nothing any more, the tick's gather   *)
(*               collects the exception, and Finish - AFTER windowEnd += P -  *)
(*               raises ResamplingError naming s: resample() ends (`raised`)  *)
(*   Recover     what ComponentMetricsResamplingActor._run does: catch the    *)
(*               ResamplingError, remove_timeseries() for the sources it      *)
(*               names, call resample() again                                 *)
(* When the loop runs it runs until nothing is ready, so the states `fired`,  *)
(* `done0` (sinks without latency), `due` (a tick already missed when the     *)
(* gather returns) and `raised` (the client recovers at once) are transient: no time passes and no series is added in    *)
(* them.  Quiescent phases are `sleep` (waiting for the timer, possibly       *)
(* overdue = late wake-up) and `busy` (waiting for slow sinks, possibly       *)
(* overdue).                                                                  *)
EXTENDS Integers, Sequences, FiniteSets, TLC, Json, CSV, IOUtils

CONSTANTS P,          \* resampling period in ticks
          CreateSet,  \* creation instants (absolute ticks); covers all phases of the grid
          OffSet,     \* sub-tick part of the creation instant (microseconds, < U)
          AlignSet,   \* align_to values (absolute ticks, before and after creation) and None
          TzOf,       \* align_to value -> the tzinfo it is expressed in ("utc", a fixed offset such as
                      \* "+05:30", or a zone name such as "Europe/Berlin" whose UTC offset at align_to
                      \* differs from the one at creation)
          NS,         \* series are 1..NS; series 1 is added together with the resampler
          LatSet,     \* sink latencies (ticks) TLC may choose for a tick
          FailSet,    \* series that may break (series 1 is the observer and never does)
          MaxFail,    \* how many series may break in one behaviour
          MaxLate,    \* bound on how overdue a timer / a finished gather may become
          Horizon     \* the model stops the clock at created + Horizon

None == -99
Series == 1..NS
U == 1000000            \* microseconds per tick
PU == P * U             \* the resampling period in microseconds

VARIABLES now, created, alignTo, windowEnd, nextTick, phase, busyUntil,
          drift,      \* what the timer reported for the current tick (only logged by the code)
          gathered,   \* number of series in the pending gather (None when there is none)
          joined,     \* series -> number of ticks already made when it was added, None = not added
          broken,     \* series -> "no" | "source" (its source has stopped) | "sink" (its sink raises)
          left,       \* series -> number of ticks made when it broke (it is handed nothing later), None
          removed,    \* series the client has removed after a ResamplingError
          failed,     \* series whose resample() raised in the pending / last gather
          ticks,      \* the timeline: window ends handed out so far, in order
          h           \* history of actions, hidden by VIEW

vars == <<now, created, alignTo, windowEnd, nextTick, phase, busyUntil, drift, gathered, joined, broken, left, removed, failed, ticks, h>>
View == <<now, created, alignTo, windowEnd, nextTick, phase, busyUntil, drift, gathered, joined, broken, left, removed, failed, ticks>>

EmitOn == "OUT_FILE" \in DOMAIN IOEnv
Emit(v) == IF EmitOn THEN CSVWrite("%1$s", <<ToJson(v)>>, IOEnv.OUT_FILE) ELSE TRUE

Quiescent(ph) == ph \in {"sleep", "busy"}

\* what series s has been sent so far
EmittedOf(tk, jn, lf, s) ==
    IF jn[s] = None THEN <<>> ELSE SubSeq(tk, jn[s] + 1, IF lf[s] = None THEN Len(tk) ELSE lf[s])
emitted == [s \in Series |-> EmittedOf(ticks, joined, left, s)]
Present == {s \in Series : joined[s] # None /\ s \notin removed}     \* keys of _resamplers
NSeries == Cardinality(Present)

----------------------------------------------------------------------------
\* the position of align_to inside a period, in microseconds (align_to is a whole number of ticks)
AlPhase(al) == (al % P) * U

(* _calculate_window_end: <<window_end, start_delay>> for creation instant c (microseconds) *)
CalcWindowEnd(c, al) ==
    IF al = None THEN <<c + PU, 0>>
    ELSE LET elapsed == (c - AlPhase(al)) % PU IN    \* (now - align_to) % period: never negative
         IF elapsed = 0 THEN <<c + PU, 0>>           \* `if not elapsed`: exactly zero, nothing less
         ELSE <<c + 2 * PU - elapsed, PU - elapsed>>

Init ==
    /\ now = 0 /\ created = None /\ alignTo = None /\ windowEnd = None /\ nextTick = None
    /\ phase = "none" /\ busyUntil = None /\ drift = None /\ gathered = None
    /\ joined = [s \in Series |-> None] /\ ticks = <<>> /\ h = <<>>
    /\ broken = [s \in Series |-> "no"] /\ left = [s \in Series |-> None] /\ removed = {} /\ failed = {}

Create(ct, off, al) ==
    /\ phase = "none"
    /\ LET c == ct * U + off
           we == CalcWindowEnd(c, al) IN
       /\ now' = c /\ created' = c /\ alignTo' = al
       /\ windowEnd' = we[1]
       /\ nextTick' = c + PU + we[2]             \* loop.time() + period + start_delay
    /\ phase' = "sleep"
    /\ joined' = [joined EXCEPT ![1] = 0]
    /\ UNCHANGED <<busyUntil, drift, gathered, broken, left, removed, failed, ticks>>
    /\ h' = <<[a |-> "create", c |-> ct, off |-> off, align |-> al, tz |-> (IF al = None THEN "none" ELSE TzOf[al])]>>

AddSeries(s) ==
    /\ Quiescent(phase) /\ joined[s] = None
    /\ joined' = [joined EXCEPT ![s] = Len(ticks)]
    /\ UNCHANGED <<now, created, alignTo, windowEnd, nextTick, phase, busyUntil, drift, gathered, broken, left, removed, failed, ticks>>
    /\ h' = Append(h, [a |-> "add", s |-> s])

\* how overdue the thing the loop is waiting for would be after one more tick
Overdue(t) == IF phase = "sleep" THEN t - nextTick ELSE t - busyUntil

TimePass ==
    /\ Quiescent(phase)
    /\ now < created + Horizon * U
    /\ Overdue(now + U) <= MaxLate * U
    /\ now' = now + U
    /\ UNCHANGED <<created, alignTo, windowEnd, nextTick, phase, busyUntil, drift, gathered, joined, broken, left, removed, failed, ticks>>
    /\ h' = Append(h, [a |-> "pass"])

TimerFire ==
    /\ phase \in {"sleep", "due"} /\ now >= nextTick
    /\ drift' = now - nextTick
    /\ nextTick' = nextTick + PU                 \* TriggerAllMissed
    /\ phase' = "fired"
    /\ UNCHANGED <<now, created, alignTo, windowEnd, busyUntil, gathered, joined, broken, left, removed, failed, ticks>>
    /\ h' = Append(h, [a |-> "fire", drift |-> now - nextTick, catchup |-> (phase = "due")])

Resample(lat) ==
    /\ phase = "fired"
    /\ ticks' = Append(ticks, windowEnd)         \* every series present gets Sample(windowEnd, ..)
    /\ busyUntil' = now + lat * U
    /\ gathered' = NSeries
    /\ failed' = {s \in Present : broken[s] # "no"}   \* their _StreamingHelper.resample raises
    /\ phase' = IF lat = 0 THEN "done0" ELSE "busy"
    /\ UNCHANGED <<now, created, alignTo, windowEnd, nextTick, drift, joined, broken, left, removed>>
    /\ h' = Append(h, [a |-> "resample", lat |-> lat])

\* cause predicate of the repaired defect: _resamplers grew while the gather was pending
Dev_AddDuringGather == gathered # None /\ NSeries > gathered

Finish ==
    /\ phase \in {"busy", "done0"} /\ now >= busyUntil
    /\ windowEnd' = windowEnd + PU               \* before the results are inspected
    /\ phase' = IF failed # {} THEN "raised"     \* raise ResamplingError(exceptions): resample() ends
                ELSE IF now >= nextTick THEN "due" ELSE "sleep"
    /\ gathered' = None
    /\ UNCHANGED <<now, created, alignTo, nextTick, busyUntil, drift, joined, broken, left, removed, failed, ticks>>
    /\ h' = Append(h, [a |-> "finish", grown |-> Dev_AddDuringGather, raised |-> (failed # {})])

\* nothing the loop waits for is overdue (so running it now does nothing)
OnTime == IF phase = "sleep" THEN now < nextTick ELSE now < busyUntil

Break(s, how) ==
    /\ Quiescent(phase) /\ OnTime
    /\ s \in FailSet \cap Present /\ broken[s] = "no"
    /\ Cardinality({t \in Series : broken[t] # "no"}) < MaxFail
    /\ broken' = [broken EXCEPT ![s] = how]
    /\ left' = [left EXCEPT ![s] = Len(ticks)]
    /\ UNCHANGED <<now, created, alignTo, windowEnd, nextTick, phase, busyUntil, drift, gathered, joined, removed, failed, ticks>>
SourceStops(s) == Break(s, "source") /\ h' = Append(h, [a |-> "stop", s |-> s])
SinkRaises(s) == Break(s, "sink") /\ h' = Append(h, [a |-> "sinkfail", s |-> s])

Recover ==
    /\ phase = "raised"
    /\ removed' = removed \cup failed             \* remove_timeseries(source) for every source named
    /\ failed' = {}
    /\ phase' = IF now >= nextTick THEN "due" ELSE "sleep"   \* resample() again
    /\ UNCHANGED <<now, created, alignTo, windowEnd, nextTick, busyUntil, drift, gathered, joined, broken, left, ticks>>
    /\ h' = Append(h, [a |-> "recover"])

\* a history is handed to the harness whenever it ends in a quiescent state
EmitRule == Quiescent(phase') => Emit(h')

CreateStep == (\E c \in CreateSet, off \in OffSet, al \in AlignSet : Create(c, off, al)) /\ EmitRule
AddStep == (\E s \in Series : AddSeries(s)) /\ EmitRule
PassStep == TimePass /\ EmitRule
FireStep == TimerFire /\ EmitRule
ResampleStep == (\E lat \in LatSet : Resample(lat)) /\ EmitRule
FinishStep == Finish /\ EmitRule
BreakStep == (\E s \in Series : SourceStops(s) \/ SinkRaises(s)) /\ EmitRule
RecoverStep == Recover /\ EmitRule

Next == CreateStep \/ AddStep \/ PassStep \/ FireStep \/ ResampleStep \/ FinishStep \/ BreakStep \/ RecoverStep

Spec == Init /\ [][Next]_vars

----------------------------------------------------------------------------
(* The clauses of C07, as operators over a recorded sequence so that the     *)
(* trace specification evaluates the very same text on what the sinks got.   *)

AlignRef(al, c) == IF al = None THEN c ELSE AlPhase(al)     \* microseconds; c = the creation instant

\* every timestamp is align_to + k * period for an integer k
AlignedSeq(sq, ref) == \A i \in 1..Len(sq) : (sq[i] - ref) % PU = 0

\* consecutive k: none skipped, duplicated or reordered
ConsecutiveSeq(sq) == \A i \in 1..(Len(sq) - 1) : sq[i + 1] = sq[i] + PU

\* the timeline starts no earlier than the creation and no later than two periods after it
FirstTickWindowSeq(sq, c) == Len(sq) > 0 => (c <= sq[1] /\ sq[1] <= c + 2 * PU)

IsSuffix(a, b) == Len(a) <= Len(b) /\ a = SubSeq(b, Len(b) - Len(a) + 1, Len(b))
IsSegment(a, b) == \E i \in 0..(Len(b) - Len(a)) : a = SubSeq(b, i + 1, i + Len(a))
\* series resampled together receive the same timestamps: what any series is handed is a
\* contiguous piece of what series 1 (present from the start, never breaks) is handed
SameForAll(em) == \A s \in DOMAIN em : IsSegment(em[s], em[1])

\* no tick is withheld: once the loop has caught up (it waits for a timer that is not yet due)
\* every grid point from the first tick up to `now` has been handed out, and the first tick is
\* not overdue either
CaughtUpSeq(sq, c, t) == IF Len(sq) = 0 THEN t < c + 2 * PU ELSE sq[Len(sq)] + PU > t

Aligned == phase # "none" => \A s \in Series : AlignedSeq(emitted[s], AlignRef(alignTo, created))
Consecutive == \A s \in Series : ConsecutiveSeq(emitted[s])
FirstTickWindow == phase # "none" => FirstTickWindowSeq(ticks, created) /\ FirstTickWindowSeq(emitted[1], created)
SameForAllSeries == /\ SameForAll(emitted)
                    /\ \A s \in Series : broken[s] = "no" => IsSuffix(emitted[s], emitted[1])
CaughtUp == (phase = "sleep" /\ now < nextTick) => CaughtUpSeq(ticks, created, now)

\* C07.LoopAlive (resample() keeps running, otherwise every later tick is skipped): the only
\* action of the design that ends the loop is the documented ResamplingError of Finish (`raised`),
\* which the client answers with Recover at once.  It is a clause of the
\* trace specification, evaluated on the observed task.

(* design-level invariants that explain WHY the clauses hold *)
\* the timer deadline and the window end advance together: between two ticks they are equal,
\* while a tick is being processed the timer is exactly one period ahead
TimerTracksWindow ==
    phase # "none" =>
       IF phase \in {"sleep", "due", "raised"} THEN nextTick = windowEnd ELSE nextTick = windowEnd + PU
\* a tick is never handed out before its window has ended
NeverEarly == phase = "fired" => windowEnd <= now
TypeOK ==
    /\ phase \in {"none", "sleep", "fired", "busy", "done0", "due", "raised"}
    /\ \A s \in Series : joined[s] = None \/ joined[s] \in 0..Len(ticks)

=============================================================================
