---------------------------- MODULE BatteryPower ----------------------------
(* Battery power distribution and the two aggregations of power bounds.      *)
(*                                                                            *)
(*   C01  Conservation, SignOfRequest, RemainderSignAndMagnitude              *)
(*        (+ ReportedIsCommanded / ResultAccountsRequest on the manager path, *)
(*        evaluated in BatteryPowerTrace)                                     *)
(*   C02  PerInverterInBounds, GroupInBounds, NoHeadroomZero                  *)
(*   C17  AdvertisedAccepted, AtLeastSumMinPower, InclusionIdentical          *)
(*                                                                            *)
(* The state machine follows the implementation call by call:                 *)
(*   Install    a request arrives for a set of battery groups (the input)     *)
(*   Prepare    _inclusion_exclusion_bounds, available SoC,                   *)
(*              _compute_battery_availability_ratio (+ stable descending sort)*)
(*   Reserve    the proportional-share / min-power reservation loop           *)
(*   Cover      deficits covered from the largest excess, left-over accounting*)
(*   AddExcess  excess added to the allocations                               *)
(*   Greedy     _greedy_distribute_remaining_power                            *)
(*   Split      _distribute_multi_inverter_pairs                              *)
(*   Report     sign flip for supply, BatteryManager._distribute_power        *)
(* Every step is a pure operator (XxxOf) on the working record, so the trace  *)
(* specification re-executes exactly the same definitions on recorded inputs. *)
(*                                                                            *)
(* Numbers: powers are integers in spec units (UnitW watts each), SoC in      *)
(* arbitrary SoC units, intermediate values exact rationals (Rat.tla).        *)
(* Outputs (model or recorded from the code) are compared as fixed-point      *)
(* integers with SCd decimal digits and tolerance Tol.                        *)
EXTENDS Rat, Sequences, FiniteSets, TLC, Json, CSV, IOUtils

CONSTANTS
    UnitW,              \* watts per spec power unit (only the 0.1 W threshold depends on it)
    Mode,               \* "dist": distribution inputs; "bounds": configurations only (C17);
                        \* "reject": requests the advertised bounds do NOT admit (admission check); "trace"
    NGroups,            \* set of group counts
    Caps, Socs, SocLo, SocHi, BatBnds, InvBnds,     \* alphabet of the first battery / inverter of a group
    Caps2, Socs2, BatBnds2, InvBnds2,               \* alphabet of further batteries / inverters
    Lims2,              \* SoC limits <<lower, upper>> of further batteries (the first one has SocLo, SocHi)
    Shapes1, ShapesR,   \* sets of <<#batteries, #inverters>> for group 1 / the other groups
    Mags, Exps,         \* request magnitudes (besides the advertised bounds themselves), exponents
    SCd, Tol            \* fixed-point digits and tolerance (in fixed-point units)

VARIABLES inp,          \* [groups, power, exp, work]  (work[g][k]: status of battery k of group g:
                        \*  "w" working, "u" uncertain (blocked after a failed request), "n" not working)
          pc,           \* control state
          w             \* working record of the algorithm (intermediate values)

vars == <<inp, pc, w>>

SC == Pow10(SCd)
Tenth == Norm(1, 10 * UnitW)          \* 0.1 W

----------------------------------------------------------------------------
(* small helpers *)
Abs(x) == IF x < 0 THEN -x ELSE x
Max2(a, b) == IF a < b THEN b ELSE a
Min2(a, b) == IF b < a THEN b ELSE a
Rng(s) == {s[i] : i \in 1..Len(s)}
MaxS(s) == CHOOSE x \in Rng(s) : \A y \in Rng(s) : y <= x
MinS(s) == CHOOSE x \in Rng(s) : \A y \in Rng(s) : x <= y
RECURSIVE SumTo(_, _)
SumTo(f, n) == IF n = 0 THEN 0 ELSE f[n] + SumTo(f, n - 1)
SumS(s) == SumTo(s, Len(s))
RECURSIVE RSumTo(_, _)
RSumTo(f, n) == IF n = 0 THEN Zero ELSE RAdd(f[n], RSumTo(f, n - 1))
RSumS(s) == RSumTo(s, Len(s))
Col(s, k) == [i \in 1..Len(s) |-> s[i][k]]

----------------------------------------------------------------------------
(* Data.  Bounds are <<incl_lower, excl_lower, excl_upper, incl_upper>>.      *)
(* battery  [cap, soc, slo, shi, b]; group [bats, invs]: k batteries behind m *)
(* inverters; the inverter sequence is in the iteration order of the code's   *)
(* frozenset of inverter ids (the harness picks ids accordingly).             *)

BndOK(b) == b[1] <= b[2] /\ b[2] <= 0 /\ 0 <= b[3] /\ b[3] <= b[4]

\* AggregatedBatteryData / _aggregate_battery_power_bounds
Agg(g) ==
    LET B == g.bats
        n == Len(B)
        cap == SumS([i \in 1..n |-> B[i].cap])
    IN [cap |-> cap,
        soc |-> Norm(SumS([i \in 1..n |-> B[i].soc * B[i].cap]), cap),
        slo |-> Norm(SumS([i \in 1..n |-> B[i].slo * B[i].cap]), cap),
        shi |-> Norm(SumS([i \in 1..n |-> B[i].shi * B[i].cap]), cap),
        il |-> SumS([i \in 1..n |-> B[i].b[1]]),
        el |-> MinS([i \in 1..n |-> B[i].b[2]]) * n,
        eu |-> MaxS([i \in 1..n |-> B[i].b[3]]) * n,
        iu |-> SumS([i \in 1..n |-> B[i].b[4]])]

\* what one direction of the algorithm sees of a group:
\* available SoC and _inclusion_exclusion_bounds (supply side negated)
Side(g, supply) ==
    LET a == Agg(g)
        m == Len(g.invs)
    IN [cap |-> a.cap,
        avail |-> IF supply THEN RMax(Zero, RSub(a.soc, a.slo)) ELSE RMax(Zero, RSub(a.shi, a.soc)),
        bex |-> IF supply THEN -a.el ELSE a.eu,
        binc |-> IF supply THEN -a.il ELSE a.iu,
        iinc |-> TLCEval([j \in 1..m |-> IF supply THEN -Max2(g.invs[j][1], a.il) ELSE Min2(g.invs[j][4], a.iu)]),
        iex |-> TLCEval([j \in 1..m |-> IF supply THEN -g.invs[j][2] ELSE g.invs[j][3]])]

MinPowerOf(s) == Max2(s.bex, MinS(s.iex))
InclBoundOf(s) == Min2(SumS(s.iinc), s.binc)

GroupOK(g) ==
    /\ \A i \in 1..Len(g.bats) : BndOK(g.bats[i].b) /\ g.bats[i].cap > 0 /\ g.bats[i].slo <= g.bats[i].shi
    /\ \A j \in 1..Len(g.invs) : BndOK(g.invs[j])
    /\ \A supply \in BOOLEAN : LET s == Side(g, supply) IN MinPowerOf(s) <= InclBoundOf(s)

----------------------------------------------------------------------------
(* C17: the two aggregations of bounds and the admission check *)

GroupBnd(g) ==
    LET a == Agg(g) IN
    [il |-> Max2(a.il, SumS(Col(g.invs, 1))), el |-> Min2(a.el, SumS(Col(g.invs, 2))),
     eu |-> Max2(a.eu, SumS(Col(g.invs, 3))), iu |-> Min2(a.iu, SumS(Col(g.invs, 4)))]

\* PowerBoundsCalculator.calculate: per group max/min, summed over the groups
Advertised(groups) ==
    LET n == Len(groups)
        gb == TLCEval([i \in 1..n |-> GroupBnd(groups[i])])
    IN [il |-> SumS([i \in 1..n |-> gb[i].il]), el |-> SumS([i \in 1..n |-> gb[i].el]),
        eu |-> SumS([i \in 1..n |-> gb[i].eu]), iu |-> SumS([i \in 1..n |-> gb[i].iu])]

\* BatteryManager._get_bounds: inclusion per group, exclusion max/min of the sums
Enforced(groups) ==
    LET n == Len(groups)
        ag == TLCEval([i \in 1..n |-> Agg(groups[i])])
    IN [il |-> SumS([i \in 1..n |-> Max2(ag[i].il, SumS(Col(groups[i].invs, 1)))]),
        iu |-> SumS([i \in 1..n |-> Min2(ag[i].iu, SumS(Col(groups[i].invs, 4)))]),
        el |-> Min2(SumS([i \in 1..n |-> ag[i].el]), SumS([i \in 1..n |-> SumS(Col(groups[i].invs, 2))])),
        eu |-> Max2(SumS([i \in 1..n |-> ag[i].eu]), SumS([i \in 1..n |-> SumS(Col(groups[i].invs, 3))]))]

\* Powers for C17 are in HALF spec units (hp), so that "just inside / just outside" exist.
\* BatteryManager._check_request for a non-zero power; TRUE = not answered with OutOfBounds
Accepts(hp, e, adjust) ==
    IF adjust THEN ~(2 * e.el < hp /\ hp < 2 * e.eu)
    ELSE (2 * e.il <= hp /\ hp <= 2 * e.el) \/ (2 * e.eu <= hp /\ hp <= 2 * e.iu)

\* inside the advertised inclusion bounds and not strictly inside the exclusion zone
InAdvertised(hp, a) == (2 * a.il <= hp /\ hp <= 2 * a.el) \/ (2 * a.eu <= hp /\ hp <= 2 * a.iu)
\* SystemBounds.__contains__ (closed exclusion interval)
SysContains(hp, a) == 2 * a.il <= hp /\ hp <= 2 * a.iu /\ ~(2 * a.el <= hp /\ hp <= 2 * a.eu)

\* Battery status.  Both PowerBoundsCalculator.calculate and BatteryManager._get_components_data
\* take the WHOLE set of batteries behind a shared inverter as soon as one of them is working (the
\* data of all of them is complete), and leave out a set none of whose batteries works.
RECURSIVE EffFrom(_, _, _)
EffFrom(groups, work, k) ==
    IF k > Len(groups) THEN <<>>
    ELSE (IF \E b \in 1..Len(work[k]) : work[k][b] THEN <<groups[k]>> ELSE <<>>) \o EffFrom(groups, work, k + 1)
Effective(groups, work) == EffFrom(groups, work, 1)
AllWork(groups) == [k \in 1..Len(groups) |-> [b \in 1..Len(groups[k].bats) |-> "w"]]
\* ComponentPoolStatus.get_working_components over ALL batteries of the pool / of the request (what the
\* battery pool and the manager both ask once): the working ones, or -- when none is working -- the
\* uncertain ones.  Result: boolean matrix "battery is used".
WorkingOf(st) ==
    LET anyw == \E k \in 1..Len(st) : \E b \in 1..Len(st[k]) : st[k][b] = "w"
    IN [k \in 1..Len(st) |-> [b \in 1..Len(st[k]) |-> st[k][b] = (IF anyw THEN "w" ELSE "u")]]
\* status assignments: a non-empty set S of batteries is working and the others are not working, or
\* S is working and the others uncertain (uncertain ones must be ignored), or S is uncertain and
\* nothing is working (the fallback)
StatusSets(groups) ==
    LET all == UNION {{<<k, b>> : b \in 1..Len(groups[k].bats)} : k \in 1..Len(groups)}
        mk(S, in, out) == [k \in 1..Len(groups) |-> [b \in 1..Len(groups[k].bats) |-> IF <<k, b>> \in S THEN in ELSE out]]
    IN {mk(S, "w", "n") : S \in (SUBSET all) \ {{}}} \cup
       {mk(S, "w", "u") : S \in (SUBSET all) \ {{}, all}} \cup
       {mk(S, "u", "n") : S \in (SUBSET all) \ {{}}}
PartiallyWorking(work) ==
    \E k \in 1..Len(work) : (\E b \in 1..Len(work[k]) : work[k][b]) /\ (\E b \in 1..Len(work[k]) : ~work[k][b])
EffectiveSt(groups, st) == Effective(groups, WorkingOf(st))

SumMinPower(groups, supply) == SumS([i \in 1..Len(groups) |-> MinPowerOf(Side(groups[i], supply))])

\* on, just inside and just outside every bound of either aggregation (half units)
Probes(groups) ==
    LET a == Advertised(groups)
        e == Enforced(groups)
    IN {2 * x + dd : x \in {a.il, a.el, a.eu, a.iu, e.il, e.el, e.eu, e.iu}, dd \in {-1, 0, 1}} \ {0}

AdvertisedAcceptedOn(groups) ==
    LET a == Advertised(groups)  e == Enforced(groups) IN
    \A hp \in Probes(groups) : InAdvertised(hp, a) => Accepts(hp, e, TRUE) /\ Accepts(hp, e, FALSE)
AtLeastSumMinPowerOn(groups) ==
    LET a == Advertised(groups)
        mpC == SumMinPower(groups, FALSE)
        mpS == SumMinPower(groups, TRUE)
    IN \A hp \in Probes(groups) : InAdvertised(hp, a) => Abs(hp) >= 2 * (IF hp < 0 THEN mpS ELSE mpC)
InclusionIdenticalOn(groups) ==
    LET a == Advertised(groups)  e == Enforced(groups) IN a.il = e.il /\ a.iu = e.iu

----------------------------------------------------------------------------
(* The distribution algorithm.  Ordered dicts are sequences of <<key, value>> *)
(* in insertion order; Python's max() returns the first maximal entry.        *)

NoW == [stage |-> "none"]

\* ---- Prepare: _distribute_{consume,supply}_power + _compute_battery_availability_ratio
PrepareOf(i) ==
    LET supply == i.power < 0
        n == Len(i.groups)
        S == TLCEval([g \in 1..n |-> Side(i.groups[g], supply)])
        tot == SumS([g \in 1..n |-> S[g].cap])
        \* pow(0.0, 0) is 1.0, but a battery without available SoC is never used (soc_factor 0)
        ratio == TLCEval([g \in 1..n |-> RMul(Norm(S[g].cap, tot),
                                               IF RIsZero(S[g].avail) THEN Zero ELSE RPow(S[g].avail, i.exp))])
        mp == TLCEval([g \in 1..n |-> MinPowerOf(S[g])])
        ib == TLCEval([g \in 1..n |-> InclBoundOf(S[g])])
        \* sort(key=(min_power, ratio), reverse=True): stable, descending
        Gt(x, y) == mp[x] > mp[y] \/ (mp[x] = mp[y] /\ RLt(ratio[y], ratio[x]))
        Ins(s, x) == LET later == {k \in 1..Len(s) : Gt(x, s[k])}
                         pos == IF later = {} THEN Len(s) + 1 ELSE CHOOSE k \in later : \A k2 \in later : k <= k2
                     IN [k \in 1..(Len(s) + 1) |-> IF k < pos THEN s[k] ELSE IF k = pos THEN x ELSE s[k - 1]]
        Sorted[k \in 0..n] == IF k = 0 THEN <<>> ELSE Ins(Sorted[k - 1], k)
        sumr == RSumS(ratio)
    IN [stage |-> "prepared", supply |-> supply, P |-> R(Abs(i.power)), n |-> n, S |-> S, exp |-> i.exp,
        ratio |-> ratio, mp |-> mp, ib |-> ib, sumr |-> sumr, order |-> Sorted[n],
        allzero |-> RIsZero(sumr),
        res |-> Zero, dist |-> Zero, used |-> Zero, rr |-> sumr,
        exc |-> <<>>, defs |-> <<>>, out |-> <<>>, rem |-> Zero,
        d |-> <<>>, zh |-> {}, unc |-> FALSE, partial |-> 0, splitlost |-> FALSE, splittie |-> FALSE, earlylost |-> FALSE]

\* ---- Reserve: the reservation loop of _distribute_power
RECURSIVE ReserveLoop(_, _)
ReserveLoop(k, st) ==
    IF k > Len(st.order) THEN st ELSE
    LET g == st.order[k] IN
    IF RIsZero(st.rr) \/ RIsZero(st.ratio[g])
    THEN ReserveLoop(k + 1, [st EXCEPT !.out = Append(@, <<g, <<Zero, Zero>>>>),
                                      \* legacy cause: the old loop handed min_power to this pair
                                      !.zh = IF ~RIsZero(st.rr) /\ st.mp[g] > 0 THEN @ \cup {g} ELSE @])
    ELSE LET ptd == RSub(st.P, st.res)
             calc == RDiv(RMul(ptd, st.ratio[g]), st.rr)
             mp == R(st.mp[g])
             ib == R(st.ib[g])
             used2 == RAdd(st.used, st.ratio[g])
             st2 == [st EXCEPT !.res = RAdd(@, RMax(calc, mp)), !.used = used2, !.rr = RSub(st.sumr, used2),
                               !.dist = RAdd(@, mp), !.out = Append(@, <<g, <<ib, mp>>>>)]
             st3 == IF RLt(ib, calc) THEN [st2 EXCEPT !.exc = Append(@, <<g, RSub(ib, mp)>>)]
                    ELSE IF RLt(calc, mp) THEN [st2 EXCEPT !.defs = Append(@, <<g, RSub(calc, mp)>>)]
                    ELSE [st2 EXCEPT !.exc = Append(@, <<g, RSub(calc, mp)>>)]
         IN ReserveLoop(k + 1, st3)
ReserveOf(st) == [ReserveLoop(1, st) EXCEPT !.stage = "reserved"]

\* ---- Cover: deficits are covered from the largest excess (first maximal entry), possibly from
\* several donors one after the other (partial cover); distributed_power is not touched
MaxIdx(dd) == CHOOSE i \in 1..Len(dd) : /\ \A j \in 1..Len(dd) : RLe(dd[j][2], dd[i][2])
                                         /\ \A m \in 1..(i - 1) : RLt(dd[m][2], dd[i][2])
RECURSIVE CoverLoop(_, _, _)          \* result <<deficit left, excess, number of partial covers>>
CoverLoop(deficit, exc, np) ==
    IF ~RIsNeg(deficit) THEN <<deficit, exc, np>>
    ELSE IF Len(exc) = 0 THEN <<deficit, exc, np>>
    ELSE LET i == MaxIdx(exc)
             lp == exc[i][2]
         IN IF ~RIsPos(lp) THEN <<deficit, exc, np>>
            ELSE IF RLe(RNeg(deficit), lp) THEN <<Zero, [exc EXCEPT ![i] = <<@[1], RAdd(lp, deficit)>>], np>>
            ELSE CoverLoop(RAdd(deficit, lp), [exc EXCEPT ![i] = <<@[1], Zero>>], np + 1)
RECURSIVE DeficitLoop(_, _)
DeficitLoop(k, st) ==
    IF k > Len(st.defs) THEN st ELSE
    LET cv == CoverLoop(st.defs[k][2], st.exc, 0)
        deficit == cv[1]
        lo == RSub(st.P, st.dist)
        big == RLt(deficit, RNeg(Tenth))
    IN DeficitLoop(k + 1, [st EXCEPT !.exc = cv[2], !.defs[k] = <<@[1], deficit>>,
                                     !.partial = IF cv[3] > @ THEN cv[3] ELSE @,
                                     \* legacy cause: here the old code booked the uncovered deficit
                                     \* (or the left-over) against distributed_power
                                     !.unc = @ \/ (big /\ RIsPos(lo))])
CoverOf(st) == [DeficitLoop(1, st) EXCEPT !.stage = "covered"]

\* ---- AddExcess: lines 566-573
PutPower(out, g, v) == [k \in 1..Len(out) |-> IF out[k][1] = g THEN <<g, <<out[k][2][1], v>>>> ELSE out[k]]
GetPower(out, g) == LET k == CHOOSE k \in 1..Len(out) : out[k][1] = g IN out[k][2][2]
RECURSIVE ExcessLoop(_, _)
ExcessLoop(k, st) ==
    IF k > Len(st.exc) THEN st ELSE
    LET g == st.exc[k][1]
        e == st.exc[k][2]
    IN ExcessLoop(k + 1, [st EXCEPT !.dist = RAdd(@, e), !.out = PutPower(@, g, RAdd(GetPower(st.out, g), e))])
AddExcessOf(st) == LET s2 == ExcessLoop(1, st) IN [s2 EXCEPT !.stage = "excess", !.rem = RSub(s2.P, s2.dist)]

\* ---- Greedy: _greedy_distribute_remaining_power
RECURSIVE GreedyLoop(_, _, _)
GreedyLoop(k, out, rem) ==
    IF k > Len(out) THEN <<out, rem>> ELSE
    LET o == out[k][2] IN
    IF RIsZero(rem) \/ RIsZero(o[2]) THEN GreedyLoop(k + 1, out, rem)
    ELSE LET add == RMin(RSub(o[1], o[2]), rem)
         IN GreedyLoop(k + 1, [out EXCEPT ![k] = <<@[1], <<o[1], RAdd(o[2], add)>>>>], RSub(rem, add))
GreedyOf(st) ==
    LET gr == IF RIsZero(st.rem) THEN <<st.out, st.rem>> ELSE GreedyLoop(1, st.out, st.rem)
    IN [st EXCEPT !.stage = "greedy", !.out = gr[1], !.rem = gr[2]]

\* ---- Split: _distribute_multi_inverter_pairs.  Result <<set-points, left, tie>>
RECURSIVE SplitLoop(_, _, _, _, _)
SplitLoop(s, j, r, acc, tie) ==
    IF j > Len(s.iex) THEN <<acc, r, tie>> ELSE
    LET tie2 == tie \/ (~RIsZero(r) /\ r = R(s.iex[j])) IN
    IF ~RIsZero(r) /\ RLe(R(s.iex[j]), r)
    THEN LET x == RMin(R(s.iinc[j]), r) IN SplitLoop(s, j + 1, RSub(r, x), Append(acc, x), tie2)
    ELSE SplitLoop(s, j + 1, r, Append(acc, Zero), tie2)
SplitOf(st) ==
    LET sp == TLCEval([g \in 1..st.n |->
                 IF Len(st.S[g].iex) = 1 THEN <<<<GetPower(st.out, g)>>, Zero, FALSE>>
                 ELSE SplitLoop(st.S[g], 1, GetPower(st.out, g), <<>>, FALSE)])
    IN [st EXCEPT !.stage = "split", !.d = [g \in 1..st.n |-> sp[g][1]],
                  !.rem = RAdd(@, RSumS([g \in 1..st.n |-> sp[g][2]])),
                  !.splitlost = \E g \in 1..st.n : ~RIsZero(sp[g][2]),
                  \* a multi-inverter set could not place part of its share and another multi-inverter
                  \* set comes after it (the unplaced power of several sets has to be added up)
                  !.earlylost = \E k \in 1..Len(st.out), k2 \in 1..Len(st.out) :
                                    k < k2 /\ ~RIsZero(sp[st.out[k][1]][2]) /\ Len(st.S[st.out[k2][1]].iex) > 1,
                  !.splittie = \E g \in 1..st.n : sp[g][3]]

\* all batteries full / empty in the requested direction: nothing is distributed (lines 483-490)
AllZeroOf(st) == [st EXCEPT !.stage = "split", !.rem = st.P,
                            !.d = [g \in 1..st.n |-> [j \in 1..Len(st.S[g].iex) |-> Zero]]]

\* ---- Report: sign flip for supply (lines 767-769) and BatteryManager._distribute_power
ReportOf(st) ==
    LET flip(x) == IF st.supply THEN RNeg(x) ELSE x
    IN [st EXCEPT !.stage = "done",
                  !.d = [g \in 1..st.n |-> [j \in 1..Len(st.d[g]) |-> flip(st.d[g][j])]],
                  !.rem = flip(st.rem)]

\* the whole pipeline as one operator (used by the trace specification)
FinalOf(i) ==
    LET p == PrepareOf(i) IN
    IF p.allzero THEN ReportOf(AllZeroOf(p))
    ELSE ReportOf(SplitOf(GreedyOf(AddExcessOf(CoverOf(ReserveOf(p))))))

\* fixed-point image of the model's output, same shape as a recorded implementation output
OutOf(st) == [d |-> [g \in 1..st.n |-> [j \in 1..Len(st.d[g]) |-> RFix(st.d[g][j], SCd)]],
              rem |-> RFix(st.rem, SCd)]

----------------------------------------------------------------------------
(* Named causes, as predicates over the algorithm's own intermediate values.  *)
(* Dev_SplitRemainderBelowInverterExcl is a deviation of the current code      *)
(* (known finding KF-C02-3): an invariant reads  Clause \/ Dev_x .            *)
(* The three "legacy" predicates name defects that were repaired in the code   *)
(* (commits 0b44485, 1552f1c, 374512d); they excuse nothing any more, but a    *)
(* failing record carries their names when the regime of an old defect is met, *)
(* so a returning old behaviour is recognised at once.                         *)

\* legacy: the reservation loop would hand min_power to a group whose availability ratio is zero
Dev_ZeroHeadroomGetsMinPower(st) == st.zh # {}
\* legacy: pow(0, 0) = 1 would give a group without headroom a non-zero ratio (exponent 0)
Dev_ExponentZeroIgnoresHeadroom(st) ==
    st.exp = 0 /\ \E g \in 1..st.n : RIsZero(st.S[g].avail)
\* legacy: a deficit no excess could cover would be booked against distributed_power
Dev_UncoveredDeficitWrittenOff(st) == st.unc
\* the split over the inverters of one group cannot place what remains because it is below the
\* next inverter's exclusion bound (or exactly on it: decided by float rounding); the rest is
\* reported as remaining power, but the group total may then lie inside the battery's exclusion zone
Dev_SplitRemainderBelowInverterExcl(st) == st.splitlost \/ st.splittie

DevNames(st) ==
    (IF Dev_ZeroHeadroomGetsMinPower(st) THEN {"Dev_ZeroHeadroomGetsMinPower"} ELSE {}) \cup
    (IF Dev_ExponentZeroIgnoresHeadroom(st) THEN {"Dev_ExponentZeroIgnoresHeadroom"} ELSE {}) \cup
    (IF Dev_UncoveredDeficitWrittenOff(st) THEN {"Dev_UncoveredDeficitWrittenOff"} ELSE {}) \cup
    (IF Dev_SplitRemainderBelowInverterExcl(st) THEN {"Dev_SplitRemainderBelowInverterExcl"} ELSE {})
\* which deviations can explain which clause
Excuses(clause) ==
    IF clause = "GroupInBounds" THEN {"Dev_SplitRemainderBelowInverterExcl"} ELSE {}

----------------------------------------------------------------------------
(* Property clauses, written directly over the input data (not over the      *)
(* algorithm's view) and a fixed-point output o = [d, rem]: d[g][j] is the     *)
(* set-point of inverter j of group g, rem the reported remainder.            *)

Sgn(i) == IF i.power < 0 THEN -1 ELSE 1
GroupTotal(o, g) == SumS(o.d[g])
AllTotal(o) == SumS([g \in 1..Len(o.d) |-> GroupTotal(o, g)])

\* C01
Conservation(i, o) == Abs(AllTotal(o) + o.rem - i.power * SC) <= Tol
SignOfRequest(i, o) == \A g \in 1..Len(o.d) : \A j \in 1..Len(o.d[g]) : Sgn(i) * o.d[g][j] >= -Tol
RemainderSignAndMagnitude(i, o) == Sgn(i) * o.rem >= -Tol /\ Sgn(i) * o.rem <= Abs(i.power) * SC + Tol

\* C02
PerInverterInBounds(i, o) ==
    \A g \in 1..Len(o.d) : \A j \in 1..Len(o.d[g]) :
        LET v == o.d[g][j]
            b == i.groups[g].invs[j]
            a == Agg(i.groups[g])
        IN \/ Abs(v) <= Tol
           \/ IF i.power > 0
              THEN b[3] * SC - Tol <= v /\ v <= Min2(b[4], a.iu) * SC + Tol
              ELSE Max2(b[1], a.il) * SC - Tol <= v /\ v <= b[2] * SC + Tol
GroupInBounds(i, o) ==
    \A g \in 1..Len(o.d) :
        LET t == GroupTotal(o, g)
            a == Agg(i.groups[g])
        IN \/ Abs(t) <= Tol
           \/ IF i.power > 0
              THEN a.eu * SC - Tol <= t /\ t <= a.iu * SC + Tol
              ELSE a.il * SC - Tol <= t /\ t <= a.el * SC + Tol
NoHeadroom(g, power) == LET a == Agg(g) IN IF power > 0 THEN RLe(a.shi, a.soc) ELSE RLe(a.soc, a.slo)
NoHeadroomZero(i, o) ==
    \A g \in 1..Len(o.d) : NoHeadroom(i.groups[g], i.power) => Abs(GroupTotal(o, g)) <= Tol

ClauseHolds(name, i, o) ==
    CASE name = "Conservation" -> Conservation(i, o)
      [] name = "SignOfRequest" -> SignOfRequest(i, o)
      [] name = "RemainderSignAndMagnitude" -> RemainderSignAndMagnitude(i, o)
      [] name = "PerInverterInBounds" -> PerInverterInBounds(i, o)
      [] name = "GroupInBounds" -> GroupInBounds(i, o)
      [] name = "NoHeadroomZero" -> NoHeadroomZero(i, o)
DistClauses == <<"Conservation", "SignOfRequest", "RemainderSignAndMagnitude",
                 "PerInverterInBounds", "GroupInBounds", "NoHeadroomZero">>

----------------------------------------------------------------------------
(* Input space *)

BatSet1 == {[cap |-> c, soc |-> s, slo |-> SocLo, shi |-> SocHi, b |-> b] : c \in Caps, s \in Socs, b \in BatBnds}
BatSet2 == {[cap |-> c, soc |-> s, slo |-> l[1], shi |-> l[2], b |-> b] : c \in Caps2, s \in Socs2, l \in Lims2, b \in BatBnds2}
GroupsOfShape(sh) ==
    {g \in {[bats |-> [k \in 1..sh[1] |-> IF k = 1 THEN b1 ELSE br[k]],
             invs |-> [k \in 1..sh[2] |-> IF k = 1 THEN i1 ELSE ir[k]]] :
              b1 \in BatSet1, br \in [2..sh[1] -> BatSet2], i1 \in InvBnds, ir \in [2..sh[2] -> InvBnds2]} : GroupOK(g)}
GroupSet1 == UNION {GroupsOfShape(sh) : sh \in Shapes1}
GroupSetR == UNION {GroupsOfShape(sh) : sh \in ShapesR}

\* a non-zero request is admitted iff it is not strictly inside the advertised exclusion zone
Admitted(p, a) == IF p > 0 THEN p >= a.eu ELSE p <= a.el
Requests(groups) ==
    LET a == Advertised(groups)
        cand == Mags \cup {-m : m \in Mags} \cup {a.il, a.el, a.eu, a.iu}
    IN {p \in cand : p # 0 /\ Admitted(p, a)}

\* requests the pool does not advertise: strictly inside the advertised exclusion zone, or just
\* beyond the advertised inclusion bounds
InsideAdvZone(p, a) == a.el < p /\ p < a.eu
NonAdmitted(groups) ==
    LET a == Advertised(groups) IN
    {p \in (a.il - 1)..(a.iu + 1) : p # 0 /\ (InsideAdvZone(p, a) \/ p < a.il \/ p > a.iu)}
\* the enforced exclusion zone (max of sums) can be narrower than the advertised one (sum of max):
\* a request in between is not advertised but passes _check_request
InGap(p, groups) ==
    LET a == Advertised(groups)  e == Enforced(groups) IN
    InsideAdvZone(p, a) /\ ~(e.el < p /\ p < e.eu)

EmitOn == "OUT_FILE" \in DOMAIN IOEnv
Emit(v) == IF EmitOn THEN CSVWrite("%1$s", <<ToJson(v)>>, IOEnv.OUT_FILE) ELSE TRUE
NoInp == [groups |-> <<>>, power |-> 0, exp |-> 0, work |-> <<>>]

\* two levels: Init picks the first group and the exponent, Install the rest (shared by the workers)
Init ==
    /\ pc = "init" /\ w = NoW
    /\ \E g1 \in GroupSet1, e \in Exps : inp = [groups |-> <<g1>>, power |-> 0, exp |-> e, work |-> <<>>]

Install ==
    /\ pc = "init"
    /\ \E n \in NGroups : \E rest \in [2..n -> GroupSetR] :
         LET gs == [k \in 1..n |-> IF k = 1 THEN inp.groups[1] ELSE rest[k]] IN
         IF Mode = "bounds"
         THEN \E st \in StatusSets(gs) :
                  /\ inp' = [inp EXCEPT !.groups = gs, !.work = st]
                  /\ Emit([g |-> gs, bs |-> st, hp |-> Probes(EffectiveSt(gs, st))])
         ELSE IF Mode = "reject"
         THEN \E p \in NonAdmitted(gs) : /\ inp' = [inp EXCEPT !.groups = gs, !.power = p, !.work = AllWork(gs)]
                                         /\ Emit([g |-> gs, p |-> p, e |-> inp.exp])
         ELSE \E p \in Requests(gs) : inp' = [inp EXCEPT !.groups = gs, !.power = p, !.work = AllWork(gs)]
    /\ pc' = "installed" /\ UNCHANGED w

Prepare == pc = "installed" /\ Mode = "dist" /\ w' = PrepareOf(inp) /\ pc' = "prepared" /\ UNCHANGED inp
AllZero == pc = "prepared" /\ w.allzero /\ w' = AllZeroOf(w) /\ pc' = "split" /\ UNCHANGED inp
Reserve == pc = "prepared" /\ ~w.allzero /\ w' = ReserveOf(w) /\ pc' = "reserved" /\ UNCHANGED inp
Cover == pc = "reserved" /\ w' = CoverOf(w) /\ pc' = "covered" /\ UNCHANGED inp
AddExcess == pc = "covered" /\ w' = AddExcessOf(w) /\ pc' = "excess" /\ UNCHANGED inp
Greedy == pc = "excess" /\ w' = GreedyOf(w) /\ pc' = "greedy" /\ UNCHANGED inp
Split == pc = "greedy" /\ w' = SplitOf(w) /\ pc' = "split" /\ UNCHANGED inp
Report ==
    /\ pc = "split" /\ w' = ReportOf(w) /\ pc' = "done" /\ UNCHANGED inp
    /\ Emit([g |-> inp.groups, p |-> inp.power, e |-> inp.exp, dev |-> DevNames(w'), az |-> w.allzero, np |-> w'.partial, el |-> w'.earlylost])

Next == Install \/ Prepare \/ AllZero \/ Reserve \/ Cover \/ AddExcess \/ Greedy \/ Split \/ Report

Spec == Init /\ [][Next]_vars

----------------------------------------------------------------------------
(* Invariants checked by TLC on the model *)

Done == pc = "done"
HasDev(names) == DevNames(w) \cap names # {}
ClauseInv(name) == Done => (ClauseHolds(name, inp, OutOf(w)) \/ HasDev(Excuses(name)))

(* C01 *)
ConservationInv == ClauseInv("Conservation")
SignOfRequestInv == ClauseInv("SignOfRequest")
RemainderSignAndMagnitudeInv == ClauseInv("RemainderSignAndMagnitude")
(* C02 *)
PerInverterInBoundsInv == ClauseInv("PerInverterInBounds")
GroupInBoundsInv == ClauseInv("GroupInBounds")
NoHeadroomZeroInv == ClauseInv("NoHeadroomZero")
(* C17 *)
\* (on the battery sets that take part: those with at least one working battery)
AdvertisedAcceptedInv == pc = "installed" => AdvertisedAcceptedOn(EffectiveSt(inp.groups, inp.work))
AtLeastSumMinPowerInv == pc = "installed" => AtLeastSumMinPowerOn(EffectiveSt(inp.groups, inp.work))
InclusionIdenticalInv == pc = "installed" => InclusionIdenticalOn(EffectiveSt(inp.groups, inp.work))
\* every admitted request of the distribution scope is one the enforced check lets through
\* (with adjust_power; without it unless it exceeds the inclusion bounds)
AdmittedIsAcceptedInv ==
    (pc = "installed" /\ Mode = "dist") =>
        LET e == Enforced(inp.groups)  a == Advertised(inp.groups) IN
        /\ Accepts(2 * inp.power, e, TRUE)
        /\ InAdvertised(2 * inp.power, a) => Accepts(2 * inp.power, e, FALSE)
        /\ Abs(inp.power) >= SumMinPower(inp.groups, inp.power < 0)

\* the admission check on requests that are not advertised: strictly inside the enforced exclusion
\* zone -> OutOfBounds in both modes; outside the inclusion bounds -> OutOfBounds without adjust_power
NonAdmittedInv ==
    (pc = "installed" /\ Mode = "reject") =>
        LET e == Enforced(inp.groups)  p == inp.power IN
        /\ (e.el < p /\ p < e.eu) => (~Accepts(2 * p, e, TRUE) /\ ~Accepts(2 * p, e, FALSE))
        /\ (p < e.il \/ p > e.iu) => ~Accepts(2 * p, e, FALSE)

(* design-level invariants of the intermediate stages *)
AllocSum(st) == RSumS([k \in 1..Len(st.out) |-> st.out[k][2][2]])
\* the order is a permutation of the groups, descending in (min_power, ratio)
OrderInv == pc = "prepared" =>
    /\ Len(w.order) = w.n /\ Rng(w.order) = 1..w.n
    /\ \A k \in 1..(w.n - 1) : LET x == w.order[k]  y == w.order[k + 1] IN
          w.mp[x] > w.mp[y] \/ (w.mp[x] = w.mp[y] /\ RLe(w.ratio[y], w.ratio[x]))
\* after the reservation every group has an entry, holds its min_power (or nothing) and
\* distributed_power is exactly what has been handed out
ReserveInv == pc = "reserved" =>
    /\ Len(w.out) = w.n
    /\ AllocSum(w) = w.dist
    /\ \A k \in 1..Len(w.exc) : ~RIsNeg(w.exc[k][2])
    /\ \A k \in 1..Len(w.defs) : RIsNeg(w.defs[k][2])
    /\ RLe(w.dist, w.P)               \* admitted requests cover the sum of the minimum powers
\* the book-keeping variable equals the power really allocated
BookkeepingInv == pc \in {"covered", "excess"} => AllocSum(w) = w.dist
\* no allocation above the group's upper bound, none negative
UpperBoundInv == pc \in {"reserved", "covered", "excess", "greedy"} =>
    \A k \in 1..Len(w.out) : ~RIsNeg(w.out[k][2][2]) /\ RLe(w.out[k][2][2], w.out[k][2][1])
\* after the greedy top-up: allocated + remainder = request
GreedyInv == pc = "greedy" => RAdd(AllocSum(w), w.rem) = w.P /\ ~RIsNeg(w.rem)
\* the split hands out exactly the group's allocation unless it got stuck below an exclusion bound,
\* and what it could not place is in the remainder
SplitInv == (pc = "split" /\ ~w.allzero) =>
    /\ \A g \in 1..w.n : RSumS(w.d[g]) = GetPower(w.out, g) \/ w.splitlost
    /\ RAdd(RSumS([g \in 1..w.n |-> RSumS(w.d[g])]), w.rem) = w.P

TypeOK == pc \in {"init", "installed", "prepared", "reserved", "covered", "excess", "greedy", "split", "done"}
=============================================================================
