------------------------ MODULE FormulaFallbackTrace ------------------------
(* Validates executions recorded from a real FormulaEngine whose first term   *)
(* is a real MetricFetcher with a fallback (controllable FallbackMetricFetcher*)
(* over a channel, or the real FallbackFormulaMetricFetcher over resampler    *)
(* channels) against FormulaFallback.                                         *)
(*                                                                            *)
(* One trace per ndjson line:                                                 *)
(*   id, variant, pseq, fseq, closeAt, lag    the scripts TLC generated       *)
(*   np, nr      primary / reference samples delivered; closed = the primary  *)
(*               stream was closed / made to raise; pleft, rleft = samples    *)
(*               left unread in the primary / reference receiver at the end   *)
(*   fev         one [t, deliv, bad] per fallback sample produced: whether it *)
(*               reached the fetcher, and whether the fetcher had already     *)
(*               consumed an invalid primary sample / a raise at that moment  *)
(*   out         every sample the engine emitted, decoded: ts, rts = the      *)
(*               timestamp of the reference sample in the value, src = "p" |  *)
(*               "f" | "none", sts = timestamp of the primary / fallback      *)
(*               sample the term's value came from (None = -99)               *)
(* The consumer of the specification is a deterministic function of the three *)
(* delivered streams, so it is run to quiescence on them, once per variant    *)
(* of the error handling (`fixed` = TRUE: the code as it is, the primary      *)
(* model; FALSE: the repaired dead error path); `explained` says whether that *)
(* variant reproduces the recorded output exactly.  Every C19 clause is       *)
(* evaluated on the recorded output; a deviation name is attached only by a   *)
(* variant that explains the output and in which that deviation's cause       *)
(* occurred (the harness keeps the primary variant's names when it explains). *)
EXTENDS FormulaFallback

VARIABLES tid, l
tvars == <<vars, tid, l>>

TraceLog == ndJsonDeserialize(IOEnv.TRACE_FILE)
Tr == TraceLog[tid]

Say(v) == CSVWrite("%1$s", <<ToJson(v)>>, IOEnv.VERDICT_FILE)
CheckD(ok, clause, detail, devs) ==
    IF ok THEN TRUE ELSE Say([tid |-> Tr.id, l |-> 0, clause |-> clause, detail |-> detail, deviations |-> devs, fixed |-> fixed])

Delivered == SelectSeq(Tr.fev, LAMBDA e : e.deliv)

TInit ==
    /\ tid \in 1..Len(TraceLog)
    /\ l = 1
    /\ fixed \in BOOLEAN
    /\ pseq = [t \in Ticks |-> Tr.pseq[t]] /\ fseq = [t \in Ticks |-> Tr.fseq[t]]
    /\ closeAt = Tr.closeAt /\ lag = Tr.lag /\ installed = TRUE
    /\ tick = H + 1 /\ done = {}
    /\ pq = [i \in 1..Tr.np |-> i] /\ rq = [i \in 1..Tr.nr |-> i]
    /\ fq = [i \in 1..Len(Delivered) |-> Delivered[i].t]
    /\ pclosed = Tr.closed
    /\ running = FALSE /\ skip = 0 /\ fev = Tr.fev
    /\ started = TRUE /\ tpc = "prim" /\ prim = None /\ tres = NoRes /\ rcur = None
    /\ latestF = None /\ firstRun = TRUE /\ epc = "fetch" /\ latest = None
    /\ seenBad = FALSE /\ deadHit = FALSE /\ unsyncHit = FALSE
    /\ out = <<>> /\ dropped = <<>>
    /\ h = <<>>

CanonStep ==
    IF CanPrim THEN TPrimRecv
    ELSE IF CanFirstF THEN TFirstF
    ELSE IF CanCatchUp THEN TCatchUp
    ELSE IF CanFbOnly THEN TFbOnly
    ELSE IF CanRRecv THEN RRecv
    ELSE IF CanRoundDone THEN RoundDone
    ELSE IF CanSyncTDone THEN SyncTDone
    ELSE SyncR

Silent ==
    /\ l = 1 /\ ConsumerEnabled
    /\ CanonStep
    /\ UNCHANGED <<h, tid, l>>

Explained ==
    LET o == Tr.out IN
    /\ Len(o) = Len(out)
    /\ Len(pq) = Tr.pleft /\ Len(rq) = Tr.rleft      \* what the engine left unread in its input buffers
    /\ \A i \in 1..Len(o) :
         /\ o[i].rts = out[i].rts /\ o[i].src = out[i].src /\ o[i].sts = out[i].sts
         /\ o[i].ts \in {out[i].tts, out[i].rts}

Devs ==
    IF ~Explained THEN <<>>
    ELSE (IF Dev_ErrorPathDead THEN <<"Dev_ErrorPathDead">> ELSE <<>>)
         \o (IF Dev_UnsyncFallbackAfterPrimaryFailure THEN <<"Dev_UnsyncFallbackAfterPrimaryFailure">> ELSE <<>>)

FinalChecks ==
    LET o == Tr.out
        fe == Tr.fev
        d == Devs
    IN
    /\ Say([tid |-> Tr.id, l |-> 0, clause |-> "_explained", fixed |-> fixed, ok |-> Explained,
            spec |-> [i \in 1..Len(out) |-> <<out[i].rts, out[i].src, out[i].sts>>]])
    /\ \A i \in 1..Len(o) :
         /\ CheckD(ReturnsToPrimaryRec(o[i]), "C19.ReturnsToPrimary",
                   <<"T", o[i].rts, "src", o[i].src, "sts", o[i].sts>>, d)
         /\ CheckD(FallbackValueUsedRec(o[i], fe), "C19.FallbackValueUsed",
                   <<"T", o[i].rts, "src", o[i].src, "sts", o[i].sts, "Tstart", Tstart, "Tf0", Tf0(fe)>>, d)
         /\ CheckD(AlignedRec(o[i]) /\ o[i].ts = o[i].rts, "C19.TimestampsAligned",
                   <<"ts", o[i].ts, "refT", o[i].rts, "src", o[i].src, "termT", o[i].sts>>, d)
    /\ CheckD(Increasing(o), "C19.TimestampsAligned", <<"refT", [i \in 1..Len(o) |-> o[i].rts]>>, d)
    /\ \A T \in Ticks :
         /\ CheckD(EmitsEveryTimestampAt(o, fe, T), "C19.EmitsEveryTimestamp",
                   <<"T", T, "emitted", [i \in 1..Len(o) |-> o[i].rts]>>, d)
         /\ CheckD(SurvivesAt(o, fe, T), "C19.SurvivesPrimaryStreamFailure",
                   <<"T", T, "closeAt", closeAt, "Tf0", Tf0(fe), "emitted", [i \in 1..Len(o) |-> o[i].rts]>>, d)
    /\ CheckD(StartupBoundedOf(fe), "C19.StartupBounded", <<"lag", lag, "fev", fe>>, d)

Final ==
    /\ l = 1 /\ ~ConsumerEnabled
    /\ FinalChecks
    /\ l' = 2
    /\ UNCHANGED <<vars, tid>>
    /\ Say([tid |-> Tr.id, done |-> TRUE])

TNext == Silent \/ Final
=============================================================================
