---------------------------- MODULE GraphFormulas ----------------------------
(* C12  Generated microgrid power formulas balance for every topology.        *)
(*                                                                            *)
(* The component graph is DATA in the state: nodes 1..n, node 1 is the grid   *)
(* connection, parent[i] < i, cat[i] in {METER, BATINV, PVINV, EV, CHP}.      *)
(* A BATINV node stands for a battery inverter WITH its battery as its only   *)
(* successor (id 100+i in the real graph); the battery plays no role in any   *)
(* power formula (no predicate looks at it, no DFS condition matches it).     *)
(*                                                                            *)
(* The state machine is what a program does with the SDK:                     *)
(*   ChooseTopology     the component graph is loaded and validated           *)
(*                      (_MicrogridComponentGraph.validate)                   *)
(*   RejectTopology     ... or refused / outside the property's premise       *)
(*   Gen<X>Step         one call of <X>PowerFormula.generate(); the generators*)
(*                      are pure functions of the graph and share no state,   *)
(*                      so one fixed call order is explored                   *)
(*                                                                            *)
(* Transcribed from the code (same structure, one operator per function):     *)
(*   component_graph.py   validate, is_grid_meter, is_*_meter, is_*_chain, dfs *)
(*   _formula_generator.py  _get_metric_fallback_components,                  *)
(*                          _get_meter_fallback_components,                   *)
(*                          _is_primary_fallback_pair                         *)
(*   _grid_power_formula_base.py, _consumer_power_formula.py (with / without  *)
(*   grid meter), _producer_, _battery_, _pv_, _ev_charger_, _chp_power_formula*)
(*                                                                            *)
(* Written independently of the code: the PHYSICS.  Every device has a basis  *)
(* variable (its AC power), every meter that is not dedicated to one device   *)
(* type has a basis variable for the unmetered load connected at it; the      *)
(* reading of a component is a linear form over the basis (a vector of        *)
(* integers): a device reads its own variable, a meter reads the sum of       *)
(* everything below it plus its own unmetered load.  A formula is a signed    *)
(* multiset of component ids (vector id -> Int) and denotes the linear form   *)
(* obtained by substituting the readings.                                     *)
EXTENDS Integers, Sequences, SequencesExt, FiniteSets, TLC, Json, CSV, IOUtils

CONSTANTS MinN, MaxN,   \* graph sizes enumerated (number of nodes incl. the grid)
          ShardK, ShardI,  \* only category vectors with Code mod ShardK = ShardI (1, 0: all of them)
          BatWiring,    \* "own": every battery inverter has exactly its own battery (id 100+i);
                        \* "any": every wiring of the battery inverters to battery slots (their own
                        \* slots plus one more) with at least one battery each -- a battery may be fed by
                        \* several inverters and an inverter may feed several batteries
          Shape, ShapeCats,  \* "any": every graph; "wired": every graph whose battery wiring is not the own one; "twomixed": targeted stage -- nodes 2 and 3 are meters,
                        \* the others range over ShapeCats, and only graphs satisfying TwoMixed are chosen
          CandN         \* for n <= CandN every candidate tree is enumerated and filtered by the
                        \* transcribed rules (rejected ones are emitted too); above, candidates are
                        \* constructed inside the premise directly (invariant GraphAccepted re-checks)

VARIABLES n,        \* number of nodes
          cat,      \* node -> category
          parent,   \* node -> predecessor (0 for the grid); <<>> before a topology is chosen
          wire,     \* node -> set of battery slots connected below it ({} unless a battery inverter;
                    \* slot b is battery id 100+b in the real graph); <<>> before a topology is chosen
          pc,       \* "topology", then the formula names in call order, "done" | "rejected"
          gen       \* formula name -> generated formula (Pending before its generator ran)

vars == <<n, cat, parent, wire, pc, gen>>

DeviceCats == {"BATINV", "PVINV", "EV", "CHP"}
Cats == {"METER"} \cup DeviceCats
NamesSeq == <<"grid", "cons", "prod", "bat", "pv", "pvd", "ev", "chp">>
Names == {NamesSeq[i] : i \in 1..Len(NamesSeq)}

Nodes == 1..n
Succ(i) == {j \in Nodes : parent[j] = i}
RECURSIVE Anc(_)                       \* i itself and everything above it
Anc(i) == IF parent[i] = 0 THEN {i} ELSE {i} \cup Anc(parent[i])
Desc(i) == {j \in Nodes : i \in Anc(j)}  \* i itself and everything below it

EmitOn == "OUT_FILE" \in DOMAIN IOEnv
Emit(v) == IF EmitOn THEN CSVWrite("%1$s", <<ToJson(v)>>, IOEnv.OUT_FILE) ELSE TRUE

-----------------------------------------------------------------------------
(* component_graph.py: validate()  -- on trees with the implicit batteries    *)

\* _validate_graph: nodes, edges, acyclic (parent[i] < i), nobody unconnected
ValidateGraph == n >= 2 /\ \A i \in 2..n : parent[i] \in 1..(i - 1)
\* _validate_graph_root / _validate_grid_endpoint: exactly one root, a GRID, with successors
ValidateRoot == /\ cat[1] = "GRID" /\ parent[1] = 0 /\ Succ(1) # {}
                /\ \A i \in 2..n : cat[i] # "GRID"
\* _validate_intermediary_components: every INVERTER has a predecessor
ValidateIntermediary == \A i \in Nodes : cat[i] \in {"BATINV", "PVINV"} => parent[i] # 0
\* _validate_leaf_components: BATTERY and EV_CHARGER have a predecessor and no successors
\* (the implicit battery of a BATINV satisfies it by construction)
ValidateLeaves == \A i \in Nodes : cat[i] = "EV" => (parent[i] # 0 /\ Succ(i) = {})
ValidationOK == ValidateGraph /\ ValidateRoot /\ ValidateIntermediary /\ ValidateLeaves

\* premise of C12 beyond validation: "a grid connection, meters nested to any depth, battery
\* inverters with batteries, PV inverters, EV chargers and METERED CHPs": only the grid and meters
\* have successors, a CHP hangs below a meter
InDomain == \A i \in 2..n : /\ cat[parent[i]] \in {"GRID", "METER"}
                            /\ (cat[i] = "CHP" => cat[parent[i]] = "METER")

-----------------------------------------------------------------------------
(* component_graph.py: classification                                         *)
IsGridMeter(i) ==
    /\ cat[i] = "METER"
    /\ parent[i] # 0                                   \* len(predecessors) == 1
    /\ cat[parent[i]] = "GRID"
    /\ Cardinality(Succ(parent[i])) = 1                \* the only successor of the grid

\* is_pv_meter / is_ev_charger_meter / is_battery_meter / is_chp_meter share one shape
IsDevMeter(i, d) ==
    /\ cat[i] = "METER"
    /\ ~IsGridMeter(i)
    /\ Succ(i) # {}
    /\ \A s \in Succ(i) : cat[s] = d
IsChain(i, d) == cat[i] = d \/ IsDevMeter(i, d)       \* is_*_chain
ChainSet(d) == {i \in Nodes : IsChain(i, d)}

\* dfs(current, visited, condition): stop at the first node that fulfils the condition
\* (visited is irrelevant on a tree); the condition is passed as the set of nodes fulfilling it
RECURSIVE Dfs(_, _)
Dfs(i, match) == IF i \in match THEN {i} ELSE UNION {Dfs(s, match) : s \in Succ(i)}

-----------------------------------------------------------------------------
(* formulas                                                                   *)
ZeroVec == [i \in Nodes |-> 0]
Unit(i) == [j \in Nodes |-> IF j = i THEN 1 ELSE 0]
Ind(S) == [j \in Nodes |-> IF j \in S THEN 1 ELSE 0]     \* sum of #j, j in S
VAdd(a, b) == [j \in Nodes |-> a[j] + b[j]]
VSub(a, b) == [j \in Nodes |-> a[j] - b[j]]
NoFb == [i \in Nodes |-> <<>>]

\* coef: signed multiplicity of every component id; fb[p]: <<>> or the multiset of the fallback
\* formula attached to the term #p; ok = FALSE: the generator refused (raised)
Pending == [ok |-> FALSE, coef |-> <<>>, fb |-> <<>>]
Refused == [ok |-> FALSE, coef |-> ZeroVec, fb |-> NoFb]
ZeroFormula == [ok |-> TRUE, coef |-> ZeroVec, fb |-> NoFb]   \* "#NON_EXISTING_COMPONENT_ID"

(* _formula_generator.py                                                      *)
\* _get_meter_fallback_components
MeterFallback(m) ==
    LET S == Succ(m) IN
    IF \/ \A c \in S : cat[c] = "CHP"
       \/ \A c \in S : cat[c] = "PVINV"
       \/ \A c \in S : cat[c] = "BATINV"
       \/ \A c \in S : cat[c] = "EV"
    THEN S ELSE {}

\* _is_primary_fallback_pair(primary, fallback)
IsPair(p, c) == p # 0 /\ \E d \in DeviceCats : cat[c] = d /\ IsDevMeter(p, d)

\* _get_metric_fallback_components(components): keys of the returned dict ...
Primaries(C) ==
    {c \in C : cat[c] = "METER"}
    \cup {parent[c] : c \in {x \in C : cat[x] # "METER" /\ IsPair(parent[x], x)}}
    \cup {c \in C : cat[c] # "METER" /\ ~IsPair(parent[c], c)}
\* ... and the value for key p  (C never contains a meter together with its own successors:
\* it is a DFS front, a set of siblings, or a set of inverters)
FallbackOf(C, p) ==
    IF p \in C /\ cat[p] = "METER" THEN MeterFallback(p)
    ELSE {c \in C : cat[c] # "METER" /\ parent[c] = p /\ IsPair(p, c)}

\* the loop `for primary, fallback in fallbacks.items(): push(+) push_component_metric(primary,
\* fallback=...)`; every fallback generator (SimplePowerFormula, PVPowerFormula and
\* BatteryPowerFormula with allow_fallback=False) yields the plain sum of the fallback components
FbMap(C) == [p \in Nodes |-> IF p \in Primaries(C) /\ FallbackOf(C, p) # {}
                             THEN Ind(FallbackOf(C, p)) ELSE <<>>]
FromMapping(C) == [ok |-> TRUE, coef |-> Ind(Primaries(C)), fb |-> FbMap(C)]

(* _grid_power_formula_base.py *)
GenGrid ==
    LET C == {c \in Succ(1) : cat[c] \in {"BATINV", "PVINV", "EV", "METER"}} IN
    IF C = {} THEN Refused ELSE FromMapping(C)

(* _consumer_power_formula.py *)
NoChain(i) == \A d \in DeviceCats : ~IsChain(i, d)
AreGridMeters == \A s \in Succ(1) : cat[s] = "METER" /\ NoChain(s)
NonConsumerSet == {i \in Nodes : ~NoChain(i)}
ConsumerSet == {i \in Nodes : cat[i] \in {"METER", "BATINV", "PVINV"} /\ NoChain(i)}
ConsumerComponents == Dfs(1, ConsumerSet)

GenConsumerWithGridMeter ==
    LET NC == UNION {Dfs(gm, NonConsumerSet) : gm \in Succ(1)} IN
    [ok |-> TRUE, coef |-> VSub(Ind(Succ(1)), Ind(Primaries(NC))), fb |-> FbMap(NC)]
\* since the repair (commit 47787ae): the consumer components are pushed (with their fallbacks) and
\* every non-consumer chain found by dfs below each of them is subtracted (with its fallback)
MergeFb(f, g) == [p \in Nodes |-> IF f[p] # <<>> THEN f[p] ELSE g[p]]   \* setdefault: first push wins
GenConsumerWithoutGridMeter ==
    IF ConsumerComponents = {} THEN ZeroFormula
    ELSE LET NC == UNION {Dfs(c, NonConsumerSet) : c \in ConsumerComponents} IN
         [ok |-> TRUE,
          coef |-> VSub(Ind(Primaries(ConsumerComponents)), Ind(Primaries(NC))),
          fb |-> MergeFb(FbMap(ConsumerComponents), FbMap(NC))]
\* what the generator did BEFORE the repair: the consumer components only
LegacyConsumerWithoutGridMeter ==
    IF ConsumerComponents = {} THEN ZeroFormula ELSE FromMapping(ConsumerComponents)
LegacyConsumer == IF AreGridMeters THEN GenConsumerWithGridMeter ELSE LegacyConsumerWithoutGridMeter
GenConsumer == IF AreGridMeters THEN GenConsumerWithGridMeter ELSE GenConsumerWithoutGridMeter

(* _producer_power_formula.py *)
GenProducer ==
    LET C == Dfs(1, ChainSet("PVINV") \cup ChainSet("CHP")) IN
    IF C = {} THEN ZeroFormula ELSE FromMapping(C)

(* _battery_power_formula.py, component_ids = all batteries (BatteryPool.power) *)
AllBats == UNION {wire[i] : i \in Nodes}
InvOf(b) == {i \in Nodes : b \in wire[i]}                \* battery-inverter predecessors of battery b
\* generate() with component_ids = B: the keys of inv_bat_mapping ...
BatInvSet(B) == UNION {InvOf(b) : b \in B}
\* ... or FormulaGenerationError "Not all batteries behind inverter .. are requested"
BatRefuses(B) == \E i \in BatInvSet(B) : ~(wire[i] \subseteq B)
\* _get_fallback_formulas: the fallback of primary p is BatteryPowerFormula(component_ids = the
\* batteries of p's fallback inverters, allow_fallback=False) -- it goes from the inverters to their
\* batteries and BACK to all inverters of those batteries (a raise is recorded as the zero formula)
BatFb(C, p) == LET B == UNION {wire[i] : i \in FallbackOf(C, p)} IN
               IF BatRefuses(B) THEN ZeroVec ELSE Ind(BatInvSet(B))
GenBattery ==
    IF AllBats = {} THEN ZeroFormula
    ELSE LET C == BatInvSet(AllBats) IN
         [ok |-> TRUE, coef |-> Ind(Primaries(C)),
          fb |-> [p \in Nodes |-> IF p \in Primaries(C) /\ FallbackOf(C, p) # {} THEN BatFb(C, p) ELSE <<>>]]

(* _pv_power_formula.py, component_ids = all PV inverters (PVPool.power) ...   *)
GenPVDfs ==
    LET C == Dfs(1, ChainSet("PVINV")) IN
    IF C = {} THEN ZeroFormula ELSE FromMapping(C)
GenPV ==
    LET C == {i \in Nodes : cat[i] = "PVINV"} IN
    IF C = {} THEN GenPVDfs ELSE FromMapping(C)          \* `if component_ids:` is false for {}

(* _ev_charger_power_formula.py, component_ids = all EV chargers (EVChargerPool.power) *)
GenEV ==
    LET C == {i \in Nodes : cat[i] = "EV"} IN
    IF C = {} THEN ZeroFormula ELSE [ok |-> TRUE, coef |-> Ind(C), fb |-> NoFb]

(* _chp_power_formula.py *)
ChpSet == {i \in Nodes : cat[i] = "CHP"}
ChpRefusal == \E c \in ChpSet : \/ parent[c] = 0
                                \/ cat[parent[c]] # "METER"
                                \/ \E s \in Succ(parent[c]) : cat[s] # "CHP"
GenCHP ==
    IF ChpRefusal THEN Refused
    ELSE IF ChpSet = {} THEN ZeroFormula
    ELSE [ok |-> TRUE, coef |-> Ind({parent[c] : c \in ChpSet}), fb |-> NoFb]

Generate(name) ==
    CASE name = "grid" -> GenGrid
      [] name = "cons" -> GenConsumer
      [] name = "prod" -> GenProducer
      [] name = "bat" -> GenBattery
      [] name = "pv" -> GenPV
      [] name = "pvd" -> GenPVDfs
      [] name = "ev" -> GenEV
      [] name = "chp" -> GenCHP

-----------------------------------------------------------------------------
(* PHYSICS -- independent of the code                                         *)

\* a meter is dedicated to one device type when everything connected below it is devices of that
\* one type; such a meter has no unmetered load ("unmetered load only at meters not dedicated to
\* one device type").  Every other meter (mixed, load-only, with sub-meters) may have one -- and so
\* may THE grid meter (the only thing connected to the grid connection point) whatever is below
\* it: it is the site's meter, not a device meter.
IsTheGridMeter(m) == cat[m] = "METER" /\ parent[m] = 1 /\ \A j \in Nodes : parent[j] = 1 => j = m
Dedicated(m) == /\ cat[m] = "METER" /\ ~IsTheGridMeter(m) /\ Succ(m) # {}
                /\ \E d \in DeviceCats : \A s \in Succ(m) : cat[s] = d
HasLoad(m) == cat[m] = "METER" /\ ~Dedicated(m)
IsBasis(b) == cat[b] \in DeviceCats \/ HasLoad(b)

SumOver(S, v) ==
    LET s[k \in 0..n] == IF k = 0 THEN 0 ELSE s[k - 1] + (IF k \in S THEN v[k] ELSE 0) IN s[n]

\* what component i measures: its own variable (device power / unmetered load) and, for a meter,
\* everything connected below it
Reading(i) == [b \in Nodes |-> IF IsBasis(b) /\ i \in Anc(b) THEN 1 ELSE 0]
\* the linear form a signed multiset v of component ids denotes:  sum_i v[i] * Reading(i)
Form(v) == [b \in Nodes |-> IF IsBasis(b) THEN SumOver(Anc(b), v) ELSE 0]

CatsOf(name) ==
    CASE name = "grid" -> Cats
      [] name = "cons" -> {"METER"}                  \* all unmetered load, nothing else
      [] name = "prod" -> {"PVINV", "CHP"}
      [] name = "bat" -> {"BATINV"}
      [] name \in {"pv", "pvd"} -> {"PVINV"}
      [] name = "ev" -> {"EV"}
      [] name = "chp" -> {"CHP"}
TrueTotal(name) == [b \in Nodes |-> IF IsBasis(b) /\ cat[b] \in CatsOf(name) THEN 1 ELSE 0]

-----------------------------------------------------------------------------
(* C12 clauses, as predicates of a formula F (the transcription's at MC time, *)
(* the real generator's at trace-validation time)                             *)

\* the formula evaluates to the true total of its device class
TotalOK(name, F) == F.ok => Form(F.coef) = TrueTotal(name)
\* a generator may refuse only where its documentation says so (CHP without a dedicated meter)
GeneratedOK(name, F) == F.ok \/ (name = "chp" /\ ChpRefusal)
\* every fallback formula measures what the term it stands in for measures.  The fallback of a
\* meter is built from the components below it and is used while the meter is not reporting, so it
\* cannot know unmetered load connected AT that meter: for a primary with an own unmetered-load
\* variable (in practice: the grid meter above devices of one type) the demand is "everything the
\* primary measures except its own unmetered load"; for every other primary it is equality.
OwnLoad(p) == IF HasLoad(p) THEN Unit(p) ELSE ZeroVec
FallbackOK(F) == F.ok => \A p \in Nodes : F.fb[p] # <<>> => Form(F.fb[p]) = VSub(Form(Unit(p)), OwnLoad(p))
\* observation, not a clause: a fallback is attached to a term that carries unmetered load
FallbackOmitsLoad(F) == F.ok /\ \E p \in Nodes : F.fb[p] # <<>> /\ HasLoad(p)
\* grid = consumer + producer + battery + EV
BalanceOK(Fg, Fc, Fp, Fb, Fe) ==
    (Fg.ok /\ Fc.ok /\ Fp.ok /\ Fb.ok /\ Fe.ok) =>
        Form(Fg.coef) = VAdd(VAdd(Form(Fc.coef), Form(Fp.coef)), VAdd(Form(Fb.coef), Form(Fe.coef)))

(* Former defect (repaired in /repo by 47787ae, kept as a NAMED cause so that a regression is     *)
(* recognised): with a grid successor that is not a non-dedicated meter ("no grid meter"), the    *)
(* consumer formula was the sum of the first non-dedicated meters found from the grid WITHOUT    *)
(* subtracting the devices below them (LegacyConsumer).  CauseMixedMeter is the graph condition   *)
(* under which that is wrong; the deviation is "the cause holds and the consumer formula is the   *)
(* legacy one".                                                                                   *)
CauseMixedMeter ==
    /\ ~AreGridMeters
    /\ \E m \in ConsumerComponents : \E d \in Desc(m) : cat[d] \in DeviceCats
Dev_MixedMeterAsConsumerWithoutGridMeter(Fcons) == CauseMixedMeter /\ Fcons = LegacyConsumer

(* Known deviation of the code (KF-C12-3): CHPPowerFormula._get_chp_meters takes ANY meter whose    *)
(* successors are all CHPs as the CHPs' dedicated meter, also the grid meter (is_chp_meter and     *)
(* ProducerPowerFormula exclude it), so unmetered load at the grid meter is counted as CHP power. *)
(* Known deviation of the code (KF-C12-4): the fallback of a battery meter is generated from the   *)
(* BATTERY ids of the inverters below the meter, and BatteryPowerFormula maps battery ids back to   *)
(* ALL inverters feeding those batteries.  When a battery below the meter is also fed by an inverter *)
(* that is not below that meter, the fallback counts the foreign inverter too (which the primary    *)
(* formula already counts elsewhere), or its generator raises because the foreign inverter has      *)
(* further batteries.                                                                               *)
CauseSharedBatteryFallback ==
    AllBats # {} /\ LET C == BatInvSet(AllBats) IN
        \E p \in Primaries(C) : FallbackOf(C, p) # {} /\ BatFb(C, p) # Ind(FallbackOf(C, p))
Dev_SharedBatteryFallback(Fbat) == CauseSharedBatteryFallback /\ Fbat = GenBattery

CauseGridMeterAsChpMeter == ~ChpRefusal /\ \E c \in ChpSet : IsGridMeter(parent[c])
Dev_GridMeterAsChpMeter(Fchp) == CauseGridMeterAsChpMeter /\ Fchp = GenCHP

-----------------------------------------------------------------------------
(* state machine                                                              *)
CatVectors(k) == {[i \in 1..k |-> IF i = 1 THEN "GRID" ELSE s[i - 1]] : s \in [1..(k - 1) -> Cats]}

\* every increasing tree on 1..n
RECURSIVE AllParents(_)
AllParents(k) == IF k = 1 THEN {<<0>>}
                 ELSE {Append(p, j) : p \in AllParents(k - 1), j \in 1..(k - 1)}
\* the increasing trees inside the premise, constructed directly (for big n)
Allowed(k) == {j \in 1..(k - 1) : /\ cat[j] \in {"GRID", "METER"}
                                  /\ (cat[k] = "CHP" => cat[j] = "METER")}
RECURSIVE DomainParents(_)
DomainParents(k) == IF k = 1 THEN {<<0>>}
                    ELSE {Append(p, j) : p \in DomainParents(k - 1), j \in Allowed(k)}

\* battery wiring
BatInvs == {i \in Nodes : cat[i] = "BATINV"}
OwnWire == [i \in Nodes |-> IF i \in BatInvs THEN {i} ELSE {}]
Slots == BatInvs \cup (IF BatInvs # {} THEN {n + 1} ELSE {})
Wirings == IF BatWiring = "own" THEN {OwnWire}
           ELSE {[i \in Nodes |-> IF i \in BatInvs THEN f[i] ELSE {}] :
                    f \in [BatInvs -> (SUBSET Slots) \ {{}}]}
SharedBattery == \E i, j \in Nodes : i # j /\ wire[i] \cap wire[j] # {}
MultiBattery == \E i \in Nodes : Cardinality(wire[i]) >= 2

NoGen == [nm \in Names |-> Pending]

\* targeted shape: no grid meter and at least two consumer meters (grid successors that are not
\* dedicated) that each have device chains below them -- the repaired consumer formula has to
\* subtract the chains below EVERY one of them (needs n >= 8: grid, 2 meters with 2 nodes below
\* each, and one more grid successor that makes "no grid meter")
TwoMixed == /\ ~AreGridMeters
            /\ Cardinality({m \in ConsumerComponents : \E d \in Desc(m) : cat[d] \in DeviceCats}) >= 2
ShapeVectors(k) == {[i \in 1..k |-> IF i = 1 THEN "GRID" ELSE IF i \in {2, 3} THEN "METER" ELSE s[i - 3]] :
                       s \in [1..(k - 3) -> ShapeCats]}

\* deterministic sharding of the category vectors (big n is explored one shard at a time)
CatSeq == <<"GRID", "METER", "BATINV", "PVINV", "EV", "CHP">>
CatCode(c) == CHOOSE k \in 1..Len(CatSeq) : CatSeq[k] = c
VecCode(v) == LET s[k \in 0..Len(v)] == IF k = 0 THEN 0 ELSE s[k - 1] + k * CatCode(v[k]) IN s[Len(v)]

Init ==
    /\ n \in MinN..MaxN
    /\ cat \in {v \in (IF Shape = "twomixed" THEN ShapeVectors(n) ELSE CatVectors(n)) : VecCode(v) % ShardK = ShardI}
    /\ parent = <<>> /\ wire = <<>> /\ pc = "topology" /\ gen = NoGen

\* antecedent flags of the clauses, emitted with every graph (counted by the harness: vacuity)
Flags == [gm |-> AreGridMeters, dev |-> CauseMixedMeter,
          chpref |-> ChpRefusal,
          fb |-> \E nm \in Names \ {"chp", "ev"} : \E p \in Nodes : Generate(nm).fb[p] # <<>>,
          load |-> \E m \in Nodes : HasLoad(m),
          shared |-> SharedBattery, multi |-> MultiBattery, sharedfb |-> CauseSharedBatteryFallback,
          nested |-> \E m \in Nodes : cat[m] = "METER" /\ parent[m] # 0 /\ cat[parent[m]] = "METER"]

\* the same set as a predicate (the trace specification tests a recorded wiring with it)
WiringOK(w) == /\ \A i \in Nodes : IF i \in BatInvs THEN w[i] # {} /\ w[i] \subseteq Slots ELSE w[i] = {}
               /\ (BatWiring = "own" => w = OwnWire)

ChooseTopologyW(w) ==
    /\ pc = "topology"
    /\ UNCHANGED <<n, cat, gen>>
    /\ parent' \in (IF n <= CandN THEN AllParents(n) ELSE DomainParents(n))
    /\ wire' = w
    /\ ValidationOK' /\ InDomain'
    /\ (Shape = "twomixed" => TwoMixed')
    /\ (Shape = "wired" => wire' # OwnWire)      \* the own wirings are the other stages' business
    /\ pc' = "grid"
    /\ Emit([k |-> "graph", n |-> n, cat |-> cat, parent |-> parent',
             wire |-> [i \in Nodes |-> SetToSeq(wire'[i])], flags |-> Flags'])

ChooseTopology == \E w \in Wirings : ChooseTopologyW(w)

RejectTopology ==
    /\ pc = "topology" /\ n <= CandN
    /\ UNCHANGED <<n, cat, gen>>
    /\ parent' \in AllParents(n)
    /\ wire' = OwnWire
    /\ ~(ValidationOK' /\ InDomain')
    /\ pc' = "rejected"
    /\ Emit([k |-> "cand", n |-> n, cat |-> cat, parent |-> parent', valid |-> ValidationOK'])

NextPc(name) ==
    LET i == CHOOSE j \in 1..Len(NamesSeq) : NamesSeq[j] = name IN
    IF i = Len(NamesSeq) THEN "done" ELSE NamesSeq[i + 1]

\* one call of a generator: its result is stored
Call(name, F) ==
    /\ gen' = [gen EXCEPT ![name] = F]
    /\ pc' = NextPc(name)
    /\ UNCHANGED <<n, cat, parent, wire>>

GenGridStep == pc = "grid" /\ Call("grid", GenGrid)
GenConsumerStep == pc = "cons" /\ Call("cons", GenConsumer)
GenProducerStep == pc = "prod" /\ Call("prod", GenProducer)
GenBatteryStep == pc = "bat" /\ Call("bat", GenBattery)
GenPVStep == pc = "pv" /\ Call("pv", GenPV)
GenPVDfsStep == pc = "pvd" /\ Call("pvd", GenPVDfs)
GenEVStep == pc = "ev" /\ Call("ev", GenEV)
GenCHPStep == pc = "chp" /\ Call("chp", GenCHP)
\* the step for formula `name` (used by the trace specification)
GenStep(name) == pc = name /\ Call(name, Generate(name))

Next == \/ ChooseTopology \/ RejectTopology
        \/ GenGridStep \/ GenConsumerStep \/ GenProducerStep \/ GenBatteryStep
        \/ GenPVStep \/ GenPVDfsStep \/ GenEVStep \/ GenCHPStep

Spec == Init /\ [][Next]_vars

-----------------------------------------------------------------------------
(* design-level invariants (the transcription against the physics)            *)
Has(name) == gen[name] # Pending
Chosen == pc \notin {"topology", "rejected"}

GraphAccepted == Chosen => (ValidationOK /\ InDomain)
RejectedIsOutside == pc = "rejected" => ~(ValidationOK /\ InDomain)

GridTotal == Has("grid") => TotalOK("grid", gen["grid"])
ConsumerTotal == Has("cons") => (TotalOK("cons", gen["cons"]) \/ Dev_MixedMeterAsConsumerWithoutGridMeter(gen["cons"]))
ProducerTotal == Has("prod") => TotalOK("prod", gen["prod"])
BatteryTotal == Has("bat") => TotalOK("bat", gen["bat"])
PVTotal == Has("pv") => TotalOK("pv", gen["pv"])
PVDfsTotal == Has("pvd") => TotalOK("pvd", gen["pvd"])
EVTotal == Has("ev") => TotalOK("ev", gen["ev"])
CHPTotal == Has("chp") => (TotalOK("chp", gen["chp"]) \/ Dev_GridMeterAsChpMeter(gen["chp"]))
\* ... exact: the CHP formula is wrong exactly where the cause holds
ChpDevIsTight == Has("chp") => (CauseGridMeterAsChpMeter <=> ~TotalOK("chp", gen["chp"]))
Generated == \A nm \in Names : Has(nm) => GeneratedOK(nm, gen[nm])
FallbackEqualsPrimary == \A nm \in Names : Has(nm) =>
    (FallbackOK(gen[nm]) \/ (nm = "bat" /\ Dev_SharedBatteryFallback(gen[nm])))
\* ... exact: the battery fallbacks are wrong exactly where the cause holds
SharedBatDevIsTight == Has("bat") => (CauseSharedBatteryFallback <=> ~FallbackOK(gen["bat"]))
\* with one own battery per inverter the cause never holds
OwnWiringHasNoSharedCause == (Chosen /\ wire = OwnWire) => ~CauseSharedBatteryFallback
Balance == pc = "done" =>
    \/ BalanceOK(gen["grid"], gen["cons"], gen["prod"], gen["bat"], gen["ev"])
    \/ Dev_MixedMeterAsConsumerWithoutGridMeter(gen["cons"])

\* the repaired transcription never shows the deviation (so the two invariants above are hard)
NoDeviation == Has("cons") => ~Dev_MixedMeterAsConsumerWithoutGridMeter(gen["cons"])
\* the named deviation is exact: the LEGACY formula is wrong exactly on the graphs where the cause
\* holds (so a record carrying the deviation really is the old defect and masks nothing else), and
\* the repair changed the formula on exactly those graphs
LegacyWrongIffCause == Chosen => (CauseMixedMeter <=> ~TotalOK("cons", LegacyConsumer))
LegacyBalanceWrongIffCause == pc = "done" =>
    (CauseMixedMeter <=> ~BalanceOK(gen["grid"], LegacyConsumer, gen["prod"], gen["bat"], gen["ev"]))
RepairOnlyWhereCause == Chosen => (CauseMixedMeter <=> GenConsumer # LegacyConsumer)
\* the two ways of finding the PV components (pool ids / DFS from the grid) give one formula
PVTwoWaysAgree == Has("pvd") => gen["pv"] = gen["pvd"]
\* truth itself balances (sanity of the physics)
TruthBalances == Chosen =>
    TrueTotal("grid") = VAdd(VAdd(TrueTotal("cons"), TrueTotal("prod")), VAdd(TrueTotal("bat"), TrueTotal("ev")))

=============================================================================
