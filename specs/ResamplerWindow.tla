-------------------------- MODULE ResamplerWindow --------------------------
(* C08 - which input samples one source's resampling function is handed at   *)
(* tick T (timeseries/_resampling.py: _StreamingHelper._receive_samples,      *)
(* _ResamplingHelper.add_sample / resample / _update_source_sample_period /   *)
(* _update_buffer_len).                                                       *)
(*                                                                            *)
(* Timestamps are integer ticks; the length of a tick is part of the          *)
(* configuration (cfg.tick microseconds: 1 s, 0.5 s or 0.25 s, so resampling  *)
(* periods such as 1.5 s or 0.75 s exist); durations that                     *)
(* the code keeps as timedelta are integers in MICROSECONDS, because the      *)
(* estimated input period (T - start) / received is rounded to a microsecond  *)
(* by timedelta and that rounding decides buffer lengths.                     *)
(*                                                                            *)
(* Two formulations live side by side and are updated by the same actions:    *)
(*   implementation-shaped  buf (deque with maxlen), two right bisections,    *)
(*                          resize = deque(old, maxlen = new)                 *)
(*   declarative            hist (every valid sample ever received, arrival   *)
(*                          order), lost (how many of its oldest entries no   *)
(*                          longer fit: the largest value Len(hist) - maxlen  *)
(*                          has ever had), window filter over the history     *)
(* ImplRefinesDecl says they hand out the same sequence at every tick.        *)
EXTENDS Integers, Sequences, FiniteSets, TLC, Json, CSV, IOUtils

CONSTANTS ConfigSet,   \* records [P, age, L0, maxbuf, tick, lead]: period (ticks), max_data_age_in_periods,
                       \* initial_buffer_len, max_buffer_len, microseconds per tick, and how many ticks
                       \* the SOURCE's clock runs ahead of the resampler's (every input timestamp is
                       \* shifted by it, so whole prefixes of the input - the first sample included -
                       \* are stamped after the next tick(s), by more than a period when lead > P)
          DeltaSet,    \* allowed differences between consecutive input timestamps (0 = burst)
          Fut,         \* a sample may be stamped up to cfg.lead + Fut ticks after the NEXT tick
          MaxRecv, MaxInvalid, MaxTicks,
          Mode         \* "history": exhaustive, one emitted history per Tick transition
                       \* "sim": tlc -simulate, arguments drawn with RandomElement
                       \* "trace": no generation (trace validation)

None == -99
US == 1000000          \* microseconds per second

VARIABLES cfg,
          \* implementation-shaped
          buf, maxlen,
          \* SourceProperties
          start, received, periodUs,
          \* declarative
          hist, lost,
          \* environment
          all,        \* every sample offered to the source, valid or not: [ts, id, kind]
          lastTs, nextT, nticks,
          \* what the last tick did
          lastT, winLoUs, handed, declared, emitted,
          h

vars == <<cfg, buf, maxlen, start, received, periodUs, hist, lost, all, lastTs, nextT, nticks,
          lastT, winLoUs, handed, declared, emitted, h>>
View == <<cfg, buf, maxlen, start, received, periodUs, hist, lost, all, lastTs, nextT, nticks,
          lastT, winLoUs, handed, declared, emitted>>

EmitOn == "OUT_FILE" \in DOMAIN IOEnv
Emit(v) == IF EmitOn THEN CSVWrite("%1$s", <<ToJson(v)>>, IOEnv.OUT_FILE) ELSE TRUE

Max(a, b) == IF a >= b THEN a ELSE b
Min(a, b) == IF a <= b THEN a ELSE b
CeilDiv(a, b) == -((-a) \div b)
LastN(sq, n) == IF Len(sq) <= n THEN sq ELSE SubSeq(sq, Len(sq) - n + 1, Len(sq))
IsSuffix(a, b) == Len(a) <= Len(b) /\ a = SubSeq(b, Len(b) - Len(a) + 1, Len(b))

----------------------------------------------------------------------------
(* transcriptions *)

\* timedelta(seconds = d / n): exact quotient in microseconds, rounded half to even
RoundDivEven(a, b) ==
    LET q == a \div b  r == a % b IN
    IF 2 * r > b THEN q + 1 ELSE IF 2 * r < b THEN q ELSE IF q % 2 = 0 THEN q ELSE q + 1

\* bisect.bisect(sq, x, key = timestamp): binary search exactly as the library does it
RECURSIVE BisectLoop(_, _, _, _)
BisectLoop(sq, xUs, lo, hi) ==
    IF lo >= hi THEN lo
    ELSE LET mid == (lo + hi) \div 2 IN
         IF xUs < sq[mid + 1].ts * cfg.tick THEN BisectLoop(sq, xUs, lo, mid)
         ELSE BisectLoop(sq, xUs, mid + 1, hi)
Bisect(sq, xUs) == BisectLoop(sq, xUs, 0, Len(sq))

\* every condition of _update_source_sample_period holds except the last one: the first sample is
\* stamped at or after the tick (`now <= props.sampling_start`), so no period can be inferred yet
Guarded(T) ==
    /\ periodUs = None /\ start # None
    /\ ~(received * US < cfg.P * cfg.tick * cfg.age)
    /\ ~(Len(buf) < maxlen)
    /\ T <= start

\* _update_source_sample_period(now = T): the new period, or None when it does not update
Estimate(T) ==
    IF \/ periodUs # None
       \/ start = None
       \/ received * US < cfg.P * cfg.tick * cfg.age     \* < resampling_period.total_seconds() * max_age
       \/ Len(buf) < maxlen
       \/ T <= start                                        \* now <= props.sampling_start
    THEN None
    ELSE RoundDivEven((T - start) * cfg.tick, received)

\* _update_buffer_len for input period pus
NewLen(pus) ==
    LET raw == IF pus > cfg.P * cfg.tick
               THEN CeilDiv(pus * cfg.age, US)                  \* up-sampling: ceil(period_s * age)
               ELSE CeilDiv(cfg.P * cfg.tick * cfg.age, pus)    \* down-sampling: ceil(P_s / period_s * age)
    IN Min(Max(1, raw), cfg.maxbuf)

\* the period the relevance window is measured in
WindowPeriodUs(pus) == IF pus = None THEN cfg.P * cfg.tick ELSE Max(cfg.P * cfg.tick, pus)

InWindow(x, loUs, T) == x.ts * cfg.tick > loUs /\ x.ts <= T

----------------------------------------------------------------------------
Init ==
    /\ cfg \in ConfigSet
    /\ buf = <<>> /\ maxlen = cfg.L0
    /\ start = None /\ received = 0 /\ periodUs = None
    /\ hist = <<>> /\ lost = 0
    /\ all = <<>> /\ lastTs = cfg.lead /\ nextT = cfg.P /\ nticks = 0
    /\ lastT = None /\ winLoUs = None /\ handed = <<>> /\ declared = <<>> /\ emitted = None
    /\ h = <<[a |-> "config", P |-> cfg.P, age |-> cfg.age, L0 |-> cfg.L0, maxbuf |-> cfg.maxbuf, tick |-> cfg.tick, lead |-> cfg.lead]>>

\* a sample arrives from the source; kind "valid", "none" (value None) or "nan"
Recv(ts, kind) ==
    LET smp == [ts |-> ts, id |-> Len(all) + 1] IN
    /\ all' = Append(all, [ts |-> ts, id |-> Len(all) + 1, kind |-> kind])
    /\ lastTs' = ts
    /\ IF kind = "valid"
       THEN \* _receive_samples -> add_sample
            /\ buf' = IF Len(buf) >= maxlen THEN Append(Tail(buf), smp) ELSE Append(buf, smp)
            /\ start' = IF start = None THEN ts ELSE start
            /\ received' = received + 1
            /\ hist' = Append(hist, smp)
            /\ lost' = Max(lost, Len(hist') - maxlen)
       ELSE \* dropped by _receive_samples
            UNCHANGED <<buf, start, received, hist, lost>>
    /\ UNCHANGED <<cfg, maxlen, periodUs, nextT, nticks, lastT, winLoUs, handed, declared, emitted>>

\* _ResamplingHelper.resample(T).  `est` is the outcome of the period estimator (None = no
\* update): Estimate(T) in the model; in trace validation the value the code reports, so that a
\* different estimator shows up as a disagreement without invalidating the window clauses.
TickWith(T, est) ==
    LET pus == IF est # None THEN est ELSE periodUs
        nl == IF est # None THEN NewLen(est) ELSE maxlen
        b2 == LastN(buf, nl)                               \* deque(self._buffer, maxlen = nl)
        lost2 == Max(lost, Len(hist) - nl)
        loUs == T * cfg.tick - WindowPeriodUs(pus) * cfg.age     \* minimum_relevant_timestamp
        minIdx == Bisect(b2, loUs)
        maxIdx == Bisect(b2, T * cfg.tick)
        got == IF minIdx < maxIdx THEN SubSeq(b2, minIdx + 1, maxIdx) ELSE <<>>   \* islice
        decl == SelectSeq(hist, LAMBDA x : x.id \in {hist[i].id : i \in (lost2 + 1)..Len(hist)} /\ InWindow(x, loUs, T))
    IN
    /\ periodUs' = pus /\ maxlen' = nl /\ buf' = b2 /\ lost' = lost2
    /\ lastT' = T /\ winLoUs' = loUs
    /\ handed' = got /\ declared' = decl
    /\ emitted' = IF got = <<>> THEN None ELSE got[Len(got)].id   \* the harness's function returns the newest id
    /\ nextT' = T + cfg.P /\ nticks' = nticks + 1
    /\ UNCHANGED <<cfg, start, received, hist, all, lastTs>>

Tick ==
    /\ TickWith(nextT, Estimate(nextT))
    /\ h' = Append(h, [a |-> "tick", T |-> nextT, est |-> (Estimate(nextT) # None), guarded |-> Guarded(nextT),
                       resized |-> (maxlen' # maxlen), upsampling |-> (periodUs' # None /\ periodUs' > cfg.P * cfg.tick),
                       evicted |-> lost', nhanded |-> Len(handed'),
                       nfuture |-> Cardinality({i \in 1..Len(buf') : buf'[i].ts > nextT})])

RecvH(ts, kind) == Recv(ts, kind) /\ h' = Append(h, [a |-> "recv", ts |-> ts, kind |-> kind])

Kinds == {"valid", "none", "nan"}
NInvalid == Cardinality({i \in 1..Len(all) : all[i].kind # "valid"})
KindsNow == IF NInvalid < MaxInvalid THEN Kinds ELSE {"valid"}
TsNow == {lastTs + d : d \in DeltaSet} \cap 0..(nextT + Fut + cfg.lead)

RecvStep ==
    /\ Mode \in {"history", "sim"} /\ Len(all) < MaxRecv /\ TsNow # {}
    /\ IF Mode = "sim"
       THEN LET ts == RandomElement(TsNow)  k == RandomElement(KindsNow \cup {"valid"}) IN RecvH(ts, k)
       ELSE \E ts \in TsNow, k \in KindsNow : RecvH(ts, k)
TickStep ==
    /\ Mode \in {"history", "sim"} /\ nticks < MaxTicks
    /\ Tick
    /\ (Mode = "history" => Emit(h'))
SimDone == nticks = MaxTicks
SimEmit == (Mode = "sim" /\ SimDone /\ h[Len(h)].a = "tick") => Emit(h)

Next == RecvStep \/ TickStep
Spec == Init /\ [][Next]_vars

----------------------------------------------------------------------------
(* The clauses of C08, as operators over a handed sequence `got` so that the *)
(* trace specification evaluates the same text on what the CODE handed to    *)
(* the recording resampling function.                                        *)

KindOf(id) == all[id].kind
\* the property's set: received valid samples stamped in (T - age * max(P, input period), T]
FullWindow(loUs, T) == SelectSeq(hist, LAMBDA x : InWindow(x, loUs, T))

NoFutureOf(got, T) == \A i \in 1..Len(got) : got[i].ts <= T
NoStaleOf(got, loUs) == \A i \in 1..Len(got) : got[i].ts * cfg.tick > loUs
NoInvalidOf(got) == \A i \in 1..Len(got) : got[i].id \in 1..Len(all) /\ KindOf(got[i].id) = "valid" /\ all[got[i].id].ts = got[i].ts
\* "in arrival order, limited to the most recent ones": a suffix of the full window ...
WindowSuffixOf(got, loUs, T) == IsSuffix(got, FullWindow(loUs, T))
\* ... and all of it when the buffer never had to drop one of them
CompleteWhenFitsOf(got, loUs, T, lst) ==
    LET w == FullWindow(loUs, T) IN (w # <<>> /\ \A i \in 1..Len(hist) : hist[i].id = w[1].id => i > lst) => got = w

ImplRefinesDecl == handed = declared
NoFuture == lastT # None => NoFutureOf(handed, lastT)
NoStale == lastT # None => NoStaleOf(handed, winLoUs)
NoInvalid == NoInvalidOf(handed)
NoneIffEmpty == (emitted = None) <=> (declared = <<>>)
\* (evaluated in the state a tick produced: a sample that arrives later may still be stamped
\* inside the window of a tick that is already over)
AtTick == h[Len(h)].a = "tick"
WindowSuffix == AtTick => WindowSuffixOf(handed, winLoUs, lastT) /\ CompleteWhenFitsOf(handed, winLoUs, lastT, lost)

\* the input period is a duration inferred from samples that are already in the past of the tick:
\* it exists only once a tick later than the first sample's stamp has passed, and it is positive
InputPeriodSaneOf(pus, st, T) == pus # None => (pus > 0 /\ st # None /\ T # None /\ T > st)
InputPeriodSane == InputPeriodSaneOf(periodUs, start, lastT)

(* design-level invariants *)
BufIsTailOfHist == buf = SubSeq(hist, Len(hist) - Len(buf) + 1, Len(hist)) /\ Len(buf) <= maxlen
LostIsWhatBufLacks == Len(hist) - Len(buf) = lost
Sorted == \A i \in 1..(Len(hist) - 1) : hist[i].ts <= hist[i + 1].ts
TypeOK == maxlen \in 1..cfg.maxbuf /\ received = Len(hist) /\ (start = None <=> hist = <<>>)

=============================================================================
