--------------------------- MODULE FormulaFallback ---------------------------
(* C19: a formula term with a fallback.  The formula is  term + ref  where    *)
(* `term` is a MetricFetcher with a FallbackMetricFetcher and `ref` is a      *)
(* plain always-valid stream that shows which timestamp a round belongs to.   *)
(*                                                                            *)
(* Environment (a resampler): in tick T every stream gets its sample for T,   *)
(* in any order (ProduceP / ProduceF / ProduceR); the primary stream is       *)
(* closed (or starts raising ReceiverError) in tick CloseAt instead of        *)
(* getting a sample.  The fallback stream only exists for the fetcher once    *)
(* it was started, and loses its first `lag` samples (subscription latency).  *)
(*                                                                            *)
(* Consumer, one action per await (_formula_steps.py / _formula_evaluator.py):*)
(*   TPrimRecv   await self._stream.receive()  in _fetch_next (not running:   *)
(*               valid -> primary; invalid or raise -> start the fallback,    *)
(*               return the invalid value / None) or in                       *)
(*               fetch_next_with_fallback (running)                           *)
(*   TFirstF     first  await fallback_fetcher.receive()  in                  *)
(*               _synchronize_and_fetch_fallback                              *)
(*   TCatchUp    the catch-up loop  while primary.ts > latest_fallback.ts     *)
(*   TFbOnly     `return await fallback_fetcher.receive()` after the primary  *)
(*               raised (only reachable when the except clauses work)         *)
(*   RRecv       fetch of the reference stream                                *)
(*   RoundDone / SyncTDone / SyncR   FormulaEvaluator.apply: all fetched;     *)
(*               first-run synchronisation; emit or drop the round            *)
(* `fixed` = TRUE is the code as it is: `except ReceiverError as err` (since   *)
(* the repair "fix: catch ReceiverError without subscripting it ...").        *)
(* `fixed` = FALSE keeps the model of the repaired defect: `except            *)
(* ReceiverError[Any]` raises TypeError when an exception is matched, so a    *)
(* raising primary stream kills every later round (Dev_ErrorPathDead); it is  *)
(* kept so that the defect is recognised by name should it come back.         *)
(*                                                                            *)
(* C19 clauses: ReturnsToPrimary, FallbackValueUsed, TimestampsAligned,       *)
(*   EmitsEveryTimestamp, SurvivesPrimaryStreamFailure, StartupBounded        *)
(* deviations:  Dev_UnsyncFallbackAfterPrimaryFailure (known finding),        *)
(*              Dev_ErrorPathDead (repaired; recognised if it returns)        *)
EXTENDS Integers, Sequences, FiniteSets, TLC, Json, CSV, IOUtils

CONSTANTS H,         \* horizon: ticks 1..H
          Cap,       \* receiver buffer capacity
          Lags,      \* set of possible fallback start lags
          MaxGap,    \* longest run of missing samples in a script
          FixedSet,  \* subset of BOOLEAN: which variants of the error handling to explore
          MaxDepth,  \* history bound ("sim" only)
          Mode       \* "mc" | "gen" | "sim" | "trace"

VARIABLES pseq, fseq,  \* scripts: T -> "v" (valid) | "n" (missing: None / NaN)
          closeAt,     \* tick in which the primary stream fails (H + 1: never)
          lag, fixed,
          installed,
          \* environment
          tick, done,  \* current tick, streams that already produced in it
          pq, rq, fq,  \* receiver buffers (timestamps)
          pclosed,     \* the primary stream raises once its buffer is drained
          running,     \* fallback.is_running
          skip,        \* fallback samples still to be lost after the start
          fev,         \* history: one [t, deliv, bad] per fallback sample produced
          \* consumer
          started, tpc, prim, tres, rcur, latestF, firstRun, epc, latest,
          seenBad,     \* the fetcher has consumed an invalid primary sample or a raise
          deadHit,     \* the TypeError path was taken
          unsyncHit,   \* a fallback-only sample of another timestamp was used
          out, dropped,
          h

envv == <<tick, done, pq, rq, fq, pclosed, running, skip, fev>>
conv == <<started, tpc, prim, tres, rcur, latestF, firstRun, epc, latest, seenBad, deadHit, unsyncHit, out, dropped>>
scr == <<pseq, fseq, closeAt, lag, fixed, installed>>
vars == <<scr, envv, conv, h>>
View == <<scr, envv, conv>>

None == -99
Ticks == 1..H

EmitOn == "OUT_FILE" \in DOMAIN IOEnv
Emit(v) == IF EmitOn THEN CSVWrite("%1$s", <<ToJson(v)>>, IOEnv.OUT_FILE) ELSE TRUE

\* scripts: valid everywhere except one run [a, b) of missing samples, of length <= MaxGap
Script(a, b) == [t \in Ticks |-> IF a <= t /\ t < b THEN "n" ELSE "v"]
Scripts == {Script(a, b) : a \in 1..(H + 1), b \in 1..(H + 1)}
Gap(s) == Cardinality({t \in Ticks : s[t] = "n"})

NoRes == [src |-> "none", ts |-> None, fb |-> FALSE]
Drop == [src |-> "drop", ts |-> None, fb |-> FALSE]

Init ==
    /\ pseq = Script(1, 1) /\ fseq = Script(1, 1) /\ closeAt = H + 1 /\ lag = 0 /\ fixed = FALSE
    /\ installed = FALSE
    /\ tick = 1 /\ done = {} /\ pq = <<>> /\ rq = <<>> /\ fq = <<>> /\ pclosed = FALSE
    /\ running = FALSE /\ skip = 0 /\ fev = <<>>
    /\ started = FALSE /\ tpc = "prim" /\ prim = None /\ tres = NoRes /\ rcur = None
    /\ latestF = None /\ firstRun = TRUE /\ epc = "fetch" /\ latest = None
    /\ seenBad = FALSE /\ deadHit = FALSE /\ unsyncHit = FALSE
    /\ out = <<>> /\ dropped = <<>>
    /\ h = <<>>

\* second level of the initial choice (TLC enumerates Init single-threaded)
Install ==
    /\ ~installed
    /\ installed' = TRUE
    /\ closeAt' \in 1..(H + 1)
    /\ pseq' \in {s \in Scripts : Gap(s) <= MaxGap /\ \A t \in Ticks : t >= closeAt' => s[t] = "v"}
    /\ fseq' \in {s \in Scripts : Gap(s) <= MaxGap}
    /\ lag' \in Lags
    /\ fixed' \in FixedSet
    /\ UNCHANGED <<envv, conv>>

----------------------------------------------------------------------------
(* environment *)
AdvanceTick(d) == IF d = {"P", "F", "R"} THEN tick' = tick + 1 /\ done' = {} ELSE tick' = tick /\ done' = d

ProduceP ==
    /\ installed /\ tick <= H /\ "P" \notin done
    /\ IF tick < closeAt
       THEN Len(pq) < Cap /\ pq' = Append(pq, tick) /\ UNCHANGED pclosed
       ELSE pclosed' = TRUE /\ UNCHANGED pq          \* closed / erroring from tick closeAt on
    /\ AdvanceTick(done \cup {"P"})
    /\ UNCHANGED <<rq, fq, running, skip, fev, conv, scr>>

ProduceR ==
    /\ installed /\ tick <= H /\ "R" \notin done
    /\ Len(rq) < Cap /\ rq' = Append(rq, tick)
    /\ AdvanceTick(done \cup {"R"})
    /\ UNCHANGED <<pq, fq, pclosed, running, skip, fev, conv, scr>>

\* a fallback sample reaches the fetcher only if the fallback was started and its start lag is over
ProduceF ==
    /\ installed /\ tick <= H /\ "F" \notin done
    /\ IF running /\ skip = 0
       THEN Len(fq) < Cap /\ fq' = Append(fq, tick) /\ UNCHANGED skip
       ELSE fq' = fq /\ skip' = (IF running THEN skip - 1 ELSE skip)
    /\ fev' = Append(fev, [t |-> tick, deliv |-> running /\ skip = 0, bad |-> seenBad])
    /\ AdvanceTick(done \cup {"F"})
    /\ UNCHANGED <<pq, rq, pclosed, running, conv, scr>>

StartConsumer ==
    /\ installed /\ ~started
    /\ started' = TRUE
    /\ UNCHANGED <<envv, scr, tpc, prim, tres, rcur, latestF, firstRun, epc, latest, seenBad, deadHit, unsyncHit, out, dropped>>

----------------------------------------------------------------------------
(* MetricFetcher with fallback *)
PrimRes(t) == IF pseq[t] = "v" THEN [src |-> "p", ts |-> t, fb |-> FALSE] ELSE [src |-> "none", ts |-> t, fb |-> FALSE]
FbRes(x, only) == IF fseq[x] = "v" THEN [src |-> "f", ts |-> x, fb |-> only] ELSE [src |-> "none", ts |-> x, fb |-> only]

\* _synchronize_and_fetch_fallback after the first fallback sample is known, and the choice
\* at the end of fetch_next_with_fallback: <<next pc, result>>
AfterSync(t, lf) ==
    IF t < lf THEN <<"done", PrimRes(t)>>                       \* fallback is ahead: "return None" -> primary
    ELSE IF t > lf THEN <<"catch", NoRes>>
    ELSE <<"done", IF pseq[t] = "v" THEN PrimRes(t) ELSE FbRes(lf, FALSE)>>

StartFallback == running' = TRUE /\ skip' = lag

CanPrim == started /\ tpc = "prim" /\ (pq # <<>> \/ pclosed)
TPrimRecv ==
    /\ CanPrim
    /\ IF pq # <<>>
       THEN LET t == Head(pq) IN
            /\ pq' = Tail(pq)
            /\ UNCHANGED <<deadHit>>
            /\ IF ~running
               THEN \* _fetch_next, fallback not running
                    /\ IF pseq[t] = "v"
                       THEN UNCHANGED <<running, skip, seenBad>>
                       ELSE StartFallback /\ seenBad' = TRUE
                    /\ tres' = PrimRes(t) /\ tpc' = "done" /\ prim' = t
               ELSE \* fetch_next_with_fallback
                    /\ prim' = t
                    /\ seenBad' = (seenBad \/ pseq[t] # "v")
                    /\ UNCHANGED <<running, skip>>
                    /\ IF latestF = None
                       THEN tpc' = "first" /\ tres' = NoRes
                       ELSE tpc' = AfterSync(t, latestF)[1] /\ tres' = AfterSync(t, latestF)[2]
       ELSE \* the primary stream raises ReceiverStoppedError / ReceiverError
            /\ UNCHANGED <<pq, prim>>
            /\ seenBad' = TRUE
            /\ IF ~fixed
               THEN \* `except ReceiverError[Any]` -> TypeError out of fetch_next
                    /\ deadHit' = TRUE /\ tres' = Drop /\ tpc' = "done"
                    /\ UNCHANGED <<running, skip>>
               ELSE /\ UNCHANGED deadHit
                    /\ IF ~running
                       THEN \* logged, fallback started, fetch_next returns None
                            StartFallback /\ tres' = Drop /\ tpc' = "done"
                       ELSE \* fetch_next_with_fallback: use the fallback alone
                            tpc' = "fbonly" /\ tres' = NoRes /\ UNCHANGED <<running, skip>>
    \* a fallback sample that was fetched ahead of the primary is forgotten by the fallback-only path
    /\ unsyncHit' = (unsyncHit \/ (pq = <<>> /\ fixed /\ running /\ latestF # None /\ latestF > prim))
    /\ UNCHANGED <<tick, done, rq, fq, pclosed, fev, scr, started, rcur, latestF, firstRun, epc, latest,
                   out, dropped>>

CanFirstF == started /\ tpc = "first" /\ fq # <<>>
TFirstF ==
    /\ CanFirstF
    /\ latestF' = Head(fq) /\ fq' = Tail(fq)
    /\ tpc' = AfterSync(prim, Head(fq))[1] /\ tres' = AfterSync(prim, Head(fq))[2]
    /\ UNCHANGED <<tick, done, pq, rq, pclosed, running, skip, fev, scr, started, prim, rcur, firstRun, epc, latest,
                   seenBad, deadHit, unsyncHit, out, dropped>>

CanCatchUp == started /\ tpc = "catch" /\ fq # <<>>
TCatchUp ==
    /\ CanCatchUp
    /\ latestF' = Head(fq) /\ fq' = Tail(fq)
    /\ IF prim > Head(fq)
       THEN UNCHANGED <<tpc, tres>>
       ELSE \* loop ends; the latest fallback sample is returned whatever its timestamp
            tpc' = "done" /\ tres' = (IF pseq[prim] = "v" THEN PrimRes(prim) ELSE FbRes(Head(fq), FALSE))
    /\ UNCHANGED <<tick, done, pq, rq, pclosed, running, skip, fev, scr, started, prim, rcur, firstRun, epc, latest,
                   seenBad, deadHit, unsyncHit, out, dropped>>

CanFbOnly == started /\ tpc = "fbonly" /\ fq # <<>>
TFbOnly ==
    /\ CanFbOnly
    /\ fq' = Tail(fq)
    /\ tres' = FbRes(Head(fq), TRUE) /\ tpc' = "done"
    /\ UNCHANGED <<tick, done, pq, rq, pclosed, running, skip, fev, scr, started, prim, rcur, latestF, firstRun, epc,
                   latest, seenBad, deadHit, unsyncHit, out, dropped>>

CanRRecv == started /\ epc = "fetch" /\ rcur = None /\ rq # <<>>
RRecv ==
    /\ CanRRecv
    /\ rcur' = Head(rq) /\ rq' = Tail(rq)
    /\ UNCHANGED <<tick, done, pq, fq, pclosed, running, skip, fev, scr, started, tpc, prim, tres, latestF, firstRun,
                   epc, latest, seenBad, deadHit, unsyncHit, out, dropped>>

----------------------------------------------------------------------------
(* FormulaEvaluator.apply / FormulaEngine._run *)
NewRound == tpc' = "prim" /\ rcur' = None /\ epc' = "fetch" /\ tres' = NoRes
EmitRec(r, t) ==
    /\ out' = Append(out, [rts |-> r, tts |-> t.ts, src |-> t.src, sts |-> IF t.src = "none" THEN None ELSE t.ts])
    /\ unsyncHit' = (unsyncHit \/ (t.fb /\ t.ts # r))
    /\ UNCHANGED dropped
    /\ NewRound
DropRound(r) ==
    /\ dropped' = Append(dropped, r)
    /\ UNCHANGED <<out, unsyncHit>>
    /\ NewRound

CanRoundDone == started /\ epc = "fetch" /\ tpc = "done" /\ rcur # None
RoundDone ==
    /\ CanRoundDone
    /\ IF tres.src = "drop"
       THEN DropRound(rcur) /\ UNCHANGED <<firstRun, latest>>
       ELSE IF ~firstRun \/ tres.ts = rcur
       THEN EmitRec(rcur, tres) /\ firstRun' = FALSE /\ UNCHANGED latest
       ELSE IF tres.ts < rcur
       THEN \* the term is behind: fetch it again until it reaches the reference
            /\ latest' = rcur /\ epc' = "syncT" /\ tpc' = "prim"
            /\ UNCHANGED <<tres, rcur, firstRun, out, dropped, unsyncHit>>
       ELSE /\ latest' = tres.ts /\ epc' = "syncR"
            /\ UNCHANGED <<tpc, tres, rcur, firstRun, out, dropped, unsyncHit>>
    /\ UNCHANGED <<envv, scr, started, prim, latestF, seenBad, deadHit>>

CanSyncTDone == started /\ epc = "syncT" /\ tpc = "done"
SyncTDone ==
    /\ CanSyncTDone
    /\ IF tres.src = "drop" \/ tres.ts > latest
       THEN DropRound(rcur) /\ UNCHANGED firstRun
       ELSE IF tres.ts < latest
       THEN tpc' = "prim" /\ UNCHANGED <<tres, rcur, epc, firstRun, out, dropped, unsyncHit>>
       ELSE EmitRec(rcur, tres) /\ firstRun' = FALSE
    /\ UNCHANGED <<envv, scr, started, prim, latestF, latest, seenBad, deadHit>>

CanSyncR == started /\ epc = "syncR" /\ rq # <<>>
SyncR ==
    /\ CanSyncR
    /\ rq' = Tail(rq)
    /\ LET r == Head(rq) IN
         IF r < latest THEN rcur' = r /\ UNCHANGED <<tpc, tres, epc, firstRun, out, dropped, unsyncHit>>
         ELSE IF r = latest THEN EmitRec(r, tres) /\ firstRun' = FALSE
         ELSE DropRound(r) /\ UNCHANGED firstRun
    /\ UNCHANGED <<tick, done, pq, fq, pclosed, running, skip, fev, scr, started, prim, latestF, latest, seenBad, deadHit>>

ConsumerEnabled == CanPrim \/ CanFirstF \/ CanCatchUp \/ CanFbOnly \/ CanRRecv \/ CanRoundDone \/ CanSyncTDone \/ CanSyncR

----------------------------------------------------------------------------
HRec(a, s) == [a |-> a, s |-> s]
Gen == Mode = "sim" => Len(h) < MaxDepth
Log(r) == h' = (IF Mode \in {"gen", "sim"} THEN Append(h, r) ELSE h)
Case(hh) == [pseq |-> pseq, fseq |-> fseq, closeAt |-> closeAt, lag |-> lag, h |-> hh]
\* histories are the same for both variants of the error handling: emit them once
EmitRule == (Mode = "gen" /\ fixed = (TRUE \in FixedSet) /\ tick' = H + 1) => Emit(Case(h'))

InstallStep == Install /\ UNCHANGED h
ProducePStep == Gen /\ ProduceP /\ Log(HRec("prod", "P")) /\ EmitRule
ProduceFStep == Gen /\ ProduceF /\ Log(HRec("prod", "F")) /\ EmitRule
ProduceRStep == Gen /\ ProduceR /\ Log(HRec("prod", "R")) /\ EmitRule
StartStep == Gen /\ StartConsumer /\ Log(HRec("start", "")) /\ EmitRule
PrimStep == Gen /\ TPrimRecv /\ Log(HRec("int", "")) /\ EmitRule
FirstFStep == Gen /\ TFirstF /\ Log(HRec("int", "")) /\ EmitRule
CatchUpStep == Gen /\ TCatchUp /\ Log(HRec("int", "")) /\ EmitRule
FbOnlyStep == Gen /\ TFbOnly /\ Log(HRec("int", "")) /\ EmitRule
RRecvStep == Gen /\ RRecv /\ Log(HRec("int", "")) /\ EmitRule
RoundStep == Gen /\ RoundDone /\ Log(HRec("int", "")) /\ EmitRule
SyncTStep == Gen /\ SyncTDone /\ Log(HRec("int", "")) /\ EmitRule
SyncRStep == Gen /\ SyncR /\ Log(HRec("int", "")) /\ EmitRule

Next == InstallStep \/ ProducePStep \/ ProduceFStep \/ ProduceRStep \/ StartStep \/ PrimStep \/ FirstFStep
        \/ CatchUpStep \/ FbOnlyStep \/ RRecvStep \/ RoundStep \/ SyncTStep \/ SyncRStep

----------------------------------------------------------------------------
(* C19 — the clauses are operators of the scripts and of what was observed, so that the trace
   specification can evaluate them on the output of the code *)
PValid(T) == T < closeAt /\ pseq[T] = "v"
FValid(T) == fseq[T] = "v"
\* first tick in which the primary has no valid sample (H + 1: never)
Tstart == IF \E T \in Ticks : ~PValid(T) THEN CHOOSE T \in Ticks : ~PValid(T) /\ \A U \in 1..(T - 1) : PValid(U) ELSE H + 1
\* fallback samples the fetcher can have: those delivered, and those produced after the fetcher
\* had seen the first failure, beyond the start lag
BadIdx(fe) == {i \in 1..Len(fe) : fe[i].bad}
Avail(fe) == {fe[i].t : i \in {j \in 1..Len(fe) : fe[j].deliv \/ (fe[j].bad /\ Cardinality({k \in BadIdx(fe) : k < j}) >= lag)}}
Tf0(fe) == IF Avail(fe) = {} THEN H + 9 ELSE CHOOSE x \in Avail(fe) : \A y \in Avail(fe) : x <= y
\* after the start-up delay
Post(T, fe) == T > Tstart /\ T >= Tf0(fe)

ReturnsToPrimaryRec(r) == PValid(r.rts) => (r.src = "p" /\ r.sts = r.rts)
FallbackValueUsedRec(r, fe) ==
    (~PValid(r.rts) /\ Post(r.rts, fe)) =>
        IF FValid(r.rts) THEN r.src = "f" /\ r.sts = r.rts ELSE r.src = "none"
AlignedRec(r) == r.src # "none" => r.sts = r.rts
Increasing(o) == \A i \in 1..(Len(o) - 1) : o[i].rts < o[i + 1].rts
Has(o, T) == \E i \in 1..Len(o) : o[i].rts = T
\* rounds that can complete within the horizon once everything was produced and consumed
MustEmit(T, fe) == T <= Tstart \/ Avail(fe) # {}
EmitsEveryTimestampAt(o, fe, T) == (T < closeAt /\ MustEmit(T, fe)) => Has(o, T)
SurvivesAt(o, fe, T) == (T >= closeAt /\ Post(T, fe)) => Has(o, T)
\* every fallback sample produced after the fetcher saw the failure, beyond the lag, was delivered
StartupBoundedOf(fe) == \A i \in 1..Len(fe) : (fe[i].bad /\ Cardinality({k \in BadIdx(fe) : k < i}) >= lag) => fe[i].deliv

\* named deviations (known findings)
\* REPAIRED defect, kept as a cause predicate only (no known-findings entry): `except
\* ReceiverError[Any]` raises TypeError while matching, every round after the primary stream
\* starts raising is lost and the fallback is never consulted
Dev_ErrorPathDead == ~fixed /\ deadHit
\* known finding of the current code: after the primary raised, fetch_next_with_fallback takes the
\* fallback samples one per round without comparing timestamps with the other terms
Dev_UnsyncFallbackAfterPrimaryFailure == fixed /\ unsyncHit

Terminal == installed /\ started /\ tick = H + 1 /\ ~ConsumerEnabled

ReturnsToPrimary == \A i \in 1..Len(out) : ReturnsToPrimaryRec(out[i])
FallbackValueUsed == \A i \in 1..Len(out) : FallbackValueUsedRec(out[i], fev) \/ Dev_UnsyncFallbackAfterPrimaryFailure
TimestampsAligned ==
    \/ /\ \A i \in 1..Len(out) : AlignedRec(out[i]) /\ out[i].tts = out[i].rts
       /\ Increasing(out)
    \/ Dev_UnsyncFallbackAfterPrimaryFailure
EmitsEveryTimestamp == Terminal => \A T \in Ticks : EmitsEveryTimestampAt(out, fev, T)
SurvivesPrimaryStreamFailure ==
    Terminal => \A T \in Ticks : SurvivesAt(out, fev, T) \/ Dev_ErrorPathDead \/ Dev_UnsyncFallbackAfterPrimaryFailure
StartupBounded == StartupBoundedOf(fev) \/ Dev_ErrorPathDead
\* the design's start-up delay is bounded: reference backlog (Cap, plus the sample in hand) + the starting round + the lag
StartupDelayBounded == (Avail(fev) # {} /\ Tstart <= H) => Tf0(fev) <= Tstart + Cap + 2 + lag
BacklogBounded == Len(pq) <= Cap /\ Len(rq) <= Cap /\ Len(fq) <= Cap

\* simulation: the history is written by an invariant evaluated on the chosen states only
SimEmit == (Mode = "sim" /\ (Len(h) = MaxDepth \/ Terminal)) => Emit(Case(h))

=============================================================================
