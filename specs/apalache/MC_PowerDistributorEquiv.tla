---------------------- MODULE MC_PowerDistributorEquiv ----------------------
(* TLC cross-check that the typed re-statement MC_PowerDistributorInd.tla has the same      *)
(* transitions as specs/PowerDistributor.tla (Mode = "mc": h stays <<>>, nothing emitted):  *)
(*  - every step of PowerDistributor is a step of the re-statement (RefinesTyped),          *)
(*  - on every reachable transition each action of one module is true iff the action of the *)
(*    same name of the other module is (ActEquiv),                                          *)
(*  - the typed IndInv / Safety hold in every reachable state of the ORIGINAL spec,         *)
(*  - tools/run_apalache.sh additionally compares the numbers of generated and distinct     *)
(*    states of this run with those of MC_PowerDistributorInd_TLC.cfg (same constants):     *)
(*    refinement + equal counts => equal reachable state graphs.                            *)
EXTENDS PowerDistributor

T == INSTANCE MC_PowerDistributorInd

RefinesTyped == T!Init /\ [][T!Next]_(T!vars)
ActEquiv ==
    [][ /\ \A g \in Groups : /\ Send(g) <=> T!Send(g)
                             /\ Enter(g) <=> T!Enter(g)
                             /\ Exit(g) <=> T!Exit(g)
                             /\ Callback(g) <=> T!Callback(g)
                             /\ \A o \in Outcomes : Resolve(g, o) <=> T!Resolve(g, o)
        /\ ActorRecv <=> T!ActorRecv
        /\ NoTask = T!NoTask /\ Outcomes = T!Outcomes ]_vars
TypedIndInv == T!IndInv
TypedSafety == T!Safety
SameClauses == /\ NoOverlap <=> T!NoOverlap
               /\ PendingIsLatest <=> T!PendingIsLatest
               /\ QuiescentLatestApplied <=> T!QuiescentLatestApplied
=============================================================================
