--------------------------- MODULE MC_BlockingInd ---------------------------
(* X05 (2): UNBOUNDED safety of the exponential back-off of BlockingStatus                  *)
(* (src/frequenz/sdk/microgrid/_power_distributing/_component_status/_blocking_status.py)   *)
(* by an inductive invariant discharged with Apalache.                                      *)
(*                                                                                          *)
(* State: integer time `now`, blk = [until, dur] (blocked_until with the sentinel None,     *)
(* last_blocking_duration) and the ghost nf = number of consecutive effective block() calls *)
(* behind the current block -- the same state and the same operators Blocked / Unblock /    *)
(* Block / BackoffDur / BlockCount as the back-off part of specs/BatteryStatus.tla (C16),   *)
(* with None == -1 instead of -99 and WITHOUT the cap NfCap on the ghost (it only keeps     *)
(* TLC's state space finite there).  The environment is free: block(), unblock() and the    *)
(* passage of time in any order, which contains every calling pattern of the status         *)
(* trackers (BatteryStatus.tla calls Block only on a failed command while not NOT_WORKING). *)
(*                                                                                          *)
(* Constants are symbolic: CInit  1 <= MinBlock <= MaxBlock <= 64 * MinBlock (this contains *)
(* 1 <= min <= max <= 64; production: min = 1 s, max = 30 s).  Time, the number of calls    *)
(* and nf are unbounded.  Exponentiation with a symbolic exponent is outside linear         *)
(* arithmetic, so 2^e is the table Pow2 for e <= 7 and BackoffDur clamps the exponent at 7: *)
(* for MaxBlock <= 64 * MinBlock, 2^e * MinBlock >= 128 * MinBlock > MaxBlock for e >= 7,   *)
(* so BackoffDur(n) = Min2(2^(n-1) * MinBlock, MaxBlock) for EVERY n >= 1 (TLC checks the   *)
(* table against its built-in ^ : PowTableOK).  CInitLin (no upper bound on MaxBlock) is    *)
(* used for the clauses that need no power (LinInv).                                        *)
(*                                                                                          *)
(* Obligations (tools/run_apalache.sh), all with --cinit=CInit unless stated:               *)
(*   Initiation    Init => IndInv                  --init=Init    --inv=IndInv     length 0 *)
(*   Consecution   IndInv /\ Next => IndInv'       --init=IndInit --inv=IndInv     length 1 *)
(*   Safety        IndInv => Safety                --init=IndInit --inv=Safety     length 0 *)
(*   StepSafety    IndInv /\ Next => StepSafety    --init=IndInit --inv=StepSafety length 1 *)
(*   LinInitiation / LinConsecution / LinSafety: the same for LinInv, LinSafety with        *)
(*                 --cinit=CInitLin (1 <= MinBlock <= MaxBlock, no upper bound)             *)
EXTENDS Integers, Apalache

CONSTANTS
    \* BlockingStatus.min_duration
    \* @type: Int;
    MinBlock,
    \* BlockingStatus.max_duration
    \* @type: Int;
    MaxBlock

VARIABLES
    \* @type: Int;
    now,
    \* [until, dur]: BlockingStatus.blocked_until (None == -1) / last_blocking_duration
    \* @type: {until: Int, dur: Int};
    blk,
    \* ghost: number of consecutive effective block() calls behind the current block (0: not blocked)
    \* @type: Int;
    nf

vars == <<now, blk, nf>>

None == -1
Min2(a, b) == IF a <= b THEN a ELSE b

\* the assert of __post_init__, with the range the table covers / without it
CInit == MinBlock \in Nat /\ MaxBlock \in Nat /\ 1 <= MinBlock /\ MinBlock <= MaxBlock /\ MaxBlock <= 64 * MinBlock
CInitLin == MinBlock \in Nat /\ MaxBlock \in Nat /\ 1 <= MinBlock /\ MinBlock <= MaxBlock

----------------------------------------------------------------------------
(* BlockingStatus -- operators as in BatteryStatus.tla *)
\* @type: ({until: Int, dur: Int}, Int) => Bool;
Blocked(k, t) == k.until # None /\ k.until > t
\* @type: {until: Int, dur: Int} => {until: Int, dur: Int};
Unblock(k) == [k EXCEPT !.until = None]
\* @type: {until: Int, dur: Int} => {until: Int, dur: Int};
Block(k) ==
    IF k.until = None THEN [until |-> now + MinBlock, dur |-> MinBlock]
    ELSE IF k.until > now THEN k                                  \* still blocked: do nothing
    ELSE LET d == Min2(2 * k.dur, MaxBlock) IN [until |-> now + d, dur |-> d]
\* 2^e for 0 <= e <= 7
Pow2(e) == IF e <= 0 THEN 1 ELSE IF e = 1 THEN 2 ELSE IF e = 2 THEN 4 ELSE IF e = 3 THEN 8
           ELSE IF e = 4 THEN 16 ELSE IF e = 5 THEN 32 ELSE IF e = 6 THEN 64 ELSE 128
\* the property's wording: the n-th consecutive failure blocks for min(2^(n-1) * min, max)
BackoffDur(n) == IF n < 1 THEN 0 ELSE Min2(Pow2(Min2(n - 1, 7)) * MinBlock, MaxBlock)
\* @type: ({until: Int, dur: Int}, Int) => Int;
BlockCount(k, n) == IF k.until = None THEN 1 ELSE IF k.until > now THEN n ELSE n + 1

Init ==
    /\ now = 0
    /\ blk = [until |-> None, dur |-> MinBlock]      \* __post_init__: last_blocking_duration = min_duration
    /\ nf = 0

Tick ==
    /\ now' = now + 1
    /\ UNCHANGED <<blk, nf>>

\* block()
DoBlock ==
    /\ blk' = Block(blk)
    /\ nf' = BlockCount(blk, nf)
    /\ UNCHANGED now

\* unblock()
DoUnblock ==
    /\ blk' = Unblock(blk)
    /\ nf' = 0
    /\ UNCHANGED now

Next == Tick \/ DoBlock \/ DoUnblock

----------------------------------------------------------------------------
(* the inductive invariants *)
\* clauses without the power table (linear in the symbolic constants)
LinInv ==
    /\ 1 <= MinBlock /\ MinBlock <= MaxBlock
    /\ now >= 0 /\ nf >= 0
    \* B1 the duration is in range ALWAYS (also before the first block and after unblock)
    /\ MinBlock <= blk.dur /\ blk.dur <= MaxBlock
    \* B2 blocked_until is None exactly when no block is counted
    /\ (blk.until = None) <=> (nf = 0)
    \* B3 a set deadline is the time of the block() call (>= 0, <= now) plus the duration
    /\ blk.until # None => (blk.until >= blk.dur /\ blk.until <= now + blk.dur)
    \* B4 the first block after Init/unblock lasts exactly the minimum
    /\ nf = 1 => blk.dur = MinBlock

IndInv ==
    /\ LinInv
    /\ MaxBlock <= 64 * MinBlock
    \* B5 (BackoffDoubles of C16) the n-th consecutive effective block lasts min(2^(n-1) * min, max)
    /\ blk.until # None => blk.dur = BackoffDur(nf)
    \* B6 blocked or not, the duration is min * 2^k capped at max (unblock() keeps the last one)
    /\ \E k \in 0..7 : blk.dur = Min2(Pow2(k) * MinBlock, MaxBlock)

\* arbitrary state of the right type satisfying the invariant (Gen only here)
IndInit ==
    /\ now = Gen(1) /\ blk = Gen(1) /\ nf = Gen(1)
    /\ IndInv
LinInit ==
    /\ now = Gen(1) /\ blk = Gen(1) /\ nf = Gen(1)
    /\ LinInv

----------------------------------------------------------------------------
(* what the invariants imply *)
DurInRange == MinBlock <= blk.dur /\ blk.dur <= MaxBlock
UntilBounded == blk.until # None => blk.until <= now + MaxBlock
\* dur is min * 2^k capped at max for some k
DurIsCappedPower == \E k \in 0..7 : blk.dur = Min2(Pow2(k) * MinBlock, MaxBlock)
\* ... namely k = nf - 1 while blocked
DurIsBackoff == blk.until # None => (nf >= 1 /\ blk.dur = BackoffDur(nf))
\* is_blocked() implies a deadline at most max ahead
BlockedAtMostMax == Blocked(blk, now) => (blk.until - now <= MaxBlock /\ blk.until - now <= blk.dur)

LinSafety == DurInRange /\ UntilBounded /\ BlockedAtMostMax
Safety == LinSafety /\ DurIsCappedPower /\ DurIsBackoff

\* one-step clauses
\* after unblock (and initially) the next block lasts exactly min
AfterUnblockMin == (blk.until = None /\ blk'.until # None) => (blk'.dur = MinBlock /\ blk'.until = now + MinBlock /\ nf' = 1)
\* block() while blocked changes nothing
BlockedUnchanged == (Blocked(blk, now) /\ now' = now /\ blk'.until # None) => (blk' = blk /\ nf' = nf)
\* a block after the previous one expired doubles, up to max
ExpiredDoubles == (blk.until # None /\ blk.until <= now /\ blk'.until # None /\ blk' # blk)
                     => (blk'.dur = Min2(2 * blk.dur, MaxBlock) /\ blk'.until = now + blk'.dur /\ nf' = nf + 1)
\* unblock() keeps the last duration, only the deadline is reset
UnblockResets == (blk.until # None /\ blk'.until = None) => (nf' = 0 /\ blk'.dur = blk.dur)
StepSafety == AfterUnblockMin /\ BlockedUnchanged /\ ExpiredDoubles /\ UnblockResets

----------------------------------------------------------------------------
(* negative controls: each MUST be reported violated (IndInit satisfiable, actions enabled, *)
(* a too weak invariant is rejected)                                                        *)
CtlTick == ~(now' = now + 1)
CtlBlockFresh == ~(blk.until = None /\ blk'.until # None)
CtlBlockExpired == ~(blk.until # None /\ blk.until <= now /\ blk' # blk /\ blk'.until # None /\ nf > 1000)
CtlUnblock == ~(blk.until # None /\ blk'.until = None)
CtlCapped == ~(blk.until # None /\ blk.dur = MaxBlock /\ MaxBlock = 37 /\ MinBlock = 3 /\ nf = 5 /\ now > 100000)
\* B5 alone (without B2: nf >= 1 while blocked) is not inductive
WeakInv == 1 <= MinBlock /\ MinBlock <= MaxBlock /\ MaxBlock <= 64 * MinBlock /\ (blk.until # None => blk.dur = BackoffDur(nf))
WeakInit == now = Gen(1) /\ blk = Gen(1) /\ nf = Gen(1) /\ WeakInv

----------------------------------------------------------------------------
(* TLC cross-check (MC_BlockingInd_TLC.cfg, concrete MinBlock/MaxBlock, bounded horizon) *)
Spec == Init /\ [][Next]_vars
StepSafetyProp == [][StepSafety]_vars
TLCConstraint == now <= 300 /\ nf <= 14
\* the table agrees with the built-in exponentiation wherever 32-bit integers allow, for ALL
\* 1 <= min <= 64, min <= max <= 64 * min (a constant-level formula; TLC evaluates it as an invariant)
PowTableOK ==
    \A mn \in 1..64 : \A mx \in mn..(64 * mn) : \A n \in 1..24 :
        Min2(Pow2(Min2(n - 1, 7)) * mn, mx) = Min2((2 ^ (n - 1)) * mn, mx)
=============================================================================
