\* TLC cross-check of MC_BlockingInd.tla on concrete constants (run by tools/run_apalache.sh,
\* which repeats it for further MinBlock/MaxBlock pairs)
CONSTANTS
  MinBlock = 3
  MaxBlock = 37
INIT Init
NEXT Next
CONSTRAINT TLCConstraint
INVARIANT LinInv
INVARIANT IndInv
INVARIANT Safety
INVARIANT PowTableOK
PROPERTY StepSafetyProp
CHECK_DEADLOCK FALSE
