\* TLC cross-check of MC_PowerDistributorInd.tla on small constants (run by tools/run_apalache.sh)
CONSTANTS
  Groups = {1, 2, 3}
  MaxReq = 5
INIT Init
NEXT Next
INVARIANT TypeOK
INVARIANT IndInv
INVARIANT Safety
PROPERTY StepSafetyProp
CHECK_DEADLOCK FALSE
