--------------------------- MODULE Apalache -----------------------------------
(*
 * This is a standard module for use with the Apalache model checker.
 * The meaning of the operators is explained in the comments.
 * Many of the operators serve as additional annotations of their arguments.
 * As we like to preserve compatibility with TLC and TLAPS, we define the
 * operator bodies by erasure. The actual interpretation of the operators is
 * encoded inside Apalache. For the moment, these operators are mirrored in
 * the class at.forsyte.apalache.tla.lir.oper.ApalacheOper.
 *                                                                          
 * Igor Konnov, Jure Kukovec, Informal Systems 2020-2022
 * Igor Konnov, konnov.phd, 2026
 *)

(**
 * An assignment of an expression e to a state variable x. Typically, one
 * uses the non-primed version of x in the initializing predicate Init and
 * the primed version of x (that is, x') in the transition predicate Next.
 * Although TLA+ does not have a concept of a variable assignment, we find
 * this concept extremely useful for symbolic model checking. In pure TLA+,
 * one would simply write x = e, or x \in {e}.
 *
 * Apalache automatically converts some expressions of the form
 * x = e or x \in {e} into assignments. However, if you like to annotate
 * assignments by hand, you can use this operator.
 *
 * For a further discussion on that matter, see:
 * https://github.com/apalache-mc/apalache/blob/main/docs/src/idiomatic/001assignments.md
 *)
__x := __e == __x = __e

(**
 * A generator of a data structure. Given a positive integer `bound`, and
 * assuming that the type of the operator application is known, we
 * recursively generate a TLA+ data structure as a tree, whose width is
 * bound by the number `bound`.
 *
 * The body of this operator is redefined by Apalache.
 *)
Gen(__size) == {}

(**
 * Non-deterministically pick a value out of the set `S`, if `S` is non-empty.
 * If `S` is empty, return some value of the proper type.  This can be
 * understood as a non-deterministic version of CHOOSE x \in S: TRUE.
 *
 * @type: Set(a) => a;
 *)
Guess(__S) ==
    \* Since this is not supported by TLC,
    \* we fall back to the deterministic version for TLC.
    \* Apalache redefines the operator `Guess` as explained above.
    CHOOSE __x \in __S: TRUE

(**
 * Convert a set of pairs S to a function F. Note that if S contains at least
 * two pairs <<x, y>> and <<u, v>> such that x = u and y /= v,
 * then F is not uniquely defined. We use CHOOSE to resolve this ambiguity.
 * Apalache implements a more efficient encoding of this operator
 * than the default one.
 *
 * @type: Set(<<a, b>>) => (a -> b);
 *)
SetAsFun(__S) ==
    LET __Dom == { __x: <<__x, __y>> \in __S }
        __Rng == { __y: <<__x, __y>> \in __S }
    IN
    [ __x \in __Dom |-> CHOOSE __y \in __Rng: <<__x, __y>> \in __S ]

(**
 * A sequence constructor that avoids using a function constructor.
 * Since Apalache is typed, this operator is more efficient than
 * FunAsSeq([ i \in 1..N |-> F(i) ]). Apalache requires N to be
 * a constant expression.
 *
 * @type: (Int, (Int -> a)) => Seq(a);
 *)
LOCAL INSTANCE Integers
MkSeq(__N, __F(_)) ==
    \* This is the TLC implementation. Apalache does it differently.
    \* If __F is not defined on i \in 1..__N, TLC fails.
    \* Apalache evaluates symbolically. This is why definitions
    \* like `FunAsSeq` work.
    [ __i \in (1..__N) |-> __F(__i) ]

\* required by our default definition of FoldSeq and FunAsSeq
LOCAL INSTANCE Sequences

(**
 * As TLA+ is untyped, one can use function- and sequence-specific operators
 * interchangeably. However, to maintain correctness w.r.t. our type-system,
 * an explicit cast is needed when using functions as sequences.
 * FunAsSeq reinterprets a function over integers as a sequence.
 *
 * The parameters have the following meaning:
 *
 *  - fn is the function from 1..len that should be interpreted as a sequence.
 *  - len is the length of the sequence, len = Cardinality(DOMAIN fn),
 *    len may be a variable, a computable expression, etc.
 *  - capacity is a static upper bound on the length, that is, len <= capacity.
 *
 * @type: ((Int -> a), Int, Int) => Seq(a);
 *)
FunAsSeq(__fn, __len, __capacity) ==
    LET __FunAsSeq_elem_ctor(__i) == __fn[__i] IN
    SubSeq(MkSeq(__capacity, __FunAsSeq_elem_ctor), 1, __len)

(**
 * Annotating an expression \E x \in S: P as Skolemizable. That is, it can
 * be replaced with an expression c \in S /\ P(c) for a fresh constant c.
 * Not every exisential can be replaced with a constant, this should be done
 * with care. Apalache detects Skolemizable expressions by static analysis.
 *)
Skolem(__e) == __e

(**
 * A hint to the model checker to expand a set S, instead of dealing
 * with it symbolically. Apalache finds out which sets have to be expanded
 * by static analysis.
 *)
Expand(__S) == __S

(**
 * A hint to the model checker to replace its argument Cardinality(S) >= k
 * with a series of existential quantifiers for a constant k.
 * Similar to Skolem, this has to be done carefully. Apalache automatically
 * places this hint by static analysis.
 *)
ConstCardinality(__cardExpr) == __cardExpr

(**
 * The folding operator, used to implement computation over a set.
 * Apalache implements a more efficient encoding than the one below.
 * (from the community modules).
 *
 * @type: ((a, b) => a, a, Set(b)) => a;
 *)
RECURSIVE ApaFoldSet(_, _, _)
ApaFoldSet(__Op(_,_), __v, __S) ==
    IF __S = {}
    THEN __v
    ELSE LET __w == CHOOSE __x \in __S: TRUE IN
         LET __T == __S \ {__w} IN
         ApaFoldSet(__Op, __Op(__v,__w), __T)

(**
 * The folding operator, used to implement computation over a sequence.
 * Apalache implements a more efficient encoding than the one below.
 * (from the community modules).
 *
 * @type: ((a, b) => a, a, Seq(b)) => a;
 *)
RECURSIVE ApaFoldSeqLeft(_, _, _)
ApaFoldSeqLeft(__Op(_,_), __v, __seq) ==
    IF __seq = <<>>
    THEN __v
    ELSE ApaFoldSeqLeft(__Op, __Op(__v, Head(__seq)), Tail(__seq))

(**
 * The repetition operator, used to consecutively apply an operator, starting from
 * an initial value.
 *
 * @type: ((a, Int) => a, Int, a) => a;
 *)
RECURSIVE Repeat(_,_,_)
Repeat(__F(_,_), __N, __x) ==
        \* This is the TLC implementation. Apalache does it differently.
        IF __N <= 0
        THEN __x
        ELSE __F(Repeat(__F, __N - 1, __x), __N)

===============================================================================
