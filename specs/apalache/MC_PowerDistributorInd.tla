---------------------- MODULE MC_PowerDistributorInd ----------------------
(* X05 (1): UNBOUNDED safety of the PowerDistributingActor request slots (C14) by an       *)
(* inductive invariant discharged with Apalache.                                           *)
(*                                                                                         *)
(* Self-contained typed RE-STATEMENT of specs/PowerDistributor.tla: the variables and the  *)
(* actions Send / ActorRecv / Enter / Resolve / Exit / Callback are copied verbatim; what  *)
(* is left out is the history variable h (generation only, hidden by VIEW there), the      *)
(* IO operators (Emit, SimEmit), Mode/MaxDepth and the *Step wrappers that only log into h *)
(* (in Mode = "mc" they are exactly `\E g : Action(g)`).  MC_PowerDistributorEquiv.tla     *)
(* lets TLC check that the two modules have the same transitions on small constants.       *)
(*                                                                                         *)
(* Obligations (tools/run_apalache.sh):                                                    *)
(*   Initiation   Init => IndInv                    --init=Init    --inv=IndInv   length 0 *)
(*   Consecution  IndInv /\ Next => IndInv'         --init=IndInit --inv=IndInv   length 1 *)
(*   Safety       IndInv => Safety                  --init=IndInit --inv=Safety   length 0 *)
(*   StepSafety   IndInv /\ Next => StepSafety      --init=IndInit --inv=StepSafety length 1*)
(* with CInit: MaxReq \in Nat (UNCONSTRAINED number of requests, so request ids, nsent and *)
(* the length of a behaviour are unbounded) and Groups \in {1..2, 1..3}.                   *)
(*                                                                                         *)
(* WHAT IS BOUNDED: Apalache has no unbounded sequences; IndInit draws chan from Gen(K),   *)
(* so Consecution is proved for every pre-state with Len(chan) <= K (K = 16 here and in    *)
(* the quick tier; run_apalache.sh thorough checks a copy with K = 50, the default buffer  *)
(* size of a frequenz.channels receiver) -- Send is NOT guarded, the post-state may hold   *)
(* K + 1 entries.  What follows by induction: IndInv                                       *)
(* holds in every reachable state of every behaviour along which the requests channel      *)
(* never held more than K unreceived requests before that state.  The channel clauses of   *)
(* IndInv are universally quantified over positions and independent of K.                  *)
EXTENDS Integers, Sequences, Apalache

CONSTANTS
    \* set of component groups (1..NG)
    \* @type: Set(Int);
    Groups,
    \* number of requests the clients send (ids 1..MaxReq in send order); symbolic
    \* @type: Int;
    MaxReq

VARIABLES
    \* requests channel: sequence of [g, p]
    \* @type: Seq({g: Int, p: Int});
    chan,
    \* g -> [p, st, o]: in-flight request id, task state, outcome
    \* @type: Int -> {p: Int, st: Str, o: Str};
    infl,
    \* g -> pending request id or 0
    \* @type: Int -> Int;
    pend,
    \* @type: Int;
    nsent,
    \* @type: Int -> Int;
    lastSent,
    \* @type: Int -> Int;
    lastRecv,
    \* @type: Int -> Int;
    lastEntered,
    \* g -> number of distribute_power calls currently executing
    \* @type: Int -> Int;
    nrun

vars == <<chan, infl, pend, nsent, lastSent, lastRecv, lastEntered, nrun>>

NoTask == [p |-> 0, st |-> "none", o |-> "none"]
Outcomes == {"ok", "exc"}

\* any number of requests; two or three groups
CInit == MaxReq \in Nat /\ Groups \in {1..2, 1..3}

----------------------------------------------------------------------------
(* verbatim from PowerDistributor.tla (h, Log, Emit removed) *)
Init ==
    /\ chan = <<>>
    /\ infl = [g \in Groups |-> NoTask]
    /\ pend = [g \in Groups |-> 0]
    /\ nsent = 0
    /\ lastSent = [g \in Groups |-> 0]
    /\ lastRecv = [g \in Groups |-> 0]
    /\ lastEntered = [g \in Groups |-> 0]
    /\ nrun = [g \in Groups |-> 0]

Send(g) ==
    /\ nsent < MaxReq
    /\ nsent' = nsent + 1
    /\ chan' = Append(chan, [g |-> g, p |-> nsent + 1])
    /\ lastSent' = [lastSent EXCEPT ![g] = nsent + 1]
    /\ UNCHANGED <<infl, pend, lastRecv, lastEntered, nrun>>

ActorRecv ==
    /\ chan # <<>>
    /\ LET r == Head(chan) IN
         /\ IF infl[r.g].st # "none"
            THEN pend' = [pend EXCEPT ![r.g] = r.p] /\ UNCHANGED infl
            ELSE infl' = [infl EXCEPT ![r.g] = [p |-> r.p, st |-> "created", o |-> "none"]] /\ UNCHANGED pend
         /\ lastRecv' = [lastRecv EXCEPT ![r.g] = r.p]
    /\ chan' = Tail(chan)
    /\ UNCHANGED <<nsent, lastSent, lastEntered, nrun>>

Enter(g) ==
    /\ infl[g].st = "created"
    /\ infl' = [infl EXCEPT ![g].st = "running"]
    /\ lastEntered' = [lastEntered EXCEPT ![g] = infl[g].p]
    /\ nrun' = [nrun EXCEPT ![g] = @ + 1]
    /\ UNCHANGED <<chan, pend, nsent, lastSent, lastRecv>>

Resolve(g, o) ==
    /\ infl[g].st = "running" /\ infl[g].o = "none"
    /\ infl' = [infl EXCEPT ![g].o = o]
    /\ UNCHANGED <<chan, pend, nsent, lastSent, lastRecv, lastEntered, nrun>>

Exit(g) ==
    /\ infl[g].st = "running" /\ infl[g].o # "none"
    /\ infl' = [infl EXCEPT ![g].st = "finished"]
    /\ nrun' = [nrun EXCEPT ![g] = @ - 1]
    /\ UNCHANGED <<chan, pend, nsent, lastSent, lastRecv, lastEntered>>

Callback(g) ==
    /\ infl[g].st = "finished"
    /\ IF pend[g] # 0
       THEN /\ infl' = [infl EXCEPT ![g] = [p |-> pend[g], st |-> "created", o |-> "none"]]
            /\ pend' = [pend EXCEPT ![g] = 0]
       ELSE /\ infl' = [infl EXCEPT ![g] = NoTask]
            /\ UNCHANGED pend
    /\ UNCHANGED <<chan, nsent, lastSent, lastRecv, lastEntered, nrun>>

\* the *Step operators of PowerDistributor.tla in Mode = "mc" (Gen == TRUE, Log keeps h, no Emit)
SendStep == \E g \in Groups : Send(g)
RecvStep == ActorRecv
EnterStep == \E g \in Groups : Enter(g)
ResolveStep == \E g \in Groups, o \in Outcomes : Resolve(g, o)
ExitStep == \E g \in Groups : Exit(g)
CallbackStep == \E g \in Groups : Callback(g)

Next == SendStep \/ RecvStep \/ EnterStep \/ ResolveStep \/ ExitStep \/ CallbackStep

----------------------------------------------------------------------------
(* C14 clauses, verbatim (state clauses) / one-step form (action clauses) *)
NoOverlap == \A g \in Groups : nrun[g] <= 1
PendingIsLatest == \A g \in Groups : pend[g] # 0 => (pend[g] = lastRecv[g] /\ pend[g] > infl[g].p /\ infl[g].st # "none")
Quiescent == chan = <<>> /\ \A g \in Groups : infl[g].st = "none" \/ (infl[g].st = "running" /\ infl[g].o = "none")
QuiescentLatestApplied ==
    Quiescent => \A g \in Groups :
        lastSent[g] # 0 =>
            \/ lastEntered[g] = lastSent[g]
            \/ (infl[g].st = "running" /\ pend[g] = lastSent[g])
\* the bodies of [][...]_vars of EnteredIncreasing and DisjointIndependent
EnteredIncreasingStep == \A g \in Groups : lastEntered'[g] >= lastEntered[g]
DisjointIndependentStep ==
    \A g \in Groups : (\E x \in Groups \ {g} : Enter(x) \/ Exit(x) \/ Callback(x) \/ (\E o \in Outcomes : Resolve(x, o)))
                            => (infl'[g] = infl[g] /\ pend'[g] = pend[g])

Safety == NoOverlap /\ PendingIsLatest /\ QuiescentLatestApplied
StepSafety == EnteredIncreasingStep /\ DisjointIndependentStep

----------------------------------------------------------------------------
(* the inductive invariant *)
States == {"none", "created", "running", "finished"}

TypeOK ==
    /\ DOMAIN infl = Groups /\ DOMAIN pend = Groups /\ DOMAIN lastSent = Groups
    /\ DOMAIN lastRecv = Groups /\ DOMAIN lastEntered = Groups /\ DOMAIN nrun = Groups
    /\ nsent >= 0 /\ nsent <= MaxReq
    /\ \A g \in Groups :
         /\ infl[g].st \in States
         /\ infl[g].o \in Outcomes \union {"none"}
         /\ pend[g] >= 0
    /\ \A i \in DOMAIN chan : chan[i].g \in Groups

\* the slot of one group
SlotInv(g) ==
    \* I1 the counter of executing distribute_power calls is 1 exactly while the task runs
    /\ nrun[g] = (IF infl[g].st = "running" THEN 1 ELSE 0)
    \* I2 no task <=> the NoTask record; a task carries a real request id
    /\ (infl[g].st = "none") => infl[g] = NoTask
    /\ (infl[g].st # "none") => infl[g].p >= 1
    \* I3 an outcome exists only from Resolve on; a finished task has one
    /\ (infl[g].st = "created") => infl[g].o = "none"
    /\ (infl[g].st = "finished") => infl[g].o # "none"
    \* I4 the pending slot (PendingIsLatest)
    /\ pend[g] # 0 => (infl[g].st # "none" /\ pend[g] = lastRecv[g] /\ pend[g] > infl[g].p)
    \* I5 without a pending request the in-flight one IS the last received one
    /\ (pend[g] = 0 /\ infl[g].st # "none") => infl[g].p = lastRecv[g]
    \* I6 lastEntered against the slot: equal once entered, strictly behind a created task,
    \*    and with an empty slot everything received has been entered
    /\ (infl[g].st \in {"running", "finished"}) => lastEntered[g] = infl[g].p
    /\ (infl[g].st = "created") => lastEntered[g] < infl[g].p
    /\ (infl[g].st = "none") => lastEntered[g] = lastRecv[g]
    \* I7 counters
    /\ 0 <= lastEntered[g] /\ lastEntered[g] <= lastRecv[g]
    /\ lastRecv[g] <= lastSent[g] /\ lastSent[g] <= nsent

\* the requests channel
ChanInv ==
    \* I8 ids in the channel are strictly increasing (send order, globally unique)
    /\ \A i, j \in DOMAIN chan : i < j => chan[i].p < chan[j].p
    \* I9 every queued id is newer than everything its group received and not newer than its last sent
    /\ \A i \in DOMAIN chan :
         /\ chan[i].p > lastRecv[chan[i].g]
         /\ chan[i].p <= lastSent[chan[i].g]
    \* I10 the last request sent to a group is either received or still queued
    /\ \A g \in Groups :
         lastSent[g] # lastRecv[g] => \E i \in DOMAIN chan : chan[i].g = g /\ chan[i].p = lastSent[g]

IndInv == TypeOK /\ ChanInv /\ \A g \in Groups : SlotInv(g)

\* channel occupancy bound of the pre-state in the Consecution obligation (see header)
K == 16

\* arbitrary state of the right type satisfying IndInv (Gen only here)
IndInit ==
    /\ chan = Gen(K)
    /\ infl = Gen(3)
    /\ pend = Gen(3)
    /\ nsent = Gen(1)
    /\ lastSent = Gen(3)
    /\ lastRecv = Gen(3)
    /\ lastEntered = Gen(3)
    /\ nrun = Gen(3)
    /\ Len(chan) <= K
    /\ IndInv

----------------------------------------------------------------------------
(* negative controls: each MUST be reported violated from IndInit within one step; they show *)
(* that IndInit is satisfiable and that every action is enabled in some IndInv state         *)
CtlSend == ~(nsent' = nsent + 1)
CtlRecv == ~(Len(chan') < Len(chan))
CtlEnter == ~(\E g \in Groups : nrun'[g] > nrun[g])
CtlResolve == ~(\E g \in Groups : infl'[g].o # infl[g].o /\ infl[g].st = "running" /\ infl'[g].st = "running")
CtlExit == ~(\E g \in Groups : nrun'[g] < nrun[g])
CtlCallback == ~(\E g \in Groups : infl[g].st = "finished" /\ infl'[g].st # "finished")
\* a full channel, a pending request and three groups at once
CtlRich == ~(Len(chan) = K /\ (\E g \in Groups : pend[g] # 0 /\ infl[g].st = "running") /\ 3 \in Groups /\ nsent > 1000)
\* weakened invariant must NOT be inductive (drops I5): shows the check can fail
WeakSlot(g) ==
    /\ nrun[g] = (IF infl[g].st = "running" THEN 1 ELSE 0)
    /\ pend[g] # 0 => (infl[g].st # "none" /\ pend[g] = lastRecv[g] /\ pend[g] > infl[g].p)
WeakInv == TypeOK /\ \A g \in Groups : WeakSlot(g)
WeakInit ==
    /\ chan = Gen(K) /\ infl = Gen(3) /\ pend = Gen(3) /\ nsent = Gen(1)
    /\ lastSent = Gen(3) /\ lastRecv = Gen(3) /\ lastEntered = Gen(3) /\ nrun = Gen(3)
    /\ WeakInv

----------------------------------------------------------------------------
(* TLC cross-check (MC_PowerDistributorInd_TLC.cfg, small constants): the same IndInv, Safety *)
(* and the step clauses hold in all reachable states / on all reachable transitions           *)
Spec == Init /\ [][Next]_vars
StepSafetyProp == [][StepSafety]_vars
=============================================================================
