\* original PowerDistributor.tla against the typed re-statement (run by tools/run_apalache.sh)
CONSTANTS
  Groups = {1, 2, 3}
  MaxReq = 5
  MaxDepth = 0
  MaxRestart = 0
  Mode = "mc"
INIT Init
NEXT Next
VIEW View
INVARIANT TypedIndInv
INVARIANT TypedSafety
INVARIANT SameClauses
INVARIANT NoOverlap
INVARIANT PendingIsLatest
INVARIANT QuiescentLatestApplied
PROPERTY RefinesTyped
PROPERTY ActEquiv
PROPERTY EnteredIncreasing
PROPERTY DisjointIndependent
CHECK_DEADLOCK FALSE
