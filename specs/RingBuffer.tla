----------------------------- MODULE RingBuffer -----------------------------
(* C09  OrderedRingBuffer / MovingWindow as a sliding time-indexed map.       *)
(*                                                                            *)
(* One module, two layers that are stepped together by the same action:       *)
(*   abstract  aNewest, win      the map  slot -> last value written, for the *)
(*                               Cap slots ending at the newest slot written  *)
(*   concrete  data, gaps,       transcription of buffer.py: update(),        *)
(*             tsNewest,tsOldest _update_gaps, _cleanup_gaps, _remove_gap,    *)
(*                               count_valid, oldest/newest_timestamp,        *)
(*                               count_covered, window(), _fill_gaps,         *)
(*                               _wrapped_buffer_window, MovingWindow.at      *)
(* Time is counted in ticks; one slot (sampling period) is R ticks, so that   *)
(* instants off the slot grid and exact half-slot ties exist.  Slot k is the  *)
(* instant Align + k*R; an arbitrary instant denotes its nearest slot, a tie  *)
(* goes to the even slot (normalize_timestamp).                               *)
(*                                                                            *)
(* Values: 1, 2 valid; 0 = missing (None / NaN written, NaN read);            *)
(* -1 = never written (abstract layer only); 5 = initial content of the       *)
(* container; -7 = the custom fill value used by the query battery.           *)
(*                                                                            *)
(* Design-level invariants (checked by TLC in every reachable state):         *)
(*   Refinement, GapsSortedDisjoint, GapsExact, CountValid, CountCovered,     *)
(*   OldestNewest, RejectsOld, WindowIndexOK, WindowDatetimeOK, SpanOK,       *)
(*   PointOK  -- all hard: no deviation is tolerated.                         *)
(* The transcription is the repaired design (repo commits 4b946d2: window()   *)
(* normalises the clamped datetime bounds; 67229ac: at() reads NaN for a slot *)
(* in a gap and rejects the index one past the newest).  The design before    *)
(* those commits is kept as WinDTOld / PointIntOld / PointDTOld together with *)
(* the cause predicates of its four defects,                                  *)
(*   Dev_SameSlotFullBuffer, Dev_FillFromRawStart      (window, datetimes)    *)
(*   Dev_PointIgnoresGaps, Dev_PointOnePastNewest      (MovingWindow.at)      *)
(* so that a wrong answer that is exactly the old design's answer is reported *)
(* with the name of its cause (OldWindowExplained / OldPointExplained check   *)
(* that these causes are exact: the old design is wrong only where one fires).*)
(*                                                                            *)
(* Readings fixed here: a write of None/NaN is a write (it supersedes an      *)
(* earlier valid value of that slot; tests/.../test_ringbuffer.py::test_gaps  *)
(* asserts it); the window ends at the newest slot written, valid or not; a   *)
(* datetime query [s, e) spans the slots NSlot(s) <= k < NSlot(e).            *)
EXTENDS Integers, Sequences, FiniteSets, TLC, Json, CSV, IOUtils

CONSTANTS Cap,       \* capacity in slots (>= 1)
          R,         \* ticks per slot
          Align,     \* align_to, in ticks
          Start,     \* first update lies in Start .. Start+Span-1
          Span,
          Jump,      \* later updates lie within +-Jump ticks of the newest slot
          MaxDepth,  \* bound on the history length
          Mode       \* "history": exhaustive, one emitted history per transition
                     \* "sim": tlc -simulate, emit finished histories (SimEmit)
                     \* "trace": driven by RingBufferTrace

NONE   == -99        \* no value / None
ERR    == -98        \* IndexError
NOFILL == -97        \* fill_value=None
UNW    == -1
MISS   == 0
INIT   == 5
FILLV  == -7
Vals   == {1, 2}
TMIN   == -100000    \* datetime.min
TMAX   == 100000     \* datetime.max
Full   == Cap * R    \* _full_time_range

VARIABLES aNewest,   \* newest slot ever written (NONE before the first update)
          win,       \* win[i], i in 1..Cap: content of slot aNewest-Cap+i
          data,      \* data[p+1]: container position p, with stale contents
          gaps,      \* sequence of <<start, end>> in ticks, end exclusive
          tsNewest, tsOldest,
          rej,       \* <<abstract layer rejected, concrete layer rejected>> in the last step
          h          \* history (hidden by VIEW)

avars == <<aNewest, win>>
cvars == <<data, gaps, tsNewest, tsOldest>>
vars  == <<aNewest, win, data, gaps, tsNewest, tsOldest, rej, h>>
View  == <<aNewest, win, data, gaps, tsNewest, tsOldest, rej, Len(h)>>   \* Len(h): the depth bound is part of the state

Max(a, b) == IF a >= b THEN a ELSE b
Min(a, b) == IF a <= b THEN a ELSE b
Drop(s, i) == SubSeq(s, 1, i - 1) \o SubSeq(s, i + 1, Len(s))

----------------------------------------------------------------------------
(* the slot grid *)
\* normalize_timestamp: divmod, round to the closer slot, ties to the even one
NSlot(t) == LET d == t - Align
                q == d \div R
                r == d % R
            IN IF r # 0 /\ ((2 * r = R /\ q % 2 # 0) \/ 2 * r > R) THEN q + 1 ELSE q
Tick(s)  == Align + s * R
NTick(t) == Tick(NSlot(t))
OnGrid(t) == (t - Align) % R = 0

----------------------------------------------------------------------------
(* abstract layer *)
WinLo(n) == n - Cap + 1
CellAt(s) == IF aNewest = NONE \/ s < WinLo(aNewest) \/ s > aNewest THEN UNW ELSE win[s - aNewest + Cap]
ARejects(t) == aNewest # NONE /\ NSlot(t) < WinLo(aNewest)
AApply(t, v) ==
    LET n  == NSlot(t)
        nn == IF aNewest = NONE THEN n ELSE Max(aNewest, n)
    IN /\ aNewest' = nn
       /\ win' = [i \in 1..Cap |-> LET s == nn - Cap + i IN IF s = n THEN v ELSE CellAt(s)]

AWindowSlots == IF aNewest = NONE THEN {} ELSE WinLo(aNewest)..aNewest
AValidSlots  == {s \in AWindowSlots : CellAt(s) \in Vals}
AValid   == Cardinality(AValidSlots)
AOldest  == IF AValidSlots = {} THEN NONE ELSE CHOOSE s \in AValidSlots : \A u \in AValidSlots : s <= u
ACovered == IF AValidSlots = {} THEN 0 ELSE aNewest - AOldest + 1
AOldestTick == IF AValidSlots = {} THEN NONE ELSE Tick(AOldest)
ANewestTick == IF AValidSlots = {} THEN NONE ELSE Tick(aNewest)
\* evaluated once per state and handed to the query operators (TLC does not cache definitions)
Abs == [valid |-> AValid, oldest |-> AOldest, covered |-> ACovered]

----------------------------------------------------------------------------
(* concrete layer: update() *)
Wrap(i) == i % Cap
Pos(ts) == Wrap(NSlot(ts))      \* to_internal_index without the range check
\* to_internal_index(): normalise, IndexError outside [oldest bound, newest bound + period]
PosChk(ts) == LET n == NTick(ts) IN IF tsNewest + R < n \/ n < tsOldest THEN ERR ELSE Pos(n)

InGap(g, ts)  == ts >= g[1] /\ ts < g[2]
InGaps(gs, ts) == \E i \in 1..Len(gs) : InGap(gs[i], ts)
IsMissing(ts) == InGaps(gaps, ts)

\* sorted(self._gaps, key=start), stable
RECURSIVE InsertSorted(_, _)
InsertSorted(s, g) == IF s = <<>> THEN <<g>>
                      ELSE IF g[1] < s[1][1] THEN <<g>> \o s
                      ELSE <<s[1]>> \o InsertSorted(Tail(s), g)
RECURSIVE SortGaps(_)
SortGaps(s) == IF s = <<>> THEN <<>> ELSE InsertSorted(SortGaps(SubSeq(s, 1, Len(s) - 1)), s[Len(s)])

\* _cleanup_gaps: the while loop, `to` is the new oldest bound
RECURSIVE Clean(_, _, _)
Clean(g, i, to) ==
    IF i > Len(g) THEN g
    ELSE LET w1 == g[i]
             has2 == i < Len(g)
             w2 == g[i + 1]
         IN IF w1[2] <= to THEN Clean(Drop(g, i), i, to)
            ELSE IF w1[1] < to THEN Clean([g EXCEPT ![i] = <<to, w1[2]>>], i, to)
            ELSE IF has2 /\ w1[1] <= w2[1] /\ w1[2] >= w2[2] THEN Clean(Drop(g, i + 1), i, to)
            ELSE IF has2 /\ w1[2] >= w2[1] THEN Clean(Drop([g EXCEPT ![i] = <<w1[1], w2[2]>>], i + 1), i, to)
            ELSE Clean(g, i + 1, to)

\* _remove_gap
RemoveGap(g, ts) ==
    IF ~InGaps(g, ts) THEN g
    ELSE LET i == CHOOSE k \in 1..Len(g) : InGap(g[k], ts) /\ \A m \in 1..(k - 1) : ~InGap(g[m], ts)
             gs == g[i][1]
             ge == g[i][2]
         IN IF gs = ts
            THEN IF ge = ts + R THEN Drop(g, i) ELSE [g EXCEPT ![i] = <<ts + R, ge>>]
            ELSE IF ge - R = ts THEN [g EXCEPT ![i] = <<gs, ts>>]
            ELSE Append([g EXCEPT ![i] = <<gs, ts>>], <<ts + R, ge>>)

\* _update_gaps(timestamp, newest (previous), record_as_missing) with the new bounds tn, to
UpdateGaps(g, ts, newest, missing, tn, to) ==
    LET found == InGaps(g, ts) IN
    IF ~missing /\ tn - newest >= Full
    THEN << <<to, tn>> >>                                   \* far jump: returns without cleanup
    ELSE LET g1 == IF ~missing /\ ~found /\ ts > newest + R THEN Append(g, <<newest + R, ts>>) ELSE g
             g2 == IF missing
                   THEN (IF ~found THEN Append(g1, <<Min(newest + R, ts), ts + R>>) ELSE g1)
                   ELSE (IF Len(g1) > 0 /\ found THEN RemoveGap(g1, ts) ELSE g1)
         IN Clean(SortGaps(g2), 1, to)

CRejects(t) == NTick(t) < tsOldest /\ tsOldest # TMAX
CApply(t, v) ==
    LET ts == NTick(t)
        tn == Max(tsNewest, ts)
        to == tn - (Full - R)
    IN /\ tsNewest' = tn
       /\ tsOldest' = to
       /\ data' = [data EXCEPT ![Pos(ts) + 1] = v]
       /\ gaps' = UpdateGaps(gaps, ts, tsNewest, v = MISS, tn, to)

----------------------------------------------------------------------------
(* concrete layer: what the buffer reports *)
RECURSIVE SumMissing(_, _)
SumMissing(g, i) == IF i > Len(g) THEN 0 ELSE (g[i][2] - Max(g[i][1], tsOldest)) \div R + SumMissing(g, i + 1)

CountValidImpl ==
    IF tsNewest = TMIN THEN 0
    ELSE LET miss == Max(0, SumMissing(gaps, 1))
             sp == Pos(tsOldest)
             ep == Pos(tsNewest)
         IN IF ep < sp THEN Cap - sp + ep + 1 - miss ELSE ep + 1 - sp - miss
MinGapEnd == CHOOSE e \in {gaps[i][2] : i \in 1..Len(gaps)} : \A i \in 1..Len(gaps) : e <= gaps[i][2]
OldestImpl == IF CountValidImpl = 0 THEN NONE ELSE IF IsMissing(tsOldest) THEN MinGapEnd ELSE tsOldest
NewestImpl == IF CountValidImpl = 0 THEN NONE ELSE tsNewest
CoveredImpl == IF OldestImpl = NONE THEN 0 ELSE (NewestImpl - OldestImpl + R) \div R
\* what the buffer reports, evaluated once per state and handed to the query operators
Rep == LET cv == CountValidImpl
           old == IF cv = 0 THEN NONE ELSE IF IsMissing(tsOldest) THEN MinGapEnd ELSE tsOldest
           new == IF cv = 0 THEN NONE ELSE tsNewest
       IN [cv |-> cv, old |-> old, new |-> new, cov |-> IF old = NONE THEN 0 ELSE (new - old + R) \div R]

----------------------------------------------------------------------------
(* window()  -- rp is Rep (what the buffer reports), handed in so that it is evaluated once *)
\* Python slice(start, end).indices(n)[:2] for step 1
Adj(i, n, dflt) == IF i = NONE THEN dflt ELSE IF i < 0 THEN Max(i + n, 0) ELSE Min(i, n)
SliceLo(s, n) == Adj(s, n, 0)
SliceHi(e, n) == Adj(e, n, n)

\* _wrapped_buffer_window
Wrapped(sp, ep) == IF sp >= ep THEN SubSeq(data, sp + 1, Cap) \o SubSeq(data, 1, ep)
                   ELSE SubSeq(data, sp + 1, ep)
\* _fill_gaps(data, fill, oldest_timestamp = st, gaps): per gap the index range that gets the fill
FillLo(g, st) == Max((g[1] - st) \div R, 0)
FillHi(g, st, n) == Min((g[2] - st) \div R, n)
FillGaps(w, f, st) ==
    [p \in 1..Len(w) |-> IF \E i \in 1..Len(gaps) : FillLo(gaps[i], st) <= p - 1 /\ p - 1 < FillHi(gaps[i], st, Len(w))
                          THEN f ELSE w[p]]

ClampLo(rp, st0) == Max(st0, rp.old)
ClampHi(rp, en0) == Min(en0, rp.new + R)
\* the part of window() after both arguments are datetimes: clamp to the covered range,
\* normalise (4b946d2), compare, convert to positions, cut, fill
WinCore(rp, st0, en0, f) ==
    LET st == NTick(ClampLo(rp, st0))
        en == NTick(ClampHi(rp, en0))
    IN IF st >= en THEN <<>>
       ELSE LET sp == PosChk(st)
                ep == PosChk(en)
            IN IF sp = ERR \/ ep = ERR THEN <<ERR>>
               ELSE IF f = NOFILL THEN Wrapped(sp, ep) ELSE FillGaps(Wrapped(sp, ep), f, st)
WinDTImpl(rp, s, e, f) == IF rp.cov = 0 THEN <<>> ELSE WinCore(rp, s, e, f)
WinIdxImpl(rp, s, e, f) ==
    IF rp.cov = 0 THEN <<>>
    ELSE WinCore(rp, rp.old + SliceLo(s, rp.cov) * R, rp.old + SliceHi(e, rp.cov) * R, f)

\* the design before 4b946d2: the clamped bounds are compared, and the start handed to
\* _fill_gaps, without normalising them
WinCoreOld(rp, st0, en0, f) ==
    LET st == ClampLo(rp, st0)
        en == ClampHi(rp, en0)
    IN IF st >= en THEN <<>>
       ELSE LET sp == PosChk(st)
                ep == PosChk(en)
            IN IF sp = ERR \/ ep = ERR THEN <<ERR>>
               ELSE IF f = NOFILL THEN Wrapped(sp, ep) ELSE FillGaps(Wrapped(sp, ep), f, st)
WinDTOld(rp, s, e, f) == IF rp.cov = 0 THEN <<>> ELSE WinCoreOld(rp, s, e, f)

(* what a window query has to return (ab is Abs): the slots it covers ... *)
SlotsSeq(lo, hi) == [k \in 1..Max(hi - lo, 0) |-> lo + k - 1]
WinDTSlots(ab, s, e) == IF ab.valid = 0 THEN <<>> ELSE SlotsSeq(Max(NSlot(s), ab.oldest), Min(NSlot(e), aNewest + 1))
WinIdxSlots(ab, s, e) == IF ab.valid = 0 THEN <<>>
                         ELSE SlotsSeq(ab.oldest + SliceLo(s, ab.covered), ab.oldest + SliceHi(e, ab.covered))
SpanSlots(s, e) == Max(NSlot(e) - NSlot(s), 0)
(* ... and per slot the stored value, or the fill if the slot holds no valid value (with
   fill_value=None the caller asked for the raw content of such slots: unconstrained) *)
Matches(got, slots, f) ==
    /\ Len(got) = Len(slots)
    /\ \A k \in 1..Len(slots) :
         LET c == CellAt(slots[k]) IN IF c \in Vals THEN got[k] = c ELSE (f = NOFILL \/ got[k] = f)

(* causes of the wrong answers of the old design of window() (WinDTOld) *)
\* clamped start < end are converted to the same container position although they are not a
\* full capacity apart: _wrapped_buffer_window returns the whole container
Dev_SameSlotFullBuffer(rp, s, e) ==
    /\ rp.cov # 0
    /\ LET st == ClampLo(rp, s)
           en == ClampHi(rp, e)
       IN /\ st < en
          /\ PosChk(st) # ERR /\ PosChk(en) # ERR /\ PosChk(st) = PosChk(en)
          /\ NSlot(en) - NSlot(st) # Cap
\* _fill_gaps is given the clamped but un-normalised start: some gap is filled at other
\* positions than from the normalised start
Dev_FillFromRawStart(rp, s, e, f) ==
    /\ rp.cov # 0 /\ f # NOFILL
    /\ LET st == ClampLo(rp, s)
           en == ClampHi(rp, e)
       IN /\ st < en
          /\ PosChk(st) # ERR /\ PosChk(en) # ERR
          /\ LET n == Len(Wrapped(PosChk(st), PosChk(en))) IN
             \E i \in 1..Len(gaps) :
                <<FillLo(gaps[i], st), FillHi(gaps[i], st, n)>> # <<FillLo(gaps[i], NTick(st)), FillHi(gaps[i], NTick(st), n)>>

----------------------------------------------------------------------------
(* point access: MovingWindow.at(int) / at(datetime) / __getitem__ *)
\* get_timestamp(index)
GetTs(rp, k) == IF rp.old = NONE THEN NONE
                ELSE IF k >= 0 THEN rp.old + k * R ELSE rp.new + R + k * R
\* the common tail of at(): a slot inside a gap reads as NaN whatever the container holds;
\* to_internal_index raises outside [oldest bound, newest bound + period]
PointRead(ts) ==
    IF IsMissing(NTick(ts)) THEN MISS
    ELSE LET p == PosChk(ts) IN IF p = ERR THEN ERR ELSE data[p + 1]
PointIntImpl(rp, k) ==
    IF rp.cv = 0 THEN ERR
    ELSE IF GetTs(rp, k) > rp.new THEN ERR            \* 67229ac: one past the newest is out of range
    ELSE PointRead(GetTs(rp, k))
PointDTImpl(rp, t) ==
    IF rp.cv = 0 THEN ERR
    ELSE IF t < rp.old \/ t > rp.new THEN ERR
    ELSE PointRead(t)
\* the design before 67229ac: the container position is read directly
PointIntOld(rp, k) ==
    IF rp.cv = 0 THEN ERR
    ELSE LET p == PosChk(GetTs(rp, k)) IN IF p = ERR THEN ERR ELSE data[p + 1]
PointDTOld(rp, t) ==
    IF rp.cv = 0 THEN ERR
    ELSE IF t < rp.old \/ t > rp.new THEN ERR
    ELSE LET p == PosChk(t) IN IF p = ERR THEN ERR ELSE data[p + 1]

\* the slot an integer key addresses (index 0 = oldest valid slot, -1 = newest slot)
PointIntSlot(ab, k) == IF ab.valid = 0 THEN NONE ELSE IF k >= 0 THEN ab.oldest + k ELSE aNewest + 1 + k
InCovered(ab, s) == ab.valid # 0 /\ s # NONE /\ ab.oldest <= s /\ s <= aNewest
Out(c) == IF c \in Vals THEN c ELSE MISS
\* never stale: an addressed slot inside the covered range reads as its stored value (NaN
\* if it holds none); outside of it the query raises IndexError or, at most, reads NaN
PointIntClause(ab, got, k) ==
    IF InCovered(ab, PointIntSlot(ab, k)) THEN got = Out(CellAt(PointIntSlot(ab, k))) ELSE got \in {ERR, MISS}
\* a datetime key addresses its nearest slot; in the half slot outside the covered range that
\* still rounds into it, IndexError is accepted as well
PointDTClause(ab, got, t) ==
    IF ab.valid # 0 /\ Tick(ab.oldest) <= t /\ t <= Tick(aNewest) THEN got = Out(CellAt(NSlot(t)))
    ELSE IF InCovered(ab, NSlot(t)) THEN got \in {ERR, Out(CellAt(NSlot(t)))}
    ELSE got \in {ERR, MISS}
\* Strict reading of at()'s docstring: IndexError for every key outside the covered range.  The
\* property does not demand it (it speaks of the values queries return: stored value or "no valid
\* value", never evicted / unwritten data); a key that addresses a window slot before the oldest
\* valid one reads NaN, which is true of that slot.  Reported as a note, never as a failure.
PointIntRange(ab, got, k) == InCovered(ab, PointIntSlot(ab, k)) \/ got = ERR

(* causes of the wrong answers of the old design of at() (PointIntOld / PointDTOld), over the
   instant (tick) the key was converted to *)
\* at() indexes the container directly: a slot listed in gaps that was never written since
\* the window moved over it still holds the evicted (or initial) value
Dev_PointIgnoresGaps(rp, tick) ==
    /\ rp.cv # 0 /\ tick # NONE
    /\ PosChk(tick) # ERR /\ NTick(tick) <= tsNewest
    /\ IsMissing(NTick(tick)) /\ data[Pos(tick) + 1] # MISS
\* to_internal_index accepts newest + one period, which wraps onto the oldest position
Dev_PointOnePastNewest(rp, tick) ==
    /\ rp.cv # 0 /\ tick # NONE
    /\ NTick(tick) = tsNewest + R

----------------------------------------------------------------------------
(* the query battery (also used by the trace specification) *)
IdxArgs == <<NONE>> \o [i \in 1..(2 * Cap + 3) |-> i - Cap - 2]     \* None, -Cap-1 .. Cap+1
PKeys   == [i \in 1..(2 * Cap + 5) |-> i - Cap - 3]                  \* -Cap-2 .. Cap+2
QLo == Tick(WinLo(aNewest)) - R - 1
QHi == Tick(aNewest + 1) + R + 1
QTicks == IF aNewest = NONE THEN {} ELSE QLo..QHi
Fills == <<MISS, FILLV, NOFILL, NOFILL>>     \* variants: default, custom fill, fill None, fill None + view
MCFills == {MISS, NOFILL}

----------------------------------------------------------------------------
(* steps *)
Init ==
    /\ aNewest = NONE /\ win = [i \in 1..Cap |-> UNW]
    /\ data = [i \in 1..Cap |-> INIT] /\ gaps = <<>> /\ tsNewest = TMIN /\ tsOldest = TMAX
    /\ rej = <<FALSE, FALSE>> /\ h = <<>>

\* update(Sample(t, v)): both layers decide on their own whether it is rejected
Step(t, v) ==
    /\ rej' = <<ARejects(t), CRejects(t)>>
    /\ IF ARejects(t) THEN UNCHANGED avars ELSE AApply(t, v)
    /\ IF CRejects(t) THEN UNCHANGED cvars ELSE CApply(t, v)

Choices == IF tsNewest = TMIN THEN Start..(Start + Span - 1) ELSE (tsNewest - Jump)..(tsNewest + Jump)

EmitOn == "OUT_FILE" \in DOMAIN IOEnv
Emit(v) == IF EmitOn THEN CSVWrite("%1$s", <<ToJson(v)>>, IOEnv.OUT_FILE) ELSE TRUE
Guard == Mode \in {"history", "sim"} /\ Len(h) < MaxDepth
Hist(t, v) == h' = Append(h, <<t, v, QLo', QHi'>>)
EmitRule == Mode = "history" => Emit(h')

Update(t, v) == ~CRejects(t) /\ Step(t, v) /\ Hist(t, v)
Reject(t, v) == CRejects(t) /\ Step(t, v) /\ Hist(t, v)

UpdateStep == Mode = "history" /\ Guard /\ (\E t \in Choices, v \in 0..2 : Update(t, v)) /\ EmitRule
RejectStep == Mode = "history" /\ Guard /\ (\E t \in Choices, v \in 0..2 : Reject(t, v)) /\ EmitRule
\* tlc -simulate evaluates Next for every candidate successor and picks one at random: no emission
\* here, the finished history is written by the invariant SimEmit on the chosen states
SimStep == Mode = "sim" /\ Guard /\ \E t \in Choices, v \in 0..2 : Step(t, v) /\ Hist(t, v)
SimEmit == (Mode = "sim" /\ Len(h) = MaxDepth) => Emit(h)

Next == UpdateStep \/ RejectStep \/ SimStep
Spec == Init /\ [][Next]_vars

----------------------------------------------------------------------------
(* design-level invariants *)
\* the concrete layer represents the abstract map
Refinement ==
    /\ (aNewest = NONE) = (tsNewest = TMIN)
    /\ aNewest # NONE =>
         /\ tsNewest = Tick(aNewest) /\ tsOldest = Tick(WinLo(aNewest))
         /\ \A s \in AWindowSlots :
              /\ (CellAt(s) \in Vals) = ~IsMissing(Tick(s))
              /\ CellAt(s) \in Vals => data[Wrap(s) + 1] = CellAt(s)
              /\ CellAt(s) = MISS => data[Wrap(s) + 1] = MISS

GapsSortedDisjointOf(g, to, tn) ==
    /\ \A i \in 1..Len(g) : g[i][1] <= g[i][2] /\ to <= g[i][1] /\ g[i][2] <= tn + R
    /\ \A i \in 1..(Len(g) - 1) : g[i][2] <= g[i + 1][1]
GapsSortedDisjoint == aNewest # NONE => GapsSortedDisjointOf(gaps, tsOldest, tsNewest)
\* the gap list covers exactly the window slots without a valid value
GapsExactOf(g) == \A s \in AWindowSlots : InGaps(g, Tick(s)) = (CellAt(s) \notin Vals)
GapsExact == GapsExactOf(gaps)
\* stronger than the property (maximal runs, nothing empty): checked on the model only
GapsCanonical == \A i \in 1..Len(gaps) :
                    /\ gaps[i][1] < gaps[i][2] \/ Cap = 1
                    /\ i < Len(gaps) => gaps[i][2] < gaps[i + 1][1]

CountValid == CountValidImpl = AValid
CountCovered == CoveredImpl = ACovered
OldestNewest == OldestImpl = AOldestTick /\ NewestImpl = ANewestTick
RejectsOld == rej[1] = rej[2]

WindowIndexOK ==
    LET rp == Rep  ab == Abs IN
    \A i, j \in 1..Len(IdxArgs), f \in MCFills :
       Matches(WinIdxImpl(rp, IdxArgs[i], IdxArgs[j], f), WinIdxSlots(ab, IdxArgs[i], IdxArgs[j]), f)
WindowDatetimeOK ==
    LET rp == Rep  ab == Abs IN
    \A s, e \in QTicks, f \in MCFills : Matches(WinDTImpl(rp, s, e, f), WinDTSlots(ab, s, e), f)
SpanOK ==
    LET rp == Rep IN
    \A s, e \in QTicks : Len(WinDTImpl(rp, s, e, MISS)) <= SpanSlots(s, e)
PointOK ==
    LET rp == Rep  ab == Abs IN
    /\ \A i \in 1..Len(PKeys) : PointIntClause(ab, PointIntImpl(rp, PKeys[i]), PKeys[i])
    /\ \A t \in QTicks : PointDTClause(ab, PointDTImpl(rp, t), t)

\* the Dev_* predicates are exact causes: the old design is wrong only where one of them fires
OldWindowExplained ==
    LET rp == Rep  ab == Abs IN
    \A s, e \in QTicks, f \in MCFills :
       /\ \/ Matches(WinDTOld(rp, s, e, f), WinDTSlots(ab, s, e), f)
          \/ Dev_SameSlotFullBuffer(rp, s, e)
          \/ Dev_FillFromRawStart(rp, s, e, f)
       /\ \/ Len(WinDTOld(rp, s, e, f)) <= SpanSlots(s, e)
          \/ Dev_SameSlotFullBuffer(rp, s, e)
OldPointExplained ==
    LET rp == Rep  ab == Abs IN
    /\ \A i \in 1..Len(PKeys) :
         LET k == PKeys[i] IN
         \/ PointIntClause(ab, PointIntOld(rp, k), k)
         \/ Dev_PointIgnoresGaps(rp, GetTs(rp, k))
         \/ Dev_PointOnePastNewest(rp, GetTs(rp, k))
    /\ \A t \in QTicks :
         \/ PointDTClause(ab, PointDTOld(rp, t), t)
         \/ Dev_PointIgnoresGaps(rp, t)

=============================================================================
