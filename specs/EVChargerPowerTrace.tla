------------------------ MODULE EVChargerPowerTrace ------------------------
(* Conformance of the real EVChargerManager with EVChargerPower.tla and        *)
(* evaluation of every manager clause of X03 on what the real code did.        *)
(*                                                                             *)
(* Input (ndjson, IOEnv.TRACE_FILE): one object [id, lines] per execution;     *)
(* every line is one harness step (one select() result of the manager's loop,  *)
(* run to idle; when a set_power call gets no reply the clock is moved past    *)
(* the request timeout):                                                       *)
(*   ev     "tick" (30 s pass) | "data" (EVChargerData of charger c: kind, pw  *)
(*          = active power, ub = upper inclusion bound) | "req" (Request p)    *)
(*   o      scripted outcome of a set_power call per charger (ok|err|exc|to)   *)
(*   calls  the set_power calls that reached the fake API client, in order     *)
(*          [c, p] (W)                                                         *)
(*   hasres / res   the Result on the results channel [type, sp, fp, ex, succ, *)
(*          failed]                                                            *)
(*   alloc  projection: last_allocation per charger (-1 = not registered or    *)
(*          unavailable)                                                       *)
(* Every line re-executes the corresponding action of EVChargerPower (the      *)
(* transcription of the code as it is) on the recorded arguments.  Verdicts:   *)
(*   X03.*   property clauses, evaluated on the recorded calls / Results and   *)
(*           on ground truth `g` folded from the injected events and the       *)
(*           recorded calls only                                               *)
(*   EXT.*   observations where the statement of X03 and the documented        *)
(*           behaviour differ (never a violation)                              *)
(*   CONF.*  the code differs from the transcription (spec drift)              *)
(* A failing record carries a deviation name only when the cause predicate     *)
(* fires in the transcription AND the code did exactly what the transcription  *)
(* does, on this and all earlier steps of the execution.                       *)
EXTENDS EVChargerPower, TLCExt

VARIABLES tid, l, g, conf, cnt
tvars == <<vars, tid, l, g, conf, cnt>>

TraceLog == TLCEval(ndJsonDeserialize(IOEnv.TRACE_FILE))
Tr == TraceLog[tid]
NL == Len(Tr.lines)
X == Tr.lines[l]

Say(v) == CSVWrite("%1$s", <<ToJson(v)>>, IOEnv.VERDICT_FILE)
Check(ok, clause, devs, detail) ==
    IF ok THEN TRUE ELSE Say([tid |-> Tr.id, l |-> l, clause |-> clause, deviations |-> devs, detail |-> detail])
IfDev(c, name) == IF c THEN <<name>> ELSE <<>>
B2N(b) == IF b THEN 1 ELSE 0

G0 == [t |-> 0, target |-> 0,
       known |-> [c \in Evs |-> FALSE], conn |-> [c \in Evs |-> FALSE], wk |-> [c \in Evs |-> FALSE],
       ub |-> [c \in Evs |-> 0], alloc |-> [c \in Evs |-> 0], lra |-> [c \in Evs |-> 0]]
Cnt0 == [positive |-> 0, bounded |-> 0, zeroedOnDisconnect |-> 0, raisedWithRoom |-> 0, results |-> 0,
         partialFailures |-> 0, timeouts |-> 0, requests |-> 0, throttles |-> 0, deallocs |-> 0,
         devDisc |-> 0, devClamp |-> 0, devOver |-> 0, extNotWorking |-> 0, extNotConserved |-> 0]

\* the recorded set_power calls as a map charger -> last commanded power
CallSet(x) == {x.calls[i].c : i \in DOMAIN x.calls}
Rec(x) == [c \in CallSet(x) |->
             x.calls[CHOOSE i \in DOMAIN x.calls : x.calls[i].c = c /\ \A j \in DOMAIN x.calls : j > i => x.calls[j].c # c].p]
RecRes(x) == [type |-> x.res.type, sp |-> x.res.sp, fp |-> x.res.fp, ex |-> x.res.ex,
              succ |-> ToSet(x.res.succ), failed |-> ToSet(x.res.failed)]

SpecStep(x) ==
    CASE x.ev = "tick" -> Tick
      [] x.ev = "data" -> IF cs[x.c].known THEN Data(x.c, x.kind, x.pw, Fixes) ELSE FirstData(x.c, x.kind, x.ub)
      [] x.ev = "req" -> Request(x.p, Fixes)

Consume ==
    /\ l <= NL
    /\ SpecStep(X) /\ h' = h
    /\ LET x == X
           rec == Rec(x)
           t1 == g.t + B2N(x.ev = "tick")
           isData == x.ev = "data"
           known1 == [c \in Evs |-> g.known[c] \/ (isData /\ x.c = c)]
           conn1 == [c \in Evs |-> IF isData /\ x.c = c THEN Conn(x.kind) ELSE g.conn[c]]
           wk1 == [c \in Evs |-> IF isData /\ x.c = c THEN Wk(x.kind) ELSE g.wk[c]]
           ub1 == [c \in Evs |-> IF isData /\ x.c = c THEN x.ub ELSE g.ub[c]]
           target1 == IF x.ev = "req" THEN x.p ELSE g.target
           alloc1 == [c \in Evs |-> IF c \in Dom(rec) THEN rec[c] ELSE g.alloc[c]]
           lra1 == [c \in Evs |-> IF c \in Dom(rec) THEN t1 ELSE g.lra[c]]
           total0 == SumOver(LAMBDA c : g.alloc[c])
           total1 == SumOver(LAMBDA c : alloc1[c])
           follows == rec = cmd' /\ \A c \in Evs : x.alloc[c] # -1 => x.alloc[c] = cs'[c].alloc
           conf1 == conf /\ follows
           \* what the manager saw when the message of a registered charger arrived (ground truth)
           p0 == IF isData /\ g.known[x.c]
                 THEN [c |-> x.c, conn |-> Conn(x.kind), newly |-> Conn(x.kind) /\ ~g.conn[x.c],
                       elapsed |-> g.t - g.lra[x.c] >= Interval, alloc |-> g.alloc[x.c], avail |-> g.target - total0,
                       wasbad |-> FALSE]
                 ELSE NoPre
           F == {c \in Dom(rec) : x.o[c] # "ok"}
           dDisc == conf1 /\ D_Disc(cmd', cs', bad')
           dClamp == conf1 /\ D_Clamp(cmd', cs', why', pa')
           dOver == conf1 /\ over'
           dBad == conf /\ isData /\ x.c \in bad
           antZero == p0.c # 0 /\ ~p0.conn /\ p0.alloc > 0
           antMore == p0.c # 0 /\ p0.conn /\ (p0.newly \/ p0.elapsed) /\ Room(p0, ub1[x.c])
       IN
       /\ Check(Cardinality(CallSet(x)) = Len(x.calls), "CONF.OneCallPerCharger", <<>>, <<"calls", x.calls>>)
       /\ Check(C_CommandOnlyConnected(rec, conn1), "X03.CommandOnlyConnected", IfDev(dDisc, "Dev_DisconnectedTreatedAsNew"),
                <<"event", x.ev, x.c, x.kind, "calls", x.calls, "EV connected (latest message)", conn1, "t", t1>>)
       /\ Check(C_WithinChargerBounds(rec, ub1), "X03.WithinChargerBounds", IfDev(dClamp, "Dev_FixedLevelNotClamped"),
                <<"event", x.ev, x.c, x.kind, "calls", x.calls, "upper bounds", ub1, "t", t1>>)
       /\ Check(C_TotalWithinRequest(total1, target1), "X03.TotalWithinRequest",
                IfDev(dOver, "Dev_ThrottleIgnoresUnusedAllocations"),
                <<"event", x.ev, "set-points in force", alloc1, "sum", total1, "request", target1, "calls", x.calls, "t", t1>>)
       /\ Check(C_Redistributes(p0, rec, IF p0.c = 0 THEN 0 ELSE ub1[p0.c]), "X03.Redistributes",
                IfDev(dBad, "Dev_DisconnectedTreatedAsNew"),
                <<"message of charger", x.c, x.kind, "seen", p0, "upper bound", ub1, "calls", x.calls, "t", t1>>)
       /\ IF Dom(rec) # {}
          THEN /\ Check(x.hasres, "X03.ResultAccounts", <<>>, <<"set_power was called but no Result was sent", x.calls>>)
               /\ x.hasres =>
                    /\ Check(C_ResultAccounts(RecRes(x), rec, F, target1), "X03.ResultAccounts", <<>>,
                             <<"result", x.res, "calls", x.calls, "outcomes", x.o, "request", target1>>)
                    /\ Check(total1 + x.res.ex = target1, "EXT.SetPointsPlusExcessIsRequest", <<>>,
                             <<"set-points in force", alloc1, "excess", x.res.ex, "request", target1>>)
          ELSE Check(~x.hasres, "CONF.ResultWithoutCalls", <<>>, <<"result", x.res>>)
       /\ Check(\A c \in Dom(rec) : rec[c] > 0 => wk1[c], "EXT.CommandOnlyTrackerWorking", <<>>,
                <<"calls", x.calls, "tracker would say working", wk1>>)
       /\ Check(rec = cmd', "CONF.CallsMatchTranscription", <<>>, <<"event", x.ev, x.c, x.kind, x.p, "code", x.calls, "spec", cmd'>>)
       /\ Check(\A c \in Evs : x.alloc[c] # -1 => x.alloc[c] = cs'[c].alloc, "CONF.AllocationMatches", <<>>,
                <<"code", x.alloc, "spec", [c \in Evs |-> cs'[c].alloc]>>)
       /\ g' = [t |-> t1, target |-> target1, known |-> known1, conn |-> conn1, wk |-> wk1, ub |-> ub1, alloc |-> alloc1, lra |-> lra1]
       /\ conf' = conf1
       /\ cnt' = [positive |-> cnt.positive + Cardinality({c \in Dom(rec) : rec[c] > 0}),
                  bounded |-> cnt.bounded + Cardinality(Dom(rec)),
                  zeroedOnDisconnect |-> cnt.zeroedOnDisconnect + B2N(antZero),
                  raisedWithRoom |-> cnt.raisedWithRoom + B2N(antMore),
                  results |-> cnt.results + B2N(x.hasres),
                  partialFailures |-> cnt.partialFailures + B2N(x.hasres /\ x.res.type = "PartialFailure"),
                  timeouts |-> cnt.timeouts + Cardinality({c \in Dom(rec) : x.o[c] = "to"}),
                  requests |-> cnt.requests + B2N(x.ev = "req"),
                  throttles |-> cnt.throttles + B2N(x.ev = "req" /\ x.p < SumOver(LAMBDA c : IF cs[c].known THEN cs[c].pw ELSE 0)),
                  deallocs |-> cnt.deallocs + B2N(x.ev = "req" /\ \E c \in Dom(why') : why'[c] = "dealloc"),
                  devDisc |-> cnt.devDisc + B2N(dDisc), devClamp |-> cnt.devClamp + B2N(dClamp),
                  devOver |-> cnt.devOver + B2N(dOver /\ total1 > target1),
                  extNotWorking |-> cnt.extNotWorking + Cardinality({c \in Dom(rec) : rec[c] > 0 /\ ~wk1[c]}),
                  extNotConserved |-> cnt.extNotConserved + B2N(x.hasres /\ total1 + x.res.ex # target1)]
    /\ l' = l + 1 /\ UNCHANGED tid
    /\ (l' > NL) => Say([tid |-> Tr.id, done |-> TRUE, conforms |-> conf', stats |-> cnt'])

TInit ==
    /\ tid \in 1..Len(TraceLog)
    /\ l = 1
    /\ g = G0 /\ conf = TRUE /\ cnt = Cnt0
    /\ Init

TNext == Consume
=============================================================================
